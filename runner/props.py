import os
"""Per-property configuration of the runner: Lean modules holding the property theorems, how the
implementation output is projected onto what the specification predicts, what counts as a
non-trivial case, and how a failing case is shrunk."""
import re


def _c10_fire(out):
    # "ops ... | fire 0,2" -> "fire 0,2";  rejections and crashes stay as they are
    # layout-level (KAN) lines: the trace is judged by _c10_layout_oracle, which answers ok | fail
    if out.startswith(('@', 'I idle', '- I ')):
        return 'ok'
    return out.split(' | ')[1] if ' | ' in out else out


def _c10_layout_oracle(case, impl):
    """layout-level fork/switch clause on the implementation's trace alone: in the C10 layout family
    key b is (fork 1 2 (lsft rsft)) and key c a switch on (or lsft rsft) with outputs 3 | 4; the keys
    kanata reports down at the OS are the layout's active keys, so whenever 1|2|3|4 is pressed, the
    choice must agree with whether lsft/rsft is down at that moment (ticks at which lsft/rsft itself
    changes are skipped: the order inside one tick is not determined by the statement)"""
    if not case.startswith('KAN '):
        return None
    if impl.startswith(('rej', 'unsupported', 'harness-error')):
        return None
    if impl.startswith('crash'):
        return 'ok'   # the projection of a crash is the crash text: reported as a failure
    down = set()
    toks = impl.split(' ')
    i = 0
    while i < len(toks):
        t = toks[i]
        if t in ('I', 'D'):
            break
        if t.startswith('@'):
            j = i + 1
            evs = []
            while j < len(toks) and not toks[j].startswith('@') and toks[j] not in ('I', 'D'):
                evs.append(toks[j])
                j += 1
            touched = any(re.fullmatch(r'[du](42|54)', e) for e in evs)
            if not touched:
                active = ('42' in down) or ('54' in down)
                for e in evs:
                    if e in ('d2', 'd3', 'd4', 'd5'):
                        right = e in ('d3', 'd4')
                        what = 'fork' if e in ('d2', 'd3') else 'switch'
                        if right != active:
                            return (f'fail {what} at {t[1:]} took the branch for trigger '
                                    f'{"active" if right else "inactive"} while lsft/rsft is '
                                    f'{"down" if active else "up"} at the OS')
            for e in evs:
                m = re.fullmatch(r'([du])(\d+)', e)
                if m:
                    (down.add if m.group(1) == 'd' else down.discard)(m.group(2))
            i = j
            continue
        i += 1
    return 'ok'


def _c10_nontrivial(case, impl):
    if case.startswith('KAN '):
        return impl.count('@') >= 2
    return bool(re.search(r'\b(or|and|not) \d', case)) or bool(re.search(r'\bt[lg] \d+ (2[5-9]\d|[3-9]\d\d|\d{4,})', case))


def _c10_stats(cases, impl):
    import collections
    d = collections.Counter()
    for c, i in zip(cases, impl):
        if c.startswith('KAN '):
            d['layout_level_cases'] += 1
            if re.search(r' d[35]\b', i):
                d['layout_level_trigger_active_branch'] += 1
            if re.search(r' d[24]\b', i):
                d['layout_level_trigger_inactive_branch'] += 1
            continue
        d['rejected_by_parser' if i.startswith('rej') else ('crash' if i.startswith('crash') else 'evaluated')] += 1
        ops = len(re.findall(r'\b(?:or|and|not) \d', c))
        d['operators_0' if ops == 0 else 'operators_1_3' if ops <= 3 else 'operators_4_plus'] += 1
        if re.search(r'\b(or|and|not) 0\b', c):
            d['has_empty_operator'] += 1
        if ' | fire -' in i:
            d['fires_none'] += 1
        elif ' | fire ' in i:
            d['fires_some'] += 1
        for k in ('kh', 'tl', 'tg', 'in', 'ih', 'ly', 'bl'):
            if re.search(r'\b' + k + r' \d', c):
                d['leaf_' + k] += 1
    return dict(d)


def _norm_crash(out):
    # configurations outside the model: the harness still runs the real code and appends its trace for
    # the model-free oracles; the model has no such trace
    out = out.split(' :: TRACE ')[0]
    # a process abort / hang of the real code and the model running out of recursion fuel are the
    # same observation: unbounded recursion
    if out.startswith(('crash abort', 'crash hang')) or 'fuelOut' in out[:40]:
        return 'crash unbounded-recursion'
    if out.startswith('crash panic'):
        return 'crash panic'
    if out.startswith('crash'):
        return 'crash panic'
    return out


def _lay_keys_only(out):
    # implementation trace "@t Kkeys [cp|cr] ... D digest" -> key-list changes only
    if out.startswith(('rej', 'crash', 'unsupported')):
        return out
    items = out.split(' ')
    res = []
    prev = '-'
    i = 0
    while i < len(items):
        it = items[i]
        if it == 'D':
            break
        if it.startswith('@') and i + 1 < len(items):
            k = items[i + 1]
            if k != 'K' + prev:
                res.append(it + ' ' + k)
                prev = k[1:]
            i += 2
            continue
        i += 1
    return ' '.join(res) if res else '-'


def _hex_cfg(case):
    try:
        return bytes.fromhex(case.split()[2]).decode()
    except Exception:
        return ''


def _lay_describe(case):
    t = case.split()
    try:
        return {'config': _hex_cfg(case), 'history': ' '.join(t[3:])}
    except Exception:
        return case


def _lay_shrink(case):
    # drop one history event at a time (keeps the count field right)
    t = case.split()
    try:
        hi = t.index('HIST')
    except ValueError:
        return
    head = t[:hi]
    n = int(t[hi + 1])
    evs = []
    i = hi + 2
    while i < len(t):
        if t[i] in ('p', 'r'):
            evs.append(t[i:i + 3]); i += 3
        elif t[i] == 'fk':
            evs.append(t[i:i + 4]); i += 4
        else:
            evs.append(t[i:i + 2]); i += 2
    for k in range(len(evs)):
        e2 = evs[:k] + evs[k + 1:]
        yield ' '.join(head + ['HIST', str(len(e2))] + [x for e in e2 for x in e])
    for k in range(len(evs)):
        if evs[k][0] == 't' and int(evs[k][1]) > 1:
            e2 = evs[:k] + [['t', str(int(evs[k][1]) // 2)]] + evs[k + 1:]
            yield ' '.join(head + ['HIST', str(len(e2))] + [x for e in e2 for x in e])


def _lay_stats(cases, impl):
    import collections
    d = collections.Counter()
    for c, i in zip(cases, impl):
        d['rejected_by_parser' if i.startswith('rej') else 'crash' if i.startswith('crash') else 'ran'] += 1
        n = int(c.split()[c.split().index('HIST') + 1])
        d['hist_1_5' if n <= 5 else 'hist_6_20' if n <= 20 else 'hist_21_plus'] += 1
        if ' K' in i and i.count('@') >= 2:
            d['output_changed_at_least_twice'] += 1
    return dict(d)


def _lay_props(modules, rule, oracle_pass, nontrivial=None, extra_trusted=None, assumptions=None):
    d = {
        'lean_modules': modules, 'expand': True, 'oracle_pass': oracle_pass,
        'norm_impl': _norm_crash, 'norm_model': _norm_crash,
        'oracle_project': (lambda out: 'ok'),
        'nontrivial': nontrivial or (lambda case, impl: impl.count('@') >= 2),
        'rule': rule, 'stats': _lay_stats, 'describe': _lay_describe, 'shrink_candidates': _lay_shrink,
        'trusted_base': ['Model/Layout.lean as a transcription of keyberon/src/layout.rs (checked differentially per tick incl. a digest of the private state through hook verif_digest)',
                         'the harness serialiser of the parsed configuration (harness/src/ser.rs, lay.rs)'] + (extra_trusted or []),
        'assumptions': assumptions or ['OS output is taken as the key-code list of the layout per tick (the kanata diffing layer is modelled separately)'],
        'determined': _lay_keyseq, 'determined_what': 'the order in which the key list sent to the OS changes, tick numbers aside',
    }
    return d


def _crash_or_ok(out):
    return 'fail crash: ' + out if out.startswith('crash') else 'ok'


def _lay_keyseq(case, out):
    """layout level: the order in which the OS key list changes, without tick numbers"""
    if out.startswith(('rej', 'crash', 'unsupported')):
        return out.split(' ')[0]
    return ' '.join(x.split(' ', 1)[1] for x in re.findall(r'@\d+ K\S+', _lay_keys_only(out))) or '-'


def _kan_evseq(case, out):
    """kanata level: the OS events in order (keys, buttons, scroll, unicode), without virtual times;
    repeat items keep their place ('R' + what was emitted)"""
    if out.startswith(('rej', 'crash', 'unsupported')):
        return out.split(' ')[0]
    main = out.split(' || ')[0]
    res = []
    for tok in main.split(' '):
        if tok in ('I', 'D'):
            break
        if tok.startswith('@'):
            if tok.endswith('R'):
                res.append('R')
            continue
        if tok.startswith('#'):
            continue
        res.append(tok)
    return ' '.join(res) or '-'


def _kan_final(case, out):
    """kanata level: what is left down at the OS at the end, and the idle flag"""
    if out.startswith(('rej', 'crash', 'unsupported')):
        return out.split(' ')[0]
    down = []
    for tok in _kan_evseq(case, out).split(' '):
        if tok.startswith('bd'):
            k = 'btn' + tok[2:]
            if k not in down:
                down.append(k)
        elif tok.startswith('bu'):
            down = [x for x in down if x != 'btn' + tok[2:]]
        elif re.fullmatch(r'd\d+', tok):
            if tok[1:] not in down:
                down.append(tok[1:])
        elif re.fullmatch(r'u\d+', tok):
            down = [x for x in down if x != tok[1:]]
    m = re.search(r' I idle=(\d)', ' ' + out.split(' || ')[0])
    return 'down=' + ','.join(sorted(down)) + ' idle=' + (m.group(1) if m else '?')


def _kan_repeats(case, out):
    """kanata level: what each OS repeat event produced, in order"""
    if out.startswith(('rej', 'crash', 'unsupported')):
        return out.split(' ')[0]
    toks = _kan_evseq(case, out).split(' ')
    res = []
    for i, t in enumerate(toks):
        if t == 'R':
            res.append('R:' + (toks[i + 1] if i + 1 < len(toks) and toks[i + 1] != 'R' else '-'))
    return ' '.join(res) or '-'


def _kan_props(modules, rule, oracle_pass=None, oracle_project=None, nontrivial=None):
    d = _lay_props(modules, rule, oracle_pass, nontrivial)
    d['determined'] = _kan_evseq
    d['determined_what'] = 'the order of the events sent to the OS, virtual times aside'
    if oracle_project:
        d['oracle_project'] = oracle_project
    d['trusted_base'] = d['trusted_base'] + ['Model/Kanata.lean as a transcription of src/kanata/mod.rs, key_repeat.rs, caps_word.rs, output_logic.rs (checked differentially on OS events with virtual-time stamps, the idle flag and the layout digest)']
    d['assumptions'] = ['configurations using dynamic macros, zippychord, chords v2, live reload, cmd/clipboard/delay actions are outside the kanata-level model (overrides are inside it since the table is serialised; sequence mode is inside it since the defseq table and options are serialised: Model/KanataSeq.lean) (answered unsupported, counted in the distribution)',
                        'mouse-move distances (floating point) are not modelled: move events carry the direction only']
    return d


PROPS = {
    'C02': _kan_props(['KVerif.Props.C02', 'KVerif.Props.C02frag', 'KVerif.Props.C02full'],
        'hand-written capacity-edge shapes (11-14 held layers, 18 stacked one-shot layers, repeat re-entering its container, 11 concurrent tap-holds + queue flood, every valid key code once, two waiting actions in a row with timeouts 40000/65535 held to and past their deadlines [u16-delay], chords v2 with 15/16/17/20/32 participants pressed one per tick or as a burst [chv2-wide]) plus random whole-grammar configurations (incl. custom actions) driven by histories that are not physically consistent (repeated presses, stray releases, repeat and tap events, unmapped codes, floods of 70-200 events); non-trivial = output changed at least twice; oracle: every configuration the real parser accepts must satisfy CfgWF (evaluated by the driver on the serialised parse result) and must be processed without panic/abort/hang',
        None, _crash_or_ok),
    'C01': _kan_props(['KVerif.Props.C01', 'KVerif.Props.C01q2', 'KVerif.Props.C01union'],
        'non-latching whole-grammar configurations (layers, tap-hold variants, tap-dance, one-shot variants, chords v1, macros, fork/switch, multi, release-key/layer, unmod, mouse wheel/move, virtual keys operated by tap/release only, hold-for-duration, on-idle) and balanced histories - every pressed key is released, incl. bursts of 40-120 events overflowing the 32-slot queue - followed by 3000 quiet ticks; plus 20 keys pressed at once with 12-key multis (> 64 states), tap-holds (> 8), one-shot layers (> 16), macros (> 4) and tap-dances; non-trivial = output changed at least twice; oracle on the real trace: nothing down at the OS at the end, nothing emitted during the last 500 ms, kanata reports idle',
        'C01o'),
    'C07': _kan_props(['KVerif.Props.C07', 'KVerif.Props.C07reach', 'KVerif.Props.C07src', 'KVerif.Props.C07reach2', 'KVerif.Props.C07bisim'],
        'every kind of timeout pending when the loop asks whether it may block (tap-hold, one-shot incl. rapid-event-delay 0, tap-dance lazy/eager, chords, macros incl. repeat, caps-word, hold-for-duration, on-idle, mouse wheel/move, two tap-holds from one switch, key-timing switch conditions) with input gaps around each timeout, plus random whole-grammar configurations; every case is run twice on the real code in virtual time: under the processing loop that blocks whenever can_block_update_idle_waiting allows, and under the same loop that asks the same question but always ticks; non-trivial = output changed at least twice; oracle: both runs must emit the same OS events at the same virtual times (classified different-output / postponed / bounded-delay otherwise, with the model-side diagnosis of which component a tick would still change at the blocking point)',
        'C07o'),
    'C18': _kan_props(['KVerif.Props.C18', 'KVerif.Props.C18multi'],
        'virtual keys with marker outputs (also a layer, a macro, a one-shot, a tap-hold as virtual key action) operated by on-press/on-release fake-key actions (press, release, tap, toggle), direct handle_fakekey_action calls, hold-for-duration with durations {1,2,3,5,10,50} x re-activation gaps {0,1,D-1,D,D+1,D+5} x 1-3 activations, on-idle actions under the virtual-time processing loop with idle durations {5,20,100} and typing that restarts the idle clock, plus random unsettled mixes; non-trivial = output changed at least twice; oracle on the implementation trace: settled operation sequences leave the virtual key held/up as press/release/tap/toggle prescribe, hold-for-duration releases no earlier than D after an activation and ends released, on-idle fires exactly once, not before D ms of idleness',
        'C18o'),
    'C14': _kan_props(['KVerif.Props.C14', 'KVerif.Props.C14link'],
        'simple single-layer configurations (plain keys, output chords, multi, use-defsrc, reserved no-op keys; one in four with global overrides, whose table the harness reads from the configuration text) and whole-grammar configurations on 1-4 layers (tap-hold, tap-dance, one-shot, fork, switch, chords v1, unmod/unshift, virtual keys), keys held while OS repeat events are injected after any event; the key-output table recomputed by the model from the serialised actions is compared with the table the real parser built; non-trivial = a repeat event was injected while a key was down and the output changed at least twice; oracle on the implementation trace: at most one event per repeat, only for a key that is down at the OS, and on simple configurations a repeat for the last-listed output that is down',
        'C14o', None, lambda case, impl: ' rp ' in case and impl.count('@') >= 2),
    'C05': _lay_props(['KVerif.Props.C05', 'KVerif.Props.C05multi'],
        'lone tap-hold key: 7 variants x T in {2,5,200} x concurrent on/off x tap-repress window {0,3} x hold durations {0,1,T-2..T+2}; exhaustive physically consistent schedules (<= N events) over the tap-hold key and two plain keys with gaps {0,1,T-1,T,T+1}; random interleavings of two tap-hold keys with plain keys incl. bursts; non-trivial = output changed at least twice; distinct = distinct case line. Oracle on the implementation trace: exactly one tap/hold/timeout marker effect per press, decision kind and tick for a lone key (closed form), plain keys output in press order; [t8] oracle clause O4 on the implementation trace: a press of a tap-hold key (any variant) that is released at least 2 ticks inside its hold timeout with no key pressed between its press and its release must resolve to the tap action, whatever was pending before it and whatever is queued after its release (the i-th tap/hold/timeout effect of a key is the one of its i-th press)',
        'C05o'),
    'C17': _lay_props(['KVerif.Props.C17'],
        'one tap-dance key (lists of 1-4 marker keys; a layer-while-held at any position; a tap-hold at the last position; the empty list, which the parser must reject), lazy and eager, T in {3,10,200}, rapid-event-delay 0 / 2 / default, and one plain key that has another code on the layer the dance can hold: exhaustive physically consistent schedules (<= N events) over the two keys with gaps {0,1,T-1,T,T+1} (beyond N_full events: gaps {1,T-1,T}), plus random longer schedules incl. bursts > 32 events; non-trivial = output changed at least twice; distinct = distinct case line. Oracle on the implementation trace: a reference machine written from the statement (deadline = T ticks after the last counted tap was seen; ends at the deadline, on another key\'s press, or when the list is exhausted; the N-th action pressed once and held until the release of the last counted tap; uncounted events stay queued in order; eager: each press performs the next action) must reproduce the whole trace (which keys are down after every tick), so: exactly one marker per lazy dance and the right one, one per tap when eager, the interrupting key after the chosen action (on the held layer if the action is a layer)',
        'C17o'),
    'C04': {
        'lean_modules': ['KVerif.Props.C04'],
        'expand': True,
        'oracle_project': _lay_keys_only,
        'nontrivial': lambda case, impl: impl.count('@') >= 2,
        'rule': 'exhaustive physically consistent histories (<= N events over 3 keys, gaps {0,1,2}) on 8 fixed layered configs, plus random configs from the C04 fragment (1-4 layers, 2-6 keys, all option combinations) with random histories incl. bursts > 32 events and a few impossible events; non-trivial = the output key list changed at least twice; distinct = distinct case line',
        'stats': _lay_stats,
        'describe': _lay_describe,
        'shrink_candidates': _lay_shrink,
        'trusted_base': ['Model/Layout.lean as a transcription of keyberon/src/layout.rs (checked differentially per tick incl. a digest of the private state through hook verif_digest)',
                         'the harness serialiser of the parsed configuration (harness/src/ser.rs, lay.rs)'],
        'assumptions': ['OS output is taken as the key-code list of the layout per tick (the kanata diffing layer is modelled in Model/Kanata.lean and checked by C01/C14)'],
    },
    'C10': {
        'lean_modules': ['KVerif.Props.C10'],
        'oracle_project': _c10_fire,
        'expand': True,
        'free_oracle': _c10_layout_oracle,
        'nontrivial': _c10_nontrivial,
        'rule': 'exhaustive key-match lists up to a node bound over key leaves x all truth assignments, random lists over all leaf kinds (depth up to 8 and beyond, empty operators, 1-9 cases with break/fallthrough), and key-timing thresholds around every compression boundary; non-trivial = contains an operator or a threshold in a lossy range; distinct = distinct case line',
        'stats': _c10_stats,
        'trusted_base': ['model of keyberon/src/action/switch.rs and parser/src/cfg/switch.rs (Model/Switch.lean), tied by correspondence on opcodes and firing cases',
                         'str_to_oscode and the rest of the config parser around the switch compiler (exercised, not modelled)'],
        'assumptions': ['leaf tests are read from the layout state as Switch::actions receives them; how layout.rs builds those iterators is covered by the layout model, not here'],
    },
}

# observables the statement of each property determines (used to turn a model/implementation
# disagreement into a concrete failing input; see check: 'determined')
def _c04_observable(case, out):
    m = re.search(r' TBL=(\S+)', out)
    o = re.search(r' OS=(\S+)', out)   # emission step on the real Kanata (harness/src/c04.rs)
    return _lay_keyseq(case, out) + ' table=' + (m.group(1) if m else '-') + ' os=' + (o.group(1) if o else '-')


PROPS['C04']['determined'] = _c04_observable
PROPS['C04']['determined_what'] = 'the order in which the key list sent to the OS changes, whether the layer table the parser built is the one the configuration spells out, and whether the OS key events of the real Kanata are the de-duplicated diff of consecutive key lists'
def _c04_project(out):
    """what the specification's key-list trace is compared with: the key-list changes of the real layout,
    plus the verdict of the emission step on the real Kanata when it is not `ok` (the statement's OS
    events are the de-duplicated diff of consecutive key lists, so any other verdict is a failure)"""
    o = re.search(r' OS=(\S+)', out)
    keys = _lay_keys_only(out)
    return keys if (not o or o.group(1) == 'ok') else keys + ' OS=' + o.group(1)


PROPS['C04']['oracle_project'] = _c04_project
# MAXHELD=<n> is a diagnosis of the harness for the known-finding matcher only (check: match_known sees the raw output)
PROPS['C04']['norm_impl'] = lambda s: re.sub(r' MAXHELD=\d+', '', _norm_crash(s))
PROPS['C04']['norm_model'] = _norm_crash
def _cfg_text(case):
    t = case.split(' ', 3)
    try:
        return bytes.fromhex(t[2]).decode()
    except Exception:
        return ''


def _c14_free_oracle(case, impl):
    """repeat clause on the implementation's trace alone (configurations outside the kanata-level
    model, e.g. sequence mode): at most one event per OS repeat, and only for a key that is down"""
    if ' :: TRACE ' not in impl:
        return None
    down = set()
    toks = impl.split(' :: TRACE ')[1].split(' ')
    # crafted families say which output a repeat of a physical key stands for:
    # `;; repeat-expect <physical key> <output key>` in the configuration text
    expect = {}
    for m in re.finditer(r';; repeat-expect (\d+) (\d+)', _cfg_text(case)):
        expect.setdefault(m.group(1), set()).add(m.group(2))
    rep_keys = re.findall(r' rp (\d+)', case.split(' HIST ')[1]) if ' HIST ' in case else []
    rep_i = 0
    i = 0
    while i < len(toks):
        t = toks[i]
        if t in ('I', 'D'):
            break
        if t.startswith('@'):
            is_rep = t.endswith('R')
            j = i + 1
            evs = []
            while j < len(toks) and not toks[j].startswith('@') and toks[j] not in ('I', 'D'):
                evs.append(toks[j])
                j += 1
            if is_rep:
                em = [e for e in evs if e != '-']
                pk = rep_keys[rep_i] if rep_i < len(rep_keys) else None
                rep_i += 1
                want = sorted(o for o in expect.get(pk, ()) if o in down)
                if want and not em:
                    return (f'fail repeat at {t[1:-1]} of key {pk} dropped although its output '
                            f'{",".join(want)} is down at the OS')
                if len(em) > 1:
                    return f'fail repeat at {t[1:-1]} emitted {len(em)} events'
                for e in em:
                    m = re.fullmatch(r'd(\d+)', e)
                    if not m:
                        return f'fail repeat at {t[1:-1]} emitted {e}'
                    if m.group(1) not in down:
                        return f'fail repeat at {t[1:-1]} forwarded for key {m.group(1)} which is up at the OS'
            else:
                for e in evs:
                    m = re.fullmatch(r'([du])(\d+)', e)
                    if m:
                        (down.add if m.group(1) == 'd' else down.discard)(m.group(2))
            i = j
            continue
        i += 1
    return 'ok'


PROPS['C14']['free_oracle'] = _c14_free_oracle


def _c14_post_oracle(case, impl, spec):
    """configurations INSIDE the kanata-level model whose text carries `;; repeat-expect` lines (the
    many-held-layers family): the completeness clause of the model-free oracle on the main trace"""
    if spec != 'ok' or ';; repeat-expect' not in _cfg_text(case) or impl.startswith(('rej', 'crash', 'unsupported')):
        return spec
    v = _c14_free_oracle(case, 'x :: TRACE ' + impl.split(' || ')[0])
    return v if v and v.startswith('fail') else spec


PROPS['C14']['post_oracle'] = _c14_post_oracle
# C02 outside the model: the history must simply be processed (a panic is caught by the harness and
# shows as `crash ...`, which the projection turns into a failure)
PROPS['C02']['free_oracle'] = lambda case, impl: 'ok' if (' :: TRACE ' in impl or impl.startswith('crash')) else None
PROPS['C02']['determined'] = lambda case, out: 'crash' if out.startswith('crash') else ('rej' if out.startswith('rej') else 'runs')
PROPS['C02']['determined_what'] = 'whether event processing crashes or hangs'
PROPS['C01']['determined'] = _kan_final
PROPS['C01']['determined_what'] = 'what is left down at the OS after the quiet tail, and whether kanata reports idle'
# the property compares two runs of the implementation; the paired-run oracle decides. For
# configurations outside the kanata-level model the harness compares the two runs itself (PAIR)
PROPS['C07']['determined'] = lambda case, out: (out.split(' :: PAIR ')[1].split('@')[0] if ' :: PAIR ' in out else None)
PROPS['C07']['determined_what'] = 'whether the blocking loop and the always-ticking loop emit the same OS events at the same times (configurations outside the kanata-level model: decided on the real code alone)'
PROPS['C14']['determined'] = _kan_repeats
PROPS['C14']['determined_what'] = 'what each OS repeat event produced'


# ----------------------------------------------------------------------------- C13 (global overrides)
_C13_NAMES = {29: 'lctl', 42: 'lsft', 56: 'lalt', 125: 'lmet', 97: 'rctl', 54: 'rsft', 100: 'ralt', 126: 'rmet',
              30: 'a', 48: 'b', 46: 'c', 32: 'd', 2: '1', 3: '2', 10: '9', 57: 'spc'}


def _c13_parse(case):
    """case line -> dict(mode, roa, table [(ins, outs)], ks, carry, hist [(kind, n)])"""
    t = case.split()
    i = [2]

    def tok():
        i[0] += 1
        return t[i[0] - 1]

    def lst():
        n = int(tok())
        return [int(tok()) for _ in range(n)]

    d = {'mode': t[1], 'roa': None, 'ks': None, 'carry': None, 'hist': None}
    if d['mode'] in ('P', 'PM'):
        assert tok() == 'R'
        d['roa'] = int(tok())
    assert tok() == 'T'
    n = int(tok())
    tbl = []
    for _ in range(n):
        assert tok() == 'I'
        a = lst()
        assert tok() == 'O'
        tbl.append((a, lst()))
    d['table'] = tbl
    if d['mode'] in ('L', 'LM'):
        assert tok() == 'K'
        d['ks'] = lst()
        assert tok() == 'C'
        d['carry'] = lst()
    else:
        assert tok() == 'H'
        n = int(tok())
        d['hist'] = [(tok(), int(tok())) for _ in range(n)]
    return d


def _c13_unparse(d):
    def lst(l):
        return ' '.join([str(len(l))] + [str(x) for x in l])
    out = ['C13', d['mode']]
    if d['roa'] is not None:
        out += ['R', str(d['roa'])]
    out += ['T', str(len(d['table']))]
    for a, b in d['table']:
        out += ['I', lst(a), 'O', lst(b)]
    if d['ks'] is not None:
        out += ['K', lst(d['ks']), 'C', lst(d['carry'])]
    else:
        out += ['H', str(len(d['hist']))] + [f'{k} {n}' for k, n in d['hist']]
    return ' '.join(out)


def _c13_shrink(case):
    try:
        d = _c13_parse(case)
    except Exception:
        return
    for j in range(len(d['table'])):
        yield _c13_unparse(dict(d, table=d['table'][:j] + d['table'][j + 1:]))
    for j, (a, b) in enumerate(d['table']):
        for side, l in ((0, a), (1, b)):
            for x in range(len(l)):
                l2 = l[:x] + l[x + 1:]
                row = (l2, b) if side == 0 else (a, l2)
                yield _c13_unparse(dict(d, table=d['table'][:j] + [row] + d['table'][j + 1:]))
    if d['ks'] is not None:
        if d['carry']:
            yield _c13_unparse(dict(d, carry=[]))
        for j in range(len(d['ks'])):
            yield _c13_unparse(dict(d, ks=d['ks'][:j] + d['ks'][j + 1:]))
    else:
        h = d['hist']
        for j in range(len(h)):
            yield _c13_unparse(dict(d, hist=h[:j] + h[j + 1:]))
        for j, (k, n) in enumerate(h):
            if k == 't' and n > 1:
                yield _c13_unparse(dict(d, hist=h[:j] + [(k, 1 if n > 9 else n - 1)] + h[j + 1:]))


def _c13_describe(case):
    try:
        d = _c13_parse(case)
    except Exception:
        return case
    nm = lambda l: ' '.join(_C13_NAMES.get(x, str(x)) for x in l)
    txt = '(defoverrides ' + ' '.join(f'({nm(a)}) ({nm(b)})' for a, b in d['table']) + ')'
    if d['ks'] is not None:
        return f'{txt}; Overrides::override_keys on the key list [{nm(d["ks"])}] (a second OverrideStates first used on [{nm(d["carry"])}])'
    sim = ' '.join({'p': 'd:', 'r': 'u:', 't': 't:'}[k] + (_C13_NAMES.get(n, str(n)) if k != 't' else str(n)) for k, n in d['hist'])
    return f'(defcfg override-release-on-activation {"yes" if d["roa"] else "no"}) (defsrc) (deflayer base) {txt}; simulated input: {sim}'


def _c13_project(out):
    """what the OS sees: the set of held keys (list cases) / after every tick (pipeline cases)"""
    if out.startswith('keys '):
        ks = out.split()[1]
        s = sorted(set(int(x) for x in ks.split(','))) if ks != '-' else []
        return 'held ' + (','.join(map(str, s)) if s else '-')
    if out.startswith('@'):
        recs = [r.split() for r in out.split(' | ') if r.startswith('@')]
        return ' | '.join(r[0] + ' ' + r[-1] for r in recs)
    return out


def _c13_nontrivial(case, impl):
    # an override actually fired: something was marked for removal
    if impl.startswith('keys '):
        return ' rm - ' not in impl.split(' | ')[0] + ' '
    return bool(re.search(r' r:\d', impl))


def _c13_stats(cases, impl):
    import collections
    d = collections.Counter()
    for c, i in zip(cases, impl):
        mode = c.split()[1]
        d['mode_' + mode] += 1
        if i.startswith('rej'):
            d['rejected_by_parser_' + i.split()[1]] += 1
            continue
        if i.startswith('crash'):
            d['crash'] += 1
            continue
        d['override_fired' if _c13_nontrivial(c, i) else 'no_override_fired'] += 1
        if i.endswith('late=1'):
            d['modifier_after_its_key'] += 1
        if mode in ('L', 'LM'):
            n = int(re.search(r' K (\d+)', c).group(1))
            d['list_len_0_2' if n <= 2 else 'list_len_3_4' if n <= 4 else 'list_len_5_plus'] += 1
            nt = int(re.search(r' T (\d+)', c).group(1))
            d['table_1' if nt == 1 else 'table_0' if nt == 0 else 'table_2_plus'] += 1
        else:
            d['roa_on' if ' R 1 ' in c else 'roa_off'] += 1
            if re.search(r'\.3\b', i):
                d['eager_erasure_marked'] += 1
    return dict(d)


PROPS['C13'] = {
    'lean_modules': ['KVerif.Props.C13'],
    'oracle_project': _c13_project,
    'nontrivial': _c13_nontrivial,
    'shrink_candidates': _c13_shrink,
    'describe': _c13_describe,
    'per_case_timeout': 0.5,
    'rule': 'list cases (L): table parsed by the real parser from generated (defoverrides ...) text, Overrides::override_keys on a key list with a fresh and a carried-over OverrideStates: every subset of the 8 modifiers as input and as output modifiers; for each of a set of generated tables (1-5 overrides, shared keys, nested and equally long modifier sets, duplicates) every list of length <= 4 without repetition over the table keys plus outsiders in every order and every list with repetitions up to length 3; random longer lists; refused tables; empty table.  pipeline cases (P): random press/release histories (consistent and inconsistent) through Kanata::handle_input_event/tick_ms with override-release-on-activation on/off, compared tick by tick (OS events, prev_keys, removed keys, layout states with flags, OS-held set).  LM/PM = the same inputs compared with the model only.  non-trivial = an override fired; distinct = distinct case line',
    'stats': _c13_stats,
    'trusted_base': ['Model/Override.lean as a transcription of key_override.rs and of the plain-key slice of handle_keystate_changes / Layout::tick (checked differentially, state level, not proved)',
                     'gen/g_override.py (modifier tables, flag constants and capacities regenerated from source)',
                     'the rest of the config parser around parse_overrides, the simulated output sink (exercised, not modelled)'],
    'assumptions': ['KeyCode<->OsCode conversion preserves key identity (C11)',
                    'pipeline model: every key mapped to itself ((defsrc) (deflayer base)), no other action kinds, so layout.states holds NormalKey states only; unmod/unshift, caps-word and sequences are inactive',
                    'the statement is silent (no oracle) where two equally long matching overrides of a key have different effects or a modifier is written twice in an input list'],
}


# ----------------------------------------------------------------------------- C19
def _c19_canon_items(txt):
    """trailing zero-delay releases sorted by key (they come from a hash set)"""
    if txt in ('', '-'):
        return '-'
    items = txt.split(',')
    k = len(items)
    while k > 0 and re.fullmatch(r'R\d+\.0', items[k - 1]):
        k -= 1
    tail = sorted(items[k:], key=lambda x: int(x[1:].split('.')[0]))
    return ','.join(items[:k] + tail)


def _c19_project(out):
    # (KAN lines - the composed kanata-level model - have no separate specification output: `-`)
    if out.startswith('U '):
        st = out.split(' # st ')[1]
        if st == '-':
            return 'st -'
        parts = []
        for ent in st.split(';'):
            i, _, rest = ent.partition('=[')
            parts.append(f'{i}=[{_c19_canon_items(rest[:-1])}]')
        return 'st ' + ';'.join(parts)
    if out.startswith('K '):
        return 'V ' + out.split(' # V ')[1]
    if out == 'L':
        # L lines (model-free): judged by _c19_free_oracle on the implementation's own output
        return 'ok'
    return out


# ---- C19 L lines (t2): dynamic-macro actions that fire late; no model, oracle on the real run
def _c19_norm_impl(out):
    return 'L' if out.startswith('L ') else out


def _c19_free_oracle(case, impl):
    """L lines: (1) after the last input the replay activity ends (a macro that keeps being
    restarted by its own events replays itself recursively), (2) nothing stays down, (3) no event of
    a stop key is in a stored macro (the generator taps the stop key only to stop a recording)"""
    if not case.startswith('C19 L ') or not impl.startswith('L '):
        return None
    m = re.search(r' # V rest=(\d) starts=(\d+) clean=(\d)$', impl)
    if not m:
        return 'fail unreadable verdict'
    if m.group(1) != '1':
        return f'fail the replay keeps being restarted by its own events ({m.group(2)} replay starts, still active or typing 1.5 s after the last input): the macro replays itself recursively'
    if m.group(3) != '1':
        return 'fail a key is still down at the OS after the replay'
    t = case.split()
    stops = t[4:4 + int(t[3])]
    st = impl.split(' # st ')[1].split(' # V ')[0]
    for o in stops:
        if re.search(r'[PR]' + o + r'\.', st):
            return f'fail an event of the stop key {o} is in the stored macro: {st}'
    return 'ok'
# ---- end C19 L lines


def _c19_nontrivial(case, impl):
    if impl.startswith('L '):
        return ' # st -' not in impl
    if case.startswith('KAN '):
        # a macro was stored and the run produced OS output
        return ' st=' in impl and ' st=-' not in impl and impl.count('@') >= 2
    # something was stored, or a replay fed at least one event
    return (' # st -' not in impl and ' # st ' in impl) or bool(re.search(r'\be[+-]\d', impl))


def _c19_stats(cases, impl):
    import collections
    d = collections.Counter()
    for c, i in zip(cases, impl):
        t = c.split()
        if t[1] == 'L':
            d['late_action_e2e'] += 1
            m = re.search(r'rest=(\d) starts=(\d+)', i)
            if m:
                d['late_rest_' + m.group(1)] += 1
                d['late_replay_started' if m.group(2) != '0' else 'late_no_replay'] += 1
            continue
        if t[0] == 'KAN':
            # composed kanata-level model (Model/Kanata.lean + KanataDyn + KanataDynTick)
            d['kanata_composed'] += 1
            d['kanata_composed_' + i.split(' ')[0].split('=')[0] if i.startswith(('rej', 'crash', 'unsupported')) else 'kanata_composed_modelled'] += 1
            if ' st=' in i and ' st=-' not in i:
                d['kanata_composed_saved_a_macro'] += 1
            if ' gap ' in c:
                d['kanata_composed_processing_loop'] += 1
            if re.search(r' rep=\d', i):
                d['kanata_composed_replay_active_at_end'] += 1
            if re.search(r' rec=\d', i):
                d['kanata_composed_recording_at_end'] += 1
            continue
        fam = 'unit_ops' if t[1] == 'U' else 'kanata_e2e'
        d[fam] += 1
        d['behaviour_' + ('constant' if t[2] == '0' else 'recorded')] += 1
        if i.startswith('crash'):
            d['crash'] += 1
            continue
        if i.startswith('hang') or i.startswith('harness-error'):
            d[i.split()[0]] += 1
            continue
        if fam == 'unit_ops':
            n = int(t[4])
            d['unit_ops_len_le3' if n <= 3 else 'unit_ops_len_4_30' if n <= 30 else 'unit_ops_len_gt30'] += 1
            if re.search(r'\bS\d', i.split(' # ')[0]):
                d['unit_saved_a_macro'] += 1
            if re.search(r'\be[+-]\d', i):
                d['unit_replay_fed_events'] += 1
            if re.search(r' # rep [\d,]*;\d+;[^#]*E\d', i):
                d['unit_nested_replay_pending'] += 1
        else:
            m = re.search(r'same=(\w+) clean=(\d)', i)
            d['e2e_same_' + m.group(1)] += 1
            d['e2e_clean_' + m.group(2)] += 1
            if i.startswith('K ~'):
                d['e2e_time_sensitive_cfg'] += 1
                if m.group(1) == '1':
                    d['e2e_time_sensitive_same_1'] += 1
            if re.search(r';S\d+=\[', i):
                d['e2e_saved_a_macro'] += 1
            if re.search(r';q[\d.]+:\d+:\d+', i):
                d['e2e_replay_active_seen'] += 1
            if re.search(r';q\d+\.\d', i):
                d['e2e_nested_replay_seen'] += 1
            if ' h ' in c:
                d['e2e_two_or_more_keys_left_down_at_save'] += 1
            if re.search(r' s [1-9]\d* ', c.split(' d ')[0]):
                d['e2e_cfg_has_truncating_stop'] += 1
            if int(t[3]) < 128:
                d['e2e_small_max_presses'] += 1
    return dict(d)


def _c19_shrink(case):
    """drop one op/step at a time (hints and markers stay attached to what follows them)"""
    t = case.split()
    if t[1] == 'L':
        ns = int(t[3]); i = 5 + ns
        head, steps = t[:4 + ns], []
        while i < len(t):
            steps.append(t[i:i + 2]); i += 2
        for j in range(len(steps)):
            rest = steps[:j] + steps[j + 1:]
            yield ' '.join(head + [str(len(rest))] + [x for o in rest for x in o])
        return
    if t[0] == 'KAN':
        yield from _lay_shrink(case)
        return
    if t[1] == 'U':
        ops, i = [], 5
        while i < len(t):
            if t[i] in ('b', 'p', 's'):
                k = int(t[i + 2]); ops.append(t[i:i + 3 + k]); i += 3 + k
            elif t[i] in ('r', 'y'):
                ops.append(t[i:i + 2]); i += 2
            else:
                ops.append(t[i:i + 1]); i += 1
        for j in range(len(ops)):
            rest = ops[:j] + ops[j + 1:]
            yield ' '.join(t[:4] + [str(len(rest))] + [x for o in rest for x in o])
        return
    # K: find the step list (after the key definitions)
    nk = int(t[4]); i = 5
    for _ in range(nk):
        na = int(t[i + 5]); i += 6 + 2 * na
    head, steps, i = t[:i], [], i + 1
    while i < len(t):
        if t[i] in ('d', 'u', 't', 'w'):
            steps.append(t[i:i + 2]); i += 2
        elif t[i] == 'h':
            k = int(t[i + 1]); steps.append(t[i:i + 2 + k]); i += 2 + k
        else:
            steps.append(t[i:i + 1]); i += 1
    for j in range(len(steps)):
        if steps[j][0] in ('m',):
            continue
        rest = steps[:j] + steps[j + 1:]
        yield ' '.join(head + [str(len(rest))] + [x for o in rest for x in o])


def _c19_describe(case):
    t = case.split()
    if t[1] == 'L':
        ns = int(t[3])
        return {'config': bytes.fromhex(t[2]).decode(), 'stop_keys': t[4:4 + ns],
                'steps': 'd/u = press/release of the key code, t n = n calls of tick_ms(1), w n = wait for the replay to end then n ticks; at the end all keys are released and 3000 ticks run: ' + ' '.join(t[5 + ns:])}
    if t[0] == 'KAN':
        return ('real Kanata against the composed kanata-level model (configuration text hex-encoded; history p/r = press/release, '
                't n = n x tick_ms(1), gap n = n ms of the processing loop): ' + str(_lay_describe(case)))
    if t[1] == 'U':
        return ('direct calls of the dynamic_macro.rs functions (b=begin_record_macro id, p=record_press osc, '
                'r=record_release osc, s=stop_macro n, y=play_macro id, t=tick_record_state, x=tick_replay_state); '
                f'replay-delay-behaviour={"constant" if t[2] == "0" else "recorded"}, dynamic-macro-max-presses={t[3]}: '
                + ' '.join(t[5:]))
    return ('real Kanata on a one-layer config (keydef = osc kind a1 a2 a3 nacts acts; kind 1 = plain key a1, '
            '2 = tap-hold a3 a3 a1 a2, acts b/s/y = dynamic-macro-record/-stop(-truncate)/-play), steps d/u = press/release, '
            f't n = tick_ms(n), w n = wait for the replay to end then n ticks, m = marker; behaviour={"constant" if t[2] == "0" else "recorded"}, '
            f'max-presses={t[3]}: ' + ' '.join(t[4:]))


PROPS['C19'] = {
    'lean_modules': ['KVerif.Props.C19', 'KVerif.Props.C19kan', 'KVerif.Props.C19out'],
    'oracle_project': _c19_project,
    'nontrivial': _c19_nontrivial,
    'rule': 'unit level: every sequence of up to 3 (thorough: 5) calls over a 12-call alphabet, random sequences of 4-120 calls and structured record-then-replay sessions (nested plays, self-recursion attempts) of the dynamic_macro.rs functions (limits 0,1,2,3,5,128; both delay behaviours); end to end on the real Kanata: record/type/stop/replay scenarios with markers (keys held across start and stop, truncation 0-3 and beyond, limit exceeded, nested play, replay twice, typing during replay; plain-key and tap-hold configurations), random histories over plain, record, play, stop and multi keys including physically inconsistent ones, tick_ms with ms_elapsed of 65535..140000 during a replay with recorded delays of up to 65535, and three crash-shaped histories (two multi keys, one with plain keys only); non-trivial = a macro was stored or a replay fed an event; distinct = distinct case line',
    'stats': _c19_stats,
    'shrink_candidates': _c19_shrink,
    'describe': _c19_describe,
    'per_case_timeout': 1.0,
    'trusted_base': ['Model/DynMacro.lean as a transcription of src/kanata/dynamic_macro.rs and of handle_input_event / tick_states / tick_ms / the DynamicMacro* custom-action arms in src/kanata/mod.rs (checked differentially at function level and end to end, not proved)',
                     'the one-layer layout model `Flat` (event queue, states, key diff) stands in for keyberon in the end-to-end cases; theorems about the glue hold for any layout (LayoutI)',
                     'hash-set iteration order is supplied to the model as a hint taken from the real run and validated by the model (it must be a permutation of the set); theorems hold for every hint',
                     'hook: read-only digests of the record/replay state and a re-export of the module (cfg jtroo_kanata_verif)'],
    'assumptions': ['tick_ms is called with ms_elapsed < 65536 (the cast `ms_elapsed as u16` wraps beyond that; see extra_loop_overshoot_counterexample)',
                    'the check runs green only with the proposed fix applied (macro_items.pop() instead of remove(len() - 1)); on the pinned code the crash cases are reported as violations',
                    'time-sensitive mappings: the same-output clause is checked on the real code only (recorded delays, no truncation, tap-holds resolved before stop, play key held during the replay); it is not a theorem'],
}

# ----------------------------------------------------------------------------- C12 (sequences)
def _c12_summary(trace, final):
    """OS trace of an R case -> what the specification speaks about: virtual keys tapped (runs of
    `V<j>` flags over consecutive ticks), keys pressed at the OS other than backspace, number of
    backspaces, whether sequence mode is still on."""
    taps, downs, bs = [], [], 0
    prev_v, cur_v, last_tick, cur_tick = set(), set(), 0, 0

    def close():
        nonlocal prev_v, cur_v
        for j in sorted(cur_v):
            if j not in prev_v:
                taps.append(j)
        prev_v, cur_v = cur_v, set()

    for tok in trace.split():
        if tok == '-':
            continue
        if tok.startswith('@'):
            t = int(tok[1:])
            if cur_tick:
                close()
                if t != cur_tick + 1:
                    prev_v = set()
            cur_tick = t
        elif tok.startswith('d'):
            k = int(tok[1:])
            if k == 14:
                bs += 1
            else:
                downs.append(k)
        elif tok.startswith('V'):
            cur_v.add(int(tok[1:]))
    close()
    csv = lambda l: ','.join(map(str, l)) if l else '-'
    return f'taps={csv(taps)} down={csv(downs)} bs={bs} act={final.split()[0]}'


def _c12_project(out):
    if out.startswith('rej conflict'):
        return 'rej conflict'
    if out.startswith('ok ') and ' | ' in out:
        parts = out.split(' | ')
        if len(parts) == 3:
            return _c12_summary(parts[1], parts[2])
    return out


def _c12_nontrivial(case, impl):
    if case.startswith('KAN '):
        # kanata-level case (composed model): the run sent something to the OS
        return not impl.startswith(('rej', 'unsupported', 'crash')) and '@' in impl
    if case.startswith('C12 Q'):
        return 'V' in impl or 'I' in impl
    if case.startswith('C12 T'):
        return True
    if case.startswith('C12 P'):
        return ' V' in impl
    # an R case counts when sequence mode did something observable: a virtual key fired, or the
    # history ran into a failure/timeout while a table was loaded
    return impl.startswith('ok ') and (' V' in impl or ' d' in impl or ' u' in impl)


def _c12_stats(cases, impl):
    import collections
    d = collections.Counter()
    for c, i in zip(cases, impl):
        if c.startswith('KAN '):
            d['kind_KAN'] += 1
            d['kan_' + ('rejected_by_parser' if i.startswith('rej') else 'crash' if i.startswith('crash') else
                        'unsupported' if i.startswith('unsupported') else 'ran')] += 1
            if ' d14 u14' in i:
                d['kan_backspaced'] += 1
            if ' || STEP ' in i:
                d['kan_loop_mode'] += 1
            continue
        kind = c.split()[1]
        d['kind_' + kind] += 1
        if i.startswith('rej'):
            d['rejected_' + i.split()[1]] += 1
        elif i.startswith('crash'):
            d['crash_' + i.split()[1]] += 1
        elif kind == 'T':
            d['accepted_tables'] += 1
            n = len(i.split()) - 1
            d['stored_1' if n <= 1 else 'stored_2_9' if n < 10 else 'stored_10_99' if n < 100 else 'stored_100_plus'] += 1
        elif kind == 'R':
            f = c.split()
            d['mode_' + f[2]] += 1
            d['always_on' if f[4] == '1' else 'leader'] += 1
            if ' V' in i:
                d['fired'] += 1
            if ' d14' in i:
                d['backspaced'] += 1
            if ' h 1 251 ' in c:
                d['table_has_overlap_group'] += 1
            elif ' c ' in c or ' h ' in c:
                d['table_has_chords'] += 1
            else:
                d['table_plain'] += 1
            if i.rstrip().split(' | ')[-1].startswith('A'):
                d['ends_active'] += 1
    return dict(d)


def _c12_shrink(case):
    """drop one history event / one table entry at a time (R cases), keeping the counts consistent"""
    f = case.split()
    if case.startswith('KAN '):
        yield from _lay_shrink(case)
        return
    if len(f) < 3 or f[1] not in ('R', 'P') or 'H' not in f:
        return
    h = f.index('H')
    n = int(f[h + 1])
    evs = [f[h + 2 + 2 * k: h + 4 + 2 * k] for k in range(n)]
    for k in range(n):
        rest = evs[:k] + evs[k + 1:]
        yield ' '.join(f[:h + 1] + [str(n - 1)] + [x for e in rest for x in e])
    for k in range(n):
        if evs[k][0] == 't' and int(evs[k][1]) > 1:
            e2 = evs[:k] + [['t', str(int(evs[k][1]) // 2)]] + evs[k + 1:]
            yield ' '.join(f[:h + 1] + [str(n)] + [x for e in e2 for x in e])


def _c12_describe(case):
    f = case.split()
    if f[0] == 'KAN':
        return _lay_describe(case)
    if f[1] == 'R':
        return ('R case: mode %s timeout %s always-on %s modcancel %s; table and history in the token form of '
                'lean/KVerif/Drv/C12.lean (kvharness eval C12 renders the kanata configuration)' % (f[2], f[3], f[4], f[5]))
    return case


PROPS['C12'] = {
    'lean_modules': ['KVerif.Props.C12', 'KVerif.Props.C12mod', 'KVerif.Props.C12kan'],
    'expand': True,   # KAN lines are expanded by the harness (kan::expand); the C12 lines pass through unchanged
    'oracle_project': _c12_project,
    # KAN lines: the harness prints the panic text, the composed model names the crash site
    'norm_impl': lambda o: 'crash panic' if o.startswith('crash panic') else o,
    'norm_model': lambda o: 'crash panic' if o.startswith(('crash seq:', 'crash layout:', 'crash override', 'crash underflow', 'crash customId')) else o,
    'nontrivial': _c12_nontrivial,
    'rule': 'Q: random key sets over a 5-symbol alphabet (incl. the overlap marker and the empty key) vs the real Trie; '
            'T: all ordered pairs of plain sequences of length 1-3 over two keys, O- groups of every size 0-7, fixed edge cases, '
            'random tables (plain / chords / O- groups / malformed); R: for generated accepted tables x 3 input modes x {leader, always-on}: '
            'every sequence in every permitted order (sampled above 6 orders), every proper prefix + a non-matching key, a gap of T-1/T/T+1 at every position, '
            'a pending prefix idling T-1/T/T+1, cut chorded/overlap plans, plus random undisciplined histories (leader re-trigger, cancel, noerase, modifiers); '
            'KAN: whole-Kanata cases for the composed model (Model/Kanata.lean + Model/KanataSeq.lean): 8 tables (plain, chorded, O- groups, modifiers typed as keys) x '
            'all three modes x leader/always-on x modcancel, timeouts 1..1000; simple configurations with leader, cancel, noerase, a second leader, rpt typed with gaps T-2/T-1/T around the timeout, '
            'and rich configurations whose special keys are drawn from 36 actions (leaders inside multi/tap-hold/tap-dance/fork/switch/macro, caps-word, unmod/unshift, one-shot, layers, '
            'virtual-key press/release/tap/toggle, hold-for-duration, on-idle) and whose virtual keys are drawn from 18 actions (keys of the table, a leader, macros, tap-hold, mouse button, unicode), '
            'with and without overrides; random histories with repeats, taps, direct virtual-key events and, for a third, the processing loop with blocking (gap); '
            'compared per tick: OS events, idle flag, blocking decisions, layout digest; '
            'non-trivial = the trie answered / a table was parsed / the run produced OS output or a virtual-key tap; distinct = distinct case line',
    'stats': _c12_stats,
    'shrink_candidates': _c12_shrink,
    'describe': _c12_describe,
    'per_case_timeout': 0.5,
    'trusted_base': ['patricia_tree (byte trie) implements the three prefix queries as specified on lists in Model/SeqTrie.lean (cross-checked on random key sets, not proved)',
                     'Model/SeqTrie.lean and Model/Sequences.lean as transcriptions of parse_sequences/parse_sequence_keys/gen_permutations and of do_sequence_press_logic + hooks (checked differentially)',
                     'parse_macro_item_impl beyond the press/release expansion of key-list items; str_to_oscode; the rest of the config parser (exercised, not modelled)',
                     'gen/g_seq.py (constants and match arms of the sequence code)',
                     'Model/KanataSeq.lean + the [seq] hooks of Model/Kanata.lean as a transcription of the sequence hooks of handle_keystate_changes / tick_states / handle_repeat / is_idle (checked differentially on whole-Kanata cases)'],
    'assumptions': ['runtime theorems are about the sequence functions fed with the key presses the key-state diff produces; the layout slice (queue, one event per tick, NormalKey/Custom states) is modelled and compared per tick, not proved about',
                    'fewer than 32 queued events and 64 key states; key codes are keyboard keys (no mouse buttons/wheel)'],
}

PROPS['C12']['determined'] = lambda case, out: _c12_project(out) if case.startswith('C12 R') and out.startswith('ok ') else None
PROPS['C12']['determined_what'] = 'which virtual keys were tapped, which keys were pressed at the OS, how many backspaces, and whether sequence mode is still on'

# ---------------------------------------------------------------------------------------- C16
def _c16_norm(out):
    # "… | pair differ:layers" -> "… | pair differ": the detail after the verdict is for humans
    return re.sub(r'\| pair (equal|differ)\S*', r'| pair \1', out)


def _c16_pair(out):
    m = re.search(r'\| pair (equal|differ)', out)
    return m.group(1) if m else out


def _c16_note(case):
    return case.rsplit(' # ', 1)[1] if ' # ' in case else ''


def _c16_nontrivial(case, impl):
    # the rewrite was applied, both configurations were accepted and the paired run produced output,
    # or a deliberately non-neutral rewrite was told apart
    if case.startswith('C16 neg'):
        return '| pair differ' in impl
    m = re.search(r'\| pair equal:accepted:(\d+)', impl)
    return bool(m) and int(m.group(1)) > 0


def _c16_stats(cases, impl):
    import collections
    d = collections.Counter()
    for c, i in zip(cases, impl):
        kind = c.split(' ', 2)[1]
        d['kind_' + kind] += 1
        v = re.search(r'\| pair (\S+)', i)
        v = v.group(1) if v else i[:30]
        d['verdict_' + ':'.join(v.split(':')[:2])] += 1
        note = _c16_note(c)
        if kind != 'neg':
            rws = [x for x in note.split(',') if x]
            d['rewrites_%s' % ('1' if len(rws) <= 1 else '2' if len(rws) == 2 else '3_plus')] += 1
            for x in rws:
                x = re.sub(r'[\d+]+$', '', x.split(':')[0])
                d['rw_' + x] += 1
        else:
            d['neg_' + note] += 1
        for k in ('defchordsv2', 'defchords', 'defseq', 'defoverrides', 'defvirtualkeys', 'deffakekeys', 'switch',
                  'tap-dance', 'one-shot', 'fork', 'macro', 'multi', 'tap-hold', 'deflayermap', 'concat'):
            if (':' + k + ' ') in c:
                d['has_' + k] += 1
    return dict(d)


def _c16_forest(toks, i):
    """tokens -> nested lists; returns (forest, next index); toks[i] == '('"""
    assert toks[i] == '('
    out, i = [], i + 1
    while toks[i] != ')':
        if toks[i] == '(':
            sub, i = _c16_forest(toks, i)
            out.append(sub)
        else:
            out.append(toks[i])
            i += 1
    return out, i + 1


def _c16_untok(f):
    out = ['(']
    for x in f:
        out += _c16_untok(x) if isinstance(x, list) else [x]
    return out + [')']


def _c16_split(case):
    toks = case.split(' ')
    io = toks.index('O')
    o, i = _c16_forest(toks, io + 1)
    assert toks[i] == 'R'
    r, i = _c16_forest(toks, i + 1)
    assert toks[i] == 'F'
    ih = toks.index('H', i)
    hist = toks[ih + 1:]
    tail = []
    if '#' in hist:
        k = hist.index('#')
        hist, tail = hist[:k], hist[k:]
    return toks[:io], o, r, toks[i:ih], hist, tail


def _c16_join(head, o, r, files, hist, tail):
    return ' '.join(head + ['O'] + _c16_untok(o) + ['R'] + _c16_untok(r) + files + ['H'] + hist + tail)


def _c16_shrink(case):
    try:
        head, o, r, files, hist, tail = _c16_split(case)
    except Exception:
        return
    # shorter histories
    n = len(hist)
    if n > 1:
        yield _c16_join(head, o, r, files, hist[:n // 2], tail)
        yield _c16_join(head, o, r, files, hist[n // 2:], tail)
        for k in range(n):
            yield _c16_join(head, o, r, files, hist[:k] + hist[k + 1:], tail)
    # a top-level item that is the same in both configurations
    for k, item in enumerate(o):
        if item in r:
            r2 = list(r)
            r2.remove(item)
            yield _c16_join(head, o[:k] + o[k + 1:], r2, files, hist, tail)


def _c16_text(f):
    import urllib.parse
    def one(x):
        if isinstance(x, list):
            return '(' + ' '.join(one(y) for y in x) + ')'
        return urllib.parse.unquote(x[1:])
    return '\n'.join(one(x) for x in f)


def _c16_describe(case):
    try:
        head, o, r, files, hist, tail = _c16_split(case)
        ftxt = ''
        if len(files) > 2:
            toks, i = files, 2
            while i < len(toks):
                name = toks[i]
                f, i = _c16_forest(toks, i + 1)
                ftxt += f'\n--- file {name}\n' + _c16_text(f)
        return ('--- original configuration\n' + _c16_text(o) + '\n--- rewritten configuration\n' + _c16_text(r) + ftxt +
                '\n--- input history (p:key press, r:key release, t:ms)\n' + ' '.join(hist) + '\n--- rewrites: ' + _c16_note(case))
    except Exception as e:  # pragma: no cover
        return case


PROPS['C16'] = {
    'lean_modules': ['KVerif.Props.C16', 'KVerif.Props.C16tmpl'],
    'norm_impl': _c16_norm,
    'oracle_project': _c16_pair,
    'nontrivial': _c16_nontrivial,
    'shrink_candidates': _c16_shrink,
    'describe': _c16_describe,
    'per_case_timeout': 1.5,
    'rule': 'generated configurations over the action grammar (keys, chords, layers, tap-hold family, one-shot, tap-dance, macro, multi, fork, switch, unmod, virtual keys, defseq, defoverrides, defchords, defchordsv2, defcfg options), rewritten by 1-6 randomly composed rewrites (defalias, defvar on numbers / key names / layer names / lists / actions, deftemplate + template-expand with 0-3 parameters, with if-equal / if-not-equal / if-in-list / if-not-in-list wrappers and dispatch, whole items from a template, include, platform active / inactive, deflayer -> deflayermap with _ / __ / ___ defaults), plus deliberately non-neutral rewrites; each pair is parsed by the real parser and driven through the real state machine on a random history; non-trivial = both accepted and the paired run produced OS output (or, for a non-neutral rewrite, the difference was observed); distinct = distinct case line',
    'stats': _c16_stats,
    'trusted_base': ['Model/CfgTree.lean as a transcription of sexpr.rs (accessors), deftemplate.rs, platform.rs and the include / defvar / defalias / layer-filling parts of cfg/mod.rs — tied by the correspondence on the expanded item list and on the resolved view (real functions via hooks verif_expand_pipeline / verif_parse_vars)',
                     'the ~90 argument parsers of cfg/mod.rs are NOT modelled: that they look at their input only through atom(vars)/list(vars)/parse_action is established by the paired runs on generated configurations, not proved; the sites that bypass variables are regenerated from the source (Gen/BypassSites.lean) and every one must be classified for the proofs to build',
                     'the s-expression reader (text -> tree) is outside this check (C03); the harness checks that each generated text reads back as the tree the model was given'],
    'assumptions': ['linux build: the active platform is "linux"; environment variables are unavailable in new_from_str, so (environment ...) is an error',
                    'Debug renderings used for comparison do not show the key list captured by tap-hold-release-keys / tap-hold-except-keys closures; those are compared through the paired runs only'],
}

# ----------------------------------------------------------------------------------------- C20
# Text-buffer semantics of lean/KVerif/Model/TextBuf.lean, applied to the implementation's OS trace.
_C20_BSPC, _C20_SPC, _C20_LSFT, _C20_RSFT, _C20_RALT = 14, 57, 42, 54, 100
_C20_OTHER_MODS = {29, 97, 56, 125, 126}


def _c20_project(out):
    """OS trace `t5 d30 u30 ...` -> `text <chars> mods <codes>` (what the application shows)."""
    if out.startswith(('rej', 'crash', 'harness-error', 'bad-', 'unsupported')) or re.match(r'^(v\d+|sub|no|e[01])( |$)', out):
        return out           # rejected dictionary / SubsetMap family: compared as they are
    text, lsft, rsft, ralt = [], False, False, False
    for tok in ([] if out == '-' else out.split(' ')):
        kind, val = tok[0], tok[1:]
        if kind == 't':
            continue
        if not val.isdigit():
            return 'unreadable ' + tok
        k = int(val)
        down = kind == 'd'
        if k == _C20_LSFT:
            lsft = down
        elif k == _C20_RSFT:
            rsft = down
        elif k == _C20_RALT:
            ralt = down
        elif not down or k in _C20_OTHER_MODS:
            continue
        elif k == _C20_BSPC:
            if text:
                text.pop()
        elif k == _C20_SPC:
            text.append(str(k))
        else:
            text.append(('S' if (lsft or rsft) else '') + ('G' if ralt else '') + str(k))
    mods = [str(c) for c, on in ((_C20_LSFT, lsft), (_C20_RSFT, rsft), (_C20_RALT, ralt)) if on]
    return 'text ' + (','.join(text) or '-') + ' mods ' + (','.join(mods) or '-')


def _c20_hist(case):
    return case.split(' H ', 1)[1] if ' H ' in case else ''


def _c20_nontrivial(case, impl):
    if ' ssm ' in case:
        return ' I 0 ' not in case
    # a chord fired: the trace contains a backspace the user did not type, or more key-downs than presses
    h = _c20_hist(case)
    typed_bs = len(re.findall(r'\bp 14\b', h))
    return len(re.findall(r'\bd14\b', impl)) > typed_bs or len(re.findall(r'\bd\d+', impl)) > len(re.findall(r'\bp \d+', h))


def _c20_stats(cases, impl):
    import collections
    d = collections.Counter()
    for c, i in zip(cases, impl):
        if ' ssm ' in c:
            d['subsetmap_cases'] += 1
            continue
        d['zch_cases'] += 1
        if i.startswith('rej'):
            d['dictionary_rejected'] += 1
            continue
        if i.startswith('crash'):
            d['crash'] += 1
            continue
        d['chord_fired' if _c20_nontrivial(c, i) else 'no_chord_fired'] += 1
        nl = int(re.search(r' D (\d+)', c).group(1))
        d['dict_lines_%s' % ('1' if nl == 1 else '2_3' if nl <= 3 else '4_plus')] += 1
        if re.search(r' L [23] ', c):
            d['dict_has_followups'] += 1
        if re.search(r' ss [12] ', c):
            d['smart_space_on'] += 1
        h = _c20_hist(c)
        if re.search(r'\bp (42|54)\b', h):
            d['shift_held'] += 1
        if re.search(r'\bp 100\b', h):
            d['altgr_held'] += 1
        if re.search(r' O \d+ (?:\d+ \d+ )*?[1-7] \d+', c):
            d['outputs_not_all_lowercase'] += 1
    return dict(d)


def _c20_shrink(case):
    """Smaller variants: drop one history event, drop one dictionary line, halve a tick count."""
    if ' ssm ' in case or ' H ' not in case:
        return
    head, h = case.split(' H ', 1)
    toks = h.split()
    evs = [(toks[i], toks[i + 1]) for i in range(1, len(toks) - 1, 2)]
    def mk(head, evs):
        return head + ' H ' + str(len(evs)) + ''.join(' %s %s' % e for e in evs)
    for i in range(len(evs)):
        yield mk(head, evs[:i] + evs[i + 1:])
    for i, (k, v) in enumerate(evs):
        if k == 't' and int(v) > 1:
            yield mk(head, evs[:i] + [('t', str(int(v) // 2))] + evs[i + 1:])
    m = re.match(r'^(.* D )(\d+)((?: L .*)?)$', head)
    if m:
        lines = [x for x in re.split(r' (?=L \d)', m.group(3).strip()) if x]
        for i in range(len(lines)):
            rest = lines[:i] + lines[i + 1:]
            yield mk(m.group(1) + str(len(rest)) + ''.join(' ' + x for x in rest), evs)


_C20_NAMES = {30: 'a', 48: 'b', 46: 'c', 32: 'd', 18: 'e', 2: '1', 52: '.', 51: ',', 57: 'spc', 39: ';', 45: 'x', 21: 'y',
              44: 'z', 20: 't', 14: 'bspc', 42: 'lsft', 54: 'rsft', 100: 'ralt', 29: 'lctl'}


def _c20_describe(case):
    if ' ssm ' in case or ' H ' not in case:
        return case
    nm = lambda c: _C20_NAMES.get(int(c), 'k' + c)
    kinds = ['', 'S-', 'AG-', 'S-AG-', 'noerase:', 'noerase:S-', 'noerase:AG-', 'noerase:S-AG-']
    head, h = case.split(' H ', 1)
    t = head.split()
    out = ['deadline=%s idle-reactivate=%s smart-space=%s' % (t[5], t[3], ['none', 'add-space-only', 'full'][int(t[7])])]
    i = t.index('D') + 2
    while i < len(t) and t[i] == 'L':
        nc = int(t[i + 1]); i += 2
        chords = []
        for _ in range(nc):
            nk = int(t[i]); chords.append('(' + ' '.join(nm(x) for x in t[i + 1:i + 1 + nk]) + ')'); i += 1 + nk
        no = int(t[i + 1]); i += 2
        outs = [kinds[int(t[i + 2 * j])] + nm(t[i + 2 * j + 1]) for j in range(no)]
        i += 2 * no
        out.append(' '.join(chords) + ' => ' + ' '.join(outs))
    ht = h.split()
    ev = ['%s:%s' % ({'p': 'd', 'r': 'u', 't': 't'}[ht[j]], ht[j + 1] if ht[j] == 't' else nm(ht[j + 1])) for j in range(1, len(ht) - 1, 2)]
    return ' | '.join(out) + ' || ' + ' '.join(ev)


def _c20_norm(out):
    # the harness appends input-shape fingerprints after ' #' (matched by KNOWN_FINDINGS records only)
    # (zcw family: the model answers `unsupported`, the trace after ' :: TRACE ' is for the free oracle)
    return out.split(' #', 1)[0].split(' :: TRACE ', 1)[0]


# ---- C20 model-free oracle (remarks R1/R2): two slices the Lean specification is silent about
def _c20_parse(case):
    t = case.split()
    i = t.index('D')
    cfg = {'we': int(t[3]), 'dl': int(t[5]), 'ss': int(t[7])}
    nl = int(t[i + 1]); i += 2
    lines = []
    for _ in range(nl):
        nc = int(t[i + 1]); i += 2
        chords = []
        for _ in range(nc):
            nk = int(t[i]); chords.append(sorted(set(int(x) for x in t[i + 1:i + 1 + nk]))); i += 1 + nk
        no = int(t[i + 1]); i += 2
        outs = [(int(t[i + 2 * j]), int(t[i + 2 * j + 1])) for j in range(no)]
        i += 2 * no
        lines.append((chords, outs))
    nh = int(t[i + 1]); i += 2
    hist = [(t[i + 2 * j], int(t[i + 2 * j + 1])) for j in range(nh)]
    return cfg, lines, hist


def _c20_cells(trace, dead):
    """OS trace -> (cells, mods) under the dead-key reading: a key-down that is one of the
    dictionary's no-erase outputs (same key, same shift/AltGr state) shows nothing by itself and
    joins the next character's cell; Backspace deletes one cell.  None = not interpretable
    (a Backspace or the end of the trace while a dead key is pending)."""
    cells, pend, lsft, rsft, ralt = [], [], False, False, False
    for tok in ([] if trace == '-' else trace.split(' ')):
        kind, val = tok[0], tok[1:]
        if kind == 't':
            continue
        if not val.isdigit():
            return None
        k, down = int(val), kind == 'd'
        if k == _C20_LSFT:
            lsft = down
        elif k == _C20_RSFT:
            rsft = down
        elif k == _C20_RALT:
            ralt = down
        elif not down or k in _C20_OTHER_MODS:
            continue
        elif k == _C20_BSPC:
            if pend:
                return None
            if cells:
                cells.pop()
        else:
            ch = ('S' if (lsft or rsft) else '') + ('G' if ralt else '') + str(k)
            if k != _C20_SPC and ch in dead:
                pend.append(ch)
            else:
                cells.append('+'.join(pend + [str(k) if k == _C20_SPC else ch]))
                pend = []
    if pend:
        return None
    return cells, [c for c, on in ((_C20_LSFT, lsft), (_C20_RSFT, rsft), (_C20_RALT, ralt)) if on]


def _c20_out_ch(o):
    kind, code = o
    return ('S' if kind & 1 else '') + ('G' if kind & 2 else '') + str(code)


def _c20_partial_release_oracle(cfg, lines, hist, impl):
    """(3) partial release, then extend (seeded change C20g): ONE hold from a fresh state, no
    modifiers, top-level entries only.  Every press leaves the held keys inside some entry; a press
    that completes an entry replaces what the hold has put on screen by that entry's expansion -
    "any shorter expansion it supersedes is erased" - where the superseded entry's keys are a subset
    of the new entry's keys; keys are released only right after such a completing press (a release
    after a non-completing press disables zippychord by design) and never all of them before the
    end.  Speaks only if some key was released before a later entry completed."""
    if any(len(ch) != 1 for ch, _ in lines) or cfg['ss'] != 0:
        return None
    table = {}
    for ch, outs in lines:
        table[tuple(ch[0])] = outs            # a later line with the same chord is rejected (rej dup)
    if hist[-1][0] != 't' or hist[-1][1] < 20 or sum(1 for k, _ in hist if k != 't') > 16:
        return None
    held, contrib, last_act, last_chord = [], [], None, False
    released_any, extended_after_release, ended = False, False, False
    ticks, first_at, last_press_at, nev = 0, None, 0, 0
    for k, v in hist:
        if k == 't':
            ticks += v
            continue
        nev += 1
        if ended or v in (_C20_LSFT, _C20_RSFT, _C20_RALT, _C20_BSPC) or v in _C20_OTHER_MODS:
            return None
        if k == 'p':
            if v in held:
                return None
            held.append(v)
            first_at = ticks if first_at is None else first_at
            last_press_at = ticks + nev
            key = tuple(sorted(held))
            if key in table:
                if not table[key] or (last_act is not None and not set(last_act) <= set(key)):
                    return None
                contrib = [str(o[1]) if o[1] == _C20_SPC else _c20_out_ch(o) for o in table[key]]
                extended_after_release = extended_after_release or (released_any and last_act != key)
                last_act, last_chord = key, True
            elif any(set(key) <= set(c) for c in table):
                contrib.append(str(v))
                last_chord = False
            else:
                return None
        else:
            if v not in held or not last_chord:
                return None
            held.remove(v)
            released_any = True
            if not held:
                ended = True
    if first_at is None or not extended_after_release:
        return None
    if cfg['dl'] != 0 and last_press_at - first_at + 2 >= cfg['dl']:
        return None
    return 'text ' + (','.join(contrib) or '-') + ' mods -'


def _c20_free_oracle(case, impl):
    """(1) `zch` cases whose dictionary has no-erase outputs (the Lean specification does not
    interpret dead keys): ONE hold that presses exactly the keys of a top-level entry, nothing
    released before the end, gaps inside the deadline, no modifiers, no follow-ups, no Backspace
    outputs, smart space off -> the text must be exactly that entry's expansion, read with dead keys
    (a no-erase output joins the character after it; a Backspace erases the joined character).
    (2) `zcw` cases (caps-word on, outside the model): lalt tap, then the chords of ONE dictionary
    line, each hold released before the next -> the keys of the text are the expansion's keys, and
    every character the expansion spells in upper case is written under shift ("Monday" or "MONDAY",
    never "monday"); no shift is left down once every key is released."""
    if ' ssm ' in case or impl.startswith(('rej', 'crash', 'harness-error')):
        return None
    fam = case.split()[1]
    try:
        cfg, lines, hist = _c20_parse(case)
    except Exception:
        return None
    if cfg['ss'] != 0 or any(o[1] == _C20_BSPC for _, outs in lines for o in outs):
        return None
    if fam == 'zch' and not any(o[0] >= 4 for _, outs in lines for o in outs):
        return _c20_partial_release_oracle(cfg, lines, hist, impl)
    if fam == 'zch':
        if any(len(ch) != 1 for ch, _ in lines):
            return None
        presses, ticks = [], 0
        for k, v in hist:
            if k == 'r':
                return None
            if k == 'p':
                if v in (_C20_LSFT, _C20_RSFT, _C20_RALT) or v in presses:
                    return None
                presses.append(v)
                last_at = ticks
            else:
                ticks += v
        if not presses or (cfg['dl'] != 0 and last_at + len(presses) >= cfg['dl']) or ticks - last_at < len(presses) + 2:
            return None
        want = [outs for ch, outs in lines if ch[0] == sorted(presses)]
        if len(want) != 1 or not want[0] or want[0][-1][0] >= 4:
            return None
        if any(o[0] >= 4 and o[1] == _C20_SPC for _, outs in lines for o in outs):
            return None
        dead = {_c20_out_ch(o) for _, outs in lines for o in outs if o[0] >= 4}
        # the trace cannot tell a dead-key output from a plain output of the same character: no verdict
        # when the expansion (or a typed key) also writes a dead character plainly (false alarm of the
        # thorough tier, seventh round: `noerase:z z z b y`)
        if dead & ({_c20_out_ch(o) for o in want[0] if o[0] < 4} | {str(k) for k in presses}):
            return None
        req, pend = [], []
        for o in want[0]:
            if o[0] >= 4:
                pend.append(_c20_out_ch(o))
            else:
                req.append('+'.join(pend + [str(o[1]) if o[1] == _C20_SPC else _c20_out_ch(o)]))
                pend = []
        got = _c20_cells(_c20_norm(impl), dead)
        if got is None:
            return None
        if got == (req, []):
            return _c20_project(_c20_norm(impl))
        return 'text ' + ','.join(req) + ' mods - (dead-key reading; the implementation shows ' + (','.join(got[0]) or '-') + ')'
    if fam == 'zcw':
        if ' :: TRACE ' not in impl or cfg['dl'] < 200:
            return None
        trace = impl.split(' #', 1)[0].split(' :: TRACE ', 1)[1]
        if hist[:4] != [('p', 56), ('t', 3), ('r', 56), ('t', 5)]:
            return None
        # a quiet tail long enough for every queued event (one per tick) - the shrinker must not turn
        # 'not processed yet' into a failure
        if hist[-1][0] != 't' or hist[-1][1] < 20 or sum(1 for k, _ in hist if k != 't') > 16:
            return None
        holds, cur, down = [], [], set()
        for k, v in hist[4:]:
            if k == 'p':
                if (cur and not down) or v in down or v == 56:
                    holds.append(sorted(cur)); cur = []
                    if v in down or v == 56:
                        return None
                cur.append(v); down.add(v)
            elif k == 'r':
                if v not in down:
                    return None
                down.discard(v)
            elif v > 60:
                return None
        if cur:
            holds.append(sorted(cur))
        want = [outs for ch, outs in lines if ch == holds]
        if len(want) != 1 or not want[0] or any(o[0] >= 2 for o in want[0]):
            return None
        got = _c20_cells(trace, set())
        if got is None:
            return None
        cells, mods = got
        # (while a letter is still held, caps-word itself keeps LShift down)
        ok = ((not mods or (down and mods == [_C20_LSFT])) and len(cells) == len(want[0]) and
              all(c.lstrip('S') == str(o[1]) and (c.startswith('S') or not (o[0] & 1) or o[1] == _C20_SPC)
                  for c, o in zip(cells, want[0])))
        if ok:
            return 'unsupported'
        return ('text ' + ','.join(_c20_out_ch(o) for o in want[0]) +
                ' mods - (capitals as spelled, other letters in either case; the implementation shows ' +
                (','.join(cells) or '-') + ' mods ' + (','.join(map(str, mods)) or '-') + ')')
    return None


PROPS['C20'] = {
    'lean_modules': ['KVerif.Props.C20'],
    'norm_impl': _c20_norm,
    'free_oracle': _c20_free_oracle,
    'oracle_project': _c20_project,
    'nontrivial': _c20_nontrivial,
    'shrink_candidates': _c20_shrink,
    'describe': _c20_describe,
    'rule': 'generated dictionaries (disjoint / overlapping-extending / follow-up / mixed; lower, upper, AltGr, Shift+AltGr, no-erase and backspace outputs; expansions sharing prefixes) x every line x every permutation of its last chord (quick: 6 of the 24 orders of 4-key chords, thorough: all) x modifiers held (none, lsft, rsft, ralt, lsft+ralt, both shifts) x press gaps incl. the boundary values deadline-1 / deadline / deadline+1 x optional plain typing before (idle time at / below / above idle-reactivate-time) and after (incl. punctuation); two lines one after the other; random press/release/tick histories over the dictionary keys plus modifiers and ignored keys; plain typing of keys in no chord; the forced-reset boundary (9990..10010 idle ticks); a corpus with one witness per recorded finding; H: a chord superseded in the same hold by a longer one whose expansion shares a prefix containing a no-erase output (every press order); I (zcw): caps-word switched on, then one dictionary line with capitals, chords of letters and of digits; J: towers K1<K2(<K3) with some-but-not-all keys released between the levels; SubsetMap insert/lookup sequences (exhaustive up to 2 insertions — thorough: 3 — of subsets of a 4-key universe with all 16 lookups, plus random sequences of up to 6). non-trivial = a chord fired (the OS trace has a backspace the user did not type, or more key-downs than presses) / a SubsetMap case with at least one insertion; distinct = distinct case line',
    'stats': _c20_stats,
    'trusted_base': ['Model/Zippy.lean as a transcription of zippychord.rs, subset.rs, the dictionary loop of cfg/zippychord.rs and the press/release path of a pass-through layout (checked differentially, not proved)',
                     'Model/TextBuf.lean + Model/ZippySpec.lean: the reading of "text visible in the receiving application" and of the property statement',
                     'runner/props.py _c20_project: the same text-buffer semantics applied to the implementation trace',
                     'harness rendering of a structured dictionary to the zippy file text and output-character-mappings (str_to_oscode cross-checked per character)'],
    'assumptions': ['i16 counters are unbounded integers in the model (overflow needs a >32767-character expansion)',
                    'dead keys: the Lean specification is silent on dictionaries with no-erase outputs (compared at trace level); the model-free oracle _c20_free_oracle reads them for single-hold histories only (a no-erase output joins the character after it into one screen cell); caps-word (family zcw) and partial-release-then-extend histories are likewise judged by that oracle on the real trace, not by the Lean specification',
                    'caps-word: the flag is an input of the model tick and is false in every generated history; zippy_shift_restored covers caps-word states, the text theorems assume it off',
                    'the path from Kanata to zippychord is modelled for a pass-through layout only ((defsrc)(deflayer base)): one queued event per tick, keys pressed/released in order',
                    'specification domain: see the header of lean/KVerif/Model/ZippySpec.lean (silent on ignored keys, no-erase outputs, expansions deleting text they did not type, empty expansions)',
                    'binary_search_by on the sorted per-item vectors of SubsetMap is modelled as a linear search'],
}

# ----------------------------------------------------------------------------- C15 (live reload)
_C15_ACT2 = {'k', 'r#', 'rf', 'lh', 'ls', 'vp', 'vr', 'vt', 'vg', 'um'}


def _c15_parse(case):
    """'C15 S ...' -> (files, steps) with files/steps as token lists; None for other families"""
    t = case.split()
    if t[:2] != ['C15', 'S']:
        return None
    i = [3]

    def content():
        k = t[i[0]]
        i[0] += 1
        if k in ('ok', 'okx'):
            st = i[0]
            assert t[i[0]] == 'cfg'
            i[0] += 2
            assert t[i[0]] == 'L'
            nl = int(t[i[0] + 1])
            i[0] += 2
            for _ in range(nl * 6):
                i[0] += 2 if t[i[0]] in _C15_ACT2 else 1
            assert t[i[0]] == 'V'
            nv = int(t[i[0] + 1])
            i[0] += 2 + nv
            return [k] + t[st:i[0]]
        return [k]

    nf = int(t[3])
    i[0] = 4
    files = [content() for _ in range(nf)]
    assert t[i[0]] == 'steps'
    ns = int(t[i[0] + 1])
    i[0] += 2
    steps = []
    for _ in range(ns):
        k = t[i[0]]
        if k in ('p', 'r'):
            steps.append(t[i[0]:i[0] + 3])
            i[0] += 3
        elif k in ('t', 'j'):
            steps.append(t[i[0]:i[0] + 2])
            i[0] += 2
        elif k == 'w':
            f = t[i[0] + 1]
            i[0] += 2
            steps.append(['w', f] + content())
        else:
            raise ValueError(k)
    return files, steps


def _c15_render(files, steps):
    out = ['C15', 'S', 'nf', str(len(files))]
    for f in files:
        out += f
    out += ['steps', str(len(steps))]
    for s in steps:
        out += s
    return ' '.join(out)


def _c15_shrink(case):
    try:
        p = _c15_parse(case)
    except Exception:
        return
    if not p:
        return
    files, steps = p
    for i in range(len(steps)):
        yield _c15_render(files, steps[:i] + steps[i + 1:])
    for i, s in enumerate(steps):
        if s[0] == 't' and int(s[1]) > 1:
            for n in (1, int(s[1]) // 2, int(s[1]) - 1):
                if 0 < n < int(s[1]):
                    yield _c15_render(files, steps[:i] + [['t', str(n)]] + steps[i + 1:])


def _c15_project(out):
    # the specification side does not print the idle counter (a restart zeroes it; the code leaves a dead value)
    return re.sub(r' tsi=\d+', '', out)


def _c15_failed_request_moved_index(case, impl, spec):
    """[t7:in-use] known-finding predicate: somewhere in the implementation trace a reload FAILS while the
    file index points away from the file whose configuration is running (rqN moves the index at request
    time, only `ok` makes that file the one in use)."""
    if not case.startswith('C15 S '):
        return False
    in_use = idx = 0
    for tok in impl.split(' | ')[0].split(' '):
        t = tok.split(':', 1)[-1]
        m = re.fullmatch(r'rq(\d+)', t)
        if m:
            idx = int(m.group(1))
        elif t == 'ok':
            in_use = idx
        elif t == 'fail':
            if idx != in_use:
                return True
            idx = idx  # the pinned code leaves the index where the request put it
    return False


def _c15_nontrivial(case, impl):
    if case.startswith('C15 R'):
        return True
    return ':ok' in impl or ':fail' in impl


def _c15_stats(cases, impl):
    import collections
    d = collections.Counter()
    for c, i in zip(cases, impl):
        if c.startswith('C15 R'):
            t = c.split()
            d['relational_cases'] += 1
            d['relational_new_content_' + t[4]] += 1
            d['relational_history_%s' % t[3]] += 1
            if 'fresh=eq' in i:
                d['relational_reloaded_equals_fresh'] += 1
            if 'noop=eq' in i:
                d['relational_failed_reload_equals_no_request'] += 1
            continue
        d['trace_cases'] += 1
        nf = int(c.split()[3])
        d['files_%d' % nf] += 1
        n_ok = len(re.findall(r'\d+:ok\b', i))
        n_fail = len(re.findall(r'\d+:fail\b', i))
        d['reloads_succeeded'] += n_ok
        d['reloads_failed'] += n_fail
        if n_ok + n_fail == 0:
            d['cases_without_attempt'] += 1
        if n_ok + n_fail >= 2:
            d['cases_with_repeated_attempts'] += 1
        for kind in ('syn', 'sem', 'mis', 'unr', 'okx'):
            if re.search(r'\b' + kind + r'\b', c):
                d['content_' + kind] += 1
        for a in ('rn', 'rp', 'r#', 'rf', 'lh', 'ls', 'um'):
            if re.search(r'(?<=\s)' + re.escape(a) + r'(?=\s)', c):
                d['action_' + a] += 1
        if re.search(r'\bv[prtg] \d', c):
            d['action_virtual_key'] += 1
        if 'rqbad' in i:
            d['lrld_num_out_of_range'] += 1
        if 'rqnop' in i:
            d['lrld_file_not_passed'] += 1
        # deferred: request and attempt in different iterations
        req = [int(x) for x in re.findall(r'(\d+):rq', i)]
        att = [int(x) for x in re.findall(r'(\d+):(?:ok|fail)', i)]
        if req and att and any(a not in req for a in att):
            d['deferred_reloads'] += 1
        if any(a >= 1000 for a in att):
            d['idle_fallback_reloads'] += 1
        if 'req=1' in i:
            d['request_still_pending_at_end'] += 1
        if ' blk' in i or i.startswith('0:blk'):
            d['cases_with_blocking'] += 1
        if ' w ' in c:
            d['file_rewritten_mid_run'] += 1
        if 'crash' in i or 'error' in i:
            d['crash_or_error'] += 1
    return dict(d)


def _c15_describe(case):
    t = case.split()
    if t[:2] == ['C15', 'R']:
        return ('relational case on the real code: old rich configuration #%s, history #%s before the request, '
                'new file content %s (new configuration #%s), continuation seed %s — see scenario()/rich_old()/rich_new() '
                'in harness/src/c15.rs' % (t[2], t[3], t[4], t[5], t[6]))
    return ('processing-loop trace: files (ok/okx = valid [with linux-x11-repeat-delay-rate], syn/sem/mis/unr = '
            'syntactically broken / semantically rejected / missing / unreadable) then steps (p/r key ms, t n idle '
            'iterations, j ms, w f content = rewrite file f): ' + case)


PROPS['C15'] = {
    'lean_modules': ['KVerif.Props.C15', 'KVerif.Props.C15fresh'],
    'oracle_project': _c15_project,
    'nontrivial': _c15_nontrivial,
    'known_preds': {'failed_request_moved_index': _c15_failed_request_moved_index},  # [t7:in-use]
    'rule': 'simple-fragment traces through the real processing-loop shape under virtual time (exhaustive families: every reload action from every position with 1-3 files; 6 kinds of new content x 7 kinds of held state at the request; back-to-back requests; then random scripts over random 1-4 file sets with files rewritten mid-run) compared token by token with the Lean model (impl = model) and with the restart specification (impl = spec; on the specification side a failed reload also puts the file index back on the file whose configuration is running - family F-idx: 2-3 files, file 1 broken in four ways, lrld-next/prev/num/file onto it, then lrld / lrld-next / lrld-prev / lrld-num); plus relational cases on rich configurations (22 histories x 5 content kinds x 3 new configurations, random continuations): failed reload vs no request, successful reload vs fresh instance; non-trivial = a reload was attempted (trace cases) / always (relational); distinct = distinct case line',
    'stats': _c15_stats,
    'shrink_candidates': _c15_shrink,
    'describe': _c15_describe,
    'per_case_timeout': 1.0,
    'trusted_base': [
        'Model/Reload.lean as a transcription of handle_time_ticks / tick_ms / tick_states (bookkeeping part) / check_handle_layer_change / is_idle / can_block_update_idle_waiting / the LiveReload* arms; do_live_reload and the constructors are not transcribed but interpreted from lists regenerated from src/kanata/mod.rs (gen/g_reload.py)',
        'Model/ReloadMini.lean (keyberon fragment: plain keys, layers, virtual keys, unmod) — used by the correspondence only, no theorem depends on it',
        'hook verif_handle_time_ticks (sets last_tick = now - ms, clears the remainder, calls the private handle_time_ticks)',
        'the file system, cfg::new_from_file and everything in tick_states that is not reload bookkeeping are parameters of the theorems (World), exercised but not modelled',
    ],
    'assumptions': [
        'tick_states, handle_input_event and tick_replay_state write the bookkeeping fields only where Gen.Reload.writeSites says (checked against the source each run: write_sites_as_modelled)',
        'relational cases run the loop without parking in rx.recv(): that parking is unobservable is property C07',
        'the tx channel never fills up (try_send errors are logged and dropped in the code)',
        'thread interleaving and wall-clock drift of start_processing_loop are replaced by virtual time',
    ],
}

# ----------------------------------------------------------------------------- C11
def _c11_cps(tok):
    if tok == '-':
        return ''
    try:
        return ''.join(chr(int(x)) for x in tok.split('.'))
    except ValueError:
        return tok


def _c11_norm(out):
    if out.startswith('pipe'):   # [t8:pipe] judged by _c11_free_oracle on the raw trace
        return 'pipe'
    m = re.match(r'crash panic index out of bounds: the len is \d+ but the index is (\d+)', out)
    return 'crash indexOOB ' + m.group(1) if m else out


# [t8:pipe] begin
def _c11_free_oracle(case, impl):
    """`C11 pipe <expect> KAN 0 <hex cfg> HIST ...`: whole configurations on the real pipeline.
    same:<code>  - the key under test is mapped to itself (use-defsrc): every key event sent to the OS
                   carries its code, nothing goes out on the mouse channel, and it is sent
    noignored    - no code of the reserved range 676..=685 (nop0..nop9) is sent to the OS
    accepted:<context>:<name> - a key name that is accepted as a plain action is accepted in that
                   position too (output chord key, macro item, defseq key list)"""
    t = case.split()
    if len(t) < 3 or t[1] != 'pipe':
        return None
    if t[2].startswith('accepted:') and impl.startswith('pipe'):
        _, ctx, cps = t[2].split(':', 2)
        name = _c11_cps(cps)
        if impl.startswith('pipe rej'):
            m = re.search(r'help: (.*?)(?: For more info|$)', impl)
            return f'fail key name {name} is accepted as an action but refused as {ctx} item: {m.group(1) if m else impl[9:120]}'
        return 'ok'
    if not impl.startswith('pipe') or impl.startswith('pipe rej'):
        return None
    keys = re.findall(r'(?<![a-z])[du](\d+)\b', impl)
    if t[2].startswith('same:'):
        k = t[2][5:]
        other = sorted(set(x for x in keys if x != k), key=int)
        if other:
            return f'fail key {k} is mapped to itself (use-defsrc) but code(s) {",".join(other)} were sent to the OS'
        if re.search(r'\bb[du]\d+|\bwh\d+', impl):
            return f'fail key {k} is mapped to itself (use-defsrc) but a mouse event was sent'
        if k not in keys:
            return f'fail key {k} is mapped to itself (use-defsrc) but was not sent to the OS'
        return 'ok'
    if t[2] == 'noignored':
        bad = sorted(set(x for x in keys if 676 <= int(x) <= 685), key=int)
        if bad:
            return f'fail reserved no-op code(s) {",".join(bad)} sent to the OS'
        return 'ok'
    return None
# [t8:pipe] end


def _c11_project(out):
    if out == 'pipe':   # [t8:pipe]
        return 'ok'
    m = re.match(r'name (\S+) act (?:key|btn|wheel) (\d+)$', out)
    if m:
        return f'name {m.group(1)} denotes {m.group(2)}'
    m = re.match(r'name (\S+) act -$', out)
    if m:
        return f'name {m.group(1)} denotes -'
    if out.startswith('from'):
        return out.split(' | mod')[0]
    return out


def _c11_nontrivial(case, impl):
    k = case.split()[1]
    if k == 'code':
        return not impl.startswith('from none')
    if k == 'name':
        return not impl.startswith('name none')
    if k == 'mapped':
        return impl.startswith('ok')
    return True


def _c11_cfg_text(toks):
    """human rendering of the <config> tokens (same layout as harness cfg_text)"""
    it = iter(toks)
    out = []
    try:
        assert next(it) == 'loc'
        n = int(next(it))
        loc = [(_c11_cps(next(it)), next(it)) for _ in range(n)]
        if loc:
            out.append('(deflocalkeys-linux ' + ' '.join(f'{a} {b}' for a, b in loc) + ')')
        assert next(it) == 'puk'
        p = next(it)
        if p == 'exc':
            n = int(next(it))
            out.append('(defcfg process-unmapped-keys (all-except ' + ' '.join(_c11_cps(next(it)) for _ in range(n)) + '))')
        else:
            out.append(f'(defcfg process-unmapped-keys {p})')
        assert next(it) == 'src'
        n = int(next(it))
        out.append('(defsrc ' + ' '.join(_c11_cps(next(it)) for _ in range(n)) + ')')
        assert next(it) == 'layers'
        nl = int(next(it))
        for li in range(nl):
            kind = next(it)
            n = int(next(it))
            if kind == 'plain':
                out.append(f'(deflayer l{li} ' + ' '.join(_c11_cps(next(it)) for _ in range(n)) + ')')
            else:
                ps = []
                for _ in range(n):
                    i = next(it)
                    ps.append((_c11_cps(i[2:]) if i.startswith('k:') else i) + ' ' + _c11_cps(next(it)))
                out.append(f'(deflayermap (l{li}) ' + ' '.join(ps) + ')')
    except (StopIteration, AssertionError, ValueError):
        out.append('<unparsable>')
    return ' '.join(out)


def _c11_describe(case):
    t = case.split()
    if len(t) < 3:
        return case
    if t[1] == 'code':
        return f'key code {t[2]}: OsCode::from_u16 / as_u16 / KeyCode::from / OsCode::from'
    if t[1] == 'name':
        return f'key name "{_c11_cps(t[2])}": str_to_oscode' + (' and the same atom written as an action' if t[3:] == ['1'] else '')
    if t[1] == 'mapped':
        return 'Cfg.mapped_keys of: ' + _c11_cfg_text(t[2:])
    if t[1] == 'tap':
        return f'press and release input code {t[2]} on: ' + _c11_cfg_text(t[3:])
    if t[1] == 'pipe' and len(t) > 6:   # [t8:pipe]
        try:
            return {'expect': t[2], 'config': bytes.fromhex(t[5]).decode(), 'history': ' '.join(t[6:])}
        except Exception:
            return case
    return case


def _c11_stats(cases, impl):
    import collections
    d = collections.Counter()
    for c, i in zip(cases, impl):
        k = c.split()[1]
        d['kind_' + k] += 1
        if k == 'pipe':   # [t8:pipe]
            d['pipe_' + c.split()[2].split(':')[0] + ('_rejected' if i.startswith('pipe rej') else '')] += 1
        if k == 'tap':
            if i.startswith('m 0'):
                d['tap_not_intercepted'] += 1
            elif i.startswith('m 1 | -'):
                d['tap_no_output'] += 1
            elif i.startswith('m 1 | bd') or i.startswith('m 1 | wh'):
                d['tap_mouse_channel'] += 1
            elif i.startswith('m 1'):
                d['tap_key_out'] += 1
            elif i.startswith('crash'):
                d['tap_crash'] += 1
            if ' puk yes' in c or ' puk exc' in c:
                d['tap_process_unmapped'] += 1
            if ' plain 1 95' in c:
                d['tap_transparent'] += 1
            if ' map ' in c:
                d['tap_deflayermap'] += 1
        elif k == 'mapped':
            d['mapped_' + (i.split()[0] if i.split() else 'empty')] += 1
            if i.startswith('rej'):
                d['mapped_rej_' + i.split()[1]] += 1
            if ' puk exc' in c:
                d['mapped_with_exceptions'] += 1
            if ' map ' in c:
                d['mapped_with_deflayermap'] += 1
            if not c.split()[3] == '0':
                d['mapped_with_deflocalkeys'] += 1
        elif k == 'name':
            d['name_' + ('unknown' if i.startswith('name none') else 'known')] += 1
        elif k == 'code':
            d['code_' + ('rejected' if i.startswith('from none') else 'accepted')] += 1
    return dict(d)


def _c11_shrink(case):
    """drop one layer / one defsrc key / one exception / one deflayermap pair at a time"""
    t = case.split()
    if len(t) < 2 or t[1] not in ('mapped', 'tap'):
        return
    head = t[:2] if t[1] == 'mapped' else t[:3]
    body = t[len(head):]
    try:
        it = iter(body)
        assert next(it) == 'loc'
        n = int(next(it)); loc = [(next(it), next(it)) for _ in range(n)]
        assert next(it) == 'puk'
        p = next(it); exc = None
        if p == 'exc':
            n = int(next(it)); exc = [next(it) for _ in range(n)]
        assert next(it) == 'src'
        n = int(next(it)); src = [next(it) for _ in range(n)]
        assert next(it) == 'layers'
        nl = int(next(it)); layers = []
        for _ in range(nl):
            kind = next(it); n = int(next(it))
            if kind == 'plain':
                layers.append(('plain', [next(it) for _ in range(n)]))
            else:
                layers.append(('map', [(next(it), next(it)) for _ in range(n)]))
    except (StopIteration, AssertionError, ValueError):
        return

    def render(loc, p, exc, src, layers):
        o = head + ['loc', str(len(loc))] + [x for a in loc for x in a] + ['puk', p]
        if p == 'exc':
            o += [str(len(exc))] + exc
        o += ['src', str(len(src))] + src + ['layers', str(len(layers))]
        for kind, items in layers:
            o += [kind, str(len(items))]
            o += items if kind == 'plain' else [x for a in items for x in a]
        return ' '.join(o)
    for i in range(len(layers)):
        if len(layers) > 1:
            yield render(loc, p, exc, src, layers[:i] + layers[i + 1:])
    for i in range(len(src)):
        ls = [(k, (it_[:i] + it_[i + 1:]) if k == 'plain' else it_) for k, it_ in layers]
        yield render(loc, p, exc, src[:i] + src[i + 1:], ls)
    if exc:
        for i in range(len(exc)):
            if len(exc) > 1:
                yield render(loc, p, exc[:i] + exc[i + 1:], src, layers)
        yield render(loc, 'yes', None, src, layers)
    for li, (kind, items) in enumerate(layers):
        if kind == 'map':
            for i in range(len(items)):
                yield render(loc, p, exc, src, layers[:li] + [(kind, items[:i] + items[i + 1:])] + layers[li + 1:])
    for i in range(len(loc)):
        yield render(loc[:i] + loc[i + 1:], p, exc, src, layers)


PROPS['C11'] = {
    'lean_modules': ['KVerif.Props.C11'],
    'norm_impl': _c11_norm,
    'oracle_project': _c11_project,
    'nontrivial': _c11_nontrivial,
    'describe': _c11_describe,
    'shrink_candidates': _c11_shrink,
    'stats': _c11_stats,
    'per_case_timeout': 0.5,
    'free_oracle': _c11_free_oracle,   # [t8:pipe]
    'rule': 'exhaustive: every u16 value 0..=1023 through from_u16/as_u16/KeyCode::from/OsCode::from; every key name of the generated name universe (all str_to_oscode arms incl. aliases, DEFAULT_MAPPINGS, evdev identifiers, keyberon Display strings, special action atoms) plus mutated junk names, looked up and written as an action; every writable key name tapped on a self-mapped, a transparent and a deflayermap configuration; every accepted code tapped on a self-mapped and a transparent configuration (via deflocalkeys-linux), with process-unmapped-keys yes, excepted, and not intercepted; random configurations (deflocalkeys incl. shadowing and invalid numbers, defsrc subsets, deflayermap inputs incl. wildcards, exception lists, 1-3 layers) for Cfg.mapped_keys; [t8] whole configurations on the real pipeline, judged on the OS events alone (pipe-identity: delegate-to-first-layer yes|no x first layer as deflayer|deflayermap remapping the key under test x use-defsrc bare / in multi / switch / tap-hold / fork on a held upper layer x 24 sampled keys (thorough: all) - the key must come out as its own code; pipe-noignored: nop0..nop9 named as output through every route (plain, multi, macro, output chord, tap-hold, one-shot, fork, tap-dance, unmod, overrides, chords v1/v2, zippychord output-character-mappings) - no code 676..685 may be sent; pipe-contexts: a key name accepted as an action must be accepted as output-chord key, macro item and defseq item, dnd always included); non-trivial = code accepted / name known / configuration accepted / any tap; distinct = distinct case line',
    'trusted_base': ['translator gen/g_keytables.py (regex extraction of both enums, from_u16_linux, str_to_oscode, DEFAULT_MAPPINGS, the output filters and the textual checks of the transcribed parser pieces); every extracted table entry is also compared with the compiled code',
                     'Model/KeyId.lean as a transcription of parse_defsrc / parse_layers / create_defsrc_layer / resolve_coord / press_key / release_key (checked differentially, not proved)',
                     'the simulated output sink and the harness reading of its event strings'],
    'assumptions': ['Linux build (target_os = "linux"); macOS and Windows tables are not covered',
                    'the decision "key not in MAPPED_KEYS => event forwarded untouched" is the one of the Linux event loop (src/kanata/linux.rs), modelled, not executed: the harness has no input device',
                    'single-key, single-layer configurations without zippychord, sequences, overrides or block-unmapped-keys for the pipeline cases',
                    'direct calls of kbd_out.release_key in the start-up release window of start_processing_loop bypass the ignore filter (not modelled)'],
}


PROPS['C06'] = _lay_props(['KVerif.Props.C06', 'KVerif.Props.C06mix'],
    'one-shot keys: 4 end variants x T in {3,10,500} x rapid-event-delay {default 5, 0, 1} x inner action {modifier key, output chord, layer-while-held of a layer mapping the plain keys to marker keys}; lone one-shot key held for {0,1,T-1,T,T+1} ticks, alone and followed by two plain keys at every pair of gaps; exhaustive physically consistent schedules (<= N events) over one one-shot key and two plain keys with gaps {0,1,T-1,T,T+1} (all configurations for N <= 2, a seed-rotated subset for N = 3, 4, thorough: 5); 2-3 one-shot keys tapped in a row with every gap (and re-tapped) followed by two plain keys, exhaustive schedules over 2-3 one-shot keys and plain keys; random long histories with mixed variants and timeouts; 18 one-shot keys tapped / held in a row and at random (more than 16 stacked) and one key tapped 20 times; non-trivial = output changed at least twice; distinct = distinct case line. Oracle on the implementation trace: nothing down at the end of a balanced history; a plain key that is not the first key pressed after the last one-shot key press (press variants) / pressed after the release of a key pressed since then (release variants) comes out unmodified and on its base-layer code; the whole trace equals the run of Spec/OneShot.lean (modifier down from activation until max(1,delay) ticks after the first other press / the tick after the first release / the tick after a pcancel re-press / exactly T ticks after the last activation, held one-shot keys stay down as plain keys) wherever that specification is not silent (<= 16 active, <= 31 pending, uniform variant)',
    'C06o',
    assumptions=['OS output is taken as the key-code list of the layout per tick (the kanata diffing layer is modelled separately)',
                 'ticks are delivered every millisecond: the idle-blocking of the kanata event loop (on the pinned commit is_idle treated oneshot.timeout == 0 as idle, which with rapid-event-delay 0 postponed the release of the one-shot key to the next input) is the subject of C07, not of this layout-level check'])

# t5: families (7)-(9) of harness/src/c06.rs and the per-one-shot-key oracle clause
PROPS['C06']['rule'] += ('. Added after the remarks of round t5: one-shot-pause-processing keys inside the oracle fragment (pressed long before, shortly before and during an activation, at every offset around the pause; a press inside the pause window (+ queue latency bound) is not counted as a following key, one after it is); a one-shot activated by a chords v2 chord at every offset 0-40 ms after the first following key of an earlier one-shot (participants are neither plain nor one-shot keys for the oracle, the chord\'s markers are never forbidden); an XX key / an unmapped position (block-unmapped-keys) as a following key, crafted and exhaustive (no output of its own, but it is the first following non-one-shot key). Oracle clause O2 now speaks per one-shot key: a plain press must not carry the markers of a one-shot key whose first following key (press variants) / first following press-and-release (release variants) lies between that key\'s last press and this press, whatever other one-shot was activated in between')

# ----------------------------------------------------------------------------- C08 (macros)
def _c08_split(case):
    """(head tokens up to HIST, history events, tail tokens from MAC on)"""
    t = case.split()
    hi = t.index('HIST')
    n = int(t[hi + 1])
    evs = []
    i = hi + 2
    for _ in range(n):
        if t[i] in ('p', 'r'):
            evs.append(t[i:i + 3]); i += 3
        else:
            evs.append(t[i:i + 2]); i += 2
    return t[:hi], evs, t[i:]


def _c08_join(head, evs, tail):
    return ' '.join(head + ['HIST', str(len(evs))] + [x for e in evs for x in e] + tail)


def _c08_shrink(case):
    # drop one history event at a time, then halve tick gaps (the macro bodies stay)
    try:
        head, evs, tail = _c08_split(case)
    except Exception:
        return
    for k in range(len(evs)):
        yield _c08_join(head, evs[:k] + evs[k + 1:], tail)
    for k in range(len(evs)):
        if evs[k][0] == 't' and int(evs[k][1]) > 1:
            yield _c08_join(head, evs[:k] + [['t', str(int(evs[k][1]) // 2)]] + evs[k + 1:], tail)


def _c08_describe(case):
    try:
        head, evs, tail = _c08_split(case)
        return {'level': 'whole Kanata (handle_input_event / tick_ms)' if head[0] == 'KAN' else 'bare keyberon Layout (event / tick)',
                'config': _hex_cfg(case), 'history': ' '.join(x for e in evs for x in e),
                'family': tail[-1] if tail else '',
                'CancelSequences_patched_at': tail[tail.index('PATCH') + 2:tail.index('FAM')] if 'PATCH' in tail else []}
    except Exception:
        return case


def _c08_stats(cases, impl):
    import collections
    d = collections.Counter()
    for c, i in zip(cases, impl):
        t = c.split()
        d['level_' + t[0]] += 1
        d['family_' + (t[-1] if 'FAM' in t else '?')] += 1
        d['rejected_by_parser' if i.startswith('rej') else 'crash' if i.startswith('crash') else 'ran'] += 1
        m = re.search(r' EV(\d+)', i)
        if m and int(m.group(1)) > 0:
            d['ring_eviction_observed'] += 1
        cfg = _hex_cfg(c)
        for name in ('macro-repeat-release-cancel-and-cancel-on-press', 'macro-release-cancel-and-cancel-on-press',
                     'macro-repeat-cancel-on-press', 'macro-repeat-release-cancel', 'macro-cancel-on-press',
                     'macro-release-cancel', 'macro-repeat', 'macro'):
            k = len(re.findall(r'\(' + name + r'[ )]', cfg))
            if k:
                d['form_' + name] += k
        steps = len(re.findall(r'[prdc]\d', i.split(' X', 1)[1])) if ' X' in i else 0
        d['expanded_events_0_5' if steps <= 5 else 'expanded_events_6_20' if steps <= 20 else 'expanded_events_21_plus'] += 1
    return dict(d)


PROPS['C08'] = _lay_props(
    ['KVerif.Props.C08'],
    'macro bodies from the macro grammar (keys, delays, output chords, unicode / mouse items, plain groups, groups held under 1-2 modifier prefixes written S-(..) or S- (..), nesting depth <= 3, <= 20 items) in all eight macro list actions (macro, -release-cancel, -cancel-on-press, -release-cancel-and-cancel-on-press, each also as macro-repeat...); every body of <= 2 top-level items over a 4-atom alphabet with one level of nesting (exhaustive); bodies the parser must refuse (bare prefix without list, delay 0 / 65536, O- prefix, other actions, empty body) and boundary delays; histories: one activation, several spaced or overlapping activations, key held over several repeats, plain keys typed meanwhile, random consistent histories over 1-3 macros sharing keys and modifiers; 2-6 macros with their own key pools tapped 1-20 ticks apart while the first still holds its modifier (<= 4: all must play in full; 5-6: the ring of 4 evicts the oldest, which is cut short with its keys released - documented capacity limit); cancellation at EVERY tick offset of the body: CancelSequences (patched in at layout level), release of a release-cancel macro, another press during a cancel-on-press macro. LAY cases run the bare keyberon Layout, KAN cases a whole Kanata (handle_input_event / tick_ms) so that the cancellation glue runs. Compared per tick: key list, custom events (LAY), final private-state digest (+ cancel countdown), the number of ring evictions observed from outside, and the SequenceEvent list the real parser produced for every macro against the parser model run on the body tree. non-trivial = the key list changed at least twice; distinct = distinct case line. Oracle on the implementation trace (Spec/Macro.lean): projection of the key-list trace onto each macro\'s own keys = its spelling run by run (order, one step per tick, spelled delays at least), exactly one run per activation (plain), restarts only while held (repeat), prefix-then-released under cancellation and, when the harness observed a ring eviction on the real code (EV>0), for the macros cut short by it; all macro keys up at the end in every case; plain keys in press order',
    'C08o',
    extra_trusted=['Model/MacroExpand.lean as a transcription of parse_macro / parse_macro_item_impl / the wrapper forms (checked differentially against the real parser on every case), the classification of body items into key / chord / custom / list / prefix is written by the harness generator together with the config text',
                   'Model/MacroCancel.lean as a transcription of the three cancellation sites of src/kanata/mod.rs (checked differentially on whole-Kanata cases)',
                   'gen/g_macro.py (ring capacity and Wrapping behaviour, states capacity, KEY_OVERLAP regenerated from source)'],
    assumptions=['OS output is taken as the key-code list of the layout per tick (LAY) / Kanata::prev_keys per tick (KAN); the press/release diffing is the kanata layer (C01/C13/C14)',
                 'whole-Kanata cases use configurations of plain keys and macros only, so that no other part of handle_keystate_changes touches layout.states',
                 'the oracle says nothing about the projection of a macro whose keys are shared with another macro or a plain key, or whose activations overlap in time (it still requires all keys up at the end)'])
PROPS['C08']['shrink_candidates'] = _c08_shrink
PROPS['C08']['describe'] = _c08_describe
PROPS['C08']['stats'] = _c08_stats

# ----------------------------------------------------------------------------- C09 (input chords)
def _c09_norm(out):
    # the model names the failing assert / expect, the harness prints the Rust panic message
    if out.startswith('crash panic'):
        for needle, site in (('active chords has room', 'active chords has room'),
                             ('oops overflowed drain queue', 'oops overflowed drain queue'),
                             ('too many presses in queue', 'too many presses in queue'),
                             ('overflow.is_ok()', 'drain_releases: presses overflow')):
            if needle in out:
                return f'crash indexOOB({site})'
    return _norm_crash(out)


def _c09_stats(cases, impl):
    import collections
    d = collections.Counter(_lay_stats(cases, impl))
    v2hex = 'defchordsv2'.encode().hex()
    for c, i in zip(cases, impl):
        v2 = v2hex in c.split()[2]
        d['chords_v2' if v2 else 'chords_v1'] += 1
        if i.startswith('crash'):
            d['crash_v2_active_chords_full' if 'active chords has room' in i else 'crash_other'] += 1
        if v2 and re.search(r'[K,](\d+),(?:\d+,)*\1[, ]', i):
            d['v2_same_key_twice_in_list'] += 1
    return dict(d)


PROPS['C09'] = _lay_props(['KVerif.Props.C09', 'KVerif.Props.C09V2', 'KVerif.Props.C09V2cap', 'KVerif.Props.C09kan', 'KVerif.Props.C09V2full'],
    'chords v1 (defchords) and v2 (defchordsv2) tables over 2-5 participating keys whose actions are marker keys (11 fixed tables: single chord, with singletons, overlapping, sub-chords, undefined supersets; plus random tables; v2: both release behaviours, entries disabled on the second layer, chords-v2-min-idle variants); for every target set S (|S| >= 2, defined or not): every permutation of the press order x every release order x timing variants (span first-to-last press 0, 1, T-2, T-1, T, T+1, 2T+3 placed before the last press / after the first press / spread; release immediately or after the timeout), exhaustive for |S| <= 4 (v2 families sampled in the quick tier) and sampled for |S| = 5; the same sets typed on the layer where the keys are plain / the chord is disabled; a non-chord key inside the window; the capacity scenario (one chord pressed 9-12 times without release); v2 chords with 15/16/17/20 participants (whatever the parser accepts has to fire); random physically consistent histories over chord keys, plain keys and the layer key incl. bursts > 32 events; non-trivial = output changed at least twice; distinct = distinct case line. Oracle on the implementation trace. v1: for clean histories the sequence of marker down-transitions equals the greedy decomposition of the press order computed from the table alone (whole set fires once, no participant singleton, two bursts a timeout apart fire separately, a non-chord key inside the window splits it and is delivered in between); no marker on the plain layer. v2: a defined set completed within its timeout fires its marker exactly once (never two copies), no participant key is output, the marker goes up after the first / last participant release per the release rule and not before; completed later than the timeout it does not fire. Both: everything up at the end and within a bound after the last release; keys outside the chords in press order',
    'C09o',
    extra_trusted=['Model/ChordsV2.lean as a transcription of keyberon/src/chord.rs (after the fixes <fix-capacity>, <fix-cooldown>, <fix-double>; the behaviour before them is kept in Model/ChordsV2Pinned.lean for the counterexample theorems only) and of the chords-v2 hooks of Layout::event / Layout::tick (checked differentially per run incl. a digest of the private ChordsV2 state through hook verif_digest_chv2)'],
    assumptions=['OS output is taken as the key-code list of the layout per tick (the kanata diffing layer is modelled separately)',
                 'v1 theorems assume the table masks are pairwise distinct where they identify "the" chord of a key set (the parser keeps them in a hash map) and delay <= 65535 (u16)',
                 'v2 integration is a wrapper around the layout model: a one-shot key evicted from the full one-shot list (17 active) re-enters Layout::event, which in Rust feeds the v2 queue; the model feeds the layout queue (not generated)',
                 'the statement is silent on which sub-chords fire for an undefined v2 key set (v2 has no decomposition), and on a v2 chord completed exactly `timeout` ticks after its first key (the implementation\'s window is one tick longer than configured)'])
# crash sites are compared by name (the model names the assert, the harness prints the panic text)
PROPS['C09']['norm_impl'] = _c09_norm
PROPS['C09']['norm_model'] = lambda o: o if o.startswith('crash indexOOB(') else _norm_crash(o)
PROPS['C09']['stats'] = _c09_stats

# BEGIN t3: C09 source-level oracle for defchords (v1) -----------------------------------------
# The resolved ChordsGroup the parser builds no longer says WHICH chord key a `(chord g k)` cell
# names (one shared table of coordinates for all layers), so whether the parser placed the chord keys
# as the configuration spells them out can only be judged from the configuration text. Cases the Lean
# oracle skips (a chord action inside a tap-hold, or on a layer other than the first) are judged here,
# for one narrow shape: cells that are a key, `(chord g k)`, `(tap-hold n n key (chord g k))`,
# `(tap-hold-release n n key (chord g k))`, `(layer-switch l)`, `(layer-while-held l)`; one defchords
# group whose actions are plain marker keys; history = [tap or hold of ONE layer key,] distinct chord
# cells pressed between two ticks, held past every timeout, released, quiet tail. Required: the
# marker of the chord formed by the chord keys the pressed cells name ON THE LAYER IN FORCE goes down
# exactly once and no other marker does.
_C09_CODES = {'1': 2, '2': 3, '3': 4, '4': 5, '5': 6, '6': 7, '7': 8, '8': 9, '9': 10, '0': 11, 'q': 16, 'w': 17, 'e': 18,
              'r': 19, 't': 20, 'y': 21, 'u': 22, 'i': 23, 'o': 24, 'p': 25, 'a': 30, 's': 31, 'd': 32, 'f': 33, 'g': 34,
              'h': 35, 'j': 36, 'k': 37, 'l': 38, 'z': 44, 'x': 45, 'c': 46, 'v': 47, 'b': 48, 'n': 49, 'm': 50}


def _sexprs(text):
    toks = re.findall(r'[()]|[^\s()]+', re.sub(r';;[^\n]*', '', text))
    pos = 0

    def rd():
        nonlocal pos
        t = toks[pos]; pos += 1
        if t == '(':
            l = []
            while toks[pos] != ')':
                l.append(rd())
            pos += 1
            return l
        return t
    out = []
    while pos < len(toks):
        out.append(rd())
    return out


def _c09_src_oracle(case, impl):
    if not case.startswith('LAY ') or impl.startswith(('rej', 'crash')):
        return None
    try:
        forms = _sexprs(_cfg_text(case))
    except Exception:
        return None
    src = [f for f in forms if f and f[0] == 'defsrc']
    layers = [f for f in forms if f and f[0] == 'deflayer']
    groups = [f for f in forms if f and f[0] == 'defchords']
    if len(src) != 1 or len(groups) != 1 or not layers or any(f[0] not in ('defcfg', 'defsrc', 'deflayer', 'defchords') for f in forms):
        return None
    g = groups[0]
    gname, gto = g[1], int(g[2])
    table = {}
    for ks, act in zip(g[3::2], g[4::2]):
        if not isinstance(ks, list) or not isinstance(act, str) or act not in _C09_CODES:
            return None
        table[frozenset(ks)] = _C09_CODES[act]
    markers = set(table.values())
    keys = src[0][1:]
    if any(k not in _C09_CODES for k in keys) or markers & {_C09_CODES[k] for k in keys}:
        return None
    lnames = [l[1] for l in layers]
    cells = {}          # (layer index, key code) -> ('key', code) | ('chord', k, wait) | ('sw', i) | ('wh', i)
    for li, l in enumerate(layers):
        if len(l) != 2 + len(keys):
            return None
        for k, c in zip(keys, l[2:]):
            kc = _C09_CODES[k]
            if isinstance(c, str):
                if c == '_' or c not in _C09_CODES or _C09_CODES[c] in markers:
                    return None
                cells[(li, kc)] = ('key', _C09_CODES[c])
            elif c[0] == 'chord' and len(c) == 3 and c[1] == gname:
                cells[(li, kc)] = ('chord', c[2], 0)
            elif c[0] in ('tap-hold', 'tap-hold-release') and len(c) == 5 and isinstance(c[4], list) and c[4][0] == 'chord' and c[4][1] == gname and isinstance(c[3], str):
                cells[(li, kc)] = ('chord', c[4][2], int(c[2]))
            elif c[0] in ('layer-switch', 'layer-while-held') and len(c) == 2 and c[1] in lnames:
                cells[(li, kc)] = ('sw' if c[0] == 'layer-switch' else 'wh', lnames.index(c[1]))
            else:
                return None
    t = case.split()
    hi = t.index('HIST')
    evs, i = [], hi + 2
    while i < len(t):
        if t[i] in ('p', 'r'):
            if t[i + 1] != '0':
                return None
            evs.append((t[i], int(t[i + 2]))); i += 3
        elif t[i] == 't':
            evs.append(('t', int(t[i + 1]))); i += 2
        else:
            return None
    if not evs or evs[-1][0] != 't' or evs[-1][1] < 300:
        return None
    layer, held_layer_key = 0, None
    j = 0
    # optional layer key first
    if evs[0][0] == 'p' and cells.get((0, evs[0][1]), ('', 0))[0] in ('sw', 'wh'):
        kind, tgt = cells[(0, evs[0][1])]
        lk = evs[0][1]
        if len(evs) < 4 or evs[1][0] != 't' or evs[1][1] < 5:
            return None
        if kind == 'sw':
            if evs[2] != ('r', lk) or evs[3][0] != 't' or evs[3][1] < 5:
                return None
            j = 4
        else:
            held_layer_key = lk
            j = 2
        layer = tgt
    body = evs[j:-1]
    if held_layer_key is not None:
        if not body or body[-1] != ('r', held_layer_key):
            return None
        body = body[:-1]
    # presses (no tick in between), one tick, releases (ticks allowed)
    n = 0
    while n < len(body) and body[n][0] == 'p':
        n += 1
    pressed = [k for _, k in body[:n]]
    if n == 0 or n >= len(body) or body[n][0] != 't' or len(set(pressed)) != n:
        return None
    rest = body[n + 1:]
    if sorted(k for e, k in rest if e == 'r') != sorted(pressed) or any(e == 'p' for e, _ in rest):
        return None
    cs = [cells.get((layer, k)) for k in pressed]
    if any(c is None or c[0] != 'chord' for c in cs):
        return None
    wait = max(c[2] for c in cs)
    if wait > 0 and n != 1:
        return None          # a wrapped chord key: judged alone only (documented: wrappers apply to the first key)
    if body[n][1] < wait + gto + 20:
        return None
    want = table.get(frozenset(c[1] for c in cs))
    if want is None:
        return None
    downs, prev = [], []
    for m in re.finditer(r'@(\d+) K(\S+)', _lay_keys_only(impl)):
        cur = [] if m.group(2) == '-' else [int(x) for x in m.group(2).split(',')]
        downs += [k for k in dict.fromkeys(cur) if k in markers and k not in prev]
        prev = cur
    if downs != [want]:
        return f'fail defchords as written: the pressed cells name the chord keys {sorted(c[1] for c in cs)} on layer {lnames[layer]}, whose action is key {want}; marker downs {downs}'
    return 'ok'


PROPS['C09']['free_oracle'] = _c09_src_oracle
# END t3 ---------------------------------------------------------------------------------------

# ----------------------------------------------------------------------------- C03
def _c03_fields(out):
    return dict((f.split(' ', 1) + [''])[:2] for f in out.split(' | ')) if ' | ' in out or out.startswith(('fe ', 'load ')) else {}


def _c03_norm(out):
    """The model predicts the loader's diagnostic exactly only when the modelled front end produces it
    (lexical/parenthesis errors; template errors when nothing runs before template expansion).
    Otherwise any non-crashing outcome with an in-bounds location is the single class `total`.
    The trailing ` | msg ...` field is statistics only."""
    parts = [p for p in out.split(' | ') if not p.startswith('msg ')]
    f = _c03_fields(' | '.join(parts))
    if 'load' not in f:
        return ' | '.join(parts)
    predicted = f.get('fe', '').startswith('err') or (f.get('tp', '').startswith('err') and f.get('pre', '') == '0')
    load = f['load']
    if not predicted and (load == 'ok' or load == 'diag none' or re.fullmatch(r'diag in (main|inc) \d+ \d+', load)):
        parts = [('load total' if p.startswith('load ') else p) for p in parts]
    return ' | '.join(parts)


def _c03_project(out):
    f = _c03_fields(out)
    load = f.get('load', out)
    if load in ('ok', 'total', 'diag none') or re.fullmatch(r'diag in (main|inc) \d+ \d+', load):
        # every other field must not be a crash of the real front-end functions either
        for k, v in f.items():
            if k != 'load' and v.startswith('crash'):
                return out
        return 'total'
    return out


def _c03_kind(case):
    t = case.split(' ')
    return t[2].split(':')[0] if len(t) > 2 else '?'


def _c03_nontrivial(case, impl):
    # a case counts when the text got past the lexer (a tree was built) or exercised a lexical error path,
    # i.e. everything except unparseable harness lines
    return not impl.startswith('harness-error')


def _c03_stats(cases, impl):
    import collections
    d = collections.Counter()
    msgs = set()
    for c, i in zip(cases, impl):
        t = c.split(' ')
        d['kind_' + _c03_kind(c)] += 1
        d['mode_' + t[1]] += 1
        n = len(t[3]) // 2 if len(t) > 3 and t[3] != '-' else 0
        d['text_lt_256B' if n < 256 else 'text_lt_4KiB' if n < 4096 else 'text_ge_4KiB'] += 1
        f = _c03_fields(' | '.join(p for p in i.split(' | ')))
        load = f.get('load', i)
        d['load_' + ('ok' if load == 'ok' else 'diag_nospan' if load == 'diag none' else 'diag_span' if load.startswith('diag in ') else 'CRASH_OR_OUT')] += 1
        fe = f.get('fe', '')
        d['fe_' + (fe.split(' ')[0] if fe else 'none')] += 1
        if fe.startswith('err'):
            d['fe_err_' + fe.split(' ')[-1]] += 1
        tp = f.get('tp', '')
        if tp:
            d['tp_' + tp.split(' ')[0]] += 1
        if 'msg' in f:
            msgs.add(f['msg'])
        if len(t) > 4:
            d['with_include_files'] += 1
    d['distinct_diagnostic_messages'] = len(msgs)
    return dict(d)


def _c03_describe(case):
    import binascii
    t = case.split(' ')
    try:
        un = lambda h: binascii.unhexlify(h if h != '-' else '').decode('utf-8', 'replace')
        s = f'mode={t[1]} ({"cfg::new_from_str" if t[1] == "s" else "cfg::new_from_file"}) generator={t[2]}\n--- configuration text ---\n{un(t[3])}'
        for inc in t[4:]:
            n, c = inc.split(':')
            s += f'\n--- file {un(n)} ---\n{un(c)}'
        return s
    except Exception:
        return case


def _c03_shrink(case):
    """smaller case lines: drop include files, drop top-level forms, drop lines, halve the text"""
    import binascii
    t = case.split(' ')
    if len(t) < 4:
        return
    try:
        text = binascii.unhexlify(t[3] if t[3] != '-' else '').decode('utf-8')
    except Exception:
        return
    enc = lambda s: binascii.hexlify(s.encode()).decode() or '-'
    mk = lambda s, incs=t[4:]: ' '.join(t[:3] + [enc(s)] + list(incs))
    for k in range(len(t[4:])):
        yield ' '.join(t[:4] + t[4:4 + k] + t[5 + k:])
    # top-level forms (balanced parentheses at depth 0, ignoring strings/comments: good enough to shrink)
    forms, depth, start = [], 0, None
    for i, ch in enumerate(text):
        if ch == '(':
            if depth == 0:
                start = i
            depth += 1
        elif ch == ')':
            depth = max(0, depth - 1)
            if depth == 0 and start is not None:
                forms.append((start, i + 1)); start = None
    if 1 < len(forms) <= 400:
        for a, b in forms:
            yield mk(text[:a] + text[b:])
    lines = text.split('\n')
    if 1 < len(lines) <= 400:
        for k in range(len(lines)):
            yield mk('\n'.join(lines[:k] + lines[k + 1:]))
    n = len(text)
    if n > 1:
        yield mk(text[:n // 2]); yield mk(text[n // 2:])
    if n <= 200:
        for k in range(n):
            yield mk(text[:k] + text[k + 1:])


PROPS['C03'] = {
    'lean_modules': ['KVerif.Props.C03', 'KVerif.Props.C03vars'],
    'norm_impl': _c03_norm,
    'oracle_project': _c03_project,
    'nontrivial': _c03_nontrivial,
    'shrink_candidates': _c03_shrink,
    'describe': _c03_describe,
    'per_case_timeout': 0.05,
    'rule': 'every case is a UTF-8 text (<= 64 KiB, parenthesis depth <= 200) with its include files, loaded by cfg::new_from_str or '
            '(1 in 8) cfg::new_from_file; generated as: the 6 reproduced defects of DESIGN §7 and hand-written variable/template texts; '
            'every cfg_samples/*.kbd, every docs/config.adoc listing that reads as s-expressions (completed with defsrc/deflayer), every '
            '"(def"-containing string literal of parser/src/cfg/tests*, src/tests*, and parser/test_cfgs/*.kbd, unmodified and under 1-3 '
            'structure-aware mutations (delete/duplicate/swap/splice/wrap/unwrap sub-expressions, atom -> (), number -> boundary value, '
            'name -> unknown or (list-/atom-/concat-) self-referential variable or alias, truncate/extend argument lists, rename list head to '
            'any list action, odd atoms and parser keywords, template wrappers, top-level reordering); every list action of list_actions.rs '
            'with 0..5 arguments of plausible kinds in 17 contexts; top-level items and defcfg options with odd arguments; dictionary/chord '
            'files for defzippy and defchordsv2 include; nesting to depth 197; bounded doubling; a seed split into main + mutated included '
            'file; raw character-level mutations (quotes, raw-string and comment delimiters, BOM, multi-byte characters, truncation); all '
            'strings of <= 3 front-end tokens and random longer ones; defvar reference graphs (tag vg: all 512 graphs on three list-valued '
            'variables, and random graphs on 2..7 variables with random definition order, item boundaries and value shapes - bare $name, '
            'nested lists, concat over earlier/later variables, a reference produced by concat - about half of them cyclic; every '
            'variable is used in the layer). A case is non-trivial unless the harness rejects the line; distinct = '
            'distinct case line. Compared with the model: sexpr::parse (tree, spans, line counters, diagnostic class), expand_templates, '
            'parse_vars + $name resolution, and the loader\'s diagnostic whenever the modelled front end produces it.',
    'stats': _c03_stats,
    'trusted_base': ['Model/SExpr.lean and Model/Template.lean as transcriptions of cfg/sexpr.rs, cfg/deftemplate.rs, parse_vars/parse_list_var/push_all_atoms '
                     'of cfg/mod.rs and str_ext.rs (checked differentially on every case, not proved)',
                     'the oracle in harness/src/c03.rs (reads span and attached source of the miette report; renders it with {:?})',
                     'miette 5.10 rendering and the ~90 per-action argument parsers of cfg/mod.rs: exercised, not modelled',
                     'hook verif_parse_vars (cfg(jtroo_kanata_verif), add-only wrapper around the private parse_vars)'],
    'assumptions': ['the text is valid UTF-8 (a Rust &str); theorems about the model carry no size or depth bound',
                    'correspondence and oracle: text <= 64 KiB, parenthesis depth <= 200, per-case watchdog of the runner (hang = no answer within the batch budget)',
                    'the green check depends on fix-1..fix-8 being applied to the source (see KNOWN_FINDINGS.jsonl / report); on the pinned source it reports the first unrepaired defect'],
}


PROPS['C10']['describe'] = lambda c: _lay_describe(c) if c.startswith('KAN') else c
PROPS['C10']['shrink_candidates'] = lambda c: _lay_shrink(c) if c.startswith('KAN') else []
PROPS['C10']['determined'] = lambda case, out: _kan_evseq(case, out) if case.startswith('KAN') else out
PROPS['C10']['determined_what'] = 'the order of the events sent to the OS (layout-level fork/switch cases), the opcodes and firing cases otherwise'


def _c01_free_oracle(case, impl):
    """configurations outside the kanata-level model: the statement's observable on the real trace
    alone - nothing down at the OS after the quiet tail, idle reported"""
    if ' :: TRACE ' not in impl or ' HIST ' not in case:
        return None
    # the clause speaks about balanced histories followed by a quiet tail
    toks = case.split(' HIST ')[1].split(' ')[1:]
    down, i, last_tick = set(), 0, 0
    while i < len(toks):
        if toks[i] in ('p', 'r') and i + 2 < len(toks) + 0:
            key = (toks[i + 1], toks[i + 2])
            if toks[i] == 'p':
                if key in down:
                    return None
                down.add(key)
            else:
                if key not in down:
                    return None
                down.discard(key)
            last_tick = 0
            i += 3
        elif toks[i] == 't':
            last_tick = int(toks[i + 1])
            i += 2
        else:
            return None
    if down or last_tick < 2000:
        return None
    tr = impl.split(' :: TRACE ')[1]
    fin = _kan_final(case, tr)
    if fin == 'down= idle=1':
        return 'ok'
    return 'fail outside the model: at the end of the quiet tail ' + fin


PROPS['C01']['free_oracle'] = _c01_free_oracle

# C14v2: `KOT` cases - the key-output table itself for configurations with chords v2
def _c14_is_kot(case):
    return case.startswith('KOT ')


def _c14_kot_shrink(case):
    """KOT cases: drop one chord (one line of the defchordsv2 block) or the override table"""
    t = case.split()
    try:
        lines = bytes.fromhex(t[2]).decode().split('\n')
    except Exception:
        return
    def mk(ls):
        return ' '.join([t[0], t[1], '\n'.join(ls).encode().hex()] + t[3:])
    for k, l in enumerate(lines):
        if l.startswith('  (') or l.startswith('(defoverrides'):
            yield mk(lines[:k] + lines[k + 1:])


def _c14_wrap(kot, other):
    return lambda case, *a: (kot if _c14_is_kot(case) else other)(case, *a)


def _c14_kot_nontrivial(case, impl):
    # a table was built for a configuration with chords v2
    return impl.startswith('TBL') and 'defchordsv2' in _cfg_text(case)


def _c14_stats(cases, impl):
    d = _lay_stats([c for c in cases if not _c14_is_kot(c)], [i for c, i in zip(cases, impl) if not _c14_is_kot(c)])
    kot = [(c, i) for c, i in zip(cases, impl) if _c14_is_kot(c)]
    d['kot_cases'] = len(kot)
    d['kot_table_built'] = sum(1 for _, i in kot if i.startswith('TBL'))
    d['kot_rejected_by_parser'] = sum(1 for _, i in kot if i.startswith('rej'))
    d['kot_with_overrides'] = sum(1 for c, _ in kot if 'defoverrides' in _cfg_text(c))
    d['kot_some_chord_disabled_on_some_layer'] = sum(1 for c, i in kot if i.startswith('TBL') and re.search(r'\((l\d ?)+\)\n', _cfg_text(c)))
    return d


PROPS['C14']['lean_modules'] = PROPS['C14']['lean_modules'] + ['KVerif.Props.C14v2']
PROPS['C14']['determined'] = _c14_wrap(lambda case, out: out, _kan_repeats)
PROPS['C14']['determined_what'] = 'what each OS repeat event produced; for KOT cases: the key-output table, row by row'
PROPS['C14']['nontrivial'] = _c14_wrap(_c14_kot_nontrivial, PROPS['C14']['nontrivial'])
PROPS['C14']['shrink_candidates'] = _c14_wrap(_c14_kot_shrink, PROPS['C14']['shrink_candidates'])
PROPS['C14']['stats'] = _c14_stats
PROPS['C14']['rule'] += ('; KOT cases: random configurations with 1-4 layers over 3-6 keys (whole action grammar), 1-5 defchordsv2 chords with '
                         'overlapping participants (2-3 keys, sometimes one outside defsrc), a random set of disabled layers per chord, chord '
                         'actions from the whole grammar (multi / tap-hold / fork / switch / one-shot / unmod inside chords), one in three with '
                         'global overrides: the table Model/KeyOutputsV2.lean builds from the serialised layers and chords-v2 mapping is compared '
                         'row by row, order included, with the table of the real parser; oracle on the real table: every row holds exactly the '
                         'leaves of the key\'s action and of the chords enabled on that layer plus their override outputs')

# C08, OS-level slice: `KOS` lines are generic kanata-level lines (harness kan::eval_free / kan::expand,
# driver Kan.run "KOS"): macros whose bodies hold custom items (mouse buttons, unmod / unshift keys,
# unicode, wheel, virtual-key taps), compared with the kanata-level model on the whole OS event trace
# and judged without a model by _c08_os_oracle
def _c08_os_hist(case):
    """history events of a KOS line: [('p', y) | ('r', y) | ('t', n)]"""
    t = case.split(' HIST ', 1)[1].split()
    evs = []
    i = 1
    while i < len(t):
        if t[i] in ('p', 'r'):
            evs.append((t[i], int(t[i + 2]))); i += 3
        elif t[i] == 't':
            evs.append(('t', int(t[i + 1]))); i += 2
        else:
            return None
    return evs


def _c08_os_events(impl):
    """OS events of a kanata-level trace, in order, virtual times dropped"""
    if ' :: TRACE ' in impl:
        impl = impl.split(' :: TRACE ')[1]
    res = []
    for tok in impl.split(' || ')[0].split(' '):
        if tok in ('I', 'D'):
            break
        if tok.startswith(('@', '#')) or tok == '-':
            continue
        res.append(tok)
    return res


def _c08_os_oracle(case, impl):
    """OS-level clauses of C08 on the implementation's own trace (KOS lines only):
    (1) after a balanced history and the quiet tail the configuration asks for (`;; settle <n>`),
        nothing is down at the OS - neither a key nor a mouse button;
    (2) one uninterrupted activation (the only input is a tap of the macro key) of a macro that plays
        its list in full (`;; expect-os <key> <events>`: plain macro, macro-cancel-on-press) sends the
        OS exactly the spelled list, in order: keys down/up, button click/release, unicode, wheel"""
    if not case.startswith('KOS '):
        return None
    if impl.startswith(('rej', 'harness-error')):
        return None
    if impl.startswith('crash'):
        return 'fail crash while a macro plays: ' + impl[:120]
    if impl.startswith('unsupported') and ' :: TRACE ' not in impl:
        return None
    cfg = _cfg_text(case)
    m = re.search(r';; settle (\d+)', cfg)
    hist = _c08_os_hist(case)
    if not m or hist is None:
        return None
    settle = int(m.group(1))
    down = []
    ok = True
    for k, v in hist:
        if k == 'p':
            ok = ok and v not in down
            down.append(v)
        elif k == 'r':
            ok = ok and v in down
            down = [x for x in down if x != v]
    balanced = ok and not down
    tail = hist[-1][1] if hist and hist[-1][0] == 't' else 0
    if not balanced or tail < settle:
        return None
    evs = _c08_os_events(impl)
    held = []
    for e in evs:
        mm = re.fullmatch(r'(d|u|bd|bu)(\d+)', e)
        if not mm:
            continue
        key = ('btn' if mm.group(1).startswith('b') else 'key') + mm.group(2)
        if mm.group(1) in ('d', 'bd'):
            if key not in held:
                held.append(key)
        else:
            held = [x for x in held if x != key]
    if held:
        return 'fail still down at the OS after the macro ended / was cancelled and %d quiet ms: %s' % (tail, ','.join(held))
    inputs = [(k, v) for k, v in hist if k != 't']
    # (3) cancel-on-press forms (family os-cancel-press, non-repeating: the macro key is tapped, then
    #     the plain key is pressed): once the plain key's press has reached the OS the macro is
    #     cancelled - it may release what it holds but must not press, click or type anything further
    # (t5) only a key pressed at least one tick after the macro key: the trigger "is enabled while the
    # macro is in progress", and a press that arrives in the very millisecond of the macro key's press
    # is handled before the macro has started (a shrunk history reached that corner: false alarm)
    t_acc, n_in, gap_ok = 0, 0, False
    for k, v in hist:
        if k == 't':
            t_acc += v
        else:
            n_in += 1
            if n_in == 3:
                gap_ok = t_acc >= 1
    if _c08_os_family(case) == 'os-cancel-press' and len(inputs) == 4 and inputs[2][0] == 'p' and gap_ok:
        other = str(inputs[2][1])
        tr = impl.split(' :: TRACE ')[1] if ' :: TRACE ' in impl else impl
        t_now, t_other = 0, None
        for tok in tr.split(' || ')[0].split(' '):
            if tok in ('I', 'D'):
                break
            mt = re.fullmatch(r'@(\d+)R?', tok)
            if mt:
                t_now = int(mt.group(1))
                continue
            if tok == 'd' + other and t_other is None:
                t_other = t_now
                continue
            if t_other is not None and t_now > t_other + 2 and re.match(r'(d\d|bd\d|U\+|uc|w[udlr])', tok) and tok != 'd' + other:
                return ('fail macro not cancelled: the cancelling key reached the OS at %d, the macro still sent %s at %d'
                        % (t_other, tok, t_now))
    # (4) (t5) `;; expect-os-proj <macro key> <k,k,..> <events>`: other keys are typed meanwhile (family
    #     os-seq-macro: a defseq sequence typed or completed while the macro holds a modifier group);
    #     the OS events of the macro's own keys must be the spelled list, whatever else is sent
    for mp in re.finditer(r';; expect-os-proj (\d+) ([\d,]+) ([^\n]*)', cfg):
        y, keys, want = int(mp.group(1)), set(mp.group(2).split(',')), mp.group(3).split()
        if sum(1 for k, v in inputs if k == 'p' and v == y) != 1:
            continue
        got = [e for e in evs if re.fullmatch(r'[du](\d+)', e) and e[1:] in keys]
        if got != want:
            return ('fail macro projection: other keys were typed while the macro played; projected onto the macro\'s own keys '
                    'the OS received [%s], the list spells [%s]' % (' '.join(got), ' '.join(want)))
    if len(inputs) == 2 and inputs[0][0] == 'p' and inputs[1] == ('r', inputs[0][1]):
        y = inputs[0][1]
        mm = re.search(r';; expect-os %d ([^\n]*)' % y, cfg)
        if mm:
            want = mm.group(1).split()
            if evs != want:
                import collections
                ce, cw = collections.Counter(evs), collections.Counter(want)
                kind = ('order' if ce == cw else 'fewer' if not (ce - cw) else 'more' if not (cw - ce) else 'other')
                # `;; tight-custom <key>`: in the body a custom item is directly followed by the next
                # item (no delay of >= 3 ms in between); computed by the generator from the body alone
                tight = ' (a custom item is directly followed by the next item)' if re.search(r';; tight-custom %d\b' % y, cfg) else ''
                return 'fail macro %s%s: the OS received [%s], the list spells [%s]' % (kind, tight, ' '.join(evs), ' '.join(want))
    return 'ok'


def _c08_os_family(case):
    m = re.search(r';; family (\S+)', _cfg_text(case))
    return m.group(1) if m else '?'


def _c08_describe2(case):
    if case.startswith('KOS '):
        d = _lay_describe(case)
        if isinstance(d, dict):
            d['level'] = 'whole Kanata, OS event trace (handle_input_event / tick_ms, simulated output sink)'
            d['family'] = _c08_os_family(case)
        return d
    return _c08_describe(case)


def _c08_stats2(cases, impl):
    import collections
    own = [(c, i) for c, i in zip(cases, impl) if not c.startswith('KOS ')]
    d = collections.Counter(_c08_stats([c for c, _ in own], [i for _, i in own]))
    for c, i in zip(cases, impl):
        if not c.startswith('KOS '):
            continue
        d['level_KOS'] += 1
        d['os_family_' + _c08_os_family(c)] += 1
        v = _c08_os_oracle(c, i)
        d['os_oracle_' + ('not-applicable' if v is None else '-'.join(v.split(':')[0].split(' (')[0].split(' ')[:3]))] += 1
        cfg = _cfg_text(c)
        inputs = [e for e in (_c08_os_hist(c) or []) if e[0] != 't']
        if v is not None and len(inputs) == 2 and re.search(r';; expect-os %d ' % inputs[0][1], cfg):
            d['os_spelled_list_compared'] += 1
            if ';; tight-custom' in cfg:
                d['os_spelled_list_compared_tight'] += 1
        evs = _c08_os_events(i)
        for name, pat in (('button', r'b[du]\d'), ('unicode', r'U\d'), ('wheel', r's\d'), ('key', r'[du]\d')):
            if any(re.match(pat, e) for e in evs):
                d['os_trace_has_' + name] += 1
    return dict(d)


PROPS['C08']['free_oracle'] = _c08_os_oracle
PROPS['C08']['describe'] = _c08_describe2
PROPS['C08']['stats'] = _c08_stats2
PROPS['C08']['determined'] = lambda case, out: _kan_evseq(case, out) if case.startswith('KOS ') else _lay_keyseq(case, out)
PROPS['C08']['determined_what'] = 'the order in which the key list sent to the OS changes, tick numbers aside (LAY / KAN lines); the order of the events sent to the OS - keys, mouse buttons, wheel, unicode - virtual times aside (KOS lines)'
PROPS['C08']['rule'] += ('. OS-level slice (KOS lines: whole Kanata with the simulated output sink, compared with the kanata-level model on every OS event): 1-3 macros in all eight list actions whose bodies mix keys, output chords, held groups and delays with custom items - mouse buttons held and tapped, unmod / unshift keys, unicode, vertical and horizontal wheel, virtual-key taps on press and on release; every atom alone, every pair, under a held modifier, triples of custom items before a key (exhaustive); one activation; repeating forms held over several runs; release-cancel and cancel-on-press at every tick offset; two macros overlapping at every offset and random histories over 2-3 macros; a key with a custom action of its own pressed / released / tapped at every tick offset of the macro so that two custom events fall into one tick. Model-free oracle on the real trace: nothing (key or button) down at the OS after a balanced history and the quiet tail; one uninterrupted activation of a plain or cancel-on-press macro sends exactly the spelled list (carried in the configuration text as ;; expect-os)')
# t5: (d2) / (d3) families of harness/src/c08.rs gen_os and clause (4) of _c08_os_oracle
PROPS['C08']['rule'] += ('. Added after round t5: two cancel-on-press macros started together by one key (multi), long and short in both orders, another key pressed while the longer one is in progress (clause (3): it must be cancelled; only for a key pressed at least one tick after the macro key); a defseq sequence (plain, chorded with the left / right modifier key, all three input modes) typed during the delay of a macro that holds a modifier group, or completed by the macro\'s own keys (visible mode): the OS events projected onto the macro\'s own keys are the spelled list (;; expect-os-proj)')
PROPS['C08']['trusted_base'] = PROPS['C08']['trusted_base'] + ['Model/Kanata.lean as a transcription of src/kanata/mod.rs (KOS lines: checked differentially on OS events with virtual-time stamps, the idle flag and the layout digest)', 'the spelled OS event list of a macro body is written by the harness generator together with the configuration text (harness/src/c08.rs os_expect)']


def _c18_free_oracle(case, impl):
    """virtual keys in configurations outside the kanata-level model (chords v2 present): on the real
    trace every down interval of a key named by `;; held-at-most <code> <n>` lasts at most n ticks and
    the key is up at the end"""
    if ' :: TRACE ' not in impl:
        return None
    lim = dict((m.group(1), int(m.group(2))) for m in re.finditer(r';; held-at-most (\d+) (\d+)', _cfg_text(case)))
    if not lim:
        return None
    t_now, since = 0, {}
    for tok in impl.split(' :: TRACE ')[1].split(' '):
        if tok in ('I', 'D'):
            break
        mt = re.fullmatch(r'@(\d+)R?', tok)
        if mt:
            t_now = int(mt.group(1))
            continue
        m = re.fullmatch(r'([du])(\d+)', tok)
        if m and m.group(2) in lim:
            if m.group(1) == 'd':
                since.setdefault(m.group(2), t_now)
            else:
                t0 = since.pop(m.group(2), None)
                if t0 is not None and t_now - t0 > lim[m.group(2)]:
                    return f'fail virtual key output {m.group(2)} stayed down for {t_now - t0} ticks (at most {lim[m.group(2)]} expected)'
    if since:
        return 'fail virtual key output still down at the end: ' + ','.join(sorted(since))
    return 'ok'


PROPS['C18']['free_oracle'] = _c18_free_oracle


# ---- C17 intent oracle (t1): dance lists the parser rebuilds, judged against the written intent
def _c17_intent_oracle(case, impl):
    """tap-dance lists mixing plain keys with actions the parser rebuilds after parsing (switch /
    chord, alone or inside fork / multi): the layout model runs on what the REAL parser built, so the
    correspondence cannot see a wrongly built list.  The generator writes the intent into the
    configuration text (`;; dance-expect <eager> <T> <key code of position 1> ...`); for histories
    made of complete taps of the dance key well inside T, optionally one tap of the plain key, and
    a long tail, the keys that go down must be, in order: lazy - for every full run of len taps the
    last listed output (list exhausted), then the output of position r for the r taps left over,
    then the plain key; eager - position 1, 2, ... one per tap (starting over after the list is
    exhausted), then the plain key.  Each must be released again by the end."""
    m = re.search(r';; dance-expect ([01]) (\d+) ([\d ]+)', _cfg_text(case))
    if not m:
        return None
    eager, T, outs = m.group(1) == '1', int(m.group(2)), m.group(3).split()
    if impl.startswith(('rej', 'crash', 'unsupported')):
        return 'fail dance-intent: ' + impl[:80]
    toks = case.split(' HIST ', 1)[1].split(' ')[1:]
    evs, i = [], 0
    while i < len(toks):
        if toks[i] in ('p', 'r'):
            evs.append((toks[i], toks[i + 2]))
            i += 3
        elif toks[i] == 't':
            evs.append(('t', int(toks[i + 1])))
            i += 2
        else:
            return None
    # shape: (p a, t g, r a, t g)* [p b, t g, r b, t g] t tail
    j, n, gaps_ok = 0, 0, True
    while j + 3 < len(evs) and evs[j] == ('p', '30') and evs[j + 1][0] == 't' and evs[j + 2] == ('r', '30') and evs[j + 3][0] == 't':
        gaps_ok = gaps_ok and 1 <= evs[j + 1][1] and evs[j + 1][1] + evs[j + 3][1] + 2 < T
        n += 1
        j += 4
    with_b = False
    if j + 3 < len(evs) and evs[j] == ('p', '48') and evs[j + 1][0] == 't' and evs[j + 2] == ('r', '48') and evs[j + 3][0] == 't':
        with_b = True
        j += 4
    if n == 0 or not gaps_ok or j != len(evs) - 1 or evs[j][0] != 't' or evs[j][1] < T + 60:
        return None
    L = len(outs)
    if eager:
        exp = [outs[k % L] for k in range(n)]
    else:
        exp = [outs[L - 1]] * (n // L) + ([outs[n % L - 1]] if n % L else [])
    if with_b:
        exp.append('48')
    downs, prev = [], set()
    for ks in _lay_keyseq(case, impl).split(' '):
        cur = set() if ks in ('K-', '-') else set(ks[1:].split(','))
        downs += sorted(cur - prev, key=int)
        prev = cur
    if downs != exp:
        return 'fail dance-intent: the listed outputs are %s (%s, T=%d); %d tap(s)%s must press %s in this order, the implementation pressed %s' % (
            outs, 'eager' if eager else 'lazy', T, n, ' then the plain key' if with_b else '', exp, downs)
    if prev:
        return 'fail dance-intent: still down at the end: %s' % sorted(prev)
    return 'ok'


PROPS['C17']['free_oracle'] = _c17_intent_oracle
PROPS['C17']['rule'] += ('; family `intent` (739 cases in the quick tier): lists of 2-3 positions, every position a plain marker key or a marker wrapped in switch / fork+switch / multi+switch / old-style chord (at least one of each kind per list), lazy and eager, 1..len+1 complete taps 2 or 4 ticks apart, optionally one tap of the plain key, long tail; judged by the model-free intent oracle against `;; dance-expect` in the configuration text')
PROPS['C18']['rule'] += ('; family `hold-release` (hold-for-duration 20-60 mixed with release-vkey / release-key / direct release of the same key, second activation inside / at the end of / after the first countdown, 2-5 operations >= 8 ticks apart); family `macro-collision` (1536 cases in the quick tier: four macros operating v1 - press D release, tap, toggle D toggle, toggle - x four keys with custom actions of their own - tap v0 on press, tap v0 on release, mouse button, toggle v0 - x press offset 0..D+5 x hold 1/2/7 x macro key released early or late)')


def _c19_os_stream(case, out):
    """what reaches the OS, step by step (the first field of every step of the trace); the recording
    and replay-queue digests are bookkeeping the statement does not fix"""
    if out.startswith(('rej', 'crash', 'unsupported', 'bad')):
        return out.split(' ')[0]
    if case.startswith('KAN '):
        # composed model: the OS events with their tick stamps and the idle flag; not the digests
        return re.sub(r' M rec=\S* rep=\S* st=\S*', '', re.sub(r' D \S+', '', out))
    return ' | '.join(seg.split(';')[0].strip() for seg in out.split(' | '))


PROPS['C19']['determined'] = _c19_os_stream
PROPS['C19']['norm_impl'] = _c19_norm_impl
PROPS['C19']['free_oracle'] = _c19_free_oracle
PROPS['C19']['rule'] += ('; L lines (model-free, real Kanata on a configuration given as text): a dynamic-macro play action (of the macro being recorded, or of another one as control) or the stop action as the tap / hold of a tap-hold, as first / second tap-dance item, or as a plain key typed while another tap-hold is undecided; timeouts {50,100,200}, both delay behaviours, stop pressed before / after the late action has fired; record - type - stop - replay once; oracle: the replay activity ends within 1.5 s of the last input, nothing stays down, no event of the stop key is stored')
PROPS['C07']['rule'] += ('; dynamic macro recorder (paired loops only): record / hold a key for g ms / stop / replay, g around a tap-hold timeout, flat, with the replay on a layer where the key is a tap-hold, and with a tap-hold key stopped by the stop key; both replay-delay behaviours; random histories over those keys')
PROPS['C19']['expand'] = True   # KAN lines (composed kanata-level model); C19 lines pass through unchanged
PROPS['C19']['determined_what'] = 'the key events sent to the OS at every step (typing while recording, and the replay)'


_C12_EXPECT = None


def _c12_free_oracle(case, impl):
    """corpus cases for which the statement's requirement was written down by hand
    (corpus/C12.expect.tsv: case line <TAB> required summary or `rej conflict`): the driver's own
    specification works on encoded key lists, as the parser does, and says nothing where the
    ambiguity only exists at the level of what is typed"""
    global _C12_EXPECT
    if _C12_EXPECT is None:
        _C12_EXPECT = {}
        f = os.path.join(os.path.dirname(os.path.dirname(os.path.abspath(__file__))), 'corpus', 'C12.expect.tsv')
        if os.path.exists(f):
            for l in open(f):
                if '\t' in l:
                    k, v = l.rstrip('\n').split('\t', 1)
                    _C12_EXPECT[k] = v
    return _C12_EXPECT.get(case.strip())


def _c12_repeat_oracle(case, impl):
    """family P (OS key repeat inside sequence mode; outside the Lean model).  Clause of the statement:
    "While a sequence is in progress the hidden modes press none of the typed keys at the OS".  The mode
    in force is the one the LEADER set: the defcfg mode after `sldr` (key 59), the leader's own mode
    after `(sequence <t> <mode>)` (key 60).  A repeat event that is forwarded shows as a key-down in
    the simulated output.  Speaks when that mode is hidden and the history completed a sequence
    (exactly one virtual key tapped): then nothing but the virtual key's output may have been pressed."""
    if ' :: TRACE ' not in impl:
        return None
    body = impl.split(' :: TRACE ', 1)[1]
    parts = body.split(' | ')
    if not body.startswith('ok ') or len(parts) != 3:
        return None
    f = case.split()
    mode, lmode = int(f[2]), int(f[6])
    h = f.index('H')
    leader = next((int(f[j + 1]) for j in range(h + 2, len(f) - 1) if f[j] == 'p'), None)
    eff = mode if leader == 59 else lmode if leader == 60 else None
    if eff not in (0, 1):
        return None
    summ = _c12_summary(parts[1], parts[2])
    m = re.match(r'taps=(\S+) down=(\S+) bs=(\d+) act=(\S+)', summ)
    if not m or m.group(1) == '-' or ',' in m.group(1) or m.group(4) != 'I':
        return None
    downs = [] if m.group(2) == '-' else [int(x) for x in m.group(2).split(',')]
    typed = [k for k in downs if not 2 <= k <= 11]
    if typed:
        return ('fail hidden mode (%s, set by the leader) pressed typed keys at the OS while the sequence was in progress: %s'
                % (['hidden-suppressed', 'hidden-delay-type'][eff], ','.join(map(str, typed))))
    return 'unsupported'


PROPS['C12']['free_oracle'] = lambda case, impl: (_c12_repeat_oracle(case, impl) if case.startswith('C12 P ')
                                                  else _c12_free_oracle(case, impl))
PROPS['C12']['norm_impl'] = lambda out: out.split(' :: TRACE ', 1)[0]
PROPS['C12']['rule'] += ('; P: OS key-repeat events for a key held inside sequence mode: defcfg input mode x leader (sldr / (sequence t mode) with each mode) '
                         'x held position x 1-3 repeats, sequence completed inside the timeout (model-free oracle on the real trace)')
