"""Per-property configuration of the runner: Lean modules holding the property theorems, how the
implementation output is projected onto what the specification predicts, what counts as a
non-trivial case, and how a failing case is shrunk."""
import re


def _c10_fire(out):
    # "ops ... | fire 0,2" -> "fire 0,2";  rejections and crashes stay as they are
    return out.split(' | ')[1] if ' | ' in out else out


def _c10_nontrivial(case, impl):
    return bool(re.search(r'\b(or|and|not) \d', case)) or bool(re.search(r'\bt[lg] \d+ (2[5-9]\d|[3-9]\d\d|\d{4,})', case))


def _c10_stats(cases, impl):
    import collections
    d = collections.Counter()
    for c, i in zip(cases, impl):
        d['rejected_by_parser' if i.startswith('rej') else ('crash' if i.startswith('crash') else 'evaluated')] += 1
        ops = len(re.findall(r'\b(?:or|and|not) \d', c))
        d['operators_0' if ops == 0 else 'operators_1_3' if ops <= 3 else 'operators_4_plus'] += 1
        if re.search(r'\b(or|and|not) 0\b', c):
            d['has_empty_operator'] += 1
        if ' | fire -' in i:
            d['fires_none'] += 1
        elif ' | fire ' in i:
            d['fires_some'] += 1
        for k in ('kh', 'tl', 'tg', 'in', 'ih', 'ly', 'bl'):
            if re.search(r'\b' + k + r' \d', c):
                d['leaf_' + k] += 1
    return dict(d)


PROPS = {
    'C10': {
        'lean_modules': ['KVerif.Props.C10'],
        'oracle_project': _c10_fire,
        'nontrivial': _c10_nontrivial,
        'rule': 'exhaustive key-match lists up to a node bound over key leaves x all truth assignments, random lists over all leaf kinds (depth up to 8 and beyond, empty operators, 1-9 cases with break/fallthrough), and key-timing thresholds around every compression boundary; non-trivial = contains an operator or a threshold in a lossy range; distinct = distinct case line',
        'stats': _c10_stats,
        'trusted_base': ['model of keyberon/src/action/switch.rs and parser/src/cfg/switch.rs (Model/Switch.lean), tied by correspondence on opcodes and firing cases',
                         'str_to_oscode and the rest of the config parser around the switch compiler (exercised, not modelled)'],
        'assumptions': ['leaf tests are read from the layout state as Switch::actions receives them; how layout.rs builds those iterators is covered by the layout model, not here'],
    },
}
