"""Per-property configuration of the runner: Lean modules holding the property theorems, how the
implementation output is projected onto what the specification predicts, what counts as a
non-trivial case, and how a failing case is shrunk."""
import re


def _c10_fire(out):
    # "ops ... | fire 0,2" -> "fire 0,2";  rejections and crashes stay as they are
    return out.split(' | ')[1] if ' | ' in out else out


def _c10_nontrivial(case, impl):
    return bool(re.search(r'\b(or|and|not) \d', case)) or bool(re.search(r'\bt[lg] \d+ (2[5-9]\d|[3-9]\d\d|\d{4,})', case))


def _c10_stats(cases, impl):
    import collections
    d = collections.Counter()
    for c, i in zip(cases, impl):
        d['rejected_by_parser' if i.startswith('rej') else ('crash' if i.startswith('crash') else 'evaluated')] += 1
        ops = len(re.findall(r'\b(?:or|and|not) \d', c))
        d['operators_0' if ops == 0 else 'operators_1_3' if ops <= 3 else 'operators_4_plus'] += 1
        if re.search(r'\b(or|and|not) 0\b', c):
            d['has_empty_operator'] += 1
        if ' | fire -' in i:
            d['fires_none'] += 1
        elif ' | fire ' in i:
            d['fires_some'] += 1
        for k in ('kh', 'tl', 'tg', 'in', 'ih', 'ly', 'bl'):
            if re.search(r'\b' + k + r' \d', c):
                d['leaf_' + k] += 1
    return dict(d)


def _lay_keys_only(out):
    # implementation trace "@t Kkeys [cp|cr] ... D digest" -> key-list changes only
    if out.startswith(('rej', 'crash', 'unsupported')):
        return out
    items = out.split(' ')
    res = []
    prev = '-'
    i = 0
    while i < len(items):
        it = items[i]
        if it == 'D':
            break
        if it.startswith('@') and i + 1 < len(items):
            k = items[i + 1]
            if k != 'K' + prev:
                res.append(it + ' ' + k)
                prev = k[1:]
            i += 2
            continue
        i += 1
    return ' '.join(res) if res else '-'


def _hex_cfg(case):
    try:
        return bytes.fromhex(case.split()[2]).decode()
    except Exception:
        return ''


def _lay_describe(case):
    t = case.split()
    try:
        return {'config': _hex_cfg(case), 'history': ' '.join(t[3:])}
    except Exception:
        return case


def _lay_shrink(case):
    # drop one history event at a time (keeps the count field right)
    t = case.split()
    try:
        hi = t.index('HIST')
    except ValueError:
        return
    head = t[:hi]
    n = int(t[hi + 1])
    evs = []
    i = hi + 2
    while i < len(t):
        if t[i] in ('p', 'r'):
            evs.append(t[i:i + 3]); i += 3
        else:
            evs.append(t[i:i + 2]); i += 2
    for k in range(len(evs)):
        e2 = evs[:k] + evs[k + 1:]
        yield ' '.join(head + ['HIST', str(len(e2))] + [x for e in e2 for x in e])
    for k in range(len(evs)):
        if evs[k][0] == 't' and int(evs[k][1]) > 1:
            e2 = evs[:k] + [['t', str(int(evs[k][1]) // 2)]] + evs[k + 1:]
            yield ' '.join(head + ['HIST', str(len(e2))] + [x for e in e2 for x in e])


def _lay_stats(cases, impl):
    import collections
    d = collections.Counter()
    for c, i in zip(cases, impl):
        d['rejected_by_parser' if i.startswith('rej') else 'crash' if i.startswith('crash') else 'ran'] += 1
        n = int(c.split()[c.split().index('HIST') + 1])
        d['hist_1_5' if n <= 5 else 'hist_6_20' if n <= 20 else 'hist_21_plus'] += 1
        if ' K' in i and i.count('@') >= 2:
            d['output_changed_at_least_twice'] += 1
    return dict(d)


PROPS = {
    'C04': {
        'lean_modules': ['KVerif.Props.C04'],
        'expand': True,
        'oracle_project': _lay_keys_only,
        'nontrivial': lambda case, impl: impl.count('@') >= 2,
        'rule': 'exhaustive physically consistent histories (<= N events over 3 keys, gaps {0,1,2}) on 8 fixed layered configs, plus random configs from the C04 fragment (1-4 layers, 2-6 keys, all option combinations) with random histories incl. bursts > 32 events and a few impossible events; non-trivial = the output key list changed at least twice; distinct = distinct case line',
        'stats': _lay_stats,
        'describe': _lay_describe,
        'shrink_candidates': _lay_shrink,
        'trusted_base': ['Model/Layout.lean as a transcription of keyberon/src/layout.rs (checked differentially per tick incl. a digest of the private state through hook verif_digest)',
                         'the harness serialiser of the parsed configuration (harness/src/ser.rs, lay.rs)'],
        'assumptions': ['OS output is taken as the key-code list of the layout per tick (the kanata diffing layer is modelled in Model/Kanata.lean and checked by C01/C14)'],
    },
    'C10': {
        'lean_modules': ['KVerif.Props.C10'],
        'oracle_project': _c10_fire,
        'nontrivial': _c10_nontrivial,
        'rule': 'exhaustive key-match lists up to a node bound over key leaves x all truth assignments, random lists over all leaf kinds (depth up to 8 and beyond, empty operators, 1-9 cases with break/fallthrough), and key-timing thresholds around every compression boundary; non-trivial = contains an operator or a threshold in a lossy range; distinct = distinct case line',
        'stats': _c10_stats,
        'trusted_base': ['model of keyberon/src/action/switch.rs and parser/src/cfg/switch.rs (Model/Switch.lean), tied by correspondence on opcodes and firing cases',
                         'str_to_oscode and the rest of the config parser around the switch compiler (exercised, not modelled)'],
        'assumptions': ['leaf tests are read from the layout state as Switch::actions receives them; how layout.rs builds those iterators is covered by the layout model, not here'],
    },
}
