#!/usr/bin/env python3
"""seed_run.py <seed-id> [props...|all] [--tier quick|thorough]
Applies /verif/seeded/<seed-id>/patch.diff to /repo, runs the given checks (default: the seeded
property), records which of them report a VIOLATION, and restores /repo (git checkout -- .).
Results are appended to /verif/seeded/<seed-id>/results.json."""
import json, os, subprocess, sys, time

ROOT = os.path.dirname(os.path.dirname(os.path.abspath(__file__)))
REPO = os.environ.get('KV_REPO', '/repo')
ALL = ['C%02d' % i for i in range(1, 21)]


def sh(cmd, **kw):
    return subprocess.run(cmd, capture_output=True, text=True, **kw)


def main():
    args = [a for a in sys.argv[1:] if not a.startswith('--')]
    tier = 'quick'
    if '--tier' in sys.argv:
        tier = sys.argv[sys.argv.index('--tier') + 1]
        args = [a for a in args if a != tier]
    sid = args[0]
    d = os.path.join(ROOT, 'seeded', sid)
    meta = json.load(open(os.path.join(d, 'meta.json')))
    props = args[1:] or [meta['property']]
    if props == ['all']:
        props = ALL
    st = sh(['git', '-C', REPO, 'status', '--porcelain']).stdout.strip()
    if st:
        print('refusing: ' + REPO + ' is not clean:\n' + st)
        return 2
    r = sh(['git', '-C', REPO, 'apply', os.path.join(d, 'patch.diff')])
    if r.returncode != 0:
        print('patch does not apply:', r.stderr)
        return 2
    results = {}
    try:
        for p in props:
            t0 = time.time()
            # the evidence file describes runs on the unchanged tree: keep it out of the seeded run
            evf = os.path.join(ROOT, 'evidence', p + '.json')
            saved = open(evf).read() if os.path.exists(evf) else None
            r = sh([os.path.join(ROOT, 'check'), p, tier], cwd=ROOT)
            if saved is not None:
                open(evf, 'w').write(saved)
            viol = [l for l in r.stdout.splitlines() if l.startswith('VIOLATION')]
            summ = [l for l in r.stdout.splitlines() if l.startswith('[' + p)]
            replay = None
            if viol:
                path = viol[0].split('replay=')[1].split()[0]
                try:
                    rep = json.load(open(os.path.join(ROOT, path)))
                    replay = {k: (str(rep.get(k))[:600]) for k in ('kind', 'what', 'human', 'impl', 'model', 'spec', 'no_longer_checks') if rep.get(k)}
                except Exception as e:  # noqa
                    replay = {'error': str(e)}
            results[p] = {'tier': tier, 'rc': r.returncode, 'violation': viol, 'summary': summ[-1] if summ else r.stdout[-300:],
                          'replay': replay, 'wall_s': round(time.time() - t0, 1)}
            print(p, tier, 'rc=%d' % r.returncode, viol[0] if viol else 'no violation', flush=True)
    finally:
        sh(['git', '-C', REPO, 'checkout', '--', '.'])
        sh(['git', '-C', REPO, 'clean', '-fdq'])
        # leave the harness binary built from the restored tree
        sh(['cargo', 'build', '--offline'], cwd=os.path.join(ROOT, 'harness'))
    out = os.path.join(d, 'results.json')
    old = json.load(open(out)) if os.path.exists(out) else {}
    for p, v in results.items():
        old.setdefault(p, {})[tier] = v
    json.dump(old, open(out, 'w'), indent=1)
    return 0


if __name__ == '__main__':
    sys.exit(main())
