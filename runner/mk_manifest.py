#!/usr/bin/env python3
"""Writes MANIFEST.json from runner/manifest_data.py (claimed checks) — every property in
properties.jsonl that is not claimed is listed under not_applicable with its reason."""
import json, os, sys
ROOT = os.path.dirname(os.path.dirname(os.path.abspath(__file__)))
sys.path.insert(0, os.path.join(ROOT, 'runner'))
from manifest_data import CLAIMS, NOT_CLAIMED, HOOK_COMMITS

props = [json.loads(l)['id'] for l in open(os.path.join(ROOT, 'properties.jsonl'))]
checks = []
for pid in props:
    if pid in CLAIMS:
        c = CLAIMS[pid]
        checks.append({
            'property_id': pid,
            'quick_cmd': f'./check {pid} quick',
            'thorough_cmd': f'./check {pid} thorough',
            'evidence_file': f'/verif/evidence/{pid}.json',
            'replay_cmd_template': './check --replay {path}',
            'engine': 'lean4-proof+correspondence',
            'level_claimed': {'category': 'proof', 'text': c['text'], 'design_ref': f'DESIGN.md §6 {pid}'},
            'level_note': c['note'],
            'technique': c['technique'],
        })
na = [{'property_id': p, 'reason': NOT_CLAIMED.get(p, 'check not built yet in this round (see DESIGN.md changelog)')}
      for p in props if p not in CLAIMS]
m = {
    'version': 1,
    'setup_cmd': './check --setup',
    'hooks': {
        'guard': 'jtroo_kanata_verif',
        'enable': 'RUSTFLAGS="--cfg jtroo_kanata_verif" (set in harness/.cargo/config.toml; only the harness build uses it)',
        'baseline_off_cmd': 'cd /repo && cargo test --workspace --no-fail-fast --offline',
        'source_commits': HOOK_COMMITS,
        'add_only': True,
    },
    'engines': [{
        'name': 'lean4-proof+correspondence', 'path': '/verif/check',
        'serves_properties': [p for p in props if p in CLAIMS],
        'kind_free_text': 'Lean 4 theorems over an executable model (lean/KVerif), constants/tables regenerated from /repo by gen/gen.py, and a differential correspondence check between the compiled Lean driver (kvdrv) and the real Rust code (harness/kvharness)',
    }],
    'checks': checks,
    'not_applicable': na,
    'notes': 'All checks share one runner (./check). A check exits 1 with a VIOLATION line when the implementation violates the specification on a generated input (replay = that input), or when a proof obligation / the model-implementation correspondence no longer checks (line ends with no-failing-input-found when the search found no concrete failing input).',
}
json.dump(m, open(os.path.join(ROOT, 'MANIFEST.json'), 'w'), indent=1, ensure_ascii=False)
print('MANIFEST.json written:', len(checks), 'claimed,', len(na), 'not claimed')
