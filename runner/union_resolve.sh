#!/bin/bash
# union_resolve.sh : resolve append-only conflicts (both sides appended at the same place) by keeping both
cd /verif
for f in KNOWN_FINDINGS.jsonl runner/manifest_data.py corpus/*.txt; do
  c="$f.merge-conflict"; [ -f "$c" ] || continue
  grep -v -E "^(<<<<<<<|=======|>>>>>>>)( |$)" "$c" > "$f"; rm "$c"; echo "union-resolved $f"
done
ls $(git ls-files -o --exclude-standard | grep merge-conflict) 2>/dev/null
