#!/bin/bash
# merge_agent.sh <agent-dir-name> <base-commit> : bring an agent's private copy into /verif
set -e
A=/tmp/wk/$1/verif; BASE=$2
cd /verif
# new files
for d in lean/KVerif/Model lean/KVerif/Lemmas lean/KVerif/Props lean/KVerif/Drv lean/KVerif/Spec harness/src gen corpus runner; do
  [ -d $A/$d ] || continue
  for f in $A/$d/*; do
    b=$(basename $f); rel=$d/$b
    [ -f "$f" ] || continue
    if ! git cat-file -e $BASE:$rel 2>/dev/null; then
      if [ -e /verif/$rel ] && ! cmp -s $f /verif/$rel; then echo "CONFLICT new-file exists: $rel"; else mkdir -p /verif/$d; cp $f /verif/$rel; echo "copied $rel"; fi
    fi
  done
done
# changed shared files: 3-way merge
for rel in lean/Main.lean harness/src/main.rs runner/props.py runner/manifest_data.py KNOWN_FINDINGS.jsonl gen/gen.py check harness/Cargo.toml lean/lakefile.toml .gitignore; do
  [ -f $A/$rel ] || continue
  git show $BASE:$rel > /tmp/merge_base.$$ 2>/dev/null || continue
  sed "s#/tmp/wk/$1/repo#/repo#g" $A/$rel > /tmp/merge_theirs.$$
  if ! cmp -s /tmp/merge_base.$$ /tmp/merge_theirs.$$; then
    if git merge-file -p /verif/$rel /tmp/merge_base.$$ /tmp/merge_theirs.$$ > /tmp/merge_out.$$; then cp /tmp/merge_out.$$ /verif/$rel; echo "merged $rel"; else cp /tmp/merge_out.$$ /verif/$rel.merge-conflict; echo "CONFLICT in $rel -> $rel.merge-conflict"; fi
  fi
done
rm -f /tmp/merge_*.$$
