HOOK_COMMITS = []

CLAIMS = {
    'C10': {
        'text': 'Full proof on the model: for every key-match list (every operator with >= 1 operand, leaves in the ranges the opcode constructors assert) that the parser\'s compiler accepts, the evaluator run on the compiled opcodes returns exactly the denotation of the written and/or/not expression for every layout state, without reaching the depth assert or an unreachable arm (eval_compile, eval_parsed, eval_no_crash); case iteration with break/fallthrough (cases_spec, fires_iff); key-timing threshold rounding for all 65536 values (eff_threshold_bounds); fork decision (fork_spec). No size, depth or step bound other than the parser\'s own limits. The model is tied to the code by constants regenerated from source (consts_from_source) and by a correspondence check that compares the opcodes emitted by the real parser and the cases fired by the real Switch::actions with the model on exhaustive small and random deep expressions; the real evaluator is also compared with the denotation directly.',
        'note': 'Trusted: Lean kernel; propext/Classical.choice/Quot.sound; Model/Switch.lean as a transcription of switch.rs (checked differentially, not proved); gen/gen.py; how layout.rs builds the iterators passed to Switch::actions is outside this check (layout model). The 8-slot action queue hand-off is covered by the layout checks.',
        'technique': 'Lean 4 proof by induction (continuation-style loop invariant) + differential correspondence',
    },
}

NOT_CLAIMED = {}
