#!/bin/bash
# merge3.sh <agent-dir-name> : 3-way merge of everything an agent changed in its private copy
# (/tmp/wk/<name>/verif, base commit in /tmp/wk/<name>/BASE) into /verif. New files are copied,
# changed files are merged with git merge-file; conflicts are left as <file>.merge-conflict.
A=/tmp/wk/$1/verif; BASE=$(cat /tmp/wk/$1/BASE); cd /verif || exit 2
(cd $A && find . -type f \( -path ./lean/.lake -o -path ./harness/target -o -path ./evidence -o -path ./replays -o -path ./seeded -o -path ./lean/KVerif/Gen -o -path ./.git \) -prune -o -type f -print | grep -v -E "^./(lean/.lake|harness/target|evidence|replays|seeded|lean/KVerif/Gen|work|\.git)/|\.merge-conflict$|__pycache__|Cargo.lock$|harness/Cargo.toml$" ) | sed 's#^\./##' | while read rel; do
  f=$A/$rel
  sed "s#/tmp/wk/$1/repo#/repo#g" "$f" > /tmp/m3_theirs.$$
  if git cat-file -e $BASE:"$rel" 2>/dev/null; then
    git show $BASE:"$rel" > /tmp/m3_base.$$
    cmp -s /tmp/m3_base.$$ /tmp/m3_theirs.$$ && continue          # agent did not change it
    if [ ! -e "$rel" ]; then echo "DELETED-HERE $rel"; continue; fi
    cmp -s "$rel" /tmp/m3_theirs.$$ && continue
    if git merge-file -p "$rel" /tmp/m3_base.$$ /tmp/m3_theirs.$$ > /tmp/m3_out.$$ 2>/dev/null; then cp /tmp/m3_out.$$ "$rel"; echo "merged $rel"
    else case "$rel" in
        KNOWN_FINDINGS.jsonl|runner/manifest_data.py|corpus/*.txt) grep -v -E "^(<<<<<<<|=======|>>>>>>>)( |$)" /tmp/m3_out.$$ > "$rel"; echo "union-merged $rel";;
        *) cp /tmp/m3_out.$$ "$rel.merge-conflict"; echo "CONFLICT $rel -> $rel.merge-conflict";;
      esac; fi
  else
    if [ -e "$rel" ]; then cmp -s "$rel" /tmp/m3_theirs.$$ || { cp /tmp/m3_theirs.$$ "$rel.merge-conflict"; echo "CONFLICT new-file-exists $rel"; }
    else mkdir -p "$(dirname "$rel")"; cp /tmp/m3_theirs.$$ "$rel"; echo "copied $rel"; fi
  fi
done
rm -f /tmp/m3_*.$$
