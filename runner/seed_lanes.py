#!/usr/bin/env python3
"""seed_lanes.py [N] : re-runs every seeded change (seeded/*/patch.diff) through its own quick check in N
parallel lanes. Each lane is a private copy of /verif (under /tmp/lanes/L<i>/verif) with its own git
worktree of the repository (/tmp/lanes/L<i>/repo, KV_REPO), so /repo itself is never patched. Results
are copied back to seeded/<id>/results.json; the lanes are removed afterwards."""
import glob, json, os, shutil, subprocess, sys, concurrent.futures

ROOT = os.path.dirname(os.path.dirname(os.path.abspath(__file__)))
N = int(sys.argv[1]) if len(sys.argv) > 1 else 4
only = sys.argv[2:]
BASE = '/tmp/lanes'


def sh(cmd, **kw):
    return subprocess.run(cmd, capture_output=True, text=True, **kw)


def setup(i):
    """one lane = a copy of /verif + a git worktree of /repo; set up one after the other (git locks)"""
    d = f'{BASE}/L{i}'
    shutil.rmtree(d, ignore_errors=True)
    os.makedirs(d)
    sh(['rsync', '-a', '--exclude', '.git', '--exclude', 'harness/target', ROOT + '/', d + '/verif/'])
    r = sh(['git', '-C', '/repo', 'worktree', 'add', '--detach', d + '/repo', 'HEAD'])
    if r.returncode != 0 or not os.path.exists(d + '/repo/Cargo.toml'):
        raise SystemExit('lane setup failed: ' + r.stderr)
    ct = d + '/verif/harness/Cargo.toml'
    txt = open(ct).read().replace('/repo', d + '/repo')
    open(ct, 'w').write(txt)
    r = sh(['cargo', 'build', '--offline'], cwd=d + '/verif/harness', env=dict(os.environ, KV_REPO=d + '/repo'))
    if r.returncode != 0:
        raise SystemExit('lane harness build failed: ' + r.stderr[-2000:])


def lane(i, ids):
    d = f'{BASE}/L{i}'
    env = dict(os.environ, KV_REPO=d + '/repo')
    out = []
    for sid in ids:
        r = subprocess.run(['python3', d + '/verif/runner/seed_run.py', sid], capture_output=True, text=True, env=env)
        line = (r.stdout.strip().splitlines() or ['?'])[-1]
        out.append((sid, line))
        src = f'{d}/verif/seeded/{sid}/results.json'
        if os.path.exists(src):
            shutil.copy(src, f'{ROOT}/seeded/{sid}/results.json')
        print(sid, line[:160], flush=True)
    sh(['git', '-C', '/repo', 'worktree', 'remove', '--force', d + '/repo'])
    shutil.rmtree(d, ignore_errors=True)
    return out


def main():
    ids = sorted(os.path.basename(p) for p in glob.glob(ROOT + '/seeded/*') if os.path.exists(p + '/patch.diff'))
    if only:
        ids = [i for i in ids if i in only]
    lanes = [ids[k::N] for k in range(N)]
    for k in range(N):
        setup(k)
    with concurrent.futures.ThreadPoolExecutor(max_workers=N) as ex:
        list(ex.map(lambda t: lane(*t), enumerate(lanes)))
    sh(['git', '-C', '/repo', 'worktree', 'prune'])


if __name__ == '__main__':
    main()
