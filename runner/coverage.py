#!/usr/bin/env python3
"""coverage.py [--verif DIR] [--repo DIR] [--tier quick|thorough] [--seeds 1,2] [--props C01,C02,...] [--show FILE ...]
How much of the real kanata source do the generated correspondence cases execute?  Builds a copy of
the harness with `-C instrument-coverage` (nightly toolchain: it ships llvm-profdata / llvm-cov that
match its rustc) under /tmp/kvcov/<pid>, runs `gen`, `eval` and `expand` of every listed property on
the generated case lines, merges the profiles and prints per-file line coverage of /repo sources;
with --show also the uncovered lines of the given source files (paths relative to the repository).
Nothing in /verif or /repo is modified.  Used to find generator blind spots (DESIGN.md 10.6)."""
import argparse, glob, os, re, shutil, subprocess, sys, concurrent.futures

ap = argparse.ArgumentParser()
ap.add_argument('--verif', default=os.path.dirname(os.path.dirname(os.path.abspath(__file__))))
ap.add_argument('--repo', default=os.environ.get('KV_REPO', '/repo'))
ap.add_argument('--tier', default='quick')
ap.add_argument('--seeds', default='1')
ap.add_argument('--props', default=','.join('C%02d' % i for i in range(1, 21)))
ap.add_argument('--show', nargs='*', default=[])
ap.add_argument('--keep', action='store_true')
a = ap.parse_args()

W = f'/tmp/kvcov/{os.getpid()}'
os.makedirs(W + '/prof', exist_ok=True)
os.makedirs(W + '/cases', exist_ok=True)
subprocess.run(['rsync', '-a', '--exclude', 'target', a.verif + '/harness/', W + '/harness/'], check=True)
# some generators read regenerated tables relative to the harness directory (../lean/KVerif/Gen/...)
if not os.path.exists(W + '/lean'):
    os.symlink(a.verif + '/lean', W + '/lean')
ct = W + '/harness/Cargo.toml'
txt = open(ct).read()
txt = re.sub(r'path = "[^"]*?(/parser|/keyberon)?"', lambda m: 'path = "%s%s"' % (a.repo, m.group(1) or ''), txt)
open(ct, 'w').write(txt)
os.makedirs(W + '/harness/.cargo', exist_ok=True)
open(W + '/harness/.cargo/config.toml', 'w').write(
    '[net]\noffline = true\n[build]\nrustflags = ["--cfg", "jtroo_kanata_verif", "-C", "instrument-coverage"]\n')
r = subprocess.run(['cargo', '+nightly', 'build', '--offline'], cwd=W + '/harness', capture_output=True, text=True,
                   env=dict(os.environ, KV_REPO=a.repo, LLVM_PROFILE_FILE=W + '/prof/build-%p.profraw'))
if r.returncode != 0:
    sys.exit('instrumented build failed:\n' + r.stderr[-3000:])
K = W + '/harness/target/debug/kvharness'
tb = glob.glob(os.path.expanduser('~/.rustup/toolchains/nightly-x86_64-*/lib/rustlib/*/bin'))[0]


def run(ps):
    p, s = ps
    env = dict(os.environ, KV_REPO=a.repo)
    cf = f'{W}/cases/{p}-{s}.txt'
    with open(cf, 'w') as fh:
        subprocess.run([K, 'gen', p, a.tier, s], stdout=fh, stderr=subprocess.DEVNULL,
                       env=dict(env, LLVM_PROFILE_FILE=f'{W}/prof/gen-{p}-{s}.profraw'))
    for mode in ('eval', 'expand'):
        with open(cf) as fh:
            subprocess.run([K, mode, p], stdin=fh, stdout=subprocess.DEVNULL, stderr=subprocess.DEVNULL,
                           env=dict(env, LLVM_PROFILE_FILE=f'{W}/prof/{mode}-{p}-{s}-%p.profraw'))
    return p, sum(1 for _ in open(cf))


jobs = [(p, s) for p in a.props.split(',') for s in a.seeds.split(',')]
with concurrent.futures.ThreadPoolExecutor(max_workers=16) as ex:
    for p, n in ex.map(run, jobs):
        print(f'# {p}: {n} case lines', file=sys.stderr)
subprocess.run([tb + '/llvm-profdata', 'merge', '-sparse'] + glob.glob(W + '/prof/*.profraw') + ['-o', W + '/all.profdata'], check=True)
rep = subprocess.run([tb + '/llvm-cov', 'report', K, '-instr-profile=' + W + '/all.profdata',
                      '--ignore-filename-regex=(registry|rustc|rustup|kvcov|tests/|/tests\\.rs|sim_tests)'],
                     capture_output=True, text=True).stdout
for l in rep.splitlines():
    f = l.split()
    # llvm-cov prints names relative to the common prefix of the listed files
    if len(f) >= 10 and re.search(r'(^|/)(src|keyberon|parser|tcp_protocol)/|^TOTAL$', f[0]):
        print('%-58s lines %6s missed %6s %8s' % (f[0], f[7], f[8], f[9]))
for src in a.show:
    print('=== uncovered lines of', src)
    out = subprocess.run([tb + '/llvm-cov', 'show', K, '-instr-profile=' + W + '/all.profdata', os.path.join(a.repo, src)],
                         capture_output=True, text=True).stdout
    for l in out.splitlines():
        if re.match(r'^ *\d+\| +0\|', l) and not re.match(r'^ *\d+\| +0\| *[})\];,]* *$', l):
            print(l[:160])
if not a.keep:
    shutil.rmtree(W, ignore_errors=True)
