#!/usr/bin/env python3
"""prints a markdown table of the seeded changes and which checks caught them (from seeded/*/results.json)"""
import json, glob, os
ROOT = os.path.dirname(os.path.dirname(os.path.abspath(__file__)))
rows = []
for d in sorted(glob.glob(os.path.join(ROOT, 'seeded', '*'))):
    sid = os.path.basename(d)
    try:
        meta = json.load(open(os.path.join(d, 'meta.json')))
    except Exception:
        continue
    res = json.load(open(os.path.join(d, 'results.json'))) if os.path.exists(os.path.join(d, 'results.json')) else {}
    caught = []
    for p, tiers in sorted(res.items()):
        for tier, r in sorted(tiers.items()):
            if r['violation']:
                kind = (r.get('replay') or {}).get('kind', '?')
                nf = 'no-failing-input-found' in r['violation'][0]
                caught.append(f"{p} {tier}: {'proof/correspondence only' if nf else 'failing input (' + kind + ')'}")
            else:
                caught.append(f"{p} {tier}: missed")
    files = ', '.join(meta.get('files_changed', []))[:60]
    summ = meta.get('summary', '').replace('|', '/').replace('\n', ' ')
    rows.append(f"| {sid} | {files} | {summ[:170]} | {'; '.join(caught)} |")
print('| seed | files | change | checks |\n|---|---|---|---|')
print('\n'.join(rows))
