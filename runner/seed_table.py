#!/usr/bin/env python3
"""seed_table.py [--write]: markdown table of the seeded changes and which checks caught them, from
seeded/*/results.json; with --write the table in DESIGN.md (between the header row and the line that
starts with 'No check raised an alarm') is replaced."""
import json, glob, os, re, sys
ROOT = os.path.dirname(os.path.dirname(os.path.abspath(__file__)))


def key(sid):
    m = re.match(r'C(\d+)([a-z]?)', sid)
    return (int(m.group(1)), m.group(2))


rows = []
n = caught_input = caught_only = missed = 0
for d in sorted(glob.glob(os.path.join(ROOT, 'seeded', '*')), key=lambda p: key(os.path.basename(p))):
    sid = os.path.basename(d)
    try:
        meta = json.load(open(os.path.join(d, 'meta.json')))
    except Exception:
        continue
    res = json.load(open(os.path.join(d, 'results.json'))) if os.path.exists(os.path.join(d, 'results.json')) else {}
    cells = []
    own = meta.get('property', sid[:3])
    for p, tiers in sorted(res.items(), key=lambda kv: (kv[0] != own, kv[0])):
        r = tiers.get('quick')
        if not r:
            continue
        if r['violation']:
            nf = 'no-failing-input-found' in r['violation'][0]
            cells.append(f"{p}: {'proof/correspondence only' if nf else 'failing input'}")
        else:
            cells.append(f'{p}: missed')
    n += 1
    ownr = (res.get(own) or {}).get('quick')
    if ownr and ownr['violation'] and 'no-failing-input-found' not in ownr['violation'][0]:
        caught_input += 1
    elif any('failing input' in c for c in cells):
        caught_input += 1
    elif any('only' in c for c in cells):
        caught_only += 1
    else:
        missed += 1
    files = ', '.join(os.path.basename(f) for f in meta.get('files_changed', []))[:40]
    summ = meta.get('summary', '').replace('|', '/').replace('\n', ' ')
    rows.append(f"| {sid} | {files} | {summ[:150]} | {'; '.join(cells)} |")
table = '| seed | file | change (abridged) | quick check, final state |\n|---|---|---|---|\n' + '\n'.join(rows) + '\n'
summary = f'{n} seeded changes: {caught_input} reported with a failing input, {caught_only} only as a broken proof/correspondence, {missed} missed.'
if '--write' in sys.argv:
    p = os.path.join(ROOT, 'DESIGN.md')
    s = open(p).read()
    i = s.index('| seed | file | change (abridged) | quick check, final state |')
    j = s.index('Every row was re-run', i)
    s = s[:i] + table + '\n' + summary + '\n\n' + s[j:]
    open(p, 'w').write(s)
    print(summary)
else:
    print(table)
    print(summary)
