#!/usr/bin/env python3
"""merge2.py <agent> <base-commit>: bring an agent's private copy (/tmp/wk/<agent>/verif) into /verif.
New files are copied; additions to the shared registration files are re-applied structurally."""
import difflib, os, re, shutil, subprocess, sys

agent, base = sys.argv[1], sys.argv[2]
A = f'/tmp/wk/{agent}/verif'
V = '/verif'


def base_file(rel):
    r = subprocess.run(['git', '-C', V, 'show', f'{base}:{rel}'], capture_output=True, text=True)
    return r.stdout if r.returncode == 0 else None


def added_lines(rel):
    b = base_file(rel)
    if b is None or not os.path.exists(f'{A}/{rel}'):
        return []
    t = open(f'{A}/{rel}').read().replace(f'/tmp/wk/{agent}/repo', '/repo')
    bl, tl = b.splitlines(), t.splitlines()
    out = []
    sm = difflib.SequenceMatcher(None, bl, tl, autojunk=False)
    for op, i1, i2, j1, j2 in sm.get_opcodes():
        if op in ('insert', 'replace'):
            out.append((op, bl[i1:i2], tl[j1:j2]))
        elif op == 'delete':
            out.append((op, bl[i1:i2], []))
    return out


for d in ['lean/KVerif/Model', 'lean/KVerif/Lemmas', 'lean/KVerif/Props', 'lean/KVerif/Drv', 'lean/KVerif/Spec',
          'harness/src', 'gen', 'corpus', 'runner']:
    if not os.path.isdir(f'{A}/{d}'):
        continue
    for b in sorted(os.listdir(f'{A}/{d}')):
        rel = f'{d}/{b}'
        if not os.path.isfile(f'{A}/{rel}') or b.endswith('.pyc'):
            continue
        if base_file(rel) is None:
            if os.path.exists(f'{V}/{rel}') and open(f'{V}/{rel}').read() != open(f'{A}/{rel}').read():
                print('CONFLICT new-file exists:', rel)
            else:
                os.makedirs(f'{V}/{d}', exist_ok=True)
                shutil.copy(f'{A}/{rel}', f'{V}/{rel}')
                print('copied', rel)
        else:
            bt = base_file(rel)
            at = open(f'{A}/{rel}').read().replace(f'/tmp/wk/{agent}/repo', '/repo')
            if bt != at and rel not in ('harness/src/main.rs', 'runner/props.py', 'runner/manifest_data.py', 'gen/gen.py'):
                print('CHANGED existing file (merge by hand):', rel)

# Main.lean
rel = 'lean/Main.lean'
cur = open(f'{V}/{rel}').read().splitlines()
for op, old, new in added_lines(rel):
    for l in new:
        if l in cur:
            continue
        if l.startswith('import '):
            i = max(k for k, x in enumerate(cur) if x.startswith('import '))
            cur.insert(i + 1, l)
        elif l.startswith('  | "'):
            i = cur.index('  | _ => none')
            cur.insert(i, l)
        else:
            print('Main.lean: unplaced line:', l)
    if op != 'insert':
        print('Main.lean: agent replaced/deleted:', old)
open(f'{V}/{rel}', 'w').write('\n'.join(cur) + '\n')

# main.rs
rel = 'harness/src/main.rs'
cur = open(f'{V}/{rel}').read().splitlines()
for op, old, new in added_lines(rel):
    for l in new:
        if l in cur:
            continue
        s = l.strip()
        if re.match(r'mod \w+;', s):
            i = max(k for k, x in enumerate(cur) if re.match(r'mod \w+;', x))
            cur.insert(i + 1, l)
        elif '::gen(' in s:
            i = next(k for k, x in enumerate(cur) if 'let lines = match prop {' in x)
            cur.insert(i + 1, l)
        elif '::eval(' in s:
            i = next(k for k, x in enumerate(cur) if 'catch_unwind(move || match p.as_str() {' in x)
            cur.insert(i + 1, l)
        elif '::expand(' in s:
            ks = [k for k, x in enumerate(cur) if 'catch_unwind(move || match p.as_str() {' in x]
            cur.insert(ks[1] + 1, l)
        else:
            print('main.rs: unplaced line:', l)
    if op != 'insert':
        print('main.rs: agent replaced/deleted:', old)
open(f'{V}/{rel}', 'w').write('\n'.join(cur) + '\n')

# append-only files
for rel in ['runner/props.py', 'runner/manifest_data.py']:
    cur = open(f'{V}/{rel}').read()
    for op, old, new in added_lines(rel):
        blk = '\n'.join(new)
        if rel.endswith('manifest_data.py'):
            blk = re.sub(r"(?m)^    '(C\d\d)': \{\n((?:        .*\n)+)    \},?$", lambda m: "CLAIMS['%s'] = {\n%s}" % (m.group(1), re.sub(r'(?m)^    ', '', m.group(2))), blk + '\n')
        if rel.endswith('props.py') and re.match(r"\s*'C\d\d': ", blk):
            ls = [l[4:] if l.startswith('    ') else l for l in blk.rstrip('\n').split('\n')]
            blk = re.sub(r"^'(C\d\d)': ", lambda m: "PROPS['%s'] = " % m.group(1), '\n'.join(ls)).rstrip()
            blk = blk[:-1] if blk.endswith(',') else blk
        if blk.strip() and blk.strip() not in cur:
            cur = cur.rstrip('\n') + '\n\n' + blk.strip('\n') + '\n'
        if op != 'insert':
            print(f'{rel}: agent replaced/deleted:', old[:5])
    open(f'{V}/{rel}', 'w').write(cur)

rel = 'KNOWN_FINDINGS.jsonl'
if os.path.exists(f'{A}/{rel}'):
    cur = open(f'{V}/{rel}').read()
    bl = (base_file(rel) or '').splitlines()
    for l in open(f'{A}/{rel}').read().splitlines():
        if l.strip() and l not in bl and l not in cur:
            cur = cur.rstrip('\n') + '\n' + l + '\n'
    open(f'{V}/{rel}', 'w').write(cur)

for rel in ['gen/gen.py', 'check', 'lean/KVerif.lean', 'lean/lakefile.toml', 'AGENT_GUIDE.md', 'DESIGN.md']:
    for op, old, new in added_lines(rel):
        print(f'--- {rel}: {op}\n  - ' + '\n  - '.join(old[:20]) + '\n  + ' + '\n  + '.join(new[:40]))
