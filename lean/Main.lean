import KVerif.Drv.C10
import KVerif.Drv.Lay
import KVerif.Drv.C04
import KVerif.Drv.C13
import KVerif.Drv.C19
import KVerif.Drv.C05
import KVerif.Drv.C17
import KVerif.Drv.Kan
import KVerif.Drv.C02
import KVerif.Drv.C14
import KVerif.Drv.C18
import KVerif.Drv.C07
import KVerif.Drv.C01
import KVerif.Drv.C12
import KVerif.Drv.C16
import KVerif.Drv.C20 -- C20
import KVerif.Drv.C15
import KVerif.Drv.C11 -- C11
import KVerif.Drv.C06
import KVerif.Drv.C08
import KVerif.Drv.C09
import KVerif.Drv.C03 -- C03
import KVerif.Drv.C14v2
open KVerif.Drv

/-- kvdrv <prop>: one case line in, one `M <model> ## S <spec>` line out. -/
def dispatch (prop : String) : Option (String → String × String) :=
  match prop with
  | "C10" => some fun line => if line.startsWith "KAN" then Kan.run "KAN" line else C10.run line
  | "C04" => some C04.run
  | "C13" => some C13.run
  | "C19" => some fun line => if line.startsWith "KAN" then Kan.run "KAN" line else C19.run line   -- composed kanata-level model
  | "C05" => some C05.run
  | "C05o" => some C05.runOracle
  | "C17" => some C17.run
  | "C17o" => some C17.runOracle
  | "KALL" => some (Kan.run "KAN")
  | "C02" => some C02.run
  | "C18" => some C18.run
  | "C07" => some C07o.run
  | "C01" => some (Kan.run "KAN")
  | "C01o" => some C01o.runOracle
  | "C07o" => some C07o.runOracle
  | "C18o" => some C18.runOracle
  | "LALL" => some (Lay.run "LAY")
  | "C12" => some fun line => if line.startsWith "KAN" then Kan.run "KAN" line else C12.run line   -- [seq]
  | "C16" => some C16.run
  | "C20" => some C20.run -- C20
  | "C15" => some C15.run
  | "C11" => some C11.run -- C11
  | "C06" => some C06.run
  | "C06o" => some C06.runOracle
  | "C08o" => some C08.runOracle
  | "C09" => some C09.run
  | "C09o" => some C09.runOracle
  | "C03" => some C03.run -- C03
  | "C14" => some fun line => if line.startsWith "KOT" then C14v2.run line else C14.run line
  | "C14o" => some fun line => if line.startsWith "KOT" then C14v2.runOracle line else C14.runOracle line
  | "C08" => some fun line => if line.startsWith "KOSX" then Kan.run "KOS" line else C08.run line
  | _ => none

partial def loop (h : IO.FS.Stream) (out : IO.FS.Stream) (f : String → String × String) : IO Unit := do
  let line ← h.getLine
  if line.isEmpty then return ()
  if line.trimAscii.toString.isEmpty then loop h out f else
  let (m, s) := f line
  out.putStrLn s!"M {m} ## S {s}"
  loop h out f

def main (args : List String) : IO UInt32 := do
  match args with
  | [prop] =>
    match dispatch prop with
    | some f => loop (← IO.getStdin) (← IO.getStdout) f; return 0
    | none => IO.eprintln s!"unknown property {prop}"; return 2
  | _ => IO.eprintln "usage: kvdrv <prop>"; return 2
