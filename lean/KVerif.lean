import KVerif.Model.Switch
