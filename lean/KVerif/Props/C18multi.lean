/-
C18 — several simultaneous hold-for-duration / on-idle entries: what does NOT depend on the
iteration order of `vkeys_pending_release : HashMap<Coord, u16>` and `waiting_for_idle :
HashSet<FakeKeyOnIdle>` (rustc_hash Fx containers; `retain` visits them in an order that is a
function of the hashes), and the one thing that does.

Summary.
* Which entries expire / fire in a tick, which stay, and every countdown: order-independent
  (`tick_held_vkeys_perm` (a) (b), `tick_idle_timeout_perm`), over whole histories with an adversarial
  re-ordering of the container at any moment (`hold_for_duration_spec_multi`,
  `on_idle_fires_once_multi`): every entry behaves exactly as if it were alone.
* The events reach `Layout::event` in iteration order, so the layout's queue after the call holds the
  same events as a multiset but in iteration order (`tick_held_vkeys_perm` (c), `tick_idle_timeout_perm`).
  The layout consuming RELEASES of distinct coordinates back to back is order-independent
  (`release_dequeue_comm`, `tick_held_vkeys_perm_keystates_partial`).
* But the layout takes one queued event per tick and the kanata layer acts on each tick's custom event
  in between, so the order IS observable — in the model and in the real program
  (`tick_held_vkeys_order_counterexample`, `on_idle_same_tick_order_counterexample`: a key left held
  down for good in one order, tapped in the other; replayed on the real code, see the comments there).

`Pending`, `heldKept`, `heldReleased`, `releaseAll`, `look`, `heldRun`, … are defined in
`Lemmas/VkeyMulti.lean` next to the lemmas that tie them to `K.tickHeldVkeys`, `K.customPress`,
`K.tickIdleTimeout`.
-/
import KVerif.Lemmas.VkeyMulti
import KVerif.Props.C18
namespace KVerif.C18multi
open KVerif.L KVerif.K KVerif.VkeyMulti

/-! ## 1. one `tick_held_vkeys`, any iteration order -/

/-- **tick_held_vkeys_perm** (full for (a), (b); (c) in full for the state right after the call while
the layout's queue has room).  `p` are the pending entries in the order the model's list has them,
`p'` the same entries in any other order (what the hash map may present).  Hypotheses: `hperm` — same
entries; `hnd` — a coordinate is pending at most once (a hash map has one value per key; needed for
"released XOR kept" and for the lookups).
One call, in either order,
* is: hand the releases of the expiring entries to the layout in iteration order, keep the rest;
* (a) keeps the same entries with the same countdowns (a permutation; the same lookup table);
* (b) hands the same release events to the layout (a permutation of a duplicate-free list), none of
  them for an entry that is kept;
* (c) while the queue has room for them (`hroom`; otherwise `Layout::event` starts processing
  queued events — keyberon's overflow path — which is outside this statement), does not crash and
  yields the same state in every field except that the layout's queue ends with the release events in
  iteration order and the pending entries are listed in iteration order. -/
theorem tick_held_vkeys_perm (k : KState) (p p' : Pending) (hp : k.vkeysPendingRelease = p)
    (hperm : p'.Perm p) (hnd : (keys p).Nodup) :
    (tickHeldVkeys k =
      match releaseAll (heldReleased p) k.layout with
      | .error e => .error (.layout e)
      | .ok l => .ok { k with layout := l, vkeysPendingRelease := heldKept p }) ∧
    (tickHeldVkeys { k with vkeysPendingRelease := p' } =
      match releaseAll (heldReleased p') k.layout with
      | .error e => .error (.layout e)
      | .ok l => .ok { k with layout := l, vkeysPendingRelease := heldKept p' }) ∧
    -- (a)
    ((heldKept p').Perm (heldKept p) ∧ (keys (heldKept p)).Nodup ∧
      ∀ c, look (heldKept p') c = look (heldKept p) c) ∧
    -- (b)
    ((heldReleased p').Perm (heldReleased p) ∧ (heldReleased p).Nodup ∧
      ∀ c ∈ heldReleased p, c ∉ keys (heldKept p)) ∧
    -- (c)
    (k.layout.queue.length + (heldReleased p).length ≤ QUEUE_SIZE →
      tickHeldVkeys k =
        .ok { k with layout := { k.layout with queue := k.layout.queue ++ (heldReleased p).map relEv },
                     vkeysPendingRelease := heldKept p } ∧
      tickHeldVkeys { k with vkeysPendingRelease := p' } =
        .ok { k with layout := { k.layout with queue := k.layout.queue ++ (heldReleased p').map relEv },
                     vkeysPendingRelease := heldKept p' } ∧
      ((heldReleased p').map relEv).Perm ((heldReleased p).map relEv)) := by
  subst hp
  have e1 := tickHeldVkeys_eq k
  have e2 := tickHeldVkeys_eq { k with vkeysPendingRelease := p' }
  refine ⟨e1, e2, ⟨heldKept_perm hperm, nodup_heldKept hnd, ?_⟩,
    ⟨heldReleased_perm hperm, nodup_heldReleased hnd, fun c hc => released_not_kept hnd hc⟩, ?_⟩
  · intro c; exact look_perm (nodup_heldKept hnd) (heldKept_perm hperm) c
  · intro hroom
    have hlen : (heldReleased p').length = (heldReleased k.vkeysPendingRelease).length :=
      (heldReleased_perm hperm).length_eq
    refine ⟨?_, ?_, (heldReleased_perm hperm).map _⟩
    · rw [e1, releaseAll_room _ _ hroom]
    · rw [e2]
      simp only []
      rw [releaseAll_room _ _ (by omega)]

/-- non-vacuity: three entries with different countdowns, two expiring in the same tick, presented in
two orders; the hypotheses hold, the two results differ exactly in the order of the queue's tail -/
example :
    exP'.Perm exK.vkeysPendingRelease ∧ (keys exK.vkeysPendingRelease).Nodup ∧
    exK.layout.queue.length + (heldReleased exK.vkeysPendingRelease).length ≤ QUEUE_SIZE ∧
    heldReleased exK.vkeysPendingRelease = [(1, 0), (1, 2)] ∧ heldReleased exP' = [(1, 2), (1, 0)] ∧
    heldKept exK.vkeysPendingRelease = [((1, 1), 2)] ∧ heldKept exP' = [((1, 1), 2)] ∧
    (match tickHeldVkeys exK with
      | .ok k => some (k.layout.queue, k.vkeysPendingRelease) | .error _ => none)
      = some ([relEv (1, 0), relEv (1, 2)], [((1, 1), 2)]) ∧
    (match tickHeldVkeys { exK with vkeysPendingRelease := exP' } with
      | .ok k => some (k.layout.queue, k.vkeysPendingRelease) | .error _ => none)
      = some ([relEv (1, 2), relEv (1, 0)], [((1, 1), 2)]) := by
  refine ⟨by decide, by decide, by decide, by decide, by decide, by decide, by decide,
    by decide +kernel, by decide +kernel⟩

/-- **release_dequeue_comm** (full) — the commutation lemma for `Layout::dequeue` on two releases of
different coordinates, neither of them an active one-shot key (`h1`, `h2`: for a one-shot key
`handle_release` appends the coordinate to `released_keys`, an ordered list, and the release itself is
postponed): both orders end in the same layout, and each release reports the same custom event
whether it comes first or second.  The ages `t…` of the queued events are irrelevant. -/
theorem release_dequeue_comm (fuel : Nat) (s : Layout) (c1 c2 : Coord) (t1 t2 t1' t2' : Nat)
    (hne : c1 ≠ c2) (h1 : s.oneshot.keys.contains c1 = false) (h2 : s.oneshot.keys.contains c2 = false) :
    ∃ s1 s2 s12 cu1 cu2,
      dequeue (fuel + 1) s ⟨.release c1, t1⟩ = .ok (s1, cu1) ∧
      dequeue (fuel + 1) s1 ⟨.release c2, t2⟩ = .ok (s12, cu2) ∧
      dequeue (fuel + 1) s ⟨.release c2, t2'⟩ = .ok (s2, cu2) ∧
      dequeue (fuel + 1) s2 ⟨.release c1, t1'⟩ = .ok (s12, cu1) ∧
      s12.states = s.states.filter (fun st => relKeep c1 st && relKeep c2 st) := by
  have k1 : (releaseNow s c1).oneshot.keys.contains c2 = false := by rw [releaseNow_keys]; exact h2
  have k2 : (releaseNow s c2).oneshot.keys.contains c1 = false := by rw [releaseNow_keys]; exact h1
  refine ⟨releaseNow s c1, releaseNow s c2, releaseNow (releaseNow s c1) c2,
    releaseCustom s.states c1, releaseCustom s.states c2,
    dequeue_release_eq fuel s c1 t1 h1, ?_, dequeue_release_eq fuel s c2 t2' h2, ?_, ?_⟩
  · rw [dequeue_release_eq fuel _ c2 t2 k1]
    simp only [releaseCustom, releaseNow]
    rw [releaseStates_snd_filter (fun e => hne e.symm)]
  · rw [dequeue_release_eq fuel _ c1 t1' k2, releaseNow_comm s c2 c1]
    simp only [releaseCustom, releaseNow]
    rw [releaseStates_snd_filter hne]
  · simp only [releaseNow, List.filter_filter]
    apply List.filter_congr
    intro x _
    exact Bool.and_comm _ _

/-- non-vacuity: the two coordinates of `exK` that expire together -/
example : ((1, 0) : Coord) ≠ (1, 2) ∧ exK.layout.oneshot.keys.contains (1, 0) = false ∧
    exK.layout.oneshot.keys.contains (1, 2) = false := by decide

/-- **tick_held_vkeys_perm_keystates_partial** — part (c) "after the layout has consumed the events":
the release events of one `tick_held_vkeys` (`rel`, duplicate-free: `tick_held_vkeys_perm` (b)) taken
from the queue and processed by `Layout::dequeue` one after the other, in either order (`consume`),
leave the SAME layout — in particular the same key states: those of before without the states at the
released coordinates (and without the keys flagged clear-on-next-release) — and each release reports
the custom event it would report alone, so the custom events are the same multiset.
Hypothesis `hosh`: none of the coordinates is an active one-shot key (see `release_dequeue_comm`).

PARTIAL, and it cannot be made full.  The full statement would be: "let the two states that
`tick_held_vkeys_perm` (c) yields run through the same further input (`tick_states` …) — after the
queued releases have been consumed, the key states / the OS output agree".  That is FALSE:
`Layout::tick` takes ONE queued event per tick, and between two ticks the kanata layer performs the
custom actions of the tick's custom event (`on-release-fakekey`, mouse buttons, …) and sends the key
diff to the OS, so the consumption order is visible — see `tick_held_vkeys_order_counterexample`.
What is missing between this theorem and a conditional full one is a commutation of two whole
`tick_states` (not available in general, by the counterexample; it would need: no custom action on the
released virtual keys, no waiting tap-hold/chord state looking at the queue, nothing else queued). -/
theorem tick_held_vkeys_perm_keystates_partial (l : Layout) (rel rel' : List Coord) (age age' : Coord → Nat)
    (hperm : rel'.Perm rel) (hnd : rel.Nodup) (hosh : ∀ c ∈ rel, l.oneshot.keys.contains c = false) :
    ∃ l' log log',
      consume age rel l = .ok (l', log) ∧ consume age' rel' l = .ok (l', log') ∧
      l'.states = l.states.filter (fun st => rel.all fun c => relKeep c st) ∧
      log = rel.map (fun c => (c, releaseCustom l.states c)) ∧
      log' = rel'.map (fun c => (c, releaseCustom l.states c)) ∧ log'.Perm log := by
  have hnd' : rel'.Nodup := hperm.nodup_iff.mpr hnd
  have hosh' : ∀ c ∈ rel', l.oneshot.keys.contains c = false := fun c hc => hosh c (hperm.mem_iff.mp hc)
  refine ⟨rel.foldl releaseNow l, _, _, consume_eq age rel l hnd hosh, ?_,
    foldl_releaseNow_states rel l, rfl, rfl, hperm.map _⟩
  rw [consume_eq age' rel' l hnd' hosh', foldl_releaseNow_perm hperm]

/-- non-vacuity: the layout of `exK` consuming the releases of (1,0) and (1,2) in both orders: only
the key of (1,1) stays down -/
example :
    [(1, 2), (1, 0)].Perm [((1, 0) : Coord), (1, 2)] ∧ [((1, 0) : Coord), (1, 2)].Nodup ∧
    (∀ c ∈ [((1, 0) : Coord), (1, 2)], exK.layout.oneshot.keys.contains c = false) ∧
    (match consume (fun _ => 1) [(1, 0), (1, 2)] exK.layout with
      | .ok (l, _) => some l.keycodes | .error _ => none) = some [17] ∧
    (match consume (fun _ => 1) [(1, 2), (1, 0)] exK.layout with
      | .ok (l, _) => some l.keycodes | .error _ => none) = some [17] := by
  refine ⟨by decide, by decide, by decide, by decide +kernel, by decide +kernel⟩

/-- **tick_held_vkeys_order_counterexample** — the iteration order IS observable, for good.
Configuration (real syntax):
```
(defvirtualkeys v2 x  v0 (on-release-fakekey v2 press)  v1 (on-release-fakekey v2 release))
(defsrc a)
(deflayer l0 (multi (hold-for-duration 3 v0) (hold-for-duration 3 v1)))
```
Input: press `a`, 1 tick, release `a`, 20 ticks.  Both virtual keys are activated in the same tick with
the same duration, so both expire in the same `tick_held_vkeys`; their releases are queued in
iteration order and consumed in consecutive ticks; v0's release presses `x`, v1's releases it.
Order v0, v1: `x` is tapped (↓x ↑x).  Order v1, v0: the release of `x` comes first and does nothing,
then `x` is pressed and STAYS DOWN (the layout holds key 45 at the end, no ↑x is ever sent).
Everything `tick_held_vkeys_perm` states holds for this pair of states.
Replayed on the real code (`kvharness eval C18`, case lines `KAN 0 <hex(cfg)> HIST 4 p 0 30 t 1 r 0 30
t 20`): with the configuration above the real program answers `@8 d45`, final states `[N45.1.0.0]` —
`x` stuck down; with the two on-release actions exchanged between v0 and v1 it answers `@7 d45 @8 u45`
— tapped; exchanging the two members of the `multi` changes nothing (the order comes from the hashes
of the coordinates, not from the insertion order).  The model's list has insertion order, so on the
first configuration the model (order v0, v1) and the real code (order v1, v0) disagree: several
entries expiring in one tick are outside the correspondence, and the theorems above are what holds
for every order. -/
theorem tick_held_vkeys_order_counterexample :
    -- after the key press both entries are pending with the same countdown
    obsHeld heldCxK1 = some ([], [], [((1, 1), 2), ((1, 2), 2)]) ∧
    -- iteration order v0 (1,1), v1 (1,2): x (45) is tapped
    obsHeld (andThen heldCxK1 (ticksN 12)) = some ([.down 45, .up 45], [], []) ∧
    -- iteration order v1 (1,2), v0 (1,1): x is pressed and never released
    obsHeld (andThen heldCxK1 fun k =>
      ticksN 12 { k with vkeysPendingRelease := [((1, 2), 2), ((1, 1), 2)] }) = some ([.down 45], [45], []) ∧
    -- … for as long as one cares to look (any number of ticks from 12 to 41)
    (∀ n, n < 30 → obsOut (andThen heldCxK1 fun k =>
      ticksN (12 + n) { k with vkeysPendingRelease := [((1, 2), 2), ((1, 1), 2)] })
      = some ([.down 45], [45])) := by
  refine ⟨by decide +kernel, by decide +kernel, by decide +kernel, by decide +kernel⟩

/-! ## 2. hold-for-duration over whole histories -/

/-- **hold_for_duration_spec_multi** (full).  Any number of entries may be pending (`p0`, one
countdown per coordinate: `hnd`); the history is any sequence of activations / re-activations of any
virtual keys (`HStep.act`), ticks (`HStep.tick`) and re-orderings of the container
(`HStep.reorder`, the hash map presenting its entries in another order from then on).  Take ANY
activation `act c D` in it, call what follows `post`, and assume `post` does not activate the same
coordinate again (`hno` — so that this activation is the most recent one of `c`; other coordinates
are activated and re-activated freely).  Then
* `c` is released in exactly one tick of `post`: the `max D 1`-th (`D` for `D ≥ 1`; a duration of 0
  saturates and behaves as 1), exactly once, and in no other;
* at the end `c` is still pending, with countdown `D − ticks`, iff fewer ticks than that went by.
Neither the other entries nor the re-orderings appear on the right-hand sides. -/
theorem hold_for_duration_spec_multi (p0 : Pending) (pre post : List HStep) (c : Coord) (D : Nat)
    (hnd : (keys p0).Nodup) (hno : noAct c post = true) :
    look (heldRun (pre ++ .act c D :: post) p0).1 c =
      (if ticks post < max D 1 then some (D - ticks post) else none) ∧
    ((heldRun (pre ++ .act c D :: post) p0).2.drop (ticks pre)).map (·.count c) =
      (List.range (ticks post)).map (fun i => if i + 1 = max D 1 then 1 else 0) := by
  rw [heldRun_append, heldRun_act]
  simp only []
  rw [← length_run pre p0, List.drop_left]
  have hn1 : (keys (heldActivate (heldRun pre p0).1 c D)).Nodup := nodup_activate (nodup_run pre hnd) c D
  have hl : look (heldActivate (heldRun pre p0).1 c D) c = some D := by rw [look_activate]; simp
  exact run_present c post _ D hn1 hl hno

/-- **hold_for_duration_spec_multi_countdown** (full): the lift of `C18.hold_for_duration_spec` in its
own terms — inside any history with any other entries and any re-ordering, the ticks (counted from
the most recent activation of `c`, which counts as the first) in which `c` is released are exactly the
one that the single-entry `C18.countdown` names. -/
theorem hold_for_duration_spec_multi_countdown (p0 : Pending) (pre post : List HStep) (c : Coord) (D : Nat)
    (hD : 1 ≤ D) (hnd : (keys p0).Nodup) (hno : noAct c post = true) :
    ((heldRun (pre ++ .act c D :: post) p0).2.drop (ticks pre)).map (·.count c) =
      (List.range (ticks post)).map
        (fun i => if C18.countdown (ticks post) D = some (i + 1) then 1 else 0) := by
  rw [(hold_for_duration_spec_multi p0 pre post c D hnd hno).2, C18.hold_for_duration_spec D _ hD]
  apply List.map_congr_left
  intro i hi
  have hi' : i < ticks post := List.mem_range.mp hi
  have hm : max D 1 = D := by omega
  rw [hm]
  by_cases hle : D ≤ ticks post
  · simp only [hle, if_true, Option.some.injEq]
    by_cases h : i + 1 = D
    · rw [if_pos h, if_pos h.symm]
    · rw [if_neg h, if_neg (fun e => h e.symm)]
  · have h : ¬ i + 1 = D := by omega
    simp only [hle, if_false, h, reduceCtorEq]

/-- **hold_for_duration_spec_multi_model** (full): the same on the model's own functions — run the
history with the real `customPress … [fakeKeyHold c D]` for activations and the real `tickHeldVkeys`
for ticks (`kRun`; `cur` is the key list `customPress` threads through); if the run does not crash
(it can only crash inside `Layout::event`), the pending entry of `c` at the end is what the
specification says. -/
theorem hold_for_duration_spec_multi_model (cur : List KeyCode) (k k' : KState) (pre post : List HStep)
    (c : Coord) (D : Nat) (hnd : (keys k.vkeysPendingRelease).Nodup) (hno : noAct c post = true)
    (hrun : kRun cur (pre ++ .act c D :: post) k = .ok k') :
    look k'.vkeysPendingRelease c = (if ticks post < max D 1 then some (D - ticks post) else none) := by
  rw [kRun_pending _ hrun]
  exact (hold_for_duration_spec_multi k.vkeysPendingRelease pre post c D hnd hno).1

/-- non-vacuity: three virtual keys with durations 5, 3 and 2; (1,0) is activated, a tick later (1,1),
another tick later (1,0) is re-activated and (1,2) activated, the map is re-ordered, and ticks go by.
The hypotheses hold for the activation `act (1,1) 3`, and the concrete run is as the theorem says:
(1,1) is released in the third tick after its activation (in the same tick as (1,2), whose second
tick that is), (1,0) still has 2 to go after its re-activation. -/
example :
    let pre : List HStep := [.act (1, 0) 5, .tick]
    let post : List HStep := [.tick, .act (1, 0) 5, .act (1, 2) 2, .reorder [((1, 2), 2), ((1, 1), 2), ((1, 0), 5)],
      .tick, .tick, .tick]
    (keys ([] : Pending)).Nodup ∧ noAct (1, 1) post = true ∧
    heldRun (pre ++ .act (1, 1) 3 :: post) [] =
      ([((1, 0), 2)], [[], [], [], [(1, 2), (1, 1)], []]) := by
  refine ⟨by decide, by decide, by decide⟩

/-- non-vacuity of the model-level statement: the same history on the model's state (three virtual
keys, nothing pending at first) runs without a crash; the layout has received ONE press per virtual
key (the re-activation of (1,0) sent none) and the two releases of the tick in which (1,2) and (1,1)
expire together, in iteration order. -/
example :
    let pre : List HStep := [.act (1, 0) 5, .tick]
    let post : List HStep := [.tick, .act (1, 0) 5, .act (1, 2) 2, .reorder [((1, 2), 2), ((1, 1), 2), ((1, 0), 5)],
      .tick, .tick, .tick]
    (keys exK0.vkeysPendingRelease).Nodup ∧ noAct (1, 1) post = true ∧
    (match kRun [] (pre ++ .act (1, 1) 3 :: post) exK0 with
      | .ok k => some (k.vkeysPendingRelease, k.layout.queue.map Queued.ev) | .error _ => none) =
      some ([((1, 0), 2)],
        [.press (1, 0), .press (1, 1), .press (1, 2), .release (1, 2), .release (1, 1)]) := by
  refine ⟨by decide, by decide, by decide +kernel⟩

/-! ## 3. on-idle -/

/-- **tick_idle_timeout_perm** (full; the layout part while the queue has room).  `ws` are the
registrations in the model's list order, `ws'` the same in any other order.  Hypotheses: `hperm` — same
registrations; `hnd` — no duplicates (a hash set).  One `tick_idle_timeout`, in either order,
* is: perform the registrations whose duration the idle clock has reached, in iteration order, keep
  the others; the clock itself is not changed;
* fires the same registrations (a permutation, no duplicates) — exactly those with `idle ≤ clock`, so
  two registrations with the same duration fire in the same call — and keeps the same ones;
* while the queue has room for their events (`idleEvs`: press → a press, release → a release, tap →
  both, toggle → a release if a key state has the coordinate, else a press), appends these events to
  the layout's queue in iteration order and touches nothing else but the input history: the key
  states are unchanged, so every toggle decides on the key states of before the call, whatever the
  order.  The relative order of the events of registrations that fire in the same call is the only
  thing left open. -/
theorem tick_idle_timeout_perm (k : KState) (ws ws' : List OnIdle) (hws : k.waitingForIdle = ws)
    (hperm : ws'.Perm ws) (hnd : ws.Nodup) :
    (tickIdleTimeout k =
      match fireAll (idleFired k.ticksSinceIdle ws) k.layout with
      | .error e => .error (.layout e)
      | .ok l => .ok { k with layout := l, waitingForIdle := idleKept k.ticksSinceIdle ws }) ∧
    (tickIdleTimeout { k with waitingForIdle := ws' } =
      match fireAll (idleFired k.ticksSinceIdle ws') k.layout with
      | .error e => .error (.layout e)
      | .ok l => .ok { k with layout := l, waitingForIdle := idleKept k.ticksSinceIdle ws' }) ∧
    ((idleFired k.ticksSinceIdle ws').Perm (idleFired k.ticksSinceIdle ws) ∧
      (idleFired k.ticksSinceIdle ws).Nodup ∧
      ∀ w, w ∈ idleFired k.ticksSinceIdle ws ↔ w ∈ ws ∧ w.idle ≤ k.ticksSinceIdle) ∧
    ((idleKept k.ticksSinceIdle ws').Perm (idleKept k.ticksSinceIdle ws) ∧
      (idleKept k.ticksSinceIdle ws).Nodup ∧
      ∀ w, w ∈ idleKept k.ticksSinceIdle ws ↔ w ∈ ws ∧ k.ticksSinceIdle < w.idle) ∧
    (k.layout.queue.length + ((idleFired k.ticksSinceIdle ws).flatMap (idleEvs k.layout.states)).length
        ≤ QUEUE_SIZE →
      tickIdleTimeout k =
        .ok { k with layout := pushEvs k.layout ((idleFired k.ticksSinceIdle ws).flatMap (idleEvs k.layout.states)),
                     waitingForIdle := idleKept k.ticksSinceIdle ws } ∧
      tickIdleTimeout { k with waitingForIdle := ws' } =
        .ok { k with layout := pushEvs k.layout ((idleFired k.ticksSinceIdle ws').flatMap (idleEvs k.layout.states)),
                     waitingForIdle := idleKept k.ticksSinceIdle ws' } ∧
      ((idleFired k.ticksSinceIdle ws').flatMap (idleEvs k.layout.states)).Perm
        ((idleFired k.ticksSinceIdle ws).flatMap (idleEvs k.layout.states)) ∧
      ∀ es, (pushEvs k.layout es).states = k.layout.states ∧
        (pushEvs k.layout es).queue = k.layout.queue ++ es.map (fun e => ⟨e, 0⟩)) := by
  subst hws
  have e1 := tickIdleTimeout_eq k
  have e2 := tickIdleTimeout_eq { k with waitingForIdle := ws' }
  have hf := idleFired_perm k.ticksSinceIdle hperm
  refine ⟨e1, e2, ⟨hf, nodup_idleFired hnd, fun w => mem_idleFired⟩,
    ⟨idleKept_perm k.ticksSinceIdle hperm, nodup_idleKept hnd, fun w => mem_idleKept⟩, ?_⟩
  intro hroom
  have hfm := hf.flatMap_right (idleEvs k.layout.states)
  refine ⟨?_, ?_, hfm, fun es => ⟨pushEvs_states es _, pushEvs_queue es _⟩⟩
  · rw [e1, fireAll_room _ _ hroom]
  · rw [e2]
    simp only []
    rw [fireAll_room _ _ (by rw [hfm.length_eq]; exact hroom)]

/-- non-vacuity: three registrations, two with the same duration 20 (a press and a toggle of a key that
is down), one with 50; the idle clock stands at 20.  Both orders fire the two, keep the third, and
queue the same two events in iteration order. -/
example :
    exWs'.Perm exKI.waitingForIdle ∧ exKI.waitingForIdle.Nodup ∧
    exKI.layout.queue.length +
      ((idleFired exKI.ticksSinceIdle exKI.waitingForIdle).flatMap (idleEvs exKI.layout.states)).length ≤ QUEUE_SIZE ∧
    (match tickIdleTimeout exKI with
      | .ok k => some (k.layout.queue.map (·.ev), k.waitingForIdle) | .error _ => none)
      = some ([.press (1, 0), .release (1, 2)], [{ coord := (1, 1), action := .tap, idle := 50 }]) ∧
    (match tickIdleTimeout { exKI with waitingForIdle := exWs' } with
      | .ok k => some (k.layout.queue.map (·.ev), k.waitingForIdle) | .error _ => none)
      = some ([.release (1, 2), .press (1, 0)], [{ coord := (1, 1), action := .tap, idle := 50 }]) := by
  refine ⟨by decide, by decide, by decide, by decide +kernel, by decide +kernel⟩

/-- **on_idle_fires_once_multi** (full).  The state is the idle clock and the set of registrations
(`s0`, no duplicates: `hnd`); the history is any sequence of registrations of any on-idle actions
(`IStep.reg`, which restarts the clock), ticks, re-orderings of the set, and ARBITRARY settings of the
idle clock (`IStep.clock n`: input events reset it, the processing loop advances or resets it —
whatever it does).  Take ANY registration `reg w` in it, call what follows `post`, assume `post` does
not register the same `w` (coordinate, action, duration) again (`hno`; registering it again after it
fired is a new registration).  Then, with `logPost` = (clock value seen, registrations fired) of the
ticks of `post`:
* `w` fires in exactly one tick — the FIRST one that sees the idle clock at or above `w`'s own
  duration — exactly once, and in no other tick;
* `w` is still registered at the end iff no tick has seen that.
Neither the other registrations nor the re-orderings appear on the right-hand sides. -/
theorem on_idle_fires_once_multi (s0 : IState) (pre post : List IStep) (w : OnIdle)
    (hnd : s0.2.Nodup) (hno : noReg w post = true) :
    (w ∈ (idleRun (pre ++ .reg w :: post) s0).1.2 ↔
      ∀ e ∈ (idleRun (pre ++ .reg w :: post) s0).2.drop (iticks pre), e.1 < w.idle) ∧
    ((idleRun (pre ++ .reg w :: post) s0).2.drop (iticks pre)).map (fun e => e.2.count w) =
      firstHit w.idle (((idleRun (pre ++ .reg w :: post) s0).2.drop (iticks pre)).map (·.1)) := by
  rw [idleRun_append, idleRun_reg]
  simp only []
  rw [← length_irun pre s0, List.drop_left]
  exact irun_present w post _ (nodup_idleReg (nodup_irun pre hnd) w) (mem_idleReg.mpr (Or.inr rfl)) hno

/-- **on_idle_fires_once_multi_model** (full): the same on the model's own functions — run the history
with the real `customPress … [fakeKeyOnIdle …]` for registrations and the real `tickIdleTimeout` for
ticks (`kiRun`; a `clock n` step overwrites `ticksSinceIdle`, standing for `handleInputEvent` /
`canBlockUpdateIdleWaiting`); if the run does not crash (it can only crash inside `Layout::event`),
`w` is registered at the end iff no tick after its registration saw the idle clock at or above its
duration. -/
theorem on_idle_fires_once_multi_model (cur : List KeyCode) (k k' : KState) (pre post : List IStep)
    (w : OnIdle) (hnd : k.waitingForIdle.Nodup) (hno : noReg w post = true)
    (hrun : kiRun cur (pre ++ .reg w :: post) k = .ok k') :
    (w ∈ k'.waitingForIdle ↔
      ∀ e ∈ (idleRun (pre ++ .reg w :: post) (k.ticksSinceIdle, k.waitingForIdle)).2.drop (iticks pre),
        e.1 < w.idle) := by
  have h := kiRun_state _ hrun
  have h2 : k'.waitingForIdle = (idleRun (pre ++ .reg w :: post) (k.ticksSinceIdle, k.waitingForIdle)).1.2 :=
    congrArg Prod.snd h
  rw [h2]
  exact (on_idle_fires_once_multi (k.ticksSinceIdle, k.waitingForIdle) pre post w hnd hno).1

/-- **on_idle_same_duration_same_tick** (full): two registrations with the same duration that are both
waiting fire in the same ticks of any history (in which neither is registered again) — in particular
in the same call of `tick_idle_timeout`.  Their relative order inside that call is the only thing the
real code leaves open (`tick_idle_timeout_perm`), and it matters:
`on_idle_same_tick_order_counterexample`. -/
theorem on_idle_same_duration_same_tick (s : IState) (h : List IStep) (w1 w2 : OnIdle)
    (hnd : s.2.Nodup) (h1 : w1 ∈ s.2) (h2 : w2 ∈ s.2) (hd : w1.idle = w2.idle)
    (hno1 : noReg w1 h = true) (hno2 : noReg w2 h = true) :
    (idleRun h s).2.map (fun e => e.2.count w1) = (idleRun h s).2.map (fun e => e.2.count w2) ∧
    (w1 ∈ (idleRun h s).1.2 ↔ w2 ∈ (idleRun h s).1.2) ∧
    (w1 ∈ idleFired s.1 s.2 ↔ w2 ∈ idleFired s.1 s.2) := by
  have a1 := irun_present w1 h s hnd h1 hno1
  have a2 := irun_present w2 h s hnd h2 hno2
  refine ⟨by rw [a1.2, a2.2, hd], by rw [a1.1, a2.1, hd], ?_⟩
  simp only [mem_idleFired, h1, h2, hd, true_and]

/-- non-vacuity: three registrations (durations 20, 50, 20) made one after the other, the clock moved
by the loop and reset by an input, the set re-ordered: both 20-registrations fire in the same tick
(the first that sees 20), the 50-registration later, each once. -/
example :
    let w1 : OnIdle := { coord := (1, 0), action := .press, idle := 20 }
    let w2 : OnIdle := { coord := (1, 1), action := .tap, idle := 50 }
    let w3 : OnIdle := { coord := (1, 2), action := .toggle, idle := 20 }
    let post : List IStep := [.reg w2, .reg w3, .clock 19, .tick, .clock 0, .tick, .reorder [w3, w2, w1],
      .clock 25, .tick, .tick, .clock 60, .tick, .tick]
    (([] : List OnIdle)).Nodup ∧ noReg w1 post = true ∧
    idleRun ([] ++ .reg w1 :: post) (0, []) =
      ((60, []), [(19, []), (0, []), (25, [w3, w1]), (25, []), (60, [w2]), (60, [])]) := by
  refine ⟨by decide, by decide, by decide⟩

/-- non-vacuity of the model-level statement: the same history on the model's state runs without a
crash; every registration has fired once (toggle and press of the two 20 ms registrations in iteration
order, then the tap of the 50 ms one). -/
example :
    let w1 : OnIdle := { coord := (1, 0), action := .press, idle := 20 }
    let w2 : OnIdle := { coord := (1, 1), action := .tap, idle := 50 }
    let w3 : OnIdle := { coord := (1, 2), action := .toggle, idle := 20 }
    let post : List IStep := [.reg w2, .reg w3, .clock 19, .tick, .clock 0, .tick, .reorder [w3, w2, w1],
      .clock 25, .tick, .tick, .clock 60, .tick, .tick]
    exK0.waitingForIdle.Nodup ∧ noReg w1 post = true ∧
    (match kiRun [] ([] ++ .reg w1 :: post) exK0 with
      | .ok k => some (k.ticksSinceIdle, k.waitingForIdle, k.layout.queue.map Queued.ev) | .error _ => none) =
      some (60, [], [.press (1, 2), .press (1, 0), .press (1, 1), .release (1, 1)]) := by
  refine ⟨by decide, by decide, by decide +kernel⟩

/-- **on_idle_same_tick_order_counterexample** — the relative order of two registrations that fire
in the same call is observable, for good.  Configuration (real syntax):
```
(defvirtualkeys v2 x)
(defsrc a)
(deflayer l0 (multi (on-idle-fakekey v2 press 20) (on-idle-fakekey v2 release 20)))
```
Input: press `a`, release `a`, then no input.  Both registrations are made by the same key press, have
the same duration and therefore fire in the same `tick_idle_timeout`; press first: `x` is tapped;
release first: the release does nothing, `x` is pressed and STAYS DOWN.
Replayed on the real code (`kvharness eval C18`, `KAN 0 <hex(cfg)> HIST 4 p 0 30 gap 3 r 0 30 gap 80`):
with duration 20, 21, 24 or 25 the real program leaves `x` stuck down (`@27 d45`, final states
`[N45.1.0.0]`), with duration 22 or 23 it taps it (`@28 d45 @29 u45`); the order of the two members of
the `multi` makes no difference (the order comes from the hash of (coordinate, action, duration)). -/
theorem on_idle_same_tick_order_counterexample :
    -- both registered, the idle clock has reached their duration
    obsIdle idleCxK1 = some ([], [], [{ coord := (1, 0), action := .press, idle := 20 },
                                      { coord := (1, 0), action := .release, idle := 20 }], 20) ∧
    -- press first: tapped
    obsIdle (andThen idleCxK1 (ticksN 5)) = some ([.down 45, .up 45], [], [], 20) ∧
    -- release first: pressed and never released (any number of ticks from 5 to 34)
    (∀ n, n < 30 → obsOut (andThen idleCxK1 fun k =>
      ticksN (5 + n) { k with waitingForIdle := [{ coord := (1, 0), action := .release, idle := 20 },
                                                 { coord := (1, 0), action := .press, idle := 20 }] })
      = some ([.down 45], [45])) := by
  refine ⟨by decide +kernel, by decide +kernel, by decide +kernel⟩

end KVerif.C18multi
