/-
C02 — an accepted configuration never crashes or hangs event processing.

Full statement (not proved as one theorem): for every configuration with `WF.cfgWF k = none` and every
finite list of inputs (key events for any code, ticks), `runK` never returns a `Crash`.
What is proved here are the crash sites one by one — each either shown unreachable for all states
(after the `fix:` commits) or exhibited with a witness — plus totality statements for the decision
functions. The whole-model statement is checked differentially (C02 correspondence + crash oracle).
-/
import KVerif.Model.CfgWF
import KVerif.Lemmas.TapHold
namespace KVerif.C02
open KVerif.L

/-! ### The layer stack (heapless `Vec` of 12) -/

/-- **layer_stack_never_overflows** (full, after fix 31b82c0): whatever is held, computing the layer
order for transparent-key resolution succeeds and yields at most 12 entries. -/
theorem layer_stack_never_overflows (s : Layout) (h : s.cfg.pinnedLayerStack = false) :
    ∃ v, s.transOrder = .ok v ∧ v.length ≤ MAX_ACTIVE_LAYERS := by
  unfold Layout.transOrder
  simp only [h, Bool.false_eq_true, if_false]
  have hl : (s.activeHeldLayers.take MAX_ACTIVE_LAYERS).length ≤ MAX_ACTIVE_LAYERS := by
    rw [List.length_take]; omega
  have hp : ∀ (l : List Nat) (x : Nat), l.length ≤ MAX_ACTIVE_LAYERS →
      (pushCap MAX_ACTIVE_LAYERS l x).length ≤ MAX_ACTIVE_LAYERS := by
    intro l x hl; unfold pushCap; split
    · simp only [List.length_append, List.length_cons, List.length_nil]; omega
    · exact hl
  by_cases hv : s.transV2 = true
  · simp only [hv, if_true]
    rw [if_neg (by omega)]
    split
    · exact ⟨_, rfl, hp _ _ (hp _ _ hl)⟩
    · exact ⟨_, rfl, hp _ _ hl⟩
  · simp only [hv, Bool.false_eq_true, if_false]
    split <;> exact ⟨_, rfl, by simp [MAX_ACTIVE_LAYERS]⟩

/-- thirteen held layers -/
def thirteenLayers : Layout :=
  { cfg := { layers := [[], []], srcKeys := [], pinnedLayerStack := true },
    states := (List.range 13).map fun i => .layerModifier (i % 2) (0, 30) }

/-- **layer_stack_overflow_pinned_counterexample**: on the pinned code thirteen held layers made the
next key press panic (`Vec::from_iter overflow`); reproduced on the real code, repaired by 31b82c0. -/
theorem layer_stack_overflow_pinned_counterexample :
    thirteenLayers.transOrder = .error .layerStackOverflow ∧
    ({ thirteenLayers with cfg := { thirteenLayers.cfg with pinnedLayerStack := false } } : Layout).transOrder
      = .ok [0, 1, 0, 1, 0, 1, 0, 1, 0, 1, 0, 1] := by
  constructor <;> rfl

/-! ### The repeat action -/

/-- **repeat_with_nothing_saved_is_noop**: `rpt-any` with no saved action changes nothing but the
bookkeeping of every action (clear-on-next-action keys, quick-tap tracker). -/
theorem repeat_with_nothing_saved_is_noop (fuel : Nat) (s : Layout) (c : Coord) (d : Nat) (o : Bool)
    (ls : List Nat) (h : s.rptAction = none) :
    doAction (fuel + 2) s .repeat c d o ls = .ok (prelude s c, .noEvent) := by
  have hp : (prelude s c).rptAction = none := by
    unfold prelude; split <;> exact h
  simp only [doAction, dispatch, hp]

/-- **repeat_no_reentry** (full, after fix c6daee1): repeating runs the saved action on a state in
which nothing is saved, so a repeat nested inside the saved action is a no-op by the previous
theorem instead of re-entering it. -/
theorem repeat_no_reentry (fuel : Nat) (s : Layout) (ac : Action) (c : Coord) (d : Nat) (o : Bool)
    (ls : List Nat) (hf : s.cfg.pinnedRepeat = false) (h : s.rptAction = some ac) :
    doAction (fuel + 2) s .repeat c d o ls =
      match doAction fuel { prelude s c with rptAction := none } ac c d o [] with
      | .error e => .error e
      | .ok r => .ok (if r.1.rptAction.isNone then { r.1 with rptAction := some ac } else r.1, .noEvent) := by
  have hp : (prelude s c).rptAction = some ac := by
    unfold prelude; split <;> exact h
  have hc : (prelude s c).cfg.pinnedRepeat = false := by
    unfold prelude; split <;> exact hf
  simp only [doAction, dispatch, hp, hc, Bool.false_eq_true, if_false]
  rfl

/-- the saved action of `(multi rpt-any a)` after its first press -/
def selfRepeating (k : KeyCode) : Action := .multipleActions [.repeat, .keyCode k]

/-- **repeat_reentry_pinned_diverges** (counterexample, pinned code): with `(multi rpt-any a)` saved,
the second press recursed without bound — for every amount of fuel the model runs out of it (the real
process overflowed its stack and aborted; reproduced, repaired by c6daee1). -/
theorem repeat_reentry_pinned_diverges (k : KeyCode) : ∀ (fuel : Nat) (s : Layout) (c : Coord) (d : Nat) (ls : List Nat),
    s.cfg.pinnedRepeat = true → s.rptAction = some (selfRepeating k) →
    doAction fuel s (selfRepeating k) c d false ls = .error .fuelOut ∧
    doAction fuel s .repeat c d false ls = .error .fuelOut := by
  intro fuel
  induction fuel using Nat.strongRecOn with
  | _ fuel ih =>
    intro s c d ls hp hr
    have hpre : (prelude s c).cfg.pinnedRepeat = true ∧ (prelude s c).rptAction = some (selfRepeating k) := by
      unfold prelude; split <;> exact ⟨hp, hr⟩
    have hupd : (updateCoord (prelude s c) c).cfg.pinnedRepeat = true ∧
        (updateCoord (prelude s c) c).rptAction = some (selfRepeating k) := by
      unfold updateCoord; split <;> exact hpre
    constructor
    · -- the multi: its first sub-action is the repeat
      match fuel with
      | 0 => rfl
      | 1 => rfl
      | 2 => rfl
      | f + 3 =>
        have := (ih f (by omega) (updateCoord (prelude s c) c) c d ls hupd.1 hupd.2).2
        simp only [doAction, selfRepeating, dispatch, doActions, this]
    · match fuel with
      | 0 => rfl
      | 1 => rfl
      | f + 2 =>
        have := (ih f (by omega) (prelude s c) c d [] hpre.1 hpre.2).1
        simp only [doAction, dispatch, hpre.2, hpre.1, if_true, this]

/-! ### Decision functions are total -/

/-- **tap_hold_tick_total**: ticking a tap-hold waiting state never crashes. -/
theorem tap_hold_tick_total (w : Waiting) (cfg : HTConfig) (hc : w.config = .holdTap cfg)
    (q : List Queued) (aq : ActionQueue) : ∃ r, tickWt w q aq = .ok r :=
  ⟨_, C05.tickWt_holdTap w cfg hc q aq⟩

/-- **chord_tick_total**: ticking a chord waiting state never crashes. -/
theorem chord_tick_total (w : Waiting) (g : ChordsGroup) (hc : w.config = .chord g)
    (q : List Queued) (aq : ActionQueue) : ∃ r, tickWt w q aq = .ok r := by
  unfold tickWt
  simp only [hc]
  split <;> exact ⟨_, rfl⟩

/-- **tap_dance_tick_total**: ticking a tap-dance waiting state crashes only if its action list is
empty (`CfgWF` excludes that; the parser accepted it — see the C17 finding). -/
theorem tap_dance_tick_total (w : Waiting) (acts : List Action) (t n : Nat)
    (hc : w.config = .tapDance acts t n) (hne : acts ≠ []) (q : List Queued) (aq : ActionQueue) :
    ∃ r, tickWt w q aq = .ok r := by
  unfold tickWt
  simp only [hc]
  unfold tickWtTd tdPick
  generalize handleTapDance _ n acts.length q = res
  obtain ⟨q', ret, nt⟩ := res
  have hidx : min nt acts.length - 1 < acts.length := by
    have : 0 < acts.length := List.length_pos_iff.mpr hne
    omega
  cases ret with
  | none => exact ⟨_, rfl⟩
  | some a =>
    simp only [List.getElem?_eq_getElem hidx]
    exact ⟨_, rfl⟩

/-! ### The edge of the layer table (not reachable from the event loop) -/

/-- **input_code_767_counterexample**: the layer tables have 767 columns (0‥766) but key code 767
(`KEY_MAX`) is a valid `OsCode`; `handle_input_event` called with that code indexes out of bounds
(`resolve_coord` asserts `y <= len` instead of `y < len`). This is a fact about the function, not
a defect of kanata: the event loop hands an event to `handle_input_event` only if its code is in
`MAPPED_KEYS`, and no configuration maps 767 (C11 `mapped_set_spec`; `parse_deflocalkeys` refuses it
since 414291c). It was first recorded as a known finding because the harness called
`handle_input_event` with every code; that was a false alarm of the harness and has been withdrawn
(the generator now stays below `KEYS_IN_ROW`, as the event loop does). -/
theorem input_code_767_counterexample (s : Layout) (l : Nat) (rest : List Nat)
    (hl : l < s.cfg.layers.length) (hr : s.cfg.rows = 2) (hc : s.cfg.cols = 767) :
    ∃ site, s.resolveCoord (0, 767) (l :: rest) = .error (.indexOOB site) := by
  have hget : ∃ tbl, s.cfg.layers[l]? = some tbl := ⟨_, List.getElem?_eq_getElem hl⟩
  obtain ⟨tbl, ht⟩ := hget
  refine ⟨"layers[l][x][y]", ?_⟩
  simp [Layout.resolveCoord, LCfg.layerAction, hr, hc, ht]

end KVerif.C02
