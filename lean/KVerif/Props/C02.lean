/-
C02 — an accepted configuration never crashes or hangs event processing.

Full statement (not proved as one theorem): for every configuration with `WF.cfgWF k = none` and every
finite list of inputs (key events for any code, ticks), `runK` never returns a `Crash`.
What is proved here are the crash sites one by one — each either shown unreachable for all states
(after the `fix:` commits) or exhibited with a witness — plus totality statements for the decision
functions, and, for the layered fragment of C04, the whole statement at the layout level
(`frag04_never_crashes`: `Layout::event` / `Layout::tick` never crash, for every history within the
bounds of `layered_refines`; helper lemmas in Lemmas/NoCrash04.lean).  The whole-model statement is
checked differentially (C02 correspondence + crash oracle).
-/
import KVerif.Model.CfgWF
import KVerif.Lemmas.TapHold
import KVerif.Lemmas.NoCrash04
import KVerif.Props.C04
namespace KVerif.C02
open KVerif.L

/-! ### The layer stack (heapless `Vec` of 12) -/

/-- **layer_stack_never_overflows** (full, after fix 31b82c0): whatever is held, computing the layer
order for transparent-key resolution succeeds and yields at most 12 entries. -/
theorem layer_stack_never_overflows (s : Layout) (h : s.cfg.pinnedLayerStack = false) :
    ∃ v, s.transOrder = .ok v ∧ v.length ≤ MAX_ACTIVE_LAYERS := by
  unfold Layout.transOrder
  simp only [h, Bool.false_eq_true, if_false]
  have hl : (s.activeHeldLayers.take MAX_ACTIVE_LAYERS).length ≤ MAX_ACTIVE_LAYERS := by
    rw [List.length_take]; omega
  have hp : ∀ (l : List Nat) (x : Nat), l.length ≤ MAX_ACTIVE_LAYERS →
      (pushCap MAX_ACTIVE_LAYERS l x).length ≤ MAX_ACTIVE_LAYERS := by
    intro l x hl; unfold pushCap; split
    · simp only [List.length_append, List.length_cons, List.length_nil]; omega
    · exact hl
  by_cases hv : s.transV2 = true
  · simp only [hv, if_true]
    rw [if_neg (by omega)]
    split
    · exact ⟨_, rfl, hp _ _ (hp _ _ hl)⟩
    · exact ⟨_, rfl, hp _ _ hl⟩
  · simp only [hv, Bool.false_eq_true, if_false]
    split <;> exact ⟨_, rfl, by simp [MAX_ACTIVE_LAYERS]⟩

/-- thirteen held layers -/
def thirteenLayers : Layout :=
  { cfg := { layers := [[], []], srcKeys := [], pinnedLayerStack := true },
    states := (List.range 13).map fun i => .layerModifier (i % 2) (0, 30) }

/-- **layer_stack_overflow_pinned_counterexample**: on the pinned code thirteen held layers made the
next key press panic (`Vec::from_iter overflow`); reproduced on the real code, repaired by 31b82c0. -/
theorem layer_stack_overflow_pinned_counterexample :
    thirteenLayers.transOrder = .error .layerStackOverflow ∧
    ({ thirteenLayers with cfg := { thirteenLayers.cfg with pinnedLayerStack := false } } : Layout).transOrder
      = .ok [0, 1, 0, 1, 0, 1, 0, 1, 0, 1, 0, 1] := by
  constructor <;> rfl

/-! ### The repeat action -/

/-- **repeat_with_nothing_saved_is_noop**: `rpt-any` with no saved action changes nothing but the
bookkeeping of every action (clear-on-next-action keys, quick-tap tracker). -/
theorem repeat_with_nothing_saved_is_noop (fuel : Nat) (s : Layout) (c : Coord) (d : Nat) (o : Bool)
    (ls : List Nat) (h : s.rptAction = none) :
    doAction (fuel + 2) s .repeat c d o ls = .ok (prelude s c, .noEvent) := by
  have hp : (prelude s c).rptAction = none := by
    unfold prelude; split <;> exact h
  simp only [doAction, dispatch, hp]

/-- **repeat_no_reentry** (full, after fix c6daee1): repeating runs the saved action on a state in
which nothing is saved, so a repeat nested inside the saved action is a no-op by the previous
theorem instead of re-entering it. -/
theorem repeat_no_reentry (fuel : Nat) (s : Layout) (ac : Action) (c : Coord) (d : Nat) (o : Bool)
    (ls : List Nat) (hf : s.cfg.pinnedRepeat = false) (h : s.rptAction = some ac) :
    doAction (fuel + 2) s .repeat c d o ls =
      match doAction fuel { prelude s c with rptAction := none } ac c d o [] with
      | .error e => .error e
      | .ok r => .ok (if r.1.rptAction.isNone then { r.1 with rptAction := some ac } else r.1, .noEvent) := by
  have hp : (prelude s c).rptAction = some ac := by
    unfold prelude; split <;> exact h
  have hc : (prelude s c).cfg.pinnedRepeat = false := by
    unfold prelude; split <;> exact hf
  simp only [doAction, dispatch, hp, hc, Bool.false_eq_true, if_false]
  rfl

/-- the saved action of `(multi rpt-any a)` after its first press -/
def selfRepeating (k : KeyCode) : Action := .multipleActions [.repeat, .keyCode k]

/-- **repeat_reentry_pinned_diverges** (counterexample, pinned code): with `(multi rpt-any a)` saved,
the second press recursed without bound — for every amount of fuel the model runs out of it (the real
process overflowed its stack and aborted; reproduced, repaired by c6daee1). -/
theorem repeat_reentry_pinned_diverges (k : KeyCode) : ∀ (fuel : Nat) (s : Layout) (c : Coord) (d : Nat) (ls : List Nat),
    s.cfg.pinnedRepeat = true → s.rptAction = some (selfRepeating k) →
    doAction fuel s (selfRepeating k) c d false ls = .error .fuelOut ∧
    doAction fuel s .repeat c d false ls = .error .fuelOut := by
  intro fuel
  induction fuel using Nat.strongRecOn with
  | _ fuel ih =>
    intro s c d ls hp hr
    have hpre : (prelude s c).cfg.pinnedRepeat = true ∧ (prelude s c).rptAction = some (selfRepeating k) := by
      unfold prelude; split <;> exact ⟨hp, hr⟩
    have hupd : (updateCoord (prelude s c) c).cfg.pinnedRepeat = true ∧
        (updateCoord (prelude s c) c).rptAction = some (selfRepeating k) := by
      unfold updateCoord; split <;> exact hpre
    constructor
    · -- the multi: its first sub-action is the repeat
      match fuel with
      | 0 => rfl
      | 1 => rfl
      | 2 => rfl
      | f + 3 =>
        have := (ih f (by omega) (updateCoord (prelude s c) c) c d ls hupd.1 hupd.2).2
        simp only [doAction, selfRepeating, dispatch, doActions, this]
    · match fuel with
      | 0 => rfl
      | 1 => rfl
      | f + 2 =>
        have := (ih f (by omega) (prelude s c) c d [] hpre.1 hpre.2).1
        simp only [doAction, dispatch, hpre.2, hpre.1, if_true, this]

/-! ### Decision functions are total -/

/-- **tap_hold_tick_total**: ticking a tap-hold waiting state never crashes. -/
theorem tap_hold_tick_total (w : Waiting) (cfg : HTConfig) (hc : w.config = .holdTap cfg)
    (q : List Queued) (aq : ActionQueue) : ∃ r, tickWt w q aq = .ok r :=
  ⟨_, C05.tickWt_holdTap w cfg hc q aq⟩

/-- **chord_tick_total**: ticking a chord waiting state never crashes. -/
theorem chord_tick_total (w : Waiting) (g : ChordsGroup) (hc : w.config = .chord g)
    (q : List Queued) (aq : ActionQueue) : ∃ r, tickWt w q aq = .ok r := by
  unfold tickWt
  simp only [hc]
  split <;> exact ⟨_, rfl⟩

/-- **tap_dance_tick_total**: ticking a tap-dance waiting state crashes only if its action list is
empty (`CfgWF` excludes that; the parser accepted it — see the C17 finding). -/
theorem tap_dance_tick_total (w : Waiting) (acts : List Action) (t n : Nat)
    (hc : w.config = .tapDance acts t n) (hne : acts ≠ []) (q : List Queued) (aq : ActionQueue) :
    ∃ r, tickWt w q aq = .ok r := by
  unfold tickWt
  simp only [hc]
  unfold tickWtTd tdPick
  generalize handleTapDance _ n acts.length q = res
  obtain ⟨q', ret, nt⟩ := res
  have hidx : min nt acts.length - 1 < acts.length := by
    have : 0 < acts.length := List.length_pos_iff.mpr hne
    omega
  cases ret with
  | none => exact ⟨_, rfl⟩
  | some a =>
    simp only [List.getElem?_eq_getElem hidx]
    exact ⟨_, rfl⟩

/-! ### [t7:u16-delay] The delay handed on when a waiting state resolves (`w.delay + w.ticks`, u16) -/

/-- the pinned code: `w.delay + w.ticks` with overflow checks (debug builds, `cargo test`);
`none` = `attempt to add with overflow` in waiting_into_hold / _tap / _timeout -/
def waitingDelayPinned (w : Waiting) : Option Nat :=
  match w.config with
  | .holdTap _ | .chord _ => if w.delay + w.ticks ≤ U16_MAX then some (w.delay + w.ticks) else none
  | .tapDance .. => some 0

/-- **waiting_delay_fits_u16** (full, after fix PENDING-1): whatever a waiting state holds, the
delay it hands to `do_action` when it resolves is a u16 - the sum saturates. -/
theorem waiting_delay_fits_u16 (w : Waiting) : waitingDelay w ≤ U16_MAX := by
  unfold waitingDelay
  cases w.config with
  | holdTap c => exact Nat.min_le_right _ _
  | chord g => exact Nat.min_le_right _ _
  | tapDance a t n => exact Nat.zero_le _

/-- **waiting_delay_repair_conservative**: wherever the pinned code did not panic, the repaired code
hands on the same delay. -/
theorem waiting_delay_repair_conservative (w : Waiting) (d : Nat) (h : waitingDelayPinned w = some d) :
    waitingDelay w = d := by
  unfold waitingDelayPinned at h
  unfold waitingDelay
  cases hcfg : w.config with
  | holdTap c =>
    simp only [hcfg] at h ⊢
    split at h
    · rename_i hle; injection h with h; rw [Nat.min_eq_left hle]; exact h
    · cases h
  | chord g =>
    simp only [hcfg] at h ⊢
    split at h
    · rename_i hle; injection h with h; rw [Nat.min_eq_left hle]; exact h
    · cases h
  | tapDance a t n =>
    simp only [hcfg] at h ⊢
    injection h

/-- **waiting_delay_overflow_pinned_counterexample** (pinned code): every tap-hold or chord state
whose press waited in the queue for at least one tick (`delay = Queued.since ≥ 1`: the tick that
dequeues a press has aged it already) and whose own counter is saturated (`tickWt` counts
`min (ticks + 1) U16_MAX`, i.e. the key was undecided for 65535 ms) panicked when it resolved.
Witness on the real code: `(tap-hold 0 65535 a lctl)`, `d:a t:65536`. -/
theorem waiting_delay_overflow_pinned_counterexample (w : Waiting) (hc : ∀ a t n, w.config ≠ .tapDance a t n)
    (hd : 1 ≤ w.delay) (ht : w.ticks = U16_MAX) : waitingDelayPinned w = none := by
  unfold waitingDelayPinned
  cases hcfg : w.config with
  | holdTap c => simp only []; rw [if_neg (by omega)]
  | chord g => simp only []; rw [if_neg (by omega)]
  | tapDance a t n => exact absurd hcfg (hc a t n)

/-- the hypotheses are met by the state of the witness one tick before the deadline -/
example : waitingDelayPinned { (default : Waiting) with delay := 1, ticks := U16_MAX, config := .holdTap .default } = none :=
  waiting_delay_overflow_pinned_counterexample _ (by intro a t n h; cases h) (by decide) rfl

/-! ### The edge of the layer table (not reachable from the event loop) -/

/-- **input_code_767_counterexample**: the layer tables have 767 columns (0‥766) but key code 767
(`KEY_MAX`) is a valid `OsCode`; `handle_input_event` called with that code indexes out of bounds
(`resolve_coord` asserts `y <= len` instead of `y < len`). This is a fact about the function, not
a defect of kanata: the event loop hands an event to `handle_input_event` only if its code is in
`MAPPED_KEYS`, and no configuration maps 767 (C11 `mapped_set_spec`; `parse_deflocalkeys` refuses it
since 414291c). It was first recorded as a known finding because the harness called
`handle_input_event` with every code; that was a false alarm of the harness and has been withdrawn
(the generator now stays below `KEYS_IN_ROW`, as the event loop does). -/
theorem input_code_767_counterexample (s : Layout) (l : Nat) (rest : List Nat)
    (hl : l < s.cfg.layers.length) (hr : s.cfg.rows = 2) (hc : s.cfg.cols = 767) :
    ∃ site, s.resolveCoord (0, 767) (l :: rest) = .error (.indexOOB site) := by
  have hget : ∃ tbl, s.cfg.layers[l]? = some tbl := ⟨_, List.getElem?_eq_getElem hl⟩
  obtain ⟨tbl, ht⟩ := hget
  refine ⟨"layers[l][x][y]", ?_⟩
  simp [Layout.resolveCoord, LCfg.layerAction, hr, hc, ht]

/-! ### The layered fragment never crashes (the unconditional half of C04's `layered_refines`) -/

section Layered
open KVerif.C04 KVerif.Spec.Layered

/-- every press of the history lies inside the layer table (decidable) -/
def InTable (c : LCfg) (ins : List In) : Prop :=
  (ins.all fun i => match i with | .ev e => evOK c e | .tick => true) = true

instance (c : LCfg) (ins : List In) : Decidable (InTable c ins) := by unfold InTable; exact inferInstance

/-- **frag04_never_crashes** (full, on the fragment).  On the layered fragment of C04 the model of
`Layout::event` / `Layout::tick` never takes a crash branch — no index out of bounds, no layer-stack
overflow, no unresolved transparent action, no exhausted recursion budget — for every history, any
order and timing of presses, releases and ticks, physically consistent or not, that stays within the
bounds `layered_refines` already assumes (`Safe`: fewer than 32 events pending when one arrives, at
most 10 layers held).  Hypotheses beyond those of `layered_refines` (each a decidable predicate):

* `DepthOK`: every configured action has fuel cost ≤ `COST_MAX` = 300, where the cost of a `multi` is
  2 + max over its members of (position + 1 + cost of the member) and 2 for everything else
  (`nesting_bound_suffices`: `multi` nested ≤ `d` deep with ≤ `w` members each is enough whenever
  `d * (w + 2) + 2 ≤ 300`, e.g. 16 × 16 or 1 × 296).  The model recurses on fuel (`FUEL` = 4000, and
  its `multi` loop also consumes one unit per member; through `Trans` resolution the budget is spent
  at most once more per held layer, hence 300 ≈ 4000 / 13); the real `do_action` recurses on the
  call stack once per nesting level and loops over the members.  On this fragment `parse_multi`
  splices a `multi` written directly inside a `multi` into its parent, so parsed actions nest one
  level deep and only their length is unbounded — harmless in Rust, but a flat `multi` of 4000
  members exhausts the *model's* budget (a model artefact, stated here rather than hidden).
  Across the whole grammar **kanata's parser does not bound the nesting** (`multi` inside
  `fork` / `tap-hold` / `one-shot` / `tap-dance` / `switch` inside `multi` …): an accepted
  configuration nested deeply enough exhausts the stack.  That risk is outside this theorem; the C02
  crash oracle probes it separately (deep-nesting configurations run on the real code).
* `RangeOK` (configuration) and `InRange` (state): there is a layer; every `layer-while-held` target,
  every held layer and the base layer exist — otherwise `self.layers[layer]` in `resolve_coord`
  panics (index out of bounds); kanata's parser resolves layer names, so targets are in range, and
  `layer-switch` is range-checked at run time.  The defsrc row holds no transparent / use-defsrc item —
  otherwise a press that falls through every layer reaches `unreachable!("Trans action should have
  been resolved earlier")`, or `Src` re-enters itself without bound; kanata fills the row with plain
  key codes (`CfgWF`: "defsrc entry is not a plain key").
* `InTable` (history) and the pending part of `InRange` (state): every press has row < `rows` and
  column < `cols` (2 × 767 in kanata) — otherwise `self.layers[layer][x][y]` / `self.src_keys[y]`
  in `resolve_coord` panic (see `input_code_767_counterexample`: the `assert!`s there use `<=`).
  Releases need no bound.  The event loop only forwards codes in `MAPPED_KEYS` (C11). -/
theorem frag04_never_crashes : ∀ (ins : List In) (s : Layout), CfgFrag s.cfg → DepthOK s.cfg →
    RangeOK s.cfg → Inert s → InRange s → Safe (km s) (abs s) ins → InTable s.cfg ins →
    ∃ t, runM s ins = .ok t := by
  intro ins
  induction ins with
  | nil => intro s _ _ _ _ _ _ _; exact ⟨[], rfl⟩
  | cons i rest ih =>
    intro s hc hd hr hi hin hs ht
    unfold InTable at ht
    simp only [List.all_cons, Bool.and_eq_true] at ht
    cases i with
    | ev e =>
      simp only [Safe] at hs
      obtain ⟨s1, e1, e2, e3, e4⟩ := event_input hi e hs.1
      have hin1 : InRange s1 := by
        unfold InRange; rw [e3.cfg, e4]; exact input_inRange hin ht.1
      obtain ⟨t, h⟩ := ih s1 (e3.cfg ▸ hc) (e3.cfg ▸ hd) (e3.cfg ▸ hr) e2 hin1
        (by rw [e3.km, e4]; exact hs.2) (by rw [e3.cfg]; exact ht.2)
      exact ⟨t, by simp only [runM, e1, h]⟩
    | tick =>
      simp only [Safe] at hs
      obtain ⟨⟨s1, cu⟩, h1⟩ := tick_total hc hd hr hi hin hs.1
      obtain ⟨t1, t2, _, t4⟩ := tick_step hc hi hs.1 s1 cu h1
      have hin1 : InRange s1 := by
        unfold InRange; rw [t2.cfg, t4]; exact step_inRange (km s) hr hin
      obtain ⟨t, h⟩ := ih s1 (t2.cfg ▸ hc) (t2.cfg ▸ hd) (t2.cfg ▸ hr) t1 hin1
        (by rw [t2.km, t4]; exact hs.2) (by rw [t2.cfg]; exact ht.2)
      exact ⟨s1.keycodes :: t, by simp only [runM, h1, h]⟩

/-- **frag04_runs_as_layered** (full, on the fragment): the run exists *and* is the trace of the
layered-keymap machine — `layered_refines` without its "if the layout processes the history". -/
theorem frag04_runs_as_layered (ins : List In) (s : Layout) (hc : CfgFrag s.cfg) (hd : DepthOK s.cfg)
    (hr : RangeOK s.cfg) (hi : Inert s) (hin : InRange s) (hs : Safe (km s) (abs s) ins)
    (ht : InTable s.cfg ins) : runM s ins = .ok (runS (km s) (abs s) ins) := by
  obtain ⟨t, h⟩ := frag04_never_crashes ins s hc hd hr hi hin hs ht
  rw [h, layered_refines ins s hc hi hs t h]

/-- a freshly created layout is in range (so, with `init_inert`, the theorems apply from start-up) -/
theorem init_inRange (cfg : LCfg) (tv2 dfl qth : Bool) (osd : Nat) (hr : RangeOK cfg) :
    InRange { cfg := cfg, transV2 := tv2, delegateToFirstLayer := dfl, quickTapHoldTimeout := qth,
              oneshot := { pauseInputProcessingDelay := osd } } :=
  InRangeT.pack ⟨hr.unpack.pos, by intro x hx; simp [C04.abs] at hx⟩ (by intro e he; simp [C04.abs] at he)

/-! Non-vacuity: the three-layer configuration of C04 (every kind of action of the fragment, a
transparent item nested in a `multi`, use-defsrc), a state with a key down and a press pending, and
a history with presses, releases and idle ticks (the pending press holds layer 2 and sends 42; the
next one is use-defsrc on layer 2; the third finds its key through a transparent item nested in a
`multi`, which also releases 42). -/

def sampleState : Layout :=
  { cfg := sampleCfg, states := [.normalKey 7 (0, 7) 0], queue := [⟨.press (0, 48), 0⟩] }

def sampleHist : List In :=
  [.ev (.press (0, 30)), .tick, .tick, .ev (.press (0, 46)), .tick, .ev (.release (0, 48)), .tick,
   .ev (.press (0, 46)), .ev (.release (0, 30)), .tick, .tick, .tick]

theorem sampleCfg_frag : CfgFrag sampleCfg := by
  refine ⟨?_, ?_⟩
  · intro tbl ht e he
    simp only [sampleCfg, List.mem_cons, List.mem_nil_iff, or_false] at ht
    rcases ht with rfl | rfl | rfl <;>
      (simp only [List.mem_cons, List.mem_nil_iff, or_false] at he
       rcases he with rfl | rfl | rfl <;> simp [Frag, FragL])
  · intro e he
    simp only [sampleCfg, List.mem_cons, List.mem_nil_iff, or_false] at he
    rcases he with rfl | rfl | rfl <;> simp [Frag]

theorem sampleState_inert : Inert sampleState :=
  ⟨rfl, rfl, rfl, rfl, rfl, rfl, rfl, by
    intro st h
    simp only [sampleState, List.mem_cons, List.mem_nil_iff, or_false] at h
    subst h; exact Or.inl rfl⟩

example : NestingOK 1 296 sampleCfg := by decide
example : DepthOK sampleCfg := nesting_bound_suffices (d := 1) (w := 296) (by decide) (by decide)
example : DepthOK sampleCfg := nesting_bound_suffices (d := 16) (w := 16) (by decide) (by decide)
example : RangeOK sampleCfg := by decide
example : InRange sampleState := by decide
example : InTable sampleCfg sampleHist := by decide
theorem sampleHist_safe : Safe (km sampleState) (C04.abs sampleState) sampleHist := by
  simp only [sampleHist, Safe]
  decide

/-- the theorem applied: the sample run exists and is the layered machine's trace -/
example : runM sampleState sampleHist = .ok (runS (km sampleState) (C04.abs sampleState) sampleHist) :=
  frag04_runs_as_layered sampleHist sampleState sampleCfg_frag (by decide) (by decide) sampleState_inert
    (by decide) sampleHist_safe (by decide)

/-- and the trace is not trivial -/
example : runS (km sampleState) (C04.abs sampleState) sampleHist =
    [[7, 42], [7, 42, 30], [7, 30, 45], [7, 30, 45], [7, 30, 45, 45], [7, 45, 45], [7, 45, 45]] := by decide

/-! Each index hypothesis is needed: drop it and the model takes the crash branch named in the
statement of `frag04_never_crashes`.  None of the three witnesses is a configuration kanata's parser
produces (layer names are resolved, the defsrc row is filled with plain key codes). -/

/-- the crash outcome of a run, if any -/
def crashOf {α} : Except Crash α → Option Crash
  | .error c => some c
  | .ok _ => none

/-- `layer-while-held` on a layer that does not exist: the next press indexes `self.layers[5]` -/
def badLayerCfg : LCfg :=
  { layers := [[((0, 30), .layer 5)]], srcKeys := [(30, .keyCode 30), (31, .keyCode 31)] }

theorem layer_target_out_of_range_counterexample :
    DepthOK badLayerCfg ∧ ¬ RangeOK badLayerCfg ∧
    crashOf (runM { cfg := badLayerCfg } [.ev (.press (0, 30)), .tick, .ev (.press (0, 31)), .tick])
      = some (.indexOOB "layers[layer]") := by
  refine ⟨by decide, by decide, by decide +kernel⟩

/-- a transparent item in the defsrc row: a press that falls through every layer reaches
`unreachable!("Trans action should have been resolved earlier")` -/
def transDefsrcCfg : LCfg := { layers := [[]], srcKeys := [(30, .trans)] }

theorem trans_in_defsrc_counterexample :
    DepthOK transDefsrcCfg ∧ ¬ RangeOK transDefsrcCfg ∧
    crashOf (runM { cfg := transDefsrcCfg } [.ev (.press (0, 30)), .tick]) = some .transUnresolved := by
  refine ⟨by decide, by decide, by decide +kernel⟩

/-- use-defsrc in the defsrc row re-enters itself: whatever the budget, it runs out (the real code
would recurse until the stack is exhausted) -/
theorem src_in_defsrc_diverges : ∀ (fuel : Nat) (s : Layout) (c : Coord) (d : Nat) (ls : List Nat),
    s.cfg.srcKey c.2 = .src → c.2 < s.cfg.cols →
    doAction fuel s .src c d false ls = .error .fuelOut ∧
    dispatch fuel s .src c d false ls = .error .fuelOut := by
  intro fuel
  induction fuel with
  | zero => intro s c d ls _ _; exact ⟨rfl, rfl⟩
  | succ fuel ih =>
    intro s c d ls h hc
    have hp : (prelude s c).cfg = s.cfg := (prelude_same s c).cfg
    refine ⟨?_, ?_⟩
    · simp only [doAction]
      exact (ih (prelude s c) c d ls (hp ▸ h) (hp ▸ hc)).2
    · simp only [dispatch]
      rw [if_neg (by omega), h, (ih s c d [] h hc).1]

end Layered

/-- **positional_action_outside_rows_crashes** (pinned defect, repaired by bad1252 in the parser):
`use-defsrc` and the transparent action are resolved through the position of the pressed key.
Performed at a position beyond the layer rows - where chords v2 perform their actions - both index
out of bounds, whatever the rest of the state is.  The parser therefore has to refuse them inside
`defchordsv2` in every nesting (before the repair it refused only the literal `_`). -/
theorem positional_action_outside_rows_crashes (fuel : Nat) (s : Layout) (c : Coord) (d : Nat)
    (os : Bool) (ls : List Nat) (h : c.2 > s.cfg.cols) :
    (∃ e, dispatch (fuel + 1) s .src c d os ls = .error (.indexOOB e)) ∧
    (∃ e, doAction (fuel + 1) s .trans c d os ls = .error (.indexOOB e)) := by
  refine ⟨⟨_, by simp only [dispatch]; rw [if_pos (by omega)]⟩, ?_⟩
  cases ls <;> simp only [doAction, Layout.resolveCoord] <;> by_cases hx : c.1 > s.cfg.rows
  · exact ⟨_, by rw [if_pos hx]⟩
  · exact ⟨_, by rw [if_neg hx, if_pos h]⟩
  · exact ⟨_, by rw [if_pos hx]⟩
  · exact ⟨_, by rw [if_neg hx, if_pos h]⟩

end KVerif.C02
