/-
C20 — zippychord leaves exactly the expansion on screen.
Property theorems only; helper lemmas are in KVerif/Lemmas/Zippy*.lean.

Vocabulary (all defined in Model/ or Lemmas/):
* `zRun cfg s h`           the zippychord state machine run over a history `h` of presses, releases and
                           ticks from state `s`: final state and the OS key events it wrote.
* `Buf`, `Buf.run`         the receiving application's text buffer (Model/TextBuf.lean); `rtext` is the
                           text most-recent-character-first, `shown` in reading order.
* `typeOuts rt sh out`     the text after the keystrokes of expansion `out` on top of `rt`, the first one
                           under the user's shift `sh`; `withSmartSpace` adds the smart space.
* `BasicEntry d K out`     `K ↦ out` is a top-level chord of dictionary `d`, stored once, and no other
                           top-level chord has all its keys inside `K`.
* `Fresh s`                zippychord enabled, no key held, nothing remembered from earlier activations.
* `ModsAgree s b`          the buffer's shift/AltGr state is the one zippychord believes the user holds.
* `bufAfterPunct`          the buffer after the documented smart-space erasure, if the first key of a chord
                           is a smart-space punctuation key pressed right after a smart space was sent.
* `zRunPinned`             the same run over the model of the code BEFORE the `fix:` commits for defect
                           classes 1, 4, 5, 6, 7-8 (used by the counterexample theorems only).
-/
import KVerif.Lemmas.ZippyFollow
import KVerif.Lemmas.ZippyMods
import KVerif.Lemmas.ZippyPass
import KVerif.Lemmas.ZippySim
import KVerif.Gen.Zippy
namespace KVerif.Zippy
open KVerif.TextBuf

/-- **subset_lookup_spec** (full).  For every sequence of `ssm_insert_ksorted` calls starting from an
empty map and every lookup key, `ssm_get_or_is_subset_ksorted` on the per-item map of sorted vectors
returns: the value of the last insertion under exactly that key; otherwise `IsSubset` iff the key's
items all occur in some inserted (non-empty) key; otherwise `Neither`.  (An empty lookup key is a
subset of anything stored; inserting an empty key stores nothing.)  No sortedness assumption is
needed beyond what the model of `binary_search_by` already builds in. -/
theorem subset_lookup_spec {V : Type} (ins : List (Key × V)) (k : Key) :
    ssmGet (ssmOf ins) k = lookupSpec ins k := by
  rw [(rep_of ins).get k, absGet_absOf]

example : ssmGet (ssmOf [([1, 2], 7), ([1, 2, 3], 9), ([1, 2], 8)]) [1, 2] = Lookup.hasValue 8 ∧
    ssmGet (ssmOf [([1, 2], 7), ([1, 2, 3], 9)]) [2, 3] = (Lookup.isSubset : Lookup Nat) ∧
    ssmGet (ssmOf [([1, 2], 7), ([1, 2, 3], 9)]) [2, 5] = (Lookup.neither : Lookup Nat) := by decide

/-- Every lookup the zippychord model performs is such a lookup on the entries of one level of the
chord tree. -/
theorem lookup_level_spec (d : Dict) (p : Path) (k : Key) :
    lookupLevel d p k = lookupSpec (level d p) k := lookupLevel_eq d p k

/-- **zippy_net_text_basic** (full, for chords without a shorter overlapping chord).
Let `K ↦ out` be a top-level chord with a non-empty expansion such that no other top-level chord lies
inside `K` (longer chords and follow-ups may exist).  From a fresh state, press the keys of `K` in
ANY order (`front` = all but the last key, each with the number of ticks that pass before the next
press; `last` = the completing key; together a permutation of `K`), the last press coming less
than `on-first-press-chord-deadline` ticks after the first (no limit if the deadline is 0) and no
single gap above the forced-reset time.  Then, whatever the text before, whichever of shift and
AltGr the user holds and whatever the smart-space state:

* the text afterwards is the text before — minus the smart space of an earlier activation if the
  first key pressed is a smart-space punctuation key (`bufAfterPunct`, the documented erasure) —
  with exactly the expansion typed on top of it (first keystroke under the user's shift) and the
  smart space when configured: every character typed while forming the chord has been erased,
  nothing else has (since `<fix-class-6>` also when that first key is a punctuation key);
* shift and AltGr at the OS are as the user holds them;
* zippychord regards the press as a chord (`lastPress = isChord`) with exactly `K` held.

No bound on the size of the dictionary, of `K`, of the expansion or of the text. -/
theorem zippy_net_text_basic (cfg : Cfg) (K : Key) (out : List ZchOut) (s : Zchd) (b : Buf)
    (front : List (Nat × Nat)) (last : Nat)
    (hent : BasicEntry cfg.dict K out)
    (hkeys : ∀ x ∈ K, isZippyIgnored x = false)
    (hout : out.isEmpty = false) (hko : ∀ o ∈ out, CharKey o.osc)
    (hperm : (front.map (·.1) ++ [last]).Perm K)
    (hgap : ∀ kg ∈ front, kg.2 ≤ TICKS_UNTIL_FORCE_STATE_RESET)
    (hdl : cfg.ticksChordDeadline = 0 ∨ (front.map (·.2)).sum < cfg.ticksChordDeadline)
    (hfresh : Fresh s) (hmods : ModsAgree s b) :
    let first := (front.map (·.1) ++ [last]).headD 0
    let r := zRun cfg s (chordHist front ++ [.press last])
    (b.run r.2).rtext =
      withSmartSpace cfg out (typeOuts (bufAfterPunct cfg s first b).rtext (s.lsft || s.rsft) out) ∧
    ModsAgree s (b.run r.2) ∧ r.1.lastPress = .isChord ∧ r.1.inputKeys = K := by
  intro first r
  have h := basic_run cfg K out s b front last hent hkeys hout hko hperm hgap hdl hfresh hmods
  exact ⟨h.1, h.2.1, h.2.2.1, h.2.2.2.1⟩

/-- The state `Kanata::new_from_str` leaves zippychord in is fresh. -/
example : Fresh (zchConfigure Zchd.default) := ⟨rfl, rfl, rfl, rfl, rfl, rfl, rfl⟩

/-- dictionary `acb ↦ xY`, `dy ↦ day`, `dy 1 ↦ M` (as the parser builds it), smart space on, `a` a
punctuation key -/
def exCfg : Cfg :=
  ⟨[⟨[], [30, 46, 48], [⟨.lower, false, 45⟩, ⟨.upper, false, 21⟩]⟩,
    ⟨[], [21, 32], [⟨.lower, false, 32⟩, ⟨.lower, false, 30⟩, ⟨.lower, false, 21⟩]⟩,
    ⟨[[21, 32]], [2], [⟨.upper, false, 50⟩]⟩], 500, 50, .full,
   [⟨.lower, false, 52⟩, ⟨.lower, false, 30⟩]⟩

theorem exCfg_built : buildDict
    [⟨[[48, 30, 46]], [⟨.lower, false, 45⟩, ⟨.upper, false, 21⟩]⟩,
     ⟨[[32, 21]], [⟨.lower, false, 32⟩, ⟨.lower, false, 30⟩, ⟨.lower, false, 21⟩]⟩,
     ⟨[[32, 21], [2]], [⟨.upper, false, 50⟩]⟩] = .ok exCfg.dict := by rfl

/-- The hypotheses of `zippy_net_text_basic` are met by a concrete non-trivial instance: the three-key
chord `a c b` pressed in the order a, b, c with gaps 3 and 0, after a previous activation left the
smart-space state `sent` and its space on screen; `a` is a punctuation key, so that space goes. -/
example :
    let s : Zchd := { zchConfigure Zchd.default with smartSpaceState := .sent }
    let b : Buf := ⟨[⟨57, false, false⟩, ⟨30, false, false⟩], false, false, false⟩
    BasicEntry exCfg.dict [30, 46, 48] [⟨.lower, false, 45⟩, ⟨.upper, false, 21⟩] ∧
    (∀ x ∈ [30, 46, 48], isZippyIgnored x = false) ∧
    (∀ o ∈ [(⟨.lower, false, 45⟩ : ZchOut), ⟨.upper, false, 21⟩], CharKey o.osc) ∧
    (List.map Prod.fst ([(30, 3), (48, 0)] : List (Nat × Nat)) ++ [46]).Perm [30, 46, 48] ∧
    (exCfg.ticksChordDeadline = 0 ∨ (List.map Prod.snd ([(30, 3), (48, 0)] : List (Nat × Nat))).sum < exCfg.ticksChordDeadline) ∧
    Fresh s ∧ ModsAgree s b ∧ punctFires exCfg s 30 = true ∧
    (b.run (zRun exCfg s (chordHist [(30, 3), (48, 0)] ++ [.press 46])).2).shown =
      [⟨30, false, false⟩, ⟨45, false, false⟩, ⟨21, true, false⟩, ⟨57, false, false⟩] := by
  refine ⟨⟨by decide, by decide, by unfold StrictSorted; decide, ?_, by decide⟩, by decide, ?_, by decide, by decide,
    ⟨rfl, rfl, rfl, rfl, rfl, rfl, rfl⟩, ⟨rfl, rfl, rfl⟩, by decide, by decide⟩
  · intro o h
    have hl : level exCfg.dict [] = [([30, 46, 48], [⟨.lower, false, 45⟩, ⟨.upper, false, 21⟩]),
        ([21, 32], [⟨.lower, false, 32⟩, ⟨.lower, false, 30⟩, ⟨.lower, false, 21⟩])] := by decide
    rw [hl] at h
    simp at h
    exact h
  · intro o h
    simp at h
    rcases h with rfl | rfl <;> (unfold CharKey; decide)

/-- **zippy_net_text_basic_shown**: the same in reading order, for expansions without a Backspace and
a first key that is no smart-space punctuation key: `textAfter = textBefore ++ expansion (++ " ")`. -/
theorem zippy_net_text_basic_shown (cfg : Cfg) (K : Key) (out : List ZchOut) (s : Zchd) (b : Buf)
    (front : List (Nat × Nat)) (last : Nat)
    (hent : BasicEntry cfg.dict K out)
    (hkeys : ∀ x ∈ K, isZippyIgnored x = false)
    (hout : out.isEmpty = false) (hko : ∀ o ∈ out, CharKey o.osc)
    (hnb : ∀ o ∈ out, o.osc ≠ KEY_BACKSPACE)
    (hperm : (front.map (·.1) ++ [last]).Perm K)
    (hgap : ∀ kg ∈ front, kg.2 ≤ TICKS_UNTIL_FORCE_STATE_RESET)
    (hdl : cfg.ticksChordDeadline = 0 ∨ (front.map (·.2)).sum < cfg.ticksChordDeadline)
    (hfresh : Fresh s) (hmods : ModsAgree s b)
    (hss : punctFires cfg s ((front.map (·.1) ++ [last]).headD 0) = false) :
    (b.run (zRun cfg s (chordHist front ++ [.press last])).2).shown =
      b.shown ++ expansionChars (s.lsft || s.rsft) out ++
        (if wantsSmartSpace cfg out then [mkCh KEY_SPACE false false] else []) := by
  have h := (zippy_net_text_basic cfg K out s b front last hent hkeys hout hko hperm hgap hdl hfresh
    hmods).1
  simp only [Buf.shown, h, withSmartSpace, typeOuts_noBackspace _ _ _ hnb, bufAfterPunct, hss]
  split <;> simp [stroke, KEY_SPACE, KEY_BACKSPACE]

/- The property at full strength also covers chords that extend other chords ("any shorter expansion
it supersedes is erased"), follow-up chords, and all of this with shift held:

    for every dictionary, every line `c1 … cm ↦ out` of it and every way of pressing the chords
    (each in any order, within the deadline), textAfter = textBefore ++ out (++ smart space).

On the pinned code that statement was false in many ways (the `_counterexample` theorems below, about
the pinned definitions).  With `<fix-class-1>`, `<fix-class-4>`, `<fix-class-5>`, `<fix-class-6>` and
`<fix-class-7-8>` the parts below are proved; what is still missing — and still false of the code, see
KNOWN_FINDINGS.jsonl — is named at each theorem. -/

/-- **zippy_net_text_tower_partial**.  Chords that extend eagerly activated chords, to ANY depth
(kanata's "ab ↦ Abba, abc ↦ Alphabet", and on to "abcd ↦ …"): `K1 ↦ out1` is a basic chord without
follow-ups, and `steps` is a list of levels, each a chord `K ↦ out` that contains the previous one
with no other top-level chord in between (`ExtEntry`), no follow-ups, its new keys pressed in ANY order
after `g` ticks, each level inside the deadline (which restarts at every activation).  From a fresh
state, whatever shift / AltGr the user holds: after the keys of `K1` (any order) and of all levels,
the text is the text before plus exactly the expansion of the LAST level (first keystroke under the
user's shift) and its smart space — every earlier expansion, its smart space and every key typed on
the way have been erased, whatever prefixes consecutive expansions share (the common-prefix shortcut
keeps its count since `<fix-class-4>`, and types no shifted character in the middle since
`<fix-class-5>`) — and the modifiers are as the user holds them.
Missing for the full statement: expansions containing Backspace or no-erase outputs (a recorded
finding for Backspace), chords of the tower that have follow-ups, keys that are smart-space
punctuation keys (for the levels above the first). -/
theorem zippy_net_text_tower_partial (cfg : Cfg) (K1 : Key) (out1 : List ZchOut) (s : Zchd) (b : Buf)
    (front1 : List (Nat × Nat)) (last1 : Nat) (steps : List Step)
    (hent1 : BasicEntry cfg.dict K1 out1) (hnf1 : hasFollowups cfg.dict [K1] = false)
    (hkeys1 : ∀ x ∈ K1, isZippyIgnored x = false)
    (hout1 : out1.isEmpty = false) (hko1 : ∀ o ∈ out1, CharKey o.osc) (hp1 : PlainOuts out1)
    (hperm1 : (front1.map (·.1) ++ [last1]).Perm K1)
    (hgap1 : ∀ kg ∈ front1, kg.2 ≤ TICKS_UNTIL_FORCE_STATE_RESET)
    (hdl1 : cfg.ticksChordDeadline = 0 ∨ (front1.map (·.2)).sum < cfg.ticksChordDeadline)
    (hsteps : TowerOK cfg s K1 steps)
    (hfresh : Fresh s) (hmods : ModsAgree s b) :
    let base := bufAfterPunct cfg s ((front1.map (·.1) ++ [last1]).headD 0) b
    let top := towerTop K1 out1 steps
    let r := zRun cfg s ((chordHist front1 ++ [.press last1]) ++ towerHist steps)
    (b.run r.2).rtext = withSmartSpace cfg top.2 (typeOuts base.rtext (s.lsft || s.rsft) top.2) ∧
    ModsAgree s (b.run r.2) := by
  intro base top r
  have he := basic_eager cfg K1 out1 s b front1 last1 hent1 hnf1 hkeys1 hout1 hko1 hp1 hperm1 hgap1 hdl1
    hfresh hmods
  have ht := tower_run cfg s base steps K1 out1 _ _ hent1.root_nonempty he hsteps
  have hrun : r = ((zRun cfg (zRun cfg s (chordHist front1 ++ [.press last1])).1 (towerHist steps)).1,
      (zRun cfg s (chordHist front1 ++ [.press last1])).2 ++
        (zRun cfg (zRun cfg s (chordHist front1 ++ [.press last1])).1 (towerHist steps)).2) := by
    show zRun cfg s ((chordHist front1 ++ [.press last1]) ++ towerHist steps) = _
    rw [zRun_append]
  rw [hrun]
  simp only [run_append]
  obtain ⟨_, _, _, _, _, _, _, htext, hm, _⟩ := ht
  exact ⟨htext, hm⟩

/-- dictionary `a ↦ x`, `ab ↦ xy`, `abc ↦ xyz` with smart space -/
def exCfg2 : Cfg :=
  ⟨[⟨[], [30], [⟨.lower, false, 45⟩]⟩,
    ⟨[], [30, 48], [⟨.lower, false, 45⟩, ⟨.lower, false, 21⟩]⟩,
    ⟨[], [30, 46, 48], [⟨.lower, false, 45⟩, ⟨.lower, false, 21⟩, ⟨.lower, false, 44⟩]⟩], 500, 50, .full, []⟩

def exSteps2 : List Step :=
  [⟨[30, 48], [⟨.lower, false, 45⟩, ⟨.lower, false, 21⟩], 2, [], 48⟩,
   ⟨[30, 46, 48], [⟨.lower, false, 45⟩, ⟨.lower, false, 21⟩, ⟨.lower, false, 44⟩], 7, [], 46⟩]

/-- The hypotheses of `zippy_net_text_tower_partial` are met by a concrete three-level instance
(a; 2 ticks, b; 7 ticks, c — with left shift held), and the text is `Xyz␣` as the theorem says. -/
example :
    let s : Zchd := { zchConfigure Zchd.default with lsft := true }
    let b : Buf := ⟨[], true, false, false⟩
    BasicEntry exCfg2.dict [30] [⟨.lower, false, 45⟩] ∧ hasFollowups exCfg2.dict [[30]] = false ∧
    TowerOK exCfg2 s [30] exSteps2 ∧ Fresh s ∧ ModsAgree s b ∧
    (b.run (zRun exCfg2 s ((chordHist [] ++ [.press 30]) ++ towerHist exSteps2)).2).shown =
      [⟨45, true, false⟩, ⟨21, false, false⟩, ⟨44, false, false⟩, ⟨57, false, false⟩] := by
  have hl : level exCfg2.dict [] = [([30], [⟨.lower, false, 45⟩]),
      ([30, 48], [⟨.lower, false, 45⟩, ⟨.lower, false, 21⟩]),
      ([30, 46, 48], [⟨.lower, false, 45⟩, ⟨.lower, false, 21⟩, ⟨.lower, false, 44⟩])] := by decide
  have hck : ∀ o ∈ [(⟨.lower, false, 45⟩ : ZchOut), ⟨.lower, false, 21⟩, ⟨.lower, false, 44⟩], CharKey o.osc := by
    intro o h; simp at h; rcases h with rfl | rfl | rfl <;> (unfold CharKey; decide)
  have hpl : ∀ l : List ZchOut, (∀ o ∈ l, o ∈ [(⟨.lower, false, 45⟩ : ZchOut), ⟨.lower, false, 21⟩, ⟨.lower, false, 44⟩]) →
      PlainOuts l := by
    intro l hlm o ho
    have := hlm o ho
    simp at this
    rcases this with rfl | rfl | rfl <;> decide
  refine ⟨⟨by decide, by decide, by unfold StrictSorted; decide, ?_, by decide⟩, by decide, ⟨?_, ?_, trivial⟩,
    ⟨rfl, rfl, rfl, rfl, rfl, rfl, rfl⟩, ⟨rfl, rfl, rfl⟩, by decide⟩
  · intro o h; rw [hl] at h; simp at h; exact h
  · refine ⟨⟨by decide, by decide, by unfold StrictSorted; decide, ?_, by decide⟩, by decide, by decide, by decide,
      by decide, ?_, ?_, by decide, by decide, by decide, by decide, by decide⟩
    · intro o h; rw [hl] at h; simp at h; exact h
    · intro o ho; exact hck o (by simp at ho ⊢; rcases ho with rfl | rfl <;> simp)
    · exact hpl _ (by intro o ho; simp at ho ⊢; rcases ho with rfl | rfl <;> simp)
  · refine ⟨⟨by decide, by decide, by unfold StrictSorted; decide, ?_, by decide⟩, by decide, by decide, by decide,
      by decide, ?_, ?_, by decide, by decide, by decide, by decide, by decide⟩
    · intro o h; rw [hl] at h; simp at h; exact h
    · intro o ho; exact hck o ho
    · exact hpl _ (fun o ho => ho)

/-- **zippy_net_text_followup_raw_partial** (what `<fix-class-1>` and `<fix-class-7-8>` make true).
A line `c1 c2 ↦ out2` whose first chord `K1` has no expansion of its own (kanata's "r df ↦ recipient"):
`K1` is a top-level chord with empty output and nothing inside it, `K2 ↦ out2` its follow-up with no
other follow-up inside `K2` and no top-level chord properly inside `K2` — but the keys of `K2` need
NOT occur in any top-level chord.  From a fresh state: the keys of `K1` in ANY order (they are typed),
all released in ANY order (first release inside the restarted deadline), `g` ticks, the keys of `K2`
in ANY order inside the deadline.  Then the text is the text before plus exactly `out2` (and its smart
space): the keys typed for `K1` and for `K2` have all been erased, no more and no fewer, and the
modifiers are as the user holds them.
Missing for the full statement: follow-up chords that contain a top-level chord or another follow-up
(recorded findings), chains of three and more chords. -/
theorem zippy_net_text_followup_raw_partial (cfg : Cfg) (K1 K2 : Key) (out2 : List ZchOut) (s : Zchd) (b : Buf)
    (front1 : List (Nat × Nat)) (last1 : Nat) (rels : List (Nat × Nat)) (g : Nat)
    (front2 : List (Nat × Nat)) (last2 : Nat)
    (hlead : LeadEntry cfg.dict K1) (hent : FollowEntry cfg.dict [K1] K2 out2)
    (hkeys1 : ∀ x ∈ K1, isZippyIgnored x = false) (hkeys2 : ∀ x ∈ K2, isZippyIgnored x = false)
    (hout : out2.isEmpty = false) (hko : ∀ o ∈ out2, CharKey o.osc)
    (hperm1 : (front1.map (·.1) ++ [last1]).Perm K1)
    (hrel : (rels.map (·.2)).Perm K1)
    (hperm2 : (front2.map (·.1) ++ [last2]).Perm K2)
    (hgap1 : ∀ kg ∈ front1, kg.2 ≤ TICKS_UNTIL_FORCE_STATE_RESET)
    (hgapr : ∀ gk ∈ rels, gk.1 ≤ TICKS_UNTIL_FORCE_STATE_RESET)
    (hg : g ≤ TICKS_UNTIL_FORCE_STATE_RESET)
    (hgap2 : ∀ kg ∈ front2, kg.2 ≤ TICKS_UNTIL_FORCE_STATE_RESET)
    (hdl1 : cfg.ticksChordDeadline = 0 ∨ (front1.map (·.2)).sum < cfg.ticksChordDeadline)
    (hdlr : cfg.ticksChordDeadline = 0 ∨ (rels.headD (0, 0)).1 < cfg.ticksChordDeadline)
    (hdl2 : cfg.ticksChordDeadline = 0 ∨ (front2.map (·.2)).sum < cfg.ticksChordDeadline)
    (hfresh : Fresh s) (hss : s.smartSpaceState = .inactive) (hmods : ModsAgree s b) :
    let r := zRun cfg s ((chordHist front1 ++ [.press last1]) ++ (relHist rels ++
      (List.replicate g .tick ++ (chordHist front2 ++ [.press last2]))))
    (b.run r.2).rtext = withSmartSpace cfg out2 (typeOuts b.rtext (s.lsft || s.rsft) out2) ∧
    ModsAgree s (b.run r.2) :=
  followup_raw_run cfg K1 K2 out2 s b front1 last1 rels g front2 last2 hlead hent hkeys1 hkeys2 hout hko
    hperm1 hrel hperm2 hgap1 hgapr hg hgap2 hdl1 hdlr hdl2 hfresh hss hmods

/-- dictionary `r df ↦ re` alone, as the parser builds it -/
def exCfg3 : Cfg :=
  ⟨[⟨[], [19], []⟩, ⟨[[19]], [32, 33], [⟨.lower, false, 19⟩, ⟨.lower, false, 18⟩]⟩], 500, 500, .disabled, []⟩

/-- The hypotheses of `zippy_net_text_followup_raw_partial` are met by kanata's own example line
"r df ↦ re(cipient)" as the only line of the dictionary (r; release; f, d), and the text is `re`. -/
example :
    let s : Zchd := zchConfigure Zchd.default
    buildDict [⟨[[19], [32, 33]], [⟨.lower, false, 19⟩, ⟨.lower, false, 18⟩]⟩] = .ok exCfg3.dict ∧
    LeadEntry exCfg3.dict [19] ∧
    FollowEntry exCfg3.dict [[19]] [32, 33] [⟨.lower, false, 19⟩, ⟨.lower, false, 18⟩] ∧
    Fresh s ∧
    (Buf.empty.run (zRun exCfg3 s ((chordHist [] ++ [.press 19]) ++ (relHist [(3, 19)] ++
      (List.replicate 5 .tick ++ (chordHist [(33, 1)] ++ [.press 32]))))).2).shown =
      [⟨19, false, false⟩, ⟨18, false, false⟩] := by
  have hl0 : level exCfg3.dict [] = [([19], [])] := by decide
  have hl1 : level exCfg3.dict [[19]] = [([32, 33], [⟨.lower, false, 19⟩, ⟨.lower, false, 18⟩])] := by decide
  refine ⟨by rfl, ⟨by decide, by decide, by unfold StrictSorted; decide, ?_, by decide⟩,
    ⟨by decide, by decide, by unfold StrictSorted; decide, ?_, by decide, by decide⟩,
    ⟨rfl, rfl, rfl, rfl, rfl, rfl, rfl⟩, by decide⟩
  · intro o h; rw [hl0] at h; simp at h; exact h
  · intro o h; rw [hl1] at h; simp at h; exact h

/-- **zippy_net_text_followup_partial**.  A line `c1 ↦ outA` and its follow-up `c1 c2 ↦ out2` (kanata's
"dy ↦ day, dy 1 ↦ Monday"), `outA` without Backspace / no-erase outputs: from a fresh state the keys of
`K1` in ANY order, all released in any order, `g` ticks, the keys of `K2` in ANY order.  Then the text
is the text before plus exactly `out2` (and its smart space): `outA`, its smart space and every key
typed on the way have been erased — through the common-prefix shortcut, and also when the first key
of `K2` is a smart-space punctuation key that removes the smart space first (`<fix-class-6>`), and
whether or not the keys of `K2` occur in a top-level chord (`<fix-class-1>`).
Missing for the full statement: as for `zippy_net_text_followup_raw_partial`, and `outA` with
Backspace (a recorded finding) or no-erase outputs. -/
theorem zippy_net_text_followup_partial (cfg : Cfg) (K1 K2 : Key) (outA out2 : List ZchOut) (s : Zchd) (b : Buf)
    (front1 : List (Nat × Nat)) (last1 : Nat) (rels : List (Nat × Nat)) (g : Nat)
    (front2 : List (Nat × Nat)) (last2 : Nat)
    (hent1 : BasicEntry cfg.dict K1 outA) (hent : FollowEntry cfg.dict [K1] K2 out2)
    (hkeys1 : ∀ x ∈ K1, isZippyIgnored x = false) (hkeys2 : ∀ x ∈ K2, isZippyIgnored x = false)
    (houtA : outA.isEmpty = false) (hkoA : ∀ o ∈ outA, CharKey o.osc) (hpA : PlainOuts outA)
    (hout : out2.isEmpty = false) (hko : ∀ o ∈ out2, CharKey o.osc)
    (hperm1 : (front1.map (·.1) ++ [last1]).Perm K1)
    (hrel : (rels.map (·.2)).Perm K1)
    (hperm2 : (front2.map (·.1) ++ [last2]).Perm K2)
    (hgap1 : ∀ kg ∈ front1, kg.2 ≤ TICKS_UNTIL_FORCE_STATE_RESET)
    (hgapr : ∀ gk ∈ rels, gk.1 ≤ TICKS_UNTIL_FORCE_STATE_RESET)
    (hg : g ≤ TICKS_UNTIL_FORCE_STATE_RESET)
    (hgap2 : ∀ kg ∈ front2, kg.2 ≤ TICKS_UNTIL_FORCE_STATE_RESET)
    (hdl1 : cfg.ticksChordDeadline = 0 ∨ (front1.map (·.2)).sum < cfg.ticksChordDeadline)
    (hdlr : cfg.ticksChordDeadline = 0 ∨ (rels.headD (0, 0)).1 < cfg.ticksChordDeadline)
    (hdl2 : cfg.ticksChordDeadline = 0 ∨ (front2.map (·.2)).sum < cfg.ticksChordDeadline)
    (hfresh : Fresh s) (hmods : ModsAgree s b) :
    let base := bufAfterPunct cfg s ((front1.map (·.1) ++ [last1]).headD 0) b
    let r := zRun cfg s ((chordHist front1 ++ [.press last1]) ++ (relHist rels ++
      (List.replicate g .tick ++ (chordHist front2 ++ [.press last2]))))
    (b.run r.2).rtext = withSmartSpace cfg out2 (typeOuts base.rtext (s.lsft || s.rsft) out2) ∧
    ModsAgree s (b.run r.2) :=
  followup_typed_run cfg K1 K2 outA out2 s b front1 last1 rels g front2 last2 hent1 hent hkeys1 hkeys2
    houtA hkoA hpA hout hko hperm1 hrel hperm2 hgap1 hgapr hg hgap2 hdl1 hdlr hdl2 hfresh hmods

/-- dictionary `dy ↦ day`, `dy .g ↦ dig`, smart-space full with `.` a punctuation key -/
def exCfg4 : Cfg :=
  ⟨[⟨[], [21, 32], [⟨.lower, false, 32⟩, ⟨.lower, false, 30⟩, ⟨.lower, false, 21⟩]⟩,
    ⟨[[21, 32]], [34, 52], [⟨.lower, false, 32⟩, ⟨.lower, false, 23⟩, ⟨.lower, false, 34⟩]⟩],
   500, 500, .full, [⟨.lower, false, 52⟩]⟩

/-- The hypotheses of `zippy_net_text_followup_partial` are met by a concrete instance in which the
follow-up chord `. g` starts with the punctuation key (d y; release; `.` g): `day␣` becomes `dig␣`. -/
example :
    let s : Zchd := zchConfigure Zchd.default
    BasicEntry exCfg4.dict [21, 32] [⟨.lower, false, 32⟩, ⟨.lower, false, 30⟩, ⟨.lower, false, 21⟩] ∧
    FollowEntry exCfg4.dict [[21, 32]] [34, 52] [⟨.lower, false, 32⟩, ⟨.lower, false, 23⟩, ⟨.lower, false, 34⟩] ∧
    PlainOuts [⟨.lower, false, 32⟩, ⟨.lower, false, 30⟩, ⟨.lower, false, 21⟩] ∧ Fresh s ∧
    (Buf.empty.run (zRun exCfg4 s ((chordHist [(32, 1)] ++ [.press 21]) ++ (relHist [(3, 21), (1, 32)] ++
      (List.replicate 5 .tick ++ (chordHist [(52, 1)] ++ [.press 34]))))).2).shown =
      [⟨32, false, false⟩, ⟨23, false, false⟩, ⟨34, false, false⟩, ⟨57, false, false⟩] := by
  have hl0 : level exCfg4.dict [] = [([21, 32], [⟨.lower, false, 32⟩, ⟨.lower, false, 30⟩, ⟨.lower, false, 21⟩])] := by decide
  have hl1 : level exCfg4.dict [[21, 32]] =
      [([34, 52], [⟨.lower, false, 32⟩, ⟨.lower, false, 23⟩, ⟨.lower, false, 34⟩])] := by decide
  refine ⟨⟨by decide, by decide, by unfold StrictSorted; decide, ?_, by decide⟩,
    ⟨by decide, by decide, by unfold StrictSorted; decide, ?_, by decide, by decide⟩, ?_,
    ⟨rfl, rfl, rfl, rfl, rfl, rfl, rfl⟩, by decide⟩
  · intro o h; rw [hl0] at h; simp at h; exact h
  · intro o h; rw [hl1] at h; simp at h; exact h
  · intro o ho; simp at ho; rcases ho with rfl | rfl | rfl <;> decide

/-! ### Witnesses of the defects the pinned code had
(about `zRunPinned`, the model of the code before the `fix:` commits; each witness also runs on the real
code from corpus/C20.txt, where it now passes; next to each, the same input on the fixed model) -/

/-- **zippy_followup_multikey_counterexample** (pinned code; repaired by `<fix-class-1>`).  Dictionary
`r df ↦ re` alone (kanata's own example line "r df ↦ recipient", shortened): press r, release r, press d,
press f.  Required: `re`.  The pinned code left `rdf`: `d` is a subset of the follow-up chord `df` but of
no top-level chord, so the top-level lookup answered Neither and zippychord reset. -/
theorem zippy_followup_multikey_counterexample :
    (Buf.empty.run (zRunPinned exCfg3 (zchConfigure Zchd.default) [.press 19, .release 19, .press 32, .press 33]).2).shown =
      [⟨19, false, false⟩, ⟨32, false, false⟩, ⟨33, false, false⟩] := by
  decide

example : (Buf.empty.run (zRun exCfg3 (zchConfigure Zchd.default) [.press 19, .release 19, .press 32, .press 33]).2).shown =
    [⟨19, false, false⟩, ⟨18, false, false⟩] := by decide

/-- dictionary `by ↦ h’elo`, `bye ↦ h’ola` with `’ (no-erase `)` (a dead key) -/
def cexNoEraseCfg : Cfg := ⟨[⟨[], [21, 48], [⟨.lower, false, 35⟩, ⟨.lower, true, 41⟩, ⟨.lower, false, 18⟩, ⟨.lower, false, 38⟩, ⟨.lower, false, 24⟩]⟩,
  ⟨[], [18, 21, 48], [⟨.lower, false, 35⟩, ⟨.lower, true, 41⟩, ⟨.lower, false, 24⟩, ⟨.lower, false, 38⟩, ⟨.lower, false, 30⟩]⟩],
  500, 500, .disabled, []⟩

/-- **zippy_noerase_prefix_counterexample** (the code as it is; KNOWN_FINDINGS `reused-prefix-contains-no-erase-output`).
Press b y e in one hold.  `by` has typed h, the dead key, e, l, o (four characters to delete: the dead
key is not counted).  The superseding activation re-uses the common prefix `h’` — TWO outputs but ONE
display character — and subtracts the number of outputs: two Backspaces instead of three (the run has
three in all: one erased the typed `b`), then `o l a` without the dead key.  Read literally (every key-down a character) the buffer holds `h ’ e o l a`; with
the dead key joined to the letter after it the screen shows `h è o l a`; required `h ò l a`. -/
theorem zippy_noerase_prefix_counterexample :
    (zRun cexNoEraseCfg (zchConfigure Zchd.default) [.press 48, .press 21, .press 18]).2.filter
        (fun e => e = .down KEY_BACKSPACE) = [.down KEY_BACKSPACE, .down KEY_BACKSPACE, .down KEY_BACKSPACE] ∧
    (Buf.empty.run (zRun cexNoEraseCfg (zchConfigure Zchd.default) [.press 48, .press 21, .press 18]).2).shown =
      [⟨35, false, false⟩, ⟨41, false, false⟩, ⟨18, false, false⟩, ⟨24, false, false⟩, ⟨38, false, false⟩,
       ⟨30, false, false⟩] := by
  decide

/-- dictionary `dy ↦ day`, `dy 1 ↦ Mo` (kanata's sample lines, the second shortened) -/
def cexCapsCfg : Cfg := ⟨[⟨[], [21, 32], [⟨.lower, false, 32⟩, ⟨.lower, false, 30⟩, ⟨.lower, false, 21⟩]⟩,
  ⟨[[21, 32]], [2], [⟨.upper, false, 50⟩, ⟨.lower, false, 24⟩]⟩], 500, 500, .disabled, []⟩

/-- **zippy_caps_word_capital_kept** (repaired code, PENDING-2; KNOWN_FINDINGS `fixed`).  Caps-word is on
but holds no shift (the follow-up key `1` is not a letter, so caps-word adds no LShift): the follow-up
`dy 1 ↦ Mo` is typed after three Backspaces with its capital under a shift of its own, and that shift
is released again.  Before the repair `maybe_press_sft_during_activation` did nothing whenever caps-word
was active and the text came out as `mo` (witness on the real code: corpus/C20.txt, family `zcw`). -/
theorem zippy_caps_word_capital_kept :
    let s1 := (zRun cexCapsCfg (zchConfigure Zchd.default) [.press 32, .press 21, .release 32, .release 21]).1
    let r := zRun cexCapsCfg { s1 with capsWord := true } [.press 2]
    r.2 = bspcs 3 ++ [.down KEY_LEFTSHIFT, .down 50, .up 50, .up KEY_LEFTSHIFT, .down 24, .up 24] := by
  decide

/-- dictionary `e ↦ a`, `e, ↦ a.`, `e,.b ↦ ␣btY` -/
def cexPrefixCfg : Cfg := ⟨[⟨[], [18], [⟨.lower, false, 30⟩]⟩,
  ⟨[], [18, 51], [⟨.lower, false, 30⟩, ⟨.lower, false, 52⟩]⟩,
  ⟨[], [18, 48, 51, 52], [⟨.lower, false, 57⟩, ⟨.lower, false, 48⟩, ⟨.lower, false, 20⟩, ⟨.upper, false, 21⟩]⟩],
  500, 500, .disabled, []⟩

/-- **zippy_prefix_reuse_counterexample** (pinned code; repaired by `<fix-class-4>`).  Press e , b . in one
hold.  Required: ` btY`.  The pinned code left `a btY`: after re-using the common prefix `a` of the first
two expansions the erase counter restarted from the newly typed characters only. -/
theorem zippy_prefix_reuse_counterexample :
    (Buf.empty.run (zRunPinned cexPrefixCfg (zchConfigure Zchd.default) [.press 18, .press 51, .press 48, .press 52]).2).shown =
      [⟨30, false, false⟩, ⟨57, false, false⟩, ⟨48, false, false⟩, ⟨20, false, false⟩, ⟨21, true, false⟩] := by
  decide

example : (Buf.empty.run (zRun cexPrefixCfg (zchConfigure Zchd.default) [.press 18, .press 51, .press 48, .press 52]).2).shown =
    [⟨57, false, false⟩, ⟨48, false, false⟩, ⟨20, false, false⟩, ⟨21, true, false⟩] := by decide

/-- **zippy_shift_prefix_counterexample** (pinned code; repaired by `<fix-class-5>`).  Dictionary `a ↦ x`,
`ab ↦ xy`, `abc ↦ xyz`; hold left shift, press a b c.  Required (first keystroke of the expansion under the
user's shift): `Xyz`.  The pinned code left `XYZ`: every re-use of the prefix typed its first new character
shifted. -/
theorem zippy_shift_prefix_counterexample :
    (Buf.empty.run (zRunPinned { exCfg2 with smartSpace := .disabled } (zchConfigure Zchd.default)
      [.press KEY_LEFTSHIFT, .press 30, .press 48, .press 46]).2).shown =
      [⟨45, true, false⟩, ⟨21, true, false⟩, ⟨44, true, false⟩] := by
  decide

example : (Buf.empty.run (zRun { exCfg2 with smartSpace := .disabled } (zchConfigure Zchd.default)
    [.press KEY_LEFTSHIFT, .press 30, .press 48, .press 46]).2).shown =
    [⟨45, true, false⟩, ⟨21, false, false⟩, ⟨44, false, false⟩] := by decide

/-- dictionary `dy ↦ day`, `.g ↦ git`, smart-space full with the default punctuation `. , ;` -/
def cexPunctCfg : Cfg := ⟨[⟨[], [21, 32], [⟨.lower, false, 32⟩, ⟨.lower, false, 30⟩, ⟨.lower, false, 21⟩]⟩,
  ⟨[], [34, 52], [⟨.lower, false, 34⟩, ⟨.lower, false, 23⟩, ⟨.lower, false, 20⟩]⟩],
  500, 500, .full, [⟨.lower, false, 52⟩, ⟨.lower, false, 51⟩, ⟨.lower, false, 39⟩]⟩

/-- **zippy_smartspace_punctuation_counterexample** (pinned code; repaired by `<fix-class-6>`).  Chord d y,
release, then chord . g.  Required: `day` then `git ` with the typed `.` erased.  The pinned code left
`day.git `: the erase counter was decremented for the smart space although after the full release it no
longer counted it. -/
theorem zippy_smartspace_punctuation_counterexample :
    (Buf.empty.run (zRunPinned cexPunctCfg (zchConfigure Zchd.default)
      [.press 32, .press 21, .release 32, .release 21, .press 52, .press 34]).2).shown =
      [⟨32, false, false⟩, ⟨30, false, false⟩, ⟨21, false, false⟩, ⟨52, false, false⟩,
       ⟨34, false, false⟩, ⟨23, false, false⟩, ⟨20, false, false⟩, ⟨57, false, false⟩] := by
  decide

example : (Buf.empty.run (zRun cexPunctCfg (zchConfigure Zchd.default)
    [.press 32, .press 21, .release 32, .release 21, .press 52, .press 34]).2).shown =
    [⟨32, false, false⟩, ⟨30, false, false⟩, ⟨21, false, false⟩,
     ⟨34, false, false⟩, ⟨23, false, false⟩, ⟨20, false, false⟩, ⟨57, false, false⟩] := by decide

/-- dictionary `1 . ↦ Tya`, `1 . .1 ↦ 1>␣` (the first chord `1` has no output) -/
def cexPriorCfg : Cfg := ⟨[⟨[], [2], []⟩, ⟨[[2]], [52], [⟨.upper, false, 20⟩, ⟨.lower, false, 21⟩, ⟨.lower, false, 30⟩]⟩,
  ⟨[[2], [52]], [2, 52], [⟨.lower, false, 2⟩, ⟨.upper, false, 52⟩, ⟨.lower, false, 57⟩]⟩], 1, 50, .disabled, []⟩

/-- **zippy_prior_count_counterexample** (pinned code; repaired by `<fix-class-7-8>`).  The chain `1`, `.`
(↦ `Tya`) performed twice.  Required: `TyaTya`.  The pinned code left `Tya`: the second `1` added to the
prior output count left over from the first chain instead of restarting it, so the second `.` erased the
first `Tya` as well. -/
theorem zippy_prior_count_counterexample :
    (Buf.empty.run (zRunPinned cexPriorCfg (zchConfigure Zchd.default)
      [.press 2, .release 2, .press 52, .release 52, .press 2, .release 2, .press 52, .release 52]).2).shown =
      [⟨20, true, false⟩, ⟨21, false, false⟩, ⟨30, false, false⟩] := by
  decide

example : (Buf.empty.run (zRun cexPriorCfg (zchConfigure Zchd.default)
    [.press 2, .release 2, .press 52, .release 52, .press 2, .release 2, .press 52, .release 52]).2).shown =
    [⟨20, true, false⟩, ⟨21, false, false⟩, ⟨30, false, false⟩,
     ⟨20, true, false⟩, ⟨21, false, false⟩, ⟨30, false, false⟩] := by decide

/-- **zippy_shift_restored** (full, per event).  With a dictionary configured whose expansions consist
of character keys, for EVERY state of zippychord, every buffer whose shift / AltGr state is what
zippychord believes the user holds, and every event — any press (modifier, ignored key, chord key,
completing key of any chord: overlapping, follow-up, empty output, …), any release, and any tick that
is not the forced reset — afterwards (i) the OS-level shift / AltGr state is again what zippychord
believes the user holds and (ii) it is exactly what the user's own event does to it: whatever an
activation presses and releases in between is undone. -/
theorem zippy_shift_restored (cfg : Cfg) (s : Zchd) (b : Buf) (e : ZEv)
    (hne : ssmIsEmpty (levelSsm cfg.dict []) = false) (hok : OutsOK cfg.dict) (hm : ModsAgree s b)
    (hnr : s.ticksSinceStateChange < TICKS_UNTIL_FORCE_STATE_RESET) :
    ModsAgree (zStep cfg s e).1 (b.run (zStep cfg s e).2) ∧
    modsOf (b.run (zStep cfg s e).2) = modsOf (userStep b e) := by
  cases e with
  | press k => exact press_mods cfg s k b hne hok hm
  | release k => exact release_mods cfg s k b hne hm
  | tick =>
    simp only [zStep, zchTick, run_nil, userStep]
    refine ⟨?_, trivial⟩
    rw [modsAgree_iff] at hm ⊢
    rw [tick_flags s false hnr]; exact hm

/-- the dictionary `ab ↦ X` -/
def cexResetCfg : Cfg := ⟨[⟨[], [30, 48], [⟨.upper, false, 45⟩]⟩], 500, 0, .disabled, []⟩
/-- left shift pressed from the initial state -/
def cexResetS0 : Zchd := (zchPressKey cexResetCfg (zchConfigure Zchd.default) KEY_LEFTSHIFT).1
/-- ... and held for 10000 ticks -/
def cexResetS1 : Zchd := { cexResetS0 with ticksSinceStateChange := 10000 }

/-- **zippy_shift_lost_after_forced_reset_counterexample**.  The hypothesis on the forced reset cannot be
dropped: `zchd_tick` forgets the user's modifiers after more than 10000 ticks without a zippychord
state change ("potentially causing inaccuracies with regards to what the user is currently still
pressing"), and an activation with an upper-case output then releases the shift the user is still
holding.  Witness: dictionary `ab ↦ X`; press left shift and hold it for 10000 ticks (this is state
`cexResetS1`, first conjunct); one more tick, press a, press b: left shift is up at the OS although
zippychord was told nothing about a release and the user still holds it. -/
theorem zippy_shift_lost_after_forced_reset_counterexample :
    ticksN cexResetS0 10000 = cexResetS1 ∧ cexResetS1.lsft = true ∧
    (Buf.run ⟨[], true, false, false⟩ (zRun cexResetCfg cexResetS1 [.tick, .press 30, .press 48]).2).lsft = false := by
  refine ⟨?_, by decide, by decide⟩
  have h0 : cexResetS0.ticksSinceStateChange = 0 := by decide
  have := idle_ticks cexResetS0 10000 (by decide) (by decide) (by decide) (by rw [h0]; decide)
  rw [this, h0]
  rfl

/-- **zippy_passthrough** (full).  For every dictionary and every history of presses, releases and ticks
(any length, physically consistent or not) during which the keys the user holds never include all
keys of a top-level chord, zippychord writes exactly the user's own key events, in order: typing that
does not form a chord passes through unchanged (and so do the text and the modifiers it produces). -/
theorem zippy_passthrough (cfg : Cfg) (h : List ZEv) (hnc : NoChordPossible cfg.dict [] h) :
    (zRun cfg (zchConfigure Zchd.default) h).2 = asOs h := by
  by_cases he : ssmIsEmpty (levelSsm cfg.dict []) = true
  · exact zRun_empty_dict cfg he _ h
  · exact zRun_quiet cfg (by simpa using he) h _ [] Quiet.reset hnc

example : NoChordPossible [⟨[], [30, 48], [⟨.lower, false, 45⟩]⟩] []
    [.press 30, .tick, .release 30, .press 48, .press 46, .release 48, .press 30] := by
  simp [NoChordPossible, level]

/-- **sim_feeds_zrun** (full).  The theorems above speak about zippychord-level histories (`zRun`); the
model that is compared trace-for-trace with the real `Kanata` is the machine `Sim` (event queue of the
layout, one event per tick, `prev_keys`/`cur_keys` difference, output log).  For every dictionary and
every physically consistent user history (a key is pressed only when up and released only when down;
no key of the ignored macro-key range), that machine hands zippychord exactly the history `zOfHist`
("the queued event, if any, then a tick" per millisecond) and logs exactly the events `zRun` returns. -/
theorem sim_feeds_zrun (cfg : Cfg) (h : List HEv) (hok : HistOK [] [] h) :
    (Sim.init.hist cfg h).zch = (zRun cfg (zchConfigure Zchd.default) (zOfHist [] h)).1 ∧
    traceEvents (Sim.init.hist cfg h).trace = (zRun cfg (zchConfigure Zchd.default) (zOfHist [] h)).2 := by
  have := sim_hist cfg h Sim.init rfl List.nodup_nil hok
  simpa [Sim.init, traceEvents] using this

example : HistOK [] [] [.press 30, .press 48, .ticks 5, .release 30, .ticks 1, .press 30, .release 48, .ticks 9] := by
  simp [HistOK, HistOK.activeAfter, QueueOK, inIgnoreRange, KEY_IGNORE_MIN, KEY_IGNORE_MAX]

/-- The constants and key lists of the model are the ones in the source
(`KVerif.Gen.Zippy` is regenerated from /repo on every run). -/
theorem zippy_consts_from_source :
    zippyIgnored = Gen.Zippy.zippyIgnored ∧
    TICKS_UNTIL_FORCE_STATE_RESET = Gen.Zippy.TICKS_UNTIL_FORCE_STATE_RESET ∧
    KEY_IGNORE_MIN = Gen.Zippy.KEY_IGNORE_MIN ∧ KEY_IGNORE_MAX = Gen.Zippy.KEY_IGNORE_MAX ∧
    Gen.Zippy.oscUsed = [("KEY_BACKSPACE", KEY_BACKSPACE), ("KEY_LEFTSHIFT", KEY_LEFTSHIFT),
      ("KEY_RIGHTALT", KEY_RIGHTALT), ("KEY_RIGHTSHIFT", KEY_RIGHTSHIFT), ("KEY_SPACE", KEY_SPACE)] ∧
    Gen.Zippy.defaultPunctuation = [(0, 52), (0, 51), (0, 39)] ∧
    Gen.Zippy.defaultWaitEnable = 500 ∧ Gen.Zippy.defaultChordDeadline = 500 ∧
    Gen.Zippy.defaultSmartSpace = 0 := by
  decide

end KVerif.Zippy
