/-
C20 — zippychord leaves exactly the expansion on screen.
Property theorems only; helper lemmas are in KVerif/Lemmas/Zippy*.lean.

Vocabulary (all defined in Model/ or Lemmas/):
* `zRun cfg s h`           the zippychord state machine run over a history `h` of presses, releases and
                           ticks from state `s`: final state and the OS key events it wrote.
* `Buf`, `Buf.run`         the receiving application's text buffer (Model/TextBuf.lean); `rtext` is the
                           text most-recent-character-first, `shown` in reading order.
* `typeOuts rt sh out`     the text after the keystrokes of expansion `out` on top of `rt`, the first one
                           under the user's shift `sh`; `withSmartSpace` adds the smart space.
* `BasicEntry d K out`     `K ↦ out` is a top-level chord of dictionary `d`, stored once, and no other
                           top-level chord has all its keys inside `K`.
* `Fresh s`                zippychord enabled, no key held, nothing remembered from earlier activations.
* `ModsAgree s b`          the buffer's shift/AltGr state is the one zippychord believes the user holds.
-/
import KVerif.Lemmas.ZippyRun
import KVerif.Lemmas.ZippyMods
import KVerif.Lemmas.ZippyPass
import KVerif.Lemmas.ZippySim
import KVerif.Gen.Zippy
namespace KVerif.Zippy
open KVerif.TextBuf

/-- **subset_lookup_spec** (full).  For every sequence of `ssm_insert_ksorted` calls starting from an
empty map and every lookup key, `ssm_get_or_is_subset_ksorted` on the per-item map of sorted vectors
returns: the value of the last insertion under exactly that key; otherwise `IsSubset` iff the key's
items all occur in some inserted (non-empty) key; otherwise `Neither`.  (An empty lookup key is a
subset of anything stored; inserting an empty key stores nothing.)  No sortedness assumption is
needed beyond what the model of `binary_search_by` already builds in. -/
theorem subset_lookup_spec {V : Type} (ins : List (Key × V)) (k : Key) :
    ssmGet (ssmOf ins) k = lookupSpec ins k := by
  rw [(rep_of ins).get k, absGet_absOf]

example : ssmGet (ssmOf [([1, 2], 7), ([1, 2, 3], 9), ([1, 2], 8)]) [1, 2] = Lookup.hasValue 8 ∧
    ssmGet (ssmOf [([1, 2], 7), ([1, 2, 3], 9)]) [2, 3] = (Lookup.isSubset : Lookup Nat) ∧
    ssmGet (ssmOf [([1, 2], 7), ([1, 2, 3], 9)]) [2, 5] = (Lookup.neither : Lookup Nat) := by decide

/-- Every lookup the zippychord model performs is such a lookup on the entries of one level of the
chord tree. -/
theorem lookup_level_spec (d : Dict) (p : Path) (k : Key) :
    lookupLevel d p k = lookupSpec (level d p) k := lookupLevel_eq d p k

/-- **zippy_net_text_basic** (full, for chords without a shorter overlapping chord).
Let `K ↦ out` be a top-level chord with a non-empty expansion such that no other top-level chord lies
inside `K` (longer chords and follow-ups may exist).  From a fresh state, press the keys of `K` in
ANY order (`front` = all but the last key, each with the number of ticks that pass before the next
press; `last` = the completing key; together a permutation of `K`), the last press coming less
than `on-first-press-chord-deadline` ticks after the first (no limit if the deadline is 0) and no
single gap above the forced-reset time.  Then, whatever the text before and whichever of shift and
AltGr the user holds:

* the text afterwards is the text before with exactly the expansion typed on top of it (first
  keystroke under the user's shift) and the smart space when configured — every character typed
  while forming the chord has been erased, nothing else has;
* shift and AltGr at the OS are as the user holds them;
* zippychord regards the press as a chord (`lastPress = isChord`) with exactly `K` held.

No bound on the size of the dictionary, of `K`, of the expansion or of the text. -/
theorem zippy_net_text_basic (cfg : Cfg) (K : Key) (out : List ZchOut) (s : Zchd) (b : Buf)
    (front : List (Nat × Nat)) (last : Nat)
    (hent : BasicEntry cfg.dict K out)
    (hkeys : ∀ x ∈ K, isZippyIgnored x = false)
    (hout : out.isEmpty = false) (hko : ∀ o ∈ out, CharKey o.osc)
    (hperm : (front.map (·.1) ++ [last]).Perm K)
    (hgap : ∀ kg ∈ front, kg.2 ≤ TICKS_UNTIL_FORCE_STATE_RESET)
    (hdl : cfg.ticksChordDeadline = 0 ∨ (front.map (·.2)).sum < cfg.ticksChordDeadline)
    (hfresh : Fresh s) (hmods : ModsAgree s b)
    (hss : s.smartSpaceState = .inactive ∨ ∀ x ∈ K, cfg.punctuation.contains (puncOf s x) = false) :
    let r := zRun cfg s (chordHist front ++ [.press last])
    (b.run r.2).rtext = withSmartSpace cfg out (typeOuts b.rtext (s.lsft || s.rsft) out) ∧
    ModsAgree s (b.run r.2) ∧ r.1.lastPress = .isChord ∧ r.1.inputKeys = K := by
  intro r
  have h := basic_run cfg K out s b front last hent hkeys hout hko hperm hgap hdl hfresh hmods hss
  exact ⟨h.1, h.2.1, h.2.2.1, h.2.2.2.1⟩

/-- The state `Kanata::new_from_str` leaves zippychord in is fresh. -/
example : Fresh (zchConfigure Zchd.default) := ⟨rfl, rfl, rfl, rfl, rfl, rfl, rfl⟩

/-- dictionary `acb ↦ xY`, `dy ↦ day`, `dy 1 ↦ M` (as the parser builds it), smart space on -/
def exCfg : Cfg :=
  ⟨[⟨[], [30, 46, 48], [⟨.lower, false, 45⟩, ⟨.upper, false, 21⟩]⟩,
    ⟨[], [21, 32], [⟨.lower, false, 32⟩, ⟨.lower, false, 30⟩, ⟨.lower, false, 21⟩]⟩,
    ⟨[[21, 32]], [2], [⟨.upper, false, 50⟩]⟩], 500, 50, .full,
   [⟨.lower, false, 52⟩]⟩

theorem exCfg_built : buildDict
    [⟨[[48, 30, 46]], [⟨.lower, false, 45⟩, ⟨.upper, false, 21⟩]⟩,
     ⟨[[32, 21]], [⟨.lower, false, 32⟩, ⟨.lower, false, 30⟩, ⟨.lower, false, 21⟩]⟩,
     ⟨[[32, 21], [2]], [⟨.upper, false, 50⟩]⟩] = .ok exCfg.dict := by rfl

/-- The hypotheses of `zippy_net_text_basic` are met by a concrete non-trivial instance: the three-key
chord `a c b` pressed in the order b, a, c with gaps 3 and 0, right shift held, after a previous
activation left the smart-space state `sent`. -/
example :
    let s : Zchd := { zchConfigure Zchd.default with rsft := true, smartSpaceState := .sent }
    let b : Buf := ⟨[⟨30, false, false⟩], false, true, false⟩
    BasicEntry exCfg.dict [30, 46, 48] [⟨.lower, false, 45⟩, ⟨.upper, false, 21⟩] ∧
    (∀ x ∈ [30, 46, 48], isZippyIgnored x = false) ∧
    (∀ o ∈ [(⟨.lower, false, 45⟩ : ZchOut), ⟨.upper, false, 21⟩], CharKey o.osc) ∧
    (List.map Prod.fst ([(48, 3), (30, 0)] : List (Nat × Nat)) ++ [46]).Perm [30, 46, 48] ∧
    (exCfg.ticksChordDeadline = 0 ∨ (List.map Prod.snd ([(48, 3), (30, 0)] : List (Nat × Nat))).sum < exCfg.ticksChordDeadline) ∧
    Fresh s ∧ ModsAgree s b ∧
    (s.smartSpaceState = .inactive ∨ ∀ x ∈ [30, 46, 48], exCfg.punctuation.contains (puncOf s x) = false) ∧
    (b.run (zRun exCfg s (chordHist [(48, 3), (30, 0)] ++ [.press 46])).2).shown =
      [⟨30, false, false⟩, ⟨45, true, false⟩, ⟨21, true, false⟩, ⟨57, false, false⟩] := by
  refine ⟨⟨by decide, by decide, by unfold StrictSorted; decide, ?_, by decide⟩, by decide, ?_, by decide, by decide,
    ⟨rfl, rfl, rfl, rfl, rfl, rfl, rfl⟩, ⟨rfl, rfl, rfl⟩, by decide, by decide⟩
  · intro o h
    have hl : level exCfg.dict [] = [([30, 46, 48], [⟨.lower, false, 45⟩, ⟨.upper, false, 21⟩]),
        ([21, 32], [⟨.lower, false, 32⟩, ⟨.lower, false, 30⟩, ⟨.lower, false, 21⟩])] := by decide
    rw [hl] at h
    simp at h
    exact h
  · intro o h
    simp at h
    rcases h with rfl | rfl <;> (unfold CharKey; decide)

/-- **zippy_net_text_basic_shown**: the same in reading order, for expansions without a Backspace:
`textAfter = textBefore ++ expansion (++ " " with smart space)`. -/
theorem zippy_net_text_basic_shown (cfg : Cfg) (K : Key) (out : List ZchOut) (s : Zchd) (b : Buf)
    (front : List (Nat × Nat)) (last : Nat)
    (hent : BasicEntry cfg.dict K out)
    (hkeys : ∀ x ∈ K, isZippyIgnored x = false)
    (hout : out.isEmpty = false) (hko : ∀ o ∈ out, CharKey o.osc)
    (hnb : ∀ o ∈ out, o.osc ≠ KEY_BACKSPACE)
    (hperm : (front.map (·.1) ++ [last]).Perm K)
    (hgap : ∀ kg ∈ front, kg.2 ≤ TICKS_UNTIL_FORCE_STATE_RESET)
    (hdl : cfg.ticksChordDeadline = 0 ∨ (front.map (·.2)).sum < cfg.ticksChordDeadline)
    (hfresh : Fresh s) (hmods : ModsAgree s b)
    (hss : s.smartSpaceState = .inactive ∨ ∀ x ∈ K, cfg.punctuation.contains (puncOf s x) = false) :
    (b.run (zRun cfg s (chordHist front ++ [.press last])).2).shown =
      b.shown ++ expansionChars (s.lsft || s.rsft) out ++
        (if wantsSmartSpace cfg out then [mkCh KEY_SPACE false false] else []) := by
  have h := (zippy_net_text_basic cfg K out s b front last hent hkeys hout hko hperm hgap hdl hfresh
    hmods hss).1
  simp only [Buf.shown, h, withSmartSpace, typeOuts_noBackspace _ _ _ hnb]
  split <;> simp [stroke, KEY_SPACE, KEY_BACKSPACE]

/- The property at full strength also covers chords that extend other chords ("any shorter expansion
it supersedes is erased"), follow-up chords, and all of this with shift held:

    for every dictionary, every line `c1 … cm ↦ out` of it and every way of pressing the chords
    (each in any order, within the deadline), textAfter = textBefore ++ out (++ smart space).

That statement is FALSE of the code (see the `_counterexample` theorems below and KNOWN_FINDINGS.jsonl);
what is proved of it beyond `zippy_net_text_basic` is the two-level case below. -/

/-- **zippy_net_text_extends_partial**.  A chord `K2 ↦ out2` that extends a chord `K1 ↦ out1`
(kanata's "ab ↦ Abba, abc ↦ Alphabet"): the top-level chords inside `K2` are exactly `K1` and `K2`,
`K1` has none inside it and no follow-ups.  From a fresh state the keys of `K1` go down in ANY order
(the eager activation types `out1`), `g` ticks pass, then the remaining keys of `K2` go down in ANY
order, each phase inside the deadline (which restarts at the activation).  Then the text afterwards
is the text before plus exactly `out2` (and its smart space): `out1`, its smart space and every key
typed on the way have been erased — through the common-prefix shortcut, whatever prefix the two
expansions share — and AltGr is as the user holds it.
Missing for the full statement: shift held (the code types the first NEW character shifted when the
expansions share a prefix — a recorded finding), expansions containing Backspace or no-erase outputs,
three or more nested chords (a recorded finding), follow-up chords (several recorded findings). -/
theorem zippy_net_text_extends_partial (cfg : Cfg) (K1 K2 : Key) (out1 out2 : List ZchOut)
    (s : Zchd) (b : Buf) (front1 : List (Nat × Nat)) (last1 g : Nat) (front2 : List (Nat × Nat)) (last2 : Nat)
    (hent1 : BasicEntry cfg.dict K1 out1) (hnf1 : hasFollowups cfg.dict [K1] = false)
    (hext : ExtEntry cfg.dict K1 K2 out2) (hsub : ∀ x ∈ K1, x ∈ K2)
    (hkeys : ∀ x ∈ K2, isZippyIgnored x = false)
    (hout1 : out1.isEmpty = false) (hko1 : ∀ o ∈ out1, CharKey o.osc) (hp1 : PlainOuts out1)
    (hout2 : out2.isEmpty = false) (hko2 : ∀ o ∈ out2, CharKey o.osc) (hp2 : PlainOuts out2)
    (hperm1 : (front1.map (·.1) ++ [last1]).Perm K1)
    (hperm2 : (front2.map (·.1) ++ [last2]).Perm (K2.filter (fun x => !K1.contains x)))
    (hgap1 : ∀ kg ∈ front1, kg.2 ≤ TICKS_UNTIL_FORCE_STATE_RESET)
    (hgap2 : ∀ kg ∈ front2, kg.2 ≤ TICKS_UNTIL_FORCE_STATE_RESET)
    (hg : g ≤ TICKS_UNTIL_FORCE_STATE_RESET)
    (hdl1 : cfg.ticksChordDeadline = 0 ∨ (front1.map (·.2)).sum < cfg.ticksChordDeadline)
    (hdl2 : cfg.ticksChordDeadline = 0 ∨ g + (front2.map (·.2)).sum < cfg.ticksChordDeadline)
    (hfresh : Fresh s) (hmods : ModsAgree s b) (hnosh : s.lsft = false ∧ s.rsft = false)
    (hpunc : ∀ x ∈ K2, cfg.punctuation.contains (puncOf s x) = false) :
    let r := zRun cfg s ((chordHist front1 ++ [.press last1]) ++
      (List.replicate g .tick ++ (chordHist front2 ++ [.press last2])))
    (b.run r.2).rtext = withSmartSpace cfg out2 (typeOuts b.rtext false out2) ∧ ModsAgree s (b.run r.2) := by
  intro r
  have hkeys1 : ∀ x ∈ K1, isZippyIgnored x = false := fun x hx => hkeys x (hsub x hx)
  -- phase 1: K1
  obtain ⟨ht1, hm1, _, _, hpost⟩ := basic_run cfg K1 out1 s b front1 last1 hent1 hkeys1 hout1 hko1 hperm1
    hgap1 hdl1 hfresh hmods (Or.inr (fun x hx => hpunc x (hsub x hx)))
  have hf1 := hpost hnf1
  -- the gap
  have hf2 := hf1.ticks g (by omega) (by rcases hdl2 with h0 | h1; exact Or.inl h0; exact Or.inr (by omega))
  simp only [Nat.zero_add] at hf2
  -- phase 2: the rest of K2
  have hmem1 : ∀ x, x ∈ front1.map (·.1) ++ [last1] ↔ x ∈ K1 := fun x => hperm1.mem_iff
  have hmem2 : ∀ x, x ∈ front2.map (·.1) ++ [last2] ↔ (x ∈ K2 ∧ x ∉ K1) := by
    intro x
    rw [hperm2.mem_iff]
    simp [List.mem_filter]
  have hnodup2 : (front2.map (·.1) ++ [last2]).Nodup := by
    apply hperm2.nodup_iff.mpr
    exact (hext.sorted.imp (fun h => Nat.ne_of_lt h)).filter _
  have hrun : r = zRun cfg s ((chordHist front1 ++ [.press last1]) ++
      (List.replicate g .tick ++ (chordHist front2 ++ [.press last2]))) := rfl
  rw [zRun_append, zRun_append, zRun_ticks] at hrun
  simp only [List.nil_append] at hrun
  generalize hs1 : zRun cfg s (chordHist front1 ++ [ZEv.press last1]) = r1 at ht1 hm1 hf1 hf2 hrun
  have hbm : (b.run r1.2).lsft = b.lsft ∧ (b.run r1.2).rsft = b.rsft ∧ (b.run r1.2).ralt = b.ralt := by
    obtain ⟨a1, a2, a3⟩ := hm1
    obtain ⟨c1, c2, c3⟩ := hmods
    exact ⟨by rw [a1, c1], by rw [a2, c2], by rw [a3, c3]⟩
  obtain ⟨⟨L, hL, ht2⟩, hm2, _⟩ := ext_run cfg
    (postPhase (freshPhase s) cfg (front1.map (·.1) ++ [last1]) out1) K1 K2 out2 s (ticksN r1.1 g) b (b.run r1.2)
    g g front2 last2 hf2 hbm hmods hent1.root_nonempty hext
    (by intro x; simp only [postPhase]; exact hmem1 x) hent1.sorted hkeys
    (by
      intro kg hkg h1
      have := (hmem2 kg.1).mp (by
        simp only [List.mem_append, List.mem_map, List.mem_singleton]
        exact Or.inl ⟨kg, hkg, rfl⟩)
      exact this.2 h1)
    (by
      intro x
      simp only [postPhase]
      rw [List.mem_append, hmem1 x, hmem2 x]
      constructor
      · rintro (h | h)
        · exact hsub x h
        · exact h.1
      · intro h
        by_cases h1 : x ∈ K1
        · exact Or.inl h1
        · exact Or.inr ⟨h, h1⟩)
    (by
      simp only [postPhase]
      intro h
      rcases List.mem_append.mp h with h | h
      · exact ((hmem2 last2).mp (by simp)).2 ((hmem1 last2).mp h)
      · have := List.nodup_append.mp hnodup2
        exact this.2.2 last2 h last2 (by simp) rfl)
    ((hmem2 last2).mp (by simp)).2
    (Or.inr hpunc) hout2 hko2 hgap2 hdl2
  rw [hrun]
  simp only [run_append]
  refine ⟨?_, hm2⟩
  rw [ht2, ht1]
  -- the arithmetic of what is erased
  have hsh : (s.lsft || s.rsft) = false := by simp [hnosh.1, hnosh.2]
  have hcpl0 : phaseCpl (freshPhase s) out1 = 0 := by
    unfold phaseCpl freshPhase; simp only; split <;> rfl
  have hcpl : phaseCpl (postPhase (freshPhase s) cfg (front1.map (·.1) ++ [last1]) out1) out2 =
      commonPrefixLen out1 out2 := by
    simp [phaseCpl, postPhase]
  have hn := commonPrefixLen_le out1 out2
  rw [hcpl, hsh]
  simp only [postPhase, hcpl0, List.drop_zero, displayLen_plain out1 hp1]
  have hX := typeOuts_plain_length b.rtext out1 hp1
  have hdrop : List.drop ((↑out1.length + (if wantsSmartSpace cfg out1 = true then (1 : Int) else 0) + ↑front2.length -
        ↑(commonPrefixLen out1 out2)).toNat) (L ++ withSmartSpace cfg out1 (typeOuts b.rtext false out1)) =
      typeOuts b.rtext false (out1.take (commonPrefixLen out1 out2)) := by
    rw [← typeOuts_plain_drop b.rtext out1 hp1 _ hn.1]
    unfold withSmartSpace
    split
    · have : ((out1.length : Int) + 1 + front2.length - (commonPrefixLen out1 out2 : Int)).toNat =
          L.length + (1 + (out1.length - commonPrefixLen out1 out2)) := by omega
      rw [this, List.drop_append, List.drop_eq_nil_of_le (by omega), Nat.add_sub_cancel_left]
      simp only [stroke, KEY_SPACE, KEY_BACKSPACE, List.nil_append]
      rw [Nat.add_comm 1]
      simp [List.drop_succ_cons]
    · have : ((out1.length : Int) + 0 + front2.length - (commonPrefixLen out1 out2 : Int)).toNat =
          L.length + (out1.length - commonPrefixLen out1 out2) := by omega
      rw [this, List.drop_append, List.drop_eq_nil_of_le (by omega), Nat.add_sub_cancel_left]
      simp
  rw [hdrop, ← typeOuts_append_false, commonPrefixLen_take, List.take_append_drop]

/-- dictionary `ab ↦ xy`, `abc ↦ xyz` with smart space -/
def exCfg2 : Cfg :=
  ⟨[⟨[], [30, 48], [⟨.lower, false, 45⟩, ⟨.lower, false, 21⟩]⟩,
    ⟨[], [30, 46, 48], [⟨.lower, false, 45⟩, ⟨.lower, false, 21⟩, ⟨.lower, false, 44⟩]⟩], 500, 50, .full, []⟩

/-- The hypotheses of `zippy_net_text_extends_partial` are met by a concrete instance (b, a, 7 ticks, c),
and the text is `xyz␣` as the theorem says. -/
example :
    let s : Zchd := zchConfigure Zchd.default
    BasicEntry exCfg2.dict [30, 48] [⟨.lower, false, 45⟩, ⟨.lower, false, 21⟩] ∧
    hasFollowups exCfg2.dict [[30, 48]] = false ∧
    ExtEntry exCfg2.dict [30, 48] [30, 46, 48] [⟨.lower, false, 45⟩, ⟨.lower, false, 21⟩, ⟨.lower, false, 44⟩] ∧
    (List.map Prod.fst ([(48, 2)] : List (Nat × Nat)) ++ [30]).Perm [30, 48] ∧
    (List.map Prod.fst ([] : List (Nat × Nat)) ++ [46]).Perm
      (([30, 46, 48] : List Nat).filter (fun x => !([30, 48] : List Nat).contains x)) ∧
    Fresh s ∧
    (Buf.empty.run (zRun exCfg2 s ((chordHist [(48, 2)] ++ [.press 30]) ++
      (List.replicate 7 .tick ++ (chordHist [] ++ [.press 46])))).2).shown =
      [⟨45, false, false⟩, ⟨21, false, false⟩, ⟨44, false, false⟩, ⟨57, false, false⟩] := by
  have hl : level exCfg2.dict [] = [([30, 48], [⟨.lower, false, 45⟩, ⟨.lower, false, 21⟩]),
      ([30, 46, 48], [⟨.lower, false, 45⟩, ⟨.lower, false, 21⟩, ⟨.lower, false, 44⟩])] := by decide
  refine ⟨⟨by decide, by decide, by unfold StrictSorted; decide, ?_, by decide⟩, by decide,
    ⟨by decide, by decide, by unfold StrictSorted; decide, ?_, by decide⟩, by decide, by decide,
    ⟨rfl, rfl, rfl, rfl, rfl, rfl, rfl⟩, by decide⟩
  · intro o h; rw [hl] at h; simp at h; exact h
  · intro o h; rw [hl] at h; simp at h; exact h

/-! ### Witnesses that the full statement fails on the code as it is
(each also runs on the real code from corpus/C20.txt and is recorded in KNOWN_FINDINGS.jsonl) -/

/-- **zippy_followup_multikey_counterexample**.  Dictionary `r df ↦ re` alone (kanata's own example line
"r df ↦ recipient", shortened): press r, release r, press d, press f.  Required: `re`.  The model — and the
real code — leave `rdf`: `d` is a subset of the follow-up chord `df` but of no top-level chord, so the
top-level lookup answers Neither and zippychord resets. -/
theorem zippy_followup_multikey_counterexample :
    let cfg : Cfg := ⟨[⟨[], [19], []⟩, ⟨[[19]], [32, 33], [⟨.lower, false, 19⟩, ⟨.lower, false, 18⟩]⟩],
      500, 500, .disabled, []⟩
    (Buf.empty.run (zRun cfg (zchConfigure Zchd.default) [.press 19, .release 19, .press 32, .press 33]).2).shown =
      [⟨19, false, false⟩, ⟨32, false, false⟩, ⟨33, false, false⟩] := by
  decide

/-- **zippy_prefix_reuse_counterexample**.  Dictionary `e ↦ a`, `e, ↦ a.`, `e,.b ↦ ␣btY`; press e , b . in one
hold.  Required: ` btY`.  The code leaves `a btY`: after re-using the common prefix `a` of the first two
expansions the erase counter restarts from the newly typed characters only. -/
theorem zippy_prefix_reuse_counterexample :
    let cfg : Cfg := ⟨[⟨[], [18], [⟨.lower, false, 30⟩]⟩,
      ⟨[], [18, 51], [⟨.lower, false, 30⟩, ⟨.lower, false, 52⟩]⟩,
      ⟨[], [18, 48, 51, 52], [⟨.lower, false, 57⟩, ⟨.lower, false, 48⟩, ⟨.lower, false, 20⟩, ⟨.upper, false, 21⟩]⟩],
      500, 500, .disabled, []⟩
    (Buf.empty.run (zRun cfg (zchConfigure Zchd.default) [.press 18, .press 51, .press 48, .press 52]).2).shown =
      [⟨30, false, false⟩, ⟨57, false, false⟩, ⟨48, false, false⟩, ⟨20, false, false⟩, ⟨21, true, false⟩] := by
  decide

/-- **zippy_shift_prefix_counterexample**.  Dictionary `ab ↦ xy`, `abc ↦ xyz`; hold left shift, press a b c.
Required (first keystroke of the expansion under the user's shift): `Xyz`.  The code leaves `XyZ`. -/
theorem zippy_shift_prefix_counterexample :
    (Buf.empty.run (zRun { exCfg2 with smartSpace := .disabled } (zchConfigure Zchd.default)
      [.press KEY_LEFTSHIFT, .press 30, .press 48, .press 46]).2).shown =
      [⟨45, true, false⟩, ⟨21, false, false⟩, ⟨44, true, false⟩] := by
  decide

/-- **zippy_smartspace_punctuation_counterexample**.  Dictionary `dy ↦ day`, `.g ↦ git`, smart-space full
(default punctuation `. , ;`): chord d y, release, then chord . g.  Required: `day` then `git ` with the
typed `.` erased.  The code leaves `day.git `: the erase counter is decremented for the smart space
although after the full release it no longer counts it. -/
theorem zippy_smartspace_punctuation_counterexample :
    let cfg : Cfg := ⟨[⟨[], [21, 32], [⟨.lower, false, 32⟩, ⟨.lower, false, 30⟩, ⟨.lower, false, 21⟩]⟩,
      ⟨[], [34, 52], [⟨.lower, false, 34⟩, ⟨.lower, false, 23⟩, ⟨.lower, false, 20⟩]⟩],
      500, 500, .full, [⟨.lower, false, 52⟩, ⟨.lower, false, 51⟩, ⟨.lower, false, 39⟩]⟩
    (Buf.empty.run (zRun cfg (zchConfigure Zchd.default)
      [.press 32, .press 21, .release 32, .release 21, .press 52, .press 34]).2).shown =
      [⟨32, false, false⟩, ⟨30, false, false⟩, ⟨21, false, false⟩, ⟨52, false, false⟩,
       ⟨34, false, false⟩, ⟨23, false, false⟩, ⟨20, false, false⟩, ⟨57, false, false⟩] := by
  decide

/-- **zippy_shift_restored** (full, per event).  With a dictionary configured whose expansions consist
of character keys, for EVERY state of zippychord, every buffer whose shift / AltGr state is what
zippychord believes the user holds, and every event — any press (modifier, ignored key, chord key,
completing key of any chord: overlapping, follow-up, empty output, …), any release, and any tick that
is not the forced reset — afterwards (i) the OS-level shift / AltGr state is again what zippychord
believes the user holds and (ii) it is exactly what the user's own event does to it: whatever an
activation presses and releases in between is undone. -/
theorem zippy_shift_restored (cfg : Cfg) (s : Zchd) (b : Buf) (e : ZEv)
    (hne : ssmIsEmpty (levelSsm cfg.dict []) = false) (hok : OutsOK cfg.dict) (hm : ModsAgree s b)
    (hnr : s.ticksSinceStateChange < TICKS_UNTIL_FORCE_STATE_RESET) :
    ModsAgree (zStep cfg s e).1 (b.run (zStep cfg s e).2) ∧
    modsOf (b.run (zStep cfg s e).2) = modsOf (userStep b e) := by
  cases e with
  | press k => exact press_mods cfg s k b hne hok hm
  | release k => exact release_mods cfg s k b hne hm
  | tick =>
    simp only [zStep, zchTick, run_nil, userStep]
    refine ⟨?_, trivial⟩
    rw [modsAgree_iff] at hm ⊢
    rw [tick_flags s false hnr]; exact hm

/-- the dictionary `ab ↦ X` -/
def cexResetCfg : Cfg := ⟨[⟨[], [30, 48], [⟨.upper, false, 45⟩]⟩], 500, 0, .disabled, []⟩
/-- left shift pressed from the initial state -/
def cexResetS0 : Zchd := (zchPressKey cexResetCfg (zchConfigure Zchd.default) KEY_LEFTSHIFT).1
/-- ... and held for 10000 ticks -/
def cexResetS1 : Zchd := { cexResetS0 with ticksSinceStateChange := 10000 }

/-- **zippy_shift_lost_after_forced_reset_counterexample**.  The hypothesis on the forced reset cannot be
dropped: `zchd_tick` forgets the user's modifiers after more than 10000 ticks without a zippychord
state change ("potentially causing inaccuracies with regards to what the user is currently still
pressing"), and an activation with an upper-case output then releases the shift the user is still
holding.  Witness: dictionary `ab ↦ X`; press left shift and hold it for 10000 ticks (this is state
`cexResetS1`, first conjunct); one more tick, press a, press b: left shift is up at the OS although
zippychord was told nothing about a release and the user still holds it. -/
theorem zippy_shift_lost_after_forced_reset_counterexample :
    ticksN cexResetS0 10000 = cexResetS1 ∧ cexResetS1.lsft = true ∧
    (Buf.run ⟨[], true, false, false⟩ (zRun cexResetCfg cexResetS1 [.tick, .press 30, .press 48]).2).lsft = false := by
  refine ⟨?_, by decide, by decide⟩
  have h0 : cexResetS0.ticksSinceStateChange = 0 := by decide
  have := idle_ticks cexResetS0 10000 (by decide) (by decide) (by decide) (by rw [h0]; decide)
  rw [this, h0]
  rfl

/-- **zippy_passthrough** (full).  For every dictionary and every history of presses, releases and ticks
(any length, physically consistent or not) during which the keys the user holds never include all
keys of a top-level chord, zippychord writes exactly the user's own key events, in order: typing that
does not form a chord passes through unchanged (and so do the text and the modifiers it produces). -/
theorem zippy_passthrough (cfg : Cfg) (h : List ZEv) (hnc : NoChordPossible cfg.dict [] h) :
    (zRun cfg (zchConfigure Zchd.default) h).2 = asOs h := by
  by_cases he : ssmIsEmpty (levelSsm cfg.dict []) = true
  · exact zRun_empty_dict cfg he _ h
  · exact zRun_quiet cfg (by simpa using he) h _ [] Quiet.reset hnc

example : NoChordPossible [⟨[], [30, 48], [⟨.lower, false, 45⟩]⟩] []
    [.press 30, .tick, .release 30, .press 48, .press 46, .release 48, .press 30] := by
  simp [NoChordPossible, level]

/-- **sim_feeds_zrun** (full).  The theorems above speak about zippychord-level histories (`zRun`); the
model that is compared trace-for-trace with the real `Kanata` is the machine `Sim` (event queue of the
layout, one event per tick, `prev_keys`/`cur_keys` difference, output log).  For every dictionary and
every physically consistent user history (a key is pressed only when up and released only when down;
no key of the ignored macro-key range), that machine hands zippychord exactly the history `zOfHist`
("the queued event, if any, then a tick" per millisecond) and logs exactly the events `zRun` returns. -/
theorem sim_feeds_zrun (cfg : Cfg) (h : List HEv) (hok : HistOK [] [] h) :
    (Sim.init.hist cfg h).zch = (zRun cfg (zchConfigure Zchd.default) (zOfHist [] h)).1 ∧
    traceEvents (Sim.init.hist cfg h).trace = (zRun cfg (zchConfigure Zchd.default) (zOfHist [] h)).2 := by
  have := sim_hist cfg h Sim.init rfl List.nodup_nil hok
  simpa [Sim.init, traceEvents] using this

example : HistOK [] [] [.press 30, .press 48, .ticks 5, .release 30, .ticks 1, .press 30, .release 48, .ticks 9] := by
  simp [HistOK, HistOK.activeAfter, QueueOK, inIgnoreRange, KEY_IGNORE_MIN, KEY_IGNORE_MAX]

/-- The constants and key lists of the model are the ones in the source
(`KVerif.Gen.Zippy` is regenerated from /repo on every run). -/
theorem zippy_consts_from_source :
    zippyIgnored = Gen.Zippy.zippyIgnored ∧
    TICKS_UNTIL_FORCE_STATE_RESET = Gen.Zippy.TICKS_UNTIL_FORCE_STATE_RESET ∧
    KEY_IGNORE_MIN = Gen.Zippy.KEY_IGNORE_MIN ∧ KEY_IGNORE_MAX = Gen.Zippy.KEY_IGNORE_MAX ∧
    Gen.Zippy.oscUsed = [("KEY_BACKSPACE", KEY_BACKSPACE), ("KEY_LEFTSHIFT", KEY_LEFTSHIFT),
      ("KEY_RIGHTALT", KEY_RIGHTALT), ("KEY_RIGHTSHIFT", KEY_RIGHTSHIFT), ("KEY_SPACE", KEY_SPACE)] ∧
    Gen.Zippy.defaultPunctuation = [(0, 52), (0, 51), (0, 39)] ∧
    Gen.Zippy.defaultWaitEnable = 500 ∧ Gen.Zippy.defaultChordDeadline = 500 ∧
    Gen.Zippy.defaultSmartSpace = 0 := by
  decide

end KVerif.Zippy
