/-
C07 — idle blocking is unobservable.

Full statement: for every reachable state in which `can_block_update_idle_waiting` answers true,
ticking any number of times produces no output and leaves a state from which every later input is
handled identically.
Proved here: what `is_idle` covers (every time-driven component of the layout and of the kanata
layer that is modelled); `block_silent` / `block_silent_forever`: from a state in which kanata may
block, ANY number of whole `tick_states` emits nothing, cannot crash, and changes nothing but ageing
counters (the state one tick later is given in closed form) — under the hypotheses the idle
predicate does not establish (`Synced`, `PlainStates`, no override erasing keys), each of which is
needed (the macro-release-cancel known finding is a state that is idle but not synced); and that
the pinned predicate missed three components (repaired by 6f31db9, 1f5ac33, 6e1cc72).
Not proved: that those extra hypotheses hold in every reachable blocking state (false: see the known
finding) and that later inputs are handled identically although history ages differ (the
`switch_max_key_timing` guard of `can_block` is about exactly that); both are what the run-level
comparison (blocking loop vs always-ticking loop on the real code) decides.
-/
import KVerif.Lemmas.LayeredTick
import KVerif.Model.Kanata
import KVerif.Lemmas.KanataQuiet
import KVerif.Lemmas.KanataDynQuiet
namespace KVerif.C07
open KVerif.L KVerif.K

/-- **idle_covers_time_driven** (full): when kanata says it is idle, every time-driven component is at
rest: nothing queued, no tap-hold / tap-dance / chord waiting (first or extra), no quick-tap window,
no one-shot key held, no rapid-event pause, no macro running, no eager tap-dance, no queued action,
no scrolling or mouse movement, no macro-cancel window, no caps-word, no timed virtual key, not in
sequence mode (`sequence_state.is_inactive()`). -/
theorem idle_covers_time_driven (k : KState) (h : isIdle k = true) :
    k.layout.queue = [] ∧ k.layout.waiting = none ∧ k.layout.extraWaiting = [] ∧
    k.layout.lptTapHoldTimeout = 0 ∧ k.layout.oneshot.keys = [] ∧
    k.layout.oneshot.pauseInputProcessingTicks = 0 ∧ k.layout.activeSequences = [] ∧
    k.layout.tapDanceEager = none ∧ k.layout.actionQueue = [] ∧ k.scroll = none ∧ k.hscroll = none ∧
    k.moveV = none ∧ k.moveH = none ∧ k.macroOnPressCancelDuration = 0 ∧ k.capsWord = none ∧
    k.vkeysPendingRelease = [] ∧ k.seq.st.active = false := by
  simp only [isIdle, isIdleBase, Bool.and_eq_true, List.isEmpty_iff, Option.isNone_iff_eq_none, beq_iff_eq] at h
  obtain ⟨⟨⟨⟨⟨⟨⟨⟨⟨⟨⟨⟨⟨⟨⟨⟨⟨⟨h1, h2⟩, h3⟩, h4⟩, h5⟩, h6⟩, h7⟩, h8⟩, h9⟩, h10⟩, h11⟩, h12⟩, h13⟩, h14⟩, h15⟩, h16⟩, _⟩, h17⟩, _⟩ := h
  exact ⟨h1, h2, h3, h4, h5, h6, h7, h8, h9, h10, h11, h12, h14, h13, h15, h16, by simpa using h17⟩

/-- no state that the sequence machinery acts on by itself -/
def PlainStates (l : Layout) : Prop :=
  ∀ st ∈ l.states, match st with
    | .repeatingSequence .. | .seqCustomPending _ | .seqCustomActive _ | .tombstone => False
    | _ => True

/-- the layout conditions `is_idle` establishes -/
structure QuietLayout (l : Layout) : Prop where
  queue : l.queue = []
  waiting : l.waiting = none
  extra : l.extraWaiting = []
  osh : l.oneshot.keys = []
  pause : l.oneshot.pauseInputProcessingTicks = 0
  seqs : l.activeSequences = []
  tde : l.tapDanceEager = none
  aq : l.actionQueue = []
  plain : PlainStates l

theorem processSequences_quiet (l : Layout) (h1 : l.activeSequences = []) (h2 : PlainStates l) :
    processSequences l = l := by
  unfold processSequences
  simp only [h1, List.length_nil, processSequences.go, List.isEmpty_nil, if_true]
  split
  · rename_i evs heq
    exfalso
    obtain ⟨st, hst, hf⟩ := List.exists_of_findSome?_eq_some heq
    have := h2 st (List.mem_reverse.mp hst)
    cases st <;> simp at this <;> cases hf
  · rfl

theorem processSequenceCustom_quiet (l : Layout) (h : PlainStates l) (cu : CustomEv) :
    processSequenceCustom l cu = (l, cu) := by
  unfold processSequenceCustom
  split
  · rfl
  · have hf : l.states.filter (· != .tombstone) = l.states := by
      apply List.filter_eq_self.mpr
      intro st hst
      have := h st hst
      cases st <;> simp at this ⊢
    have hgo : ∀ (ss : List St), (∀ st ∈ ss, match st with
        | .repeatingSequence .. | .seqCustomPending _ | .seqCustomActive _ | .tombstone => False
        | _ => True) → processSequenceCustom.go cu ss = (ss, cu) := by
      intro ss
      induction ss with
      | nil => intro _; rfl
      | cons st rest ih =>
        intro hl
        have hst := hl st (by simp)
        have ihr := ih (fun x hx => hl x (by simp [hx]))
        cases st <;> simp at hst <;> simp [processSequenceCustom.go, ihr]
    simp only [hf, hgo l.states h]

macro "tickpre_field" h:ident : tactic => `(tactic| (
  unfold tickPre
  simp only [($h).tde]
  rw [processSequences_quiet]
  all_goals first
    | exact ($h).seqs | exact ($h).plain | rfl | exact ($h).waiting | exact ($h).extra
    | exact ($h).aq | simp [($h).queue]))

theorem tickPre_quiet (l : Layout) (h : QuietLayout l) :
    (tickPre l).states = l.states ∧ (tickPre l).queue = [] ∧ (tickPre l).waiting = none ∧
    (tickPre l).extraWaiting = [] ∧ (tickPre l).oneshot = l.oneshot ∧ (tickPre l).activeSequences = [] ∧
    (tickPre l).actionQueue = [] ∧ (tickPre l).tapDanceEager = none ∧
    (tickPre l).defaultLayer = l.defaultLayer ∧ (tickPre l).cfg = l.cfg := by
  refine ⟨?_, ?_, ?_, ?_, ?_, ?_, ?_, ?_, ?_, ?_⟩ <;> tickpre_field h

/-- **layout_tick_silent_when_quiet** (full, any configuration): one tick of a quiet layout returns no
custom event and changes nothing except ageing counters (the quick-tap countdown, key/input history
ages): states, queue, waiting states, one-shot, sequences and the action queue are untouched. -/
theorem layout_tick_silent_when_quiet (l : Layout) (h : QuietLayout l) :
    ∃ l', tick l = .ok (l', .noEvent) ∧ l'.states = l.states ∧ l'.queue = [] ∧ l'.waiting = none ∧
      l'.extraWaiting = [] ∧ l'.oneshot = l.oneshot ∧ l'.activeSequences = [] ∧ l'.actionQueue = [] ∧
      l'.tapDanceEager = none ∧ l'.defaultLayer = l.defaultLayer ∧ l'.cfg = l.cfg ∧ QuietLayout l' := by
  obtain ⟨p1, p2, p3, p4, p5, p6, p7, p8, p9, p10⟩ := tickPre_quiet l h
  have hq : QuietLayout (tickPre l) :=
    ⟨p2, p3, p4, by rw [p5]; exact h.osh, by rw [p5]; exact h.pause, p6, p8, p7,
      by unfold PlainStates; rw [p1]; exact h.plain⟩
  have hosh : tickOneshot (tickPre l) = .ok (tickPre l, .noEvent) := by
    unfold tickOneshot OneShotState.tick; simp [hq.osh]
  have hmain : tickMain (tickPre l) = .ok (tickPre l, .noEvent) := by
    unfold tickMain
    simp [hq.waiting, hq.extra, hq.pause, hq.queue]
  have hext := C04.processExtraWaitings_inert (s := tickPre l) hq.extra .noEvent
  refine ⟨tickPre l, ?_, p1, p2, p3, p4, p5, p6, p7, p8, p9, p10, hq⟩
  unfold tick
  simp only [h.aq, hosh, hmain, CustomEv.update, hext, processSequenceCustom_quiet _ hq.plain]

/-- keys wanted down and keys down at the OS coincide as sets -/
def Synced (k : KState) (cur : List KeyCode) : Prop :=
  (∀ x ∈ k.prevKeys, x ∈ cur) ∧ (∀ x ∈ cur, x ∈ k.prevKeys)

theorem releaseOld_synced (k : KState) (cur : List KeyCode) (rev : Bool) (h : ∀ x ∈ k.prevKeys, x ∈ cur) :
    releaseOld k cur rev = k := by
  unfold releaseOld
  have : ∀ (olds : List KeyCode) (k0 : KState), (∀ x ∈ olds, x ∈ cur) →
      olds.foldl (fun k x => if cur.contains x then k else releaseKey k x) k0 = k0 := by
    intro olds
    induction olds with
    | nil => intro _ _; rfl
    | cons x xs ih =>
      intro k0 hx
      have hc : cur.contains x = true := by simpa using hx x (by simp)
      simp only [List.foldl_cons, hc, if_true]
      exact ih k0 (fun y hy => hx y (by simp [hy]))
  split
  · exact this _ k (fun x hx => h x (List.mem_reverse.mp hx))
  · exact this _ k h

theorem pressNew_synced (k : KState) (cur : List KeyCode) (h : ∀ x ∈ cur, x ∈ k.prevKeys) :
    pressNew k cur = k := by
  unfold pressNew
  induction cur generalizing k with
  | nil => rfl
  | cons x xs ih =>
    have hc : k.prevKeys.contains x = true := by simpa using h x (by simp)
    simp only [List.foldl_cons, hc, if_true]
    exact ih k (fun y hy => h y (by simp [hy]))

/-- **diff_silent_when_synced** (full): the key-list diffing of `handle_keystate_changes` — releases
of keys that were down and are no longer wanted, presses of wanted keys that were not down — emits
nothing and changes nothing when the OS key state and the wanted key list coincide as sets. -/
theorem diff_silent_when_synced (k : KState) (cur : List KeyCode) (rev : Bool) (h : Synced k cur) :
    pressNew (releaseOld k cur rev) cur = k := by
  rw [releaseOld_synced k cur rev h.1, pressNew_synced k cur h.2]

/-! ### Composition: when kanata may block, ticking instead is unobservable -/

theorem handleKeystateChanges_quiet (k : KState) (hq : QuietLayout k.layout) (hcw : k.capsWord = none)
    (hcur : k.curKeys = [])
    (cur' : List KeyCode) (ost : Override.OverrideStates)
    (hov : k.overrides.overrideKeys (adjustKeys k k.layout.keycodes) k.overrideStates = .ok (cur', ost))
    (hrm : ost.toRemove = []) (hsync : Synced k cur') :
    ∃ l', tick k.layout = .ok (l', .noEvent) ∧ l'.states = k.layout.states ∧ QuietLayout l' ∧
      handleKeystateChanges k = .ok { k with layout := l', overrideStates := ost, curKeys := cur' } := by
  obtain ⟨l', ht, hst, _, _, _, _, _, _, _, _, _, hq'⟩ := layout_tick_silent_when_quiet k.layout hq
  refine ⟨l', ht, hst, hq', ?_⟩
  have hkc : l'.keycodes = k.layout.keycodes := by unfold Layout.keycodes; rw [hst]
  have hadj : adjustKeys { k with layout := l' } (({ k with layout := l' } : KState).curKeys ++ l'.keycodes)
      = adjustKeys k k.layout.keycodes := by
    simp only [hcur, List.nil_append, hkc]; rfl
  have hsync' : Synced ({ k with layout := l', overrideStates := ost } : KState) cur' := hsync
  unfold handleKeystateChanges
  simp only [ht, applyUnmodEvent, hadj, hov, hrm, eraseOverridden_nil]
  have hcw' : applyCapsWord ({ k with layout := l', overrideStates := ost } : KState) cur'
      = (cur', { k with layout := l', overrideStates := ost }) := by
    unfold applyCapsWord; simp only [hcw]
  have hro := releaseOld_synced ({ k with layout := l', overrideStates := ost } : KState) cur' false hsync'.1
  have hh : seqReleasedHook ({ k with layout := l', overrideStates := ost } : KState) cur'
      = .ok { k with layout := l', overrideStates := ost } := seqReleasedHook_synced _ _ hsync'.1
  have hp : pressLoop cur' cur' ({ k with layout := l', overrideStates := ost } : KState)
      = .ok { k with layout := l', overrideStates := ost } := pressLoop_synced _ _ _ hsync'.2
  simp only [hcw', hro, hh, hp, hkcCustom]


theorem tick_quiet_eq (l : Layout) (h : QuietLayout l) : tick l = .ok (tickPre l, .noEvent) := by
  obtain ⟨p1, p2, p3, p4, p5, p6, p7, p8, p9, p10⟩ := tickPre_quiet l h
  have hq : QuietLayout (tickPre l) :=
    ⟨p2, p3, p4, by rw [p5]; exact h.osh, by rw [p5]; exact h.pause, p6, p8, p7,
      by unfold PlainStates; rw [p1]; exact h.plain⟩
  have hosh : tickOneshot (tickPre l) = .ok (tickPre l, .noEvent) := by
    unfold tickOneshot OneShotState.tick; simp [hq.osh]
  have hmain : tickMain (tickPre l) = .ok (tickPre l, .noEvent) := by
    unfold tickMain
    simp [hq.waiting, hq.extra, hq.pause, hq.queue]
  have hext := C04.processExtraWaitings_inert (s := tickPre l) hq.extra .noEvent
  unfold tick
  simp only [h.aq, hosh, hmain, CustomEv.update, hext, processSequenceCustom_quiet _ hq.plain]

theorem tickPre_lpt (l : Layout) (h : QuietLayout l) :
    (tickPre l).lptTapHoldTimeout = l.lptTapHoldTimeout - 1 := by
  tickpre_field h

/-- the states `can_block_update_idle_waiting` lets the loop sleep in, plus the two facts it does not
check: no sequence-driven state (`PlainStates`) and the OS key state equal to the wanted key list
(`Synced`, after overrides; an override that fires and erases keys is excluded by `toRemove = []`) -/
structure MayBlock (k : KState) (cur' : List KeyCode) (ost : Override.OverrideStates) : Prop where
  idle : isIdle k = true
  noWait : k.waitingForIdle = []
  plain : PlainStates k.layout
  curEmpty : k.curKeys = []
  wanted : k.overrides.overrideKeys (adjustKeys k k.layout.keycodes) k.overrideStates = .ok (cur', ost)
  noErase : ost.toRemove = []
  synced : Synced k cur'
  noRec : k.dyn.rcd = none     -- [dyn] a recording's delay counter advances with every tick (can_block checks it since ccfb98e; is_idle does not)

/-- the state one tick later -/
def afterQuietTick (k : KState) (cur' : List KeyCode) (ost : Override.OverrideStates) : KState :=
  { k with layout := tickPre k.layout, overrideStates := ost, curKeys := [], prevKeys := cur',
           macroOnPressCancelDuration := k.macroOnPressCancelDuration - 1 }

theorem block_silent (k : KState) (cur' : List KeyCode) (ost : Override.OverrideStates) (h : MayBlock k cur' ost) :
    tickStates k = .ok (afterQuietTick k cur' ost) ∧ (afterQuietTick k cur' ost).out = k.out ∧
      (afterQuietTick k cur' ost).layout.states = k.layout.states ∧
      MayBlock (afterQuietTick k cur' ost) cur' ost := by
  obtain ⟨i1, i2, i3, i4, i5, i6, i7, i8, i9, i10, i11, i12, i13, i14, i15, i16, i17⟩ := idle_covers_time_driven k h.idle
  have hq : QuietLayout k.layout := ⟨i1, i2, i3, i5, i6, i7, i8, i9, h.plain⟩
  obtain ⟨l', ht, hst, hq', hk⟩ := handleKeystateChanges_quiet k hq i15 h.curEmpty cur' ost h.wanted h.noErase h.synced
  have hl' : l' = tickPre k.layout := by
    have := tick_quiet_eq k.layout hq
    rw [ht] at this; injection this with this; injection this
  subst hl'
  let k1 : KState := { k with layout := tickPre k.layout, overrideStates := ost, curKeys := cur' }
  have e2 : handleScrolling k1 = .ok k1 := handleScrolling_none k1 i10 i11
  have e3 : handleMoveMouse k1 = .ok k1 := handleMoveMouse_none k1 i12 i13
  have e3s : tickSequenceState k1 = .ok k1 := tickSequenceState_inactive k1 i17
  have e4 : tickIdleTimeout k1 = .ok k1 := tickIdleTimeout_nil k1 h.noWait
  let k2 : KState := { k1 with macroOnPressCancelDuration := k1.macroOnPressCancelDuration - 1, prevKeys := k1.curKeys, curKeys := [] }
  have e5 : tickHeldVkeys k2 = .ok k2 := tickHeldVkeys_nil k2 i16
  have hk2 : k2 = afterQuietTick k cur' ost := rfl
  have hidle' : isIdle (afterQuietTick k cur' ost) = true := by
    have hlpt : (tickPre k.layout).lptTapHoldTimeout = 0 := by rw [tickPre_lpt _ hq, i4]
    have hidle := h.idle
    simp only [isIdle, isIdleBase, Bool.and_eq_true, List.isEmpty_iff, Option.isNone_iff_eq_none, beq_iff_eq] at hidle ⊢
    obtain ⟨⟨⟨_, hs⟩, hsq⟩, hrep⟩ := hidle
    refine ⟨⟨⟨⟨⟨⟨⟨⟨⟨⟨⟨⟨⟨⟨⟨⟨⟨⟨hq'.queue, hq'.waiting⟩, hq'.extra⟩, hlpt⟩, hq'.osh⟩, hq'.pause⟩, hq'.seqs⟩, hq'.tde⟩, hq'.aq⟩, i10⟩, i11⟩, i12⟩, ?_⟩, i13⟩, i15⟩, i16⟩, ?_⟩, hsq⟩, hrep⟩
    · show k.macroOnPressCancelDuration - 1 = 0
      rw [i14]
    · show (!((tickPre k.layout).states.any _)) = true
      rw [hst]; exact hs
  refine ⟨?_, rfl, hst, hidle', h.noWait, hq'.plain, rfl, ?_, h.noErase, ⟨fun _ hx => hx, fun _ hx => hx⟩, h.noRec⟩
  · unfold tickStates
    simp only [hk]
    change (match handleScrolling k1 with
      | .error c => Except.error c
      | .ok k => _) = _
    rw [e2]; simp only []
    rw [e3]; simp only []
    rw [e3s]; simp only []
    rw [e4]; simp only []
    have e6 : dynTickRecord { k1 with macroOnPressCancelDuration := k1.macroOnPressCancelDuration - 1 }
        = { k1 with macroOnPressCancelDuration := k1.macroOnPressCancelDuration - 1 } :=
      dynTickRecord_none _ h.noRec
    rw [e6]
    rw [← hk2]; exact e5
  · -- the wanted list is the same next time: same states, same unmod lists, and the override pass
    -- does not depend on the scratch state it is given
    have hkc : (tickPre k.layout).keycodes = k.layout.keycodes := by unfold Layout.keycodes; rw [hst]
    show k.overrides.overrideKeys (adjustKeys (afterQuietTick k cur' ost) (tickPre k.layout).keycodes) ost = .ok (cur', ost)
    have hadj : adjustKeys (afterQuietTick k cur' ost) (tickPre k.layout).keycodes = adjustKeys k k.layout.keycodes := by
      rw [hkc]; rfl
    rw [hadj]
    have hw := h.wanted
    unfold Override.Overrides.overrideKeys at hw ⊢
    split
    · rename_i he
      simp only [he, if_true] at hw
      injection hw with hw; injection hw with h1 h2
      rw [h1]
    · rename_i he
      simp only [he] at hw
      exact hw

/-- `n` consecutive ticks -/
def ticksN : Nat → KState → Except K.Crash KState
  | 0, k => .ok k
  | n + 1, k => match tickStates k with
    | .error c => .error c
    | .ok k' => ticksN n k'

/-- **block_silent_forever**: from a state in which kanata may block (and the two facts it does not
check hold), any number of ticks emits nothing, crashes nowhere, and leaves the layout's states and
the OS key state as they are - so sleeping instead of ticking is unobservable. -/
theorem block_silent_forever (n : Nat) : ∀ (k : KState) (cur' : List KeyCode) (ost : Override.OverrideStates),
    MayBlock k cur' ost →
    ∃ k', ticksN n k = .ok k' ∧ k'.out = k.out ∧ k'.layout.states = k.layout.states ∧
      (n > 0 → k'.prevKeys = cur') ∧ MayBlock k' cur' ost := by
  induction n with
  | zero => intro k cur' ost h; exact ⟨k, rfl, rfl, rfl, fun h => absurd h (by omega), h⟩
  | succ n ih =>
    intro k cur' ost h
    obtain ⟨e, ho, hs, hm⟩ := block_silent k cur' ost h
    obtain ⟨k', e', ho', hs', hp', hm'⟩ := ih _ cur' ost hm
    refine ⟨k', ?_, ho'.trans ho, hs'.trans hs, fun _ => ?_, hm'⟩
    · simp only [ticksN, e]; exact e'
    · cases n with
      | zero => simp only [ticksN] at e'; injection e' with e'; rw [← e']; rfl
      | succ m => exact hp' (by omega)


/-- non-vacuity: a key held down (layout state, OS state and wanted list agree), nothing pending -/
example : MayBlock
    { layout := { cfg := { layers := [[]], srcKeys := [] }, states := [.normalKey 30 (0, 30) 0] },
      customs := [], keyOutputs := [[]], prevKeys := [30],
      mods := { codes := [42, 54, 56, 100, 29, 97, 125, 126], lsft := 42, rsft := 54 } }
    [30] Override.OverrideStates.new :=
  ⟨rfl, rfl, by intro st hst; simp at hst; subst hst; trivial, rfl, rfl, rfl,
   ⟨fun _ h => h, fun _ h => h⟩, rfl⟩

/-! What `block_silent` still assumes beyond `can_block_update_idle_waiting`: `PlainStates` (kanata's
`is_idle` checks the sequence-custom states but not a held `macro-repeat`), `Synced` (not checked at
all: the `macro-release-cancel` known finding is a state that is idle but not synced), no override
erasing keys at that moment, and an empty `cur_keys` (true between ticks). These are exactly the
places the C07 paired runs probe, with the model diagnosing which one fails. -/

/-! ### The pinned idle predicate missed three time-driven components -/

/-- a second tap-hold waiting in `extra_waiting`, everything else at rest -/
def extraWaitingWitness : KState :=
  { layout := { cfg := { layers := [[]], srcKeys := [] },
                extraWaiting := [{ coord := (0, 30), timeout := 40, delay := 1, ticks := 20, hold := .keyCode 17,
                                   tap := .keyCode 44, timeoutAction := .keyCode 17, config := .holdTap .default,
                                   layerStack := [0], prevQueueLen := 0 }] },
    customs := [], keyOutputs := [[]], mods := { codes := [42, 54, 56, 100, 29, 97, 125, 126], lsft := 42, rsft := 54 } }

/-- one-shot `lsft` still held with its timeout already at 0 (rapid-event-delay 0) -/
def oneshotWitness : KState :=
  { extraWaitingWitness with
    layout := { cfg := { layers := [[]], srcKeys := [] }, states := [.normalKey 42 (0, 30) 0],
                oneshot := { keys := [(0, 30)], releasedKeys := [(0, 30)], timeout := 0 } } }

/-- the rapid-event pause still counting down -/
def pauseWitness : KState :=
  { extraWaitingWitness with
    layout := { cfg := { layers := [[]], srcKeys := [] },
                oneshot := { pauseInputProcessingDelay := 5, pauseInputProcessingTicks := 4 } } }

/-- **pinned_idle_missed_components** (counterexamples, pinned code): in each of the three states the
pinned `is_idle` answered true although a component was still counting down; the repaired predicate
answers false (fixes 6f31db9, 1f5ac33, 6e1cc72; each reproduced on the real code as a postponed or
changed output under the blocking loop). -/
theorem pinned_idle_missed_components :
    (isIdlePinned extraWaitingWitness = true ∧ isIdle extraWaitingWitness = false) ∧
    (isIdlePinned oneshotWitness = true ∧ isIdle oneshotWitness = false) ∧
    (isIdlePinned pauseWitness = true ∧ isIdle pauseWitness = false) := by
  refine ⟨⟨rfl, rfl⟩, ⟨rfl, rfl⟩, ⟨rfl, rfl⟩⟩

/-- and a tick from the first witness is not silent for long: the waiting state keeps counting -/
theorem extra_waiting_keeps_counting :
    (match tick extraWaitingWitness.layout with
      | .ok (l, _) => l.extraWaiting.map (·.timeout)
      | .error _ => []) = [39] := by rfl

/-- the idle predicate of the tree implies the pinned one (it only got stricter) -/
theorem idle_implies_pinned_idle (k : KState) (h : isIdle k = true) : isIdlePinned k = true := by
  obtain ⟨i1, i2, _, i4, i5, _, i7, i8, i9, i10, i11, i12, i13, i14, i15, i16, i17⟩ := idle_covers_time_driven k h
  simp only [isIdle, isIdleBase, Bool.and_eq_true] at h
  have hst := h.1.1.2
  have hrep := h.2
  simp only [isIdlePinned, hrep, i1, i2, i4, i5, i7, i8, i9, i10, i11, i12, i13, i14, i15, i16, i17, hst]
  simp

end KVerif.C07
