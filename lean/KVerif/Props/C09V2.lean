/-
C09 — chords v2 (`defchordsv2`).  Property theorems only; helper lemmas are in Lemmas/ChordsV2.lean and
Lemmas/ChordsV2Release.lean.

Model/ChordsV2.lean follows keyberon/src/chord.rs AFTER the three fixes
  <fix-capacity>  a full `active_chords` list means "no chord activated" instead of a panic,
  <fix-cooldown>  releases reach the active chords during the cool-down as well,
  <fix-double>    the block after the loop of `process_presses` does not run when the loop activated a chord.
It is validated differentially (key lists, custom events and a digest of the private state of `Layout`
and `ChordsV2`).  Part 1 proves, for every state / table / queue, what the fixes make true.  Part 2
keeps the three defects of the code before the fixes as kernel-evaluated counterexamples over
Model/ChordsV2Pinned.lean (used nowhere else).  Part 3 is the exact-set statement.
-/
import KVerif.Lemmas.ChordsV2Exact
import KVerif.Model.ChordsV2Pinned
import KVerif.Gen.ChordV2Consts
namespace KVerif.C09
open KVerif.L

/-! ## 1. What holds of the fixed code, for all states -/

/-- **chv2_consts_from_source**: the capacities the model uses, and the three code shapes the repaired
behaviour rests on, are those of the source tree now (`KVerif.Gen.ChordV2Consts` is regenerated from
/repo on every run). -/
theorem chv2_consts_from_source :
    SMOL_Q_LEN = Gen.CHV2_SMOL_Q_LEN ∧ DRAIN_Q_LEN = Gen.CHV2_DRAIN_Q_LEN ∧
    ACTIVE_CHORDS_CAP = Gen.CHV2_ACTIVE_CAP ∧ QUEUE_SIZE = Gen.CHV2_QUEUE_SIZE ∧
    Gen.CHV2_QUEUE_SIZE + Gen.CHV2_ACTIVE_CAP + 2 ≤ Gen.CHV2_DRAIN_Q_LEN ∧
    Gen.CHV2_PRESS_LISTS_UNASSERTED = true ∧ Gen.CHV2_HANDOVER_BY_PUSH_BACK = true ∧
    Gen.CHV2_COOLDOWN_EXTEND = true := by decide

/-- **chord_v2_crash_sites** (full).  One tick of the chords-v2 machine, from ANY state, on any layer,
either succeeds or fails at one of three bounded-queue assertions (more than 16 virtual-key events /
released chords for the drain queue, more than 16 presses queued): the table lookup
`chord_candidates[0]` cannot fail, and a full `active_chords` list is not a failure any more. -/
theorem chord_v2_crash_sites (s : ChV2) (layer : Nat) (c : Crash) (h : tickChv2 s layer = .error c) :
    c = crashDQ ∨ c = crashPR ∨ c = crashTM := by
  unfold tickChv2 at h
  simp only [] at h
  split at h
  · rename_i c' he; cases h; exact drainInputs_err _ _ _ _ he
  · split at h
    · rename_i c' he; cases h; exact Or.inl (clearReleased_err _ _ _ he)
    · cases h

/-- **chord_v2_only_drain_queue_assert** (full; after the repair of the two press lists).  The two
`debug_assert`s on the 16-slot press lists of `drain_releases` / `process_presses` - reachable on the
pinned code with 17 presses queued between two ticks (debug builds panicked: `p a` x 17, tick) - are
gone: the only remaining way for a tick of the chords-v2 machine to fail is the drain-queue assertion
(more than 16 virtual-key events or released chords handed back in one tick). -/
theorem chord_v2_only_drain_queue_assert (s : ChV2) (layer : Nat) (c : Crash) (h : tickChv2 s layer = .error c) :
    c = crashDQ := by
  unfold tickChv2 at h
  simp only [] at h
  split at h
  · rename_i c' he; cases h; exact drainInputs_err_dq _ _ _ _ he
  · split at h
    · rename_i c' he; cases h; exact clearReleased_err _ _ _ he
    · cases h

/-- the pinned code: 17 presses queued between two ticks trip the `debug_assert` of `drain_releases`
(reproduced on the real code in a debug build: chords v2 configured, `d:a` x 17, one tick); the
repaired function keeps them all queued -/
theorem press_list_debug_assert_pinned_counterexample :
    Pinned.drainReleasesDbg (List.replicate 17 ⟨.press (0, 30), 0⟩) 0 [] [] = .error crashPR ∧
    drainReleases (List.replicate 17 ⟨.press (0, 30), 0⟩) 0 [] [] =
      .ok (List.replicate 17 ⟨.press (0, 30), 0⟩, [], []) := by
  constructor <;> rfl

/-- **chord_v2_no_capacity_crash** (full; the capacity theorem without hypothesis).  No state, no queue
contents and no number of active chords makes the v2 machine stop with "active chords has room"; and
the chords-v2 prologue of `Layout::tick` fails only where the v2 machine does (the drain-queue
assertion) or where the hand-over to the layout queue does - which, since the hand-over repair, is
`Layout::event`'s own overflow path (waiting keys forced to hold, oldest event processed at once),
no event is dropped. -/
theorem chord_v2_no_capacity_crash :
    (∀ (s : ChV2) (layer : Nat), tickChv2 s layer ≠ .error (.indexOOB "active chords has room")) ∧
    (∀ (s : LayoutV2) (c : Crash), tickV2Pre s = .error c →
      c = crashDQ ∨ ∃ ch ch' dq, s.chv2 = some ch ∧ tickChv2 ch s.lay.currentLayer = .ok (ch', dq) ∧
        handOver s.lay dq = .error c) := by
  have h1 : ∀ (s : ChV2) (layer : Nat), tickChv2 s layer ≠ .error (.indexOOB "active chords has room") := by
    intro s layer h
    have e := chord_v2_only_drain_queue_assert s layer _ h
    simp [crashDQ] at e
  refine ⟨h1, ?_⟩
  intro s c h
  unfold tickV2Pre at h
  split at h
  · cases h
  · rename_i ch hch
    split at h
    · rename_i c' he; cases h; exact Or.inl (chord_v2_only_drain_queue_assert _ _ _ he)
    · rename_i ch' dq hok
      simp only [] at h
      split at h
      · rename_i c' he; cases h; exact Or.inr ⟨ch, ch', dq, hch, hok, he⟩
      · split at h <;> cases h

example : crashDQ ≠ .indexOOB "active chords has room" := by decide

/-- **chord_v2_active_bounded** (full).  The ten slots are never exceeded: a tick keeps
`active_chords.len() ≤ 10`. -/
theorem chord_v2_active_bounded (s s' : ChV2) (layer : Nat) (dq : List Queued)
    (h : tickChv2 s layer = .ok (s', dq)) (hb : s.active.length ≤ ACTIVE_CHORDS_CAP) :
    s'.active.length ≤ ACTIVE_CHORDS_CAP := by
  unfold tickChv2 at h
  simp only [] at h
  split at h
  · cases h
  · rename_i s1 dq1 hd
    split at h
    · cases h
    · rename_i achs dq2 hc
      cases h
      obtain ⟨hr, _⟩ := clearReleased_ok _ _ _ _ hc
      have hlen : s1.active.length ≤ ACTIVE_CHORDS_CAP := by
        rcases drainInputs_active _ _ _ _ _ hd with ⟨_, e⟩ | ⟨_, q, _, e | ⟨ach, e, hl⟩⟩
        · rw [e]; simpa using hb
        · rw [e, applyReleases_length]; simpa using hb
        · rw [e, List.length_append, List.length_cons, List.length_nil]; omega
      show achs.length ≤ ACTIVE_CHORDS_CAP
      rw [hr]
      exact Nat.le_trans (List.length_filter_le _ _) hlen

/-- **chord_v2_activates_once_and_exactly** (full, any table — overlapping candidates, backtracking,
more than 16 candidates).  One run of `process_presses` changes `active_chords` in at most one way:
it appends ONE chord.  That chord is an entry of the first pressed key's table entry, enabled on the
current layer, whose participant set equals (both inclusions) a prefix `acc` of the pressed keys in
press order; exactly the presses of the keys in `acc` leave the v2 queue (so no participant's own
action is performed), and nothing else of the queue changes.  If nothing is activated the queue is
untouched. -/
theorem chord_v2_activates_once_and_exactly (s s' : ChV2) (layer : Nat) (h : processPresses s layer = .ok s') :
    (s'.active = s.active ∧ s'.queue = s.queue) ∨
    ∃ presses relFound starting possible cch coord acc,
      collectPresses s.queue [] = .ok (presses, relFound) ∧ presses.head? = some starting ∧
      s.cfg.get starting = some possible ∧
      cch ∈ possible ∧ enabledOn layer cch = true ∧ exactMatch acc cch = true ∧ acc <+: presses ∧
      s.active.length < ACTIVE_CHORDS_CAP ∧
      s'.active = s.active ++ [getActiveChord cch (sinceOf s) coord relFound] ∧
      s'.queue = ppRetain s.queue acc :=
  processPresses_spec s s' layer h

/-- the active chord as `tick_chv2` ages it -/
def agedChord (a : ActiveChord) : ActiveChord := { a with delay := min (a.delay + 1) U16_MAX }

/-- **chord_v2_released_with_participants** (full; the "no stuck output" statement for v2).  Take any
state and any active chord `a` whose bookkeeping is sane (the keys still to be released are
participants).  If the queue holds a release of every key still to be released — and of at least one
participant — then ONE tick that looks at the queue, in the cool-down or not, whatever else is
queued and in whatever order, ends the chord:
* if its action had already been handed to the layout, the release of its virtual coordinate is in
  the events forwarded to the layout queue on this very tick and the chord is gone;
* if not, it is still there, marked UnreadReleased with nothing left to release: its action is handed
  out by `get_action_chv2` (`chord_v2_pending_is_delivered`) and its coordinate is released by the
  tick after that. -/
theorem chord_v2_released_with_participants (s s' : ChV2) (layer : Nat) (dq : List Queued)
    (h : tickChv2 s layer = .ok (s', dq)) (hproc : processesQueue s layer)
    (a : ActiveChord) (ha : a ∈ s.active)
    (hsub : ∀ k ∈ a.remaining, a.keys.contains k = true)
    (hall : ∀ k ∈ a.remaining, ∃ qd ∈ s.queue, qd.ev = .release (0, k))
    (hsome : ∃ k, a.keys.contains k = true ∧ ∃ qd ∈ s.queue, qd.ev = .release (0, k)) :
    (unreadClass a.status = false →
      (⟨.release (0, a.coordinate), 0⟩ : Queued) ∈ dq ∧ ∀ a' ∈ s'.active, a'.status ≠ .released) ∧
    (unreadClass a.status = true →
      ∃ a' ∈ s'.active, a'.coordinate = a.coordinate ∧ a'.action = a.action ∧
        a'.status = .unreadReleased ∧ a'.remaining = []) := by
  unfold tickChv2 at h
  simp only [] at h
  split at h
  · cases h
  · rename_i s1 dq1 hd
    split at h
    · cases h
    · rename_i achs dq2 hc
      cases h
      obtain ⟨hr, hdq⟩ := clearReleased_ok _ _ _ _ hc
      -- the aged state
      have hproc0 : processesQueue { s with queue := s.queue.map fun (q : Queued) => { q with since := min (q.since + 1) U16_MAX },
                                             active := s.active.map fun a => { a with delay := min (a.delay + 1) U16_MAX } } layer := by
        rcases hproc with hp | hp
        · exact Or.inl hp
        · right; intro hh; apply hp
          exact ⟨hh.1, hh.2.1, by simpa using hh.2.2⟩
      have hqmem : ∀ k, (∃ qd ∈ s.queue, qd.ev = .release (0, k)) →
          ∃ qd ∈ s.queue.map (fun (q : Queued) => { q with since := min (q.since + 1) U16_MAX }), qd.ev = .release (0, k) := by
        intro k ⟨qd, hq, he⟩
        exact ⟨_, List.mem_map_of_mem hq, he⟩
      rcases drainInputs_active _ _ _ _ _ hd with ⟨hn, _⟩ | ⟨_, q, hq, hact⟩
      · exact absurd hproc0 hn
      · -- the chord after the releases
        have hfld := relAll_fields (releasedKeys q) (agedChord a)
        have hcls := relAll_class (releasedKeys q) (agedChord a)
        have hpend := relAll_all_released (releasedKeys q) (agedChord a) hsub
          (fun k hk => hq k (hqmem k (hall k hk)))
          (by obtain ⟨k, hk1, hk2⟩ := hsome; exact ⟨k, hq k (hqmem k hk2), hk1⟩)
        have hmem1 : relAll (releasedKeys q) (agedChord a) ∈ s1.active := by
          have : relAll (releasedKeys q) (agedChord a) ∈
              applyReleases q (s.active.map fun a => { a with delay := min (a.delay + 1) U16_MAX }) := by
            rw [applyReleases_eq]
            exact List.mem_map_of_mem (List.mem_map_of_mem ha)
          rcases hact with e | ⟨ach, e, _⟩
          · rw [e]; exact this
          · rw [e]; exact List.mem_append_left _ this
        refine ⟨?_, ?_⟩
        · intro hcl
          have hst : (relAll (releasedKeys q) (agedChord a)).status = .released := by
            have hc2 : unreadClass (relAll (releasedKeys q) (agedChord a)).status = false := by rw [hcls]; exact hcl
            rcases hpend.1 with e | e
            · rw [e] at hc2; simp [unreadClass] at hc2
            · exact e
          refine ⟨?_, ?_⟩
          · rw [hdq]
            apply List.mem_append_right
            rw [List.mem_map]
            exact ⟨_, List.mem_filter.mpr ⟨hmem1, by simp [hst]⟩, by rw [hfld.1]; rfl⟩
          · intro a' ha'
            have ha2 : a' ∈ achs := ha'
            rw [hr] at ha2
            have := (List.mem_filter.mp ha2).2
            intro e; simp [e] at this
        · intro hcl
          have hst : (relAll (releasedKeys q) (agedChord a)).status = .unreadReleased := by
            have hc2 : unreadClass (relAll (releasedKeys q) (agedChord a)).status = true := by rw [hcls]; exact hcl
            rcases hpend.1 with e | e
            · exact e
            · rw [e] at hc2; simp [unreadClass] at hc2
          refine ⟨relAll (releasedKeys q) (agedChord a), ?_, hfld.1, hfld.2.2.1, hst, hpend.2⟩
          show _ ∈ achs
          rw [hr]
          exact List.mem_filter.mpr ⟨hmem1, by simp [hst]⟩

/-- **chord_v2_pending_is_delivered** (full).  `get_action_chv2` hands out exactly the FIRST chord whose
action the layout has not seen yet, with that chord's virtual coordinate, age and action, and marks
it Releasable — or Released when its release is already pending; it touches nothing else.  With no
such chord it returns nothing.  So every activation reaches the layout exactly once, in activation
order, one per tick. -/
theorem chord_v2_pending_is_delivered : ∀ (achs : List ActiveChord),
    (achs.all (fun a => !unreadClass a.status) = true ∧ getActionChv2 achs = (achs, none)) ∨
    ∃ pre x post, achs = pre ++ x :: post ∧ pre.all (fun a => !unreadClass a.status) = true ∧
      unreadClass x.status = true ∧
      getActionChv2 achs =
        (pre ++ { x with status := if x.status = .unread then .releasable else .released } :: post,
         some ((0, x.coordinate), x.delay, x.action)) := by
  intro achs
  induction achs with
  | nil => exact Or.inl ⟨rfl, rfl⟩
  | cons a rest ih =>
    cases hs : a.status with
    | unread =>
      right
      exact ⟨[], a, rest, rfl, rfl, by simp [unreadClass, hs], by simp [getActionChv2, hs]⟩
    | unreadReleased =>
      right
      exact ⟨[], a, rest, rfl, rfl, by simp [unreadClass, hs], by simp [getActionChv2, hs]⟩
    | releasable =>
      rcases ih with ⟨h1, h2⟩ | ⟨pre, x, post, e, h1, h2, h3⟩
      · left
        exact ⟨by rw [List.all_cons, h1, hs]; rfl, by simp [getActionChv2, hs, h2]⟩
      · right
        refine ⟨a :: pre, x, post, by simp [e], by rw [List.all_cons, h1, hs]; rfl, h2, ?_⟩
        simp [getActionChv2, hs, h3]
    | released =>
      rcases ih with ⟨h1, h2⟩ | ⟨pre, x, post, e, h1, h2, h3⟩
      · left
        exact ⟨by rw [List.all_cons, h1, hs]; rfl, by simp [getActionChv2, hs, h2]⟩
      · right
        refine ⟨a :: pre, x, post, by simp [e], by rw [List.all_cons, h1, hs]; rfl, h2, ?_⟩
        simp [getActionChv2, hs, h3]

/-- **chord_v2_released_chord_leaves** (full).  A chord marked Released is removed by the next tick —
on every path through `tick_chv2`, also the "nothing changed" fast path and the cool-down — and the
release of its virtual coordinate is among the events forwarded to the layout queue. -/
theorem chord_v2_released_chord_leaves (s s' : ChV2) (layer : Nat) (dq : List Queued)
    (h : tickChv2 s layer = .ok (s', dq)) (a : ActiveChord) (ha : a ∈ s.active) (hst : a.status = .released) :
    (⟨.release (0, a.coordinate), 0⟩ : Queued) ∈ dq ∧ ∀ a' ∈ s'.active, a'.status ≠ .released := by
  unfold tickChv2 at h
  simp only [] at h
  split at h
  · cases h
  · rename_i s1 dq1 hd
    split at h
    · cases h
    · rename_i achs dq2 hc
      cases h
      obtain ⟨hr, hdq⟩ := clearReleased_ok _ _ _ _ hc
      have hage : agedChord a ∈ s.active.map fun a => { a with delay := min (a.delay + 1) U16_MAX } :=
        List.mem_map_of_mem ha
      -- some chord with the same coordinate and status Released is in s1.active
      have hex : ∃ b ∈ s1.active, b.coordinate = a.coordinate ∧ b.status = .released := by
        rcases drainInputs_active _ _ _ _ _ hd with ⟨_, e⟩ | ⟨_, q, _, hact⟩
        · exact ⟨agedChord a, by rw [e]; exact hage, rfl, hst⟩
        · have hb : relAll (releasedKeys q) (agedChord a) ∈
              applyReleases q (s.active.map fun a => { a with delay := min (a.delay + 1) U16_MAX }) := by
            rw [applyReleases_eq]; exact List.mem_map_of_mem hage
          have hrel : (relAll (releasedKeys q) (agedChord a)).status = .released := by
            -- Released is absorbing under releases
            have : ∀ (js : List Nat) (b : ActiveChord), b.status = .released → (relAll js b).status = .released := by
              intro js
              induction js with
              | nil => intro b hb; exact hb
              | cons j js ih =>
                intro b hb
                rw [relAll_cons]
                apply ih
                unfold releaseInActive
                split
                · exact hb
                · simp only []
                  split
                  · simp [hb]
                  · exact hb
            exact this _ _ hst
          refine ⟨_, ?_, (relAll_fields (releasedKeys q) (agedChord a)).1, hrel⟩
          rcases hact with e | ⟨ach, e, _⟩
          · rw [e]; exact hb
          · rw [e]; exact List.mem_append_left _ hb
      obtain ⟨b, hb1, hb2, hb3⟩ := hex
      refine ⟨?_, ?_⟩
      · rw [hdq]
        apply List.mem_append_right
        rw [List.mem_map]
        exact ⟨b, List.mem_filter.mpr ⟨hb1, by simp [hb3]⟩, by rw [hb2]⟩
      · intro a' ha'
        have ha2 : a' ∈ achs := ha'
        rw [hr] at ha2
        have := (List.mem_filter.mp ha2).2
        intro e; simp [e] at this

/-- **chord_v2_unmatched_keys_are_forwarded** (full: for queues of at most 46 events, and the input
queue holds 32; before the hand-over repair the hand-over queue had 16 slots and the 17th event of a
cool-down tick was dropped - a lost release left a key down for good).  Keys that do not
complete a chord are not swallowed.  (1) When the first pressed key is in no chord at all,
`process_presses` changes nothing but starts the cool-down.  (2) A tick in the cool-down forwards the
WHOLE v2 queue to the layout, first and in its original order (followed only by chords v2's own no-op
and coordinate-release events), and empties it.  (Whenever `process_presses` activates nothing it
leaves the queue untouched — `chord_v2_activates_once_and_exactly` — and every arm that gives up
starts the cool-down.) -/
theorem chord_v2_unmatched_keys_are_forwarded :
    (∀ (s : ChV2) (layer : Nat) (ps : List Nat) (rf : Option Nat) (p1 : Nat),
      collectPresses s.queue [] = .ok (ps, rf) → ps.head? = some p1 → s.cfg.get p1 = none →
      processPresses s layer = .ok { s with ticksToIgnore := s.cfg.minIdle }) ∧
    (∀ (s s' : ChV2) (layer : Nat) (dq : List Queued), s.ticksToIgnore > 0 → s.queue.length + 2 ≤ DRAIN_Q_LEN →
      tickChv2 s layer = .ok (s', dq) →
      s'.queue = [] ∧ ∃ extra, dq = s.queue.map (fun (q : Queued) => { q with since := min (q.since + 1) U16_MAX }) ++ extra) := by
  refine ⟨?_, ?_⟩
  · intro s layer ps rf p1 hcp hh hg
    unfold processPresses
    simp only [hcp, hh, hg]
  · intro s s' layer dq hti hlen h
    unfold tickChv2 at h
    simp only [drainInputs, hti, if_true] at h
    split at h
    · cases h
    · rename_i achs dq2 hc
      cases h
      obtain ⟨_, hdq⟩ := clearReleased_ok _ _ _ _ hc
      refine ⟨rfl, ?_⟩
      rw [hdq, drainExtend_fits _ _ (by simp; omega)]
      simp only [List.nil_append]
      generalize hQ : s.queue.map (fun (q : Queued) => { q with since := min (q.since + 1) U16_MAX }) = Q
      have hQl : Q.length + 2 ≤ DRAIN_Q_LEN := by rw [← hQ]; simpa using hlen
      split <;> (try split) <;>
        first
        | exact ⟨_, rfl⟩
        | (rw [drainPush_fits Q _ (by omega)]
           first
           | exact ⟨_, by rw [List.append_assoc]⟩
           | (rw [drainPush_fits _ _ (by simp; omega)]
              exact ⟨_, by rw [List.append_assoc, List.append_assoc]⟩))

/-! ## 2. The code before the fixes: pinned counterexamples (Model/ChordsV2Pinned.lean) -/

inductive In | p (y : Nat) | r (y : Nat) | t (n : Nat)

/-- `n` ticks with the given tick function (`LayoutV2.tick` = the code as fixed, `Pinned.tickV2` =
the code before the three fixes) -/
def ticksV2 (tk : LayoutV2 → Except Crash (LayoutV2 × CustomEv)) : Nat → LayoutV2 → Except Crash LayoutV2
  | 0, s => .ok s
  | n + 1, s => match tk s with
    | .error c => .error c
    | .ok (s, _) => ticksV2 tk n s

def stepsV2 (tk : LayoutV2 → Except Crash (LayoutV2 × CustomEv)) : List In → LayoutV2 → Except Crash LayoutV2
  | [], s => .ok s
  | .p y :: rest, s => match s.event (.press (0, y)) with
    | .error c => .error c
    | .ok s => stepsV2 tk rest s
  | .r y :: rest, s => match s.event (.release (0, y)) with
    | .error c => .error c
    | .ok s => stepsV2 tk rest s
  | .t n :: rest, s => match ticksV2 tk n s with
    | .error c => .error c
    | .ok s => stepsV2 tk rest s

def crashOf {α} : Except Crash α → Option Crash
  | .error c => some c
  | .ok _ => none

/-- what is observed of a run: held key codes, lengths of the two input queues, and per active chord
the keys still to be released -/
def obsV2 : Except Crash LayoutV2 → Option (List Nat × Nat × Nat × List (List Nat))
  | .error _ => none
  | .ok s => some (s.lay.keycodes, s.lay.queue.length, ((s.chv2.map (·.queue.length)).getD 0),
                   (s.chv2.map fun c => c.active.map (·.remaining)).getD [])

/-- keys a b c mapped to themselves; `(defchordsv2 (a b) 1 50 all-released ())` -/
def v2Chord : ChordV2 := { action := .keyCode 2, keys := [30, 48], pending := 50, disabledLayers := [], release := .onLastRelease }
def v2Start : LayoutV2 :=
  { lay := { cfg := { layers := [[((0, 30), .keyCode 30), ((0, 48), .keyCode 48), ((0, 46), .keyCode 46)]],
                      srcKeys := [(30, .keyCode 30), (48, .keyCode 48), (46, .keyCode 46)] },
             oneshot := { pauseInputProcessingDelay := 5 } },
    chv2 := some { cfg := { mapping := [(30, [v2Chord]), (48, [v2Chord])], minIdle := 5 } } }

def elevenTimes : List In := (List.replicate 11 [In.p 30, In.p 48, In.t 3]).flatten
def stuckHistory : List In := [.p 30, .p 48, .t 5, .r 48, .t 5, .p 46, .t 1, .r 30, .t 1, .r 46, .t 60]
def edgeHistory : List In := [.p 30, .t 49, .p 48, .t 3]

/-- **chord_v2_capacity_crash_counterexample** (before <fix-capacity>).  `(defchordsv2 (a b) 1 50
all-released ())`, a and b pressed eleven times without a release: the eleventh activation finds the
ten slots of `active_chords` taken and `assert!(overflow.is_ok(), "active chords has room")` panics.
The same history on the fixed code does not crash; the keys of the eleventh press come out as plain
keys. -/
theorem chord_v2_capacity_crash_counterexample :
    crashOf (stepsV2 Pinned.tickV2 elevenTimes v2Start) = some (.indexOOB "active chords has room") ∧
    crashOf (stepsV2 LayoutV2.tick elevenTimes v2Start) = none := by
  decide +kernel

/-- **chord_v2_stuck_counterexample** (before <fix-cooldown>; C09 "released no later than the release of
all participants" was false for v2).  The chord is activated, b is released, c (in no chord) is
tapped — which starts the cool-down — and a is released one tick later, inside the cool-down: every
physical key is up, both queues are empty, yet the chord's key (code 2) is still held and the chord
is still active.  On the fixed code the same history ends with nothing held and no active chord. -/
theorem chord_v2_stuck_counterexample :
    obsV2 (stepsV2 Pinned.tickV2 stuckHistory v2Start) = some ([2], 0, 0, [[30]]) ∧
    obsV2 (stepsV2 LayoutV2.tick stuckHistory v2Start) = some ([], 0, 0, []) := by
  decide +kernel

/-- **chord_v2_double_activation_counterexample** (before <fix-double>; C09 "performed once" was false
for v2).  The second key arrives 49 ticks after the first (timeout 50): the chord is pushed by the
loop of `process_presses` and once more by the block after the loop — two active chords, the action
on two coordinates (the one queued layout event is the no-op press chords v2 forwards to trigger
tap-hold decisions).  On the fixed code: one active chord, the key once. -/
theorem chord_v2_double_activation_counterexample :
    obsV2 (stepsV2 Pinned.tickV2 edgeHistory v2Start) = some ([2, 2], 1, 0, [[30, 48], [30, 48]]) ∧
    obsV2 (stepsV2 LayoutV2.tick edgeHistory v2Start) = some ([2], 1, 0, [[30, 48]]) := by
  decide +kernel

/-! ## 3. The exact-set statement for v2 -/

/-- **chord_v2_exact_set_partial** (general table: overlapping candidates, sub- and super-chords).  Full
statement, not proved: `chord_v2_exact_set` — over a whole history, all keys of a defined enabled
chord pressed in any order within its timeout activate it exactly once and consume the participants.
What is proved is the decision `process_presses` takes on ONE scan, for every table; what is missing
is the composition over the ticks during which the keys arrive (each earlier scan takes the "wait"
branch below or the fast path) and the arms listed at the end.  The queued presses `ps` are distinct (`collectPresses … = (ps, rf)`:
the presses up to the first queued release of one of them, `rf` = there is such a release; releases
of other keys may be mixed in), and `ps` is —
in ANY order — exactly the key set of a chord `C` of the first key's table entry that is enabled on
the layer; one of the ten slots is free.  (The 16-slot `chord_candidates` list may overflow: the
loop then rebuilds it from the table on every key, which the proof follows.)  With `F` = the enabled chords containing all
pressed keys (`C` and its enabled strict supersets), `process_presses`
* ACTIVATES, exactly once, a chord whose key set is exactly `ps` — `C` itself when `F = [C]` — and
  removes exactly the presses of `ps` from the queue, when `C` is unambiguous (`F = [C]`), or the
  shortest timeout among `F` has run out (`minPending F ≤ since`), or a participant has already been
  released (`rf`);
* otherwise (a strict superset is still possible and in time) changes nothing but the countdown
  `ticks_until_next_state_change = minPending F − since`: no activation, queue untouched;
and in neither case starts the cool-down.  Whether this is the first, an inner or the last
permutation of the keys makes no difference: `ps` enters only through its set of keys.

Not covered (they stay with `chord_v2_activates_once_and_exactly`, which bounds what CAN happen, and
with the differential oracle): the same key pressed twice in the queue (impossible for a physically consistent queue: collecting
stops at the first release of a collected key), and pressed sets that are not a chord
but have a chord as a proper prefix (the backtracking arm). -/
theorem chord_v2_exact_set_partial (s : ChV2) (layer : Nat) (ps : List Nat) (p1 : Nat) (possible : List ChordV2) (C : ChordV2)
    (rf : Option Nat) (hcp : collectPresses s.queue [] = .ok (ps, rf)) (hhead : ps.head? = some p1)
    (hget : s.cfg.get p1 = some possible) (hnd : ps.Nodup)
    (hC : C ∈ possible) (hen : enabledOn layer C = true) (hex : exactMatch ps C = true)
    (hroom : s.active.length < ACTIVE_CHORDS_CAP) :
    ∃ s', processPresses s layer = .ok s' ∧ s'.ticksToIgnore = s.ticksToIgnore ∧
      (((Fk possible layer ps = [C] ∨ minPending (Fk possible layer ps) ≤ sinceOf s ∨ rf.isSome = true) ∧
        ∃ cch coord, cch ∈ possible ∧ enabledOn layer cch = true ∧ exactMatch ps cch = true ∧
          (Fk possible layer ps = [C] → cch = C) ∧
          s'.active = s.active ++ [getActiveChord cch (sinceOf s) coord rf] ∧
          s'.queue = ppRetain s.queue ps) ∨
       (2 ≤ (Fk possible layer ps).length ∧ sinceOf s < minPending (Fk possible layer ps) ∧ rf.isSome = false ∧
        s'.active = s.active ∧ s'.queue = s.queue ∧
        s'.ticksUntilChange = minPending (Fk possible layer ps) - sinceOf s)) := by
  have hne : ps ≠ [] := by intro h; rw [h] at hhead; cases hhead
  have hm0 : Mid possible layer (sinceOf s) s.active s.ticksToIgnore []
      { ticksUntil := s.ticksUntilChange, nextCoord := s.nextCoord, active := s.active, ticksToIgnore := s.ticksToIgnore } :=
    ⟨rfl, rfl, rfl, rfl, Or.inl ⟨rfl, rfl, rfl⟩⟩
  obtain ⟨st, hl, hres⟩ := ppLoop_chord possible layer (sinceOf s) rf s.cfg.minIdle s.active s.ticksToIgnore ps C
    hnd hC hen hex hroom ps [] _ rfl hne hm0
  have hCF : C ∈ Fk possible layer ps := by
    rw [mem_Fk]
    simp only [exactMatch, Bool.and_eq_true] at hex
    exact ⟨hC, hen, hex.1⟩
  unfold processPresses
  simp only [hcp, hhead, hget]
  have hl' : ppLoop possible layer ((s.queue.head?.map (·.since)).getD 0) rf s.cfg.minIdle ps
      { ticksUntil := s.ticksUntilChange, nextCoord := s.nextCoord, active := s.active, ticksToIgnore := s.ticksToIgnore } = .ok st := hl
  simp only [hl']
  rcases hres with ⟨h2, hm⟩ | ⟨hF, hd, hacc, htti, coord, hact⟩
  · -- nothing activated by the loop
    have hfin_cond : (st.active.length == s.active.length) = true := by rw [hm.active]; simp
    rcases hm.cands with ⟨_, _, hps⟩ | ⟨_, hcands, htu⟩
    · exact absurd hps hne
    · by_cases hto : minPending (Fk possible layer ps) ≤ sinceOf s ∨ rf.isSome = true
      · -- the window has closed: the exact match is activated
        have htu0 : (st.ticksUntil == 0 || rf.isSome) = true := by
          rcases hto with h | h
          · have : st.ticksUntil = 0 := by rw [htu]; omega
            simp [this]
          · simp [h]
        have hpool : C ∈ (if st.cands.length ≥ SMOL_Q_LEN then possible else st.cands).filter (enabledOn layer) := by
          rw [List.mem_filter]
          refine ⟨?_, hen⟩
          split
          · exact hC
          · rename_i hlen
            rw [hcands] at hlen ⊢
            have hle : (Fk possible layer ps).length ≤ SMOL_Q_LEN := by
              rw [List.length_take] at hlen; omega
            rw [List.take_of_length_le hle]; exact hCF
        have hsome : ((if st.cands.length ≥ SMOL_Q_LEN then possible else st.cands).filter (enabledOn layer)).find? (exactMatch ps)
            ≠ none := by
          intro hn
          rw [List.find?_eq_none] at hn
          exact hn C hpool hex
        cases hfind : ((if st.cands.length ≥ SMOL_Q_LEN then possible else st.cands).filter (enabledOn layer)).find? (exactMatch ps) with
        | none => exact absurd hfind hsome
        | some cch =>
          have hmem := List.mem_of_find?_eq_some hfind
          have hexc := List.find?_some hfind
          rw [List.mem_filter] at hmem
          have hposs : cch ∈ possible := by
            by_cases hlen : st.cands.length ≥ SMOL_Q_LEN
            · simpa [hlen] using hmem.1
            · have : cch ∈ st.cands := by simpa [hlen] using hmem.1
              rw [hcands] at this
              exact (mem_Fk.mp (List.mem_of_mem_take this)).1
          have hp : pushActive st.active (getActiveChord cch (sinceOf s) (freeCoord st.active st.nextCoord) rf) =
              .ok (st.active ++ [getActiveChord cch (sinceOf s) (freeCoord st.active st.nextCoord) rf]) := by
            unfold pushActive
            rw [if_pos (by rw [hm.active]; exact hroom)]
          have hfinal : ppFinal possible layer (sinceOf s) rf s.cfg.minIdle s.active.length st =
              { st with active := st.active ++ [getActiveChord cch (sinceOf s) (freeCoord st.active st.nextCoord) rf],
                        nextCoord := nextCoordAfter (freeCoord st.active st.nextCoord) } := by
            unfold ppFinal
            simp only [hfin_cond, htu0, Bool.and_self, if_true, hm.acc, hfind, hp]
          refine ⟨_, rfl, ?_, Or.inl ⟨Or.inr hto, cch, freeCoord st.active st.nextCoord, hposs, hmem.2, hexc, ?_, ?_, ?_⟩⟩
          · show (ppFinal possible layer (sinceOf s) rf s.cfg.minIdle s.active.length st).ticksToIgnore = _
            rw [hfinal]; exact hm.tti
          · intro hF; rw [hF] at h2; simp at h2
          · show (ppFinal possible layer (sinceOf s) rf s.cfg.minIdle s.active.length st).active = _
            rw [hfinal, hm.active]
          · show (if (ppFinal possible layer (sinceOf s) rf s.cfg.minIdle s.active.length st).active.length > s.active.length
                then ppRetain s.queue (ppFinal possible layer (sinceOf s) rf s.cfg.minIdle s.active.length st).acc else s.queue) = _
            rw [hfinal]
            simp only [hm.active, hm.acc, List.length_append, List.length_cons, List.length_nil, gt_iff_lt, Nat.lt_add_one, if_true]
      · -- still in time and ambiguous: wait
        have hrf : rf.isSome = false := by cases rf <;> simp_all
        have htu1 : (st.ticksUntil == 0 || rf.isSome) = false := by
          have : ¬ minPending (Fk possible layer ps) ≤ sinceOf s := fun h => hto (Or.inl h)
          rw [hrf, htu]; simp; omega
        have hfinal : ppFinal possible layer (sinceOf s) rf s.cfg.minIdle s.active.length st = st := by
          unfold ppFinal
          simp only [hfin_cond, htu1, Bool.and_false, Bool.false_eq_true, if_false]
        refine ⟨_, rfl, ?_, Or.inr ⟨h2, by have : ¬ minPending (Fk possible layer ps) ≤ sinceOf s := fun h => hto (Or.inl h); omega, hrf, ?_, ?_, ?_⟩⟩
        · show (ppFinal possible layer (sinceOf s) rf s.cfg.minIdle s.active.length st).ticksToIgnore = _
          rw [hfinal]; exact hm.tti
        · show (ppFinal possible layer (sinceOf s) rf s.cfg.minIdle s.active.length st).active = _
          rw [hfinal]; exact hm.active
        · show (if (ppFinal possible layer (sinceOf s) rf s.cfg.minIdle s.active.length st).active.length > s.active.length
              then ppRetain s.queue (ppFinal possible layer (sinceOf s) rf s.cfg.minIdle s.active.length st).acc else s.queue) = _
          rw [hfinal, hm.active]; simp
        · show (if (ppFinal possible layer (sinceOf s) rf s.cfg.minIdle s.active.length st).active.length > s.active.length
              then 0 else (ppFinal possible layer (sinceOf s) rf s.cfg.minIdle s.active.length st).ticksUntil) = _
          rw [hfinal, hm.active]; simp only [gt_iff_lt, Nat.lt_irrefl, if_false]; exact htu
  · -- the loop activated C on the last key
    have hfinal : ppFinal possible layer (sinceOf s) rf s.cfg.minIdle s.active.length st = st := by
      unfold ppFinal
      have : (st.active.length == s.active.length) = false := by rw [hact]; simp
      simp only [this, Bool.false_and, Bool.false_eq_true, if_false]
    refine ⟨_, rfl, ?_, Or.inl ⟨Or.inl hF, C, coord, hC, hen, hex, fun _ => rfl, ?_, ?_⟩⟩
    · show (ppFinal possible layer (sinceOf s) rf s.cfg.minIdle s.active.length st).ticksToIgnore = _
      rw [hfinal]; exact htti
    · show (ppFinal possible layer (sinceOf s) rf s.cfg.minIdle s.active.length st).active = _
      rw [hfinal]; exact hact
    · show (if (ppFinal possible layer (sinceOf s) rf s.cfg.minIdle s.active.length st).active.length > s.active.length
          then ppRetain s.queue (ppFinal possible layer (sinceOf s) rf s.cfg.minIdle s.active.length st).acc else s.queue) = _
      rw [hfinal, hact, hacc]; simp

/-! ## 4. After the repairs PENDING-1 .. PENDING-4 (remarks t3) -/

/-- PENDING-2: during the cool-down, events of the virtual-key rows leave the active chords alone, whatever
their index (before the repair a release at `(1, n)` released the participant with key code `n`) -/
theorem chord_v2_cooldown_ignores_virtual_rows (s : ChV2) (dq : List Queued) (layer : Nat)
    (hcool : s.ticksToIgnore > 0) (hq : ∀ qd ∈ s.queue, qd.ev.coord.1 ≠ 0) :
    drainInputs s dq layer = .ok ({ s with queue := [], active := s.active, ticksUntilChange := 0 }, drainExtend dq s.queue) := by
  have hnil : realInputs s.queue = [] := by
    unfold realInputs
    rw [List.filter_eq_nil_iff]
    intro qd hm
    simpa using hq qd hm
  unfold drainInputs
  simp only [hcool, if_true, hnil, applyReleases, List.foldl_nil]

example : (∀ qd ∈ [(⟨.release (1, 2), 0⟩ : Queued)], qd.ev.coord.1 ≠ 0) := by
  intro qd h; simp only [List.mem_singleton] at h; subst h; decide

/-- PENDING-3: a chord is created already released only if it is a first-release chord AND the released
key is one of its participants -/
theorem chord_v2_created_released_iff (cch : ChordV2) (since coord : Nat) (released : Option Nat) :
    (getActiveChord cch since coord released).status = .unreadReleased ↔
      (cch.release = .onFirstRelease ∧ ∃ j, released = some j ∧ cch.keys.contains j = true) := by
  unfold getActiveChord relHits
  cases released with
  | none => simp
  | some j =>
    by_cases hk : cch.keys.contains j = true <;> by_cases hr : cch.release = .onFirstRelease <;> simp [hk, hr]

example : (getActiveChord { v2Chord with release := .onFirstRelease } 1 851 (some 46)).status = .unread ∧
    (getActiveChord { v2Chord with release := .onFirstRelease } 1 851 (some 30)).status = .unreadReleased := ⟨rfl, rfl⟩

example : collectPresses [⟨.press (0, 48), 3⟩, ⟨.press (0, 30), 1⟩] [] = .ok ([48, 30], none) ∧
    exactMatch [48, 30] v2Chord = true ∧ Fk [v2Chord] 0 [48, 30] = [v2Chord] := ⟨rfl, rfl, rfl⟩

end KVerif.C09
