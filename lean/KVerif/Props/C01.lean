/-
C01 — no stuck output: once all keys are up, kanata releases everything and goes idle.

Full statement (not proved as one theorem): for every accepted non-latching configuration and every
balanced history, within a bounded time all output is released, nothing further is emitted and
kanata reports idle.  Proved here: the statement for the layered fragment of C04 (through the
refinement `layered_refines`), the OS-level release step for every configuration, and the converse
of `idle_covers_time_driven`.  The other action kinds are decided by the C01 oracle on the real code.
-/
import KVerif.Props.C04
import KVerif.Props.C07
namespace KVerif.C01
open KVerif.L KVerif.K KVerif.Spec.Layered

/-! ### On the layered machine: contributions belong to keys that are physically down -/

theorem add_coord (cs : List Contrib) (c : Contrib) (co : Coord) (h : ∀ x ∈ cs, contribCoord x = co)
    (hc : contribCoord c = co) : ∀ x ∈ add cs c, contribCoord x = co := by
  intro x hx
  unfold add at hx
  split at hx
  · rcases List.mem_append.mp hx with h1 | h1
    · exact h x h1
    · simp at h1; subst h1; exact hc
  · exact h x hx

/-- what `perform` leaves: old contributions (possibly fewer) and new ones that carry the coordinate
of the press -/
def Grows (co : Coord) (old new : List Contrib) : Prop :=
  ∀ x ∈ new, x ∈ old ∨ contribCoord x = co

theorem Grows.refl (co : Coord) (l : List Contrib) : Grows co l l := fun _ h => Or.inl h
theorem Grows.trans {co : Coord} {a b c : List Contrib} (h1 : Grows co a b) (h2 : Grows co b c) : Grows co a c := by
  intro x hx
  rcases h2 x hx with h | h
  · exact h1 x h
  · exact Or.inr h
theorem Grows.filter (co : Coord) (l : List Contrib) (p : Contrib → Bool) : Grows co l (l.filter p) :=
  fun _ h => Or.inl (List.mem_filter.mp h).1
theorem Grows.add (co : Coord) (l : List Contrib) (c : Contrib) (hc : contribCoord c = co) : Grows co l (add l c) := by
  intro x hx
  unfold Spec.Layered.add at hx
  split at hx
  · rcases List.mem_append.mp hx with h1 | h1
    · exact Or.inl h1
    · simp at h1; subst h1; exact Or.inr hc
  · exact Or.inl hx

theorem grows_foldl (co : Coord) (kcs : List KeyCode) : ∀ (l : List Contrib),
    Grows co l (kcs.foldl (fun cs kc => Spec.Layered.add cs (.key kc co true)) l) := by
  induction kcs with
  | nil => intro l; exact Grows.refl co l
  | cons k rest ih => intro l; exact (Grows.add co l _ rfl).trans (ih _)

theorem perform_grows (km : Keymap) (co : Coord) : ∀ (fuel : Nat),
    (∀ s a ls, Grows co s.contribs (perform km co fuel s a ls).contribs) ∧
    (∀ s a ls, Grows co s.contribs (performFound km co fuel s a ls).contribs) ∧
    (∀ s acs ls, Grows co s.contribs (performAll km co fuel s acs ls).contribs) := by
  intro fuel
  induction fuel with
  | zero => exact ⟨fun s _ _ => Grows.refl co _, fun s _ _ => Grows.refl co _, fun s _ _ => Grows.refl co _⟩
  | succ n ih =>
    obtain ⟨ih1, ih2, ih3⟩ := ih
    refine ⟨?_, ?_, ?_⟩
    · intro s a ls
      simp only [perform]
      exact (Grows.filter co s.contribs _).trans (ih2 _ _ _)
    · intro s a ls
      cases a <;> simp only [performFound] <;> try exact Grows.refl co _
      · exact Grows.add co _ _ rfl
      · exact grows_foldl co _ _
      · exact ih3 s _ ls
      · exact Grows.add co _ _ rfl
      · split <;> exact Grows.refl co _
      · rename_i rs
        cases rs <;> exact Grows.filter co _ _
      · exact ih1 s _ []
    · intro s acs ls
      induction acs generalizing s with
      | nil => exact Grows.refl co _
      | cons a rest ihr =>
        simp only [performAll]
        exact (ih1 s a ls).trans (ih3 _ rest ls)

/-- coordinates physically down after a list of events has taken effect -/
def downAfter : List Ev → List Coord → List Coord
  | [], d => d
  | .press c :: rest, d => downAfter rest (c :: d)
  | .release c :: rest, d => downAfter rest (d.filter (· != c))

/-- **contributions_belong_to_held_keys** (full): on the layered machine every contribution (key or
layer) carries the coordinate of a key that is physically down — whatever the order and timing of
presses and releases and whichever layers were active. -/
theorem contributions_belong_to_held_keys (km : Keymap) (s : State) (down : List Coord)
    (h : ∀ x ∈ s.contribs, contribCoord x ∈ down) :
    match s.pending with
    | [] => True
    | e :: _ => ∀ x ∈ (step km s).contribs, contribCoord x ∈ downAfter [e] down := by
  cases hp : s.pending with
  | nil => trivial
  | cons e rest =>
    cases e with
    | press c =>
      simp only [step, hp, downAfter]
      intro x hx
      have := (perform_grows km c DEPTH).1 { s with pending := rest } .trans (searchOrder km { s with pending := rest }) x hx
      rcases this with h1 | h1
      · exact List.mem_cons_of_mem _ (h x h1)
      · rw [h1]; exact List.mem_cons_self
    | release c =>
      simp only [step, hp, downAfter]
      intro x hx
      have hm := List.mem_filter.mp hx
      refine List.mem_filter.mpr ⟨h x hm.1, ?_⟩
      simpa using hm.2

/-- run the machine until nothing is pending -/
def drain (km : Keymap) : Nat → State → State
  | 0, s => s
  | n + 1, s => drain km n (step km s)

theorem drain_invariant (km : Keymap) : ∀ (n : Nat) (s : State) (down : List Coord),
    (∀ x ∈ s.contribs, contribCoord x ∈ down) → n = s.pending.length →
    (∀ x ∈ (drain km n s).contribs, contribCoord x ∈ downAfter s.pending down) ∧ (drain km n s).pending = [] := by
  intro n
  induction n with
  | zero =>
    intro s down h hn
    have : s.pending = [] := List.length_eq_zero_iff.mp hn.symm
    simp only [drain, this, downAfter]
    exact ⟨h, trivial⟩
  | succ n ih =>
    intro s down h hn
    cases hp : s.pending with
    | nil => simp [hp] at hn
    | cons e rest =>
      have hstep := contributions_belong_to_held_keys km s down h
      simp only [hp] at hstep
      have hpend : (step km s).pending = rest := by
        have := (C04.fifo_one_per_tick km s e rest hp e).2
        exact this
      have := ih (step km s) (downAfter [e] down) hstep (by rw [hpend]; simp [hp] at hn; omega)
      simp only [drain]
      rw [hpend] at this
      refine ⟨?_, this.2⟩
      intro x hx
      have h1 := this.1 x hx
      cases e <;> simpa [downAfter] using h1

/-- **quiesce_layered** (full, on the fragment): if the pending events leave no key physically down
(every press has its release, in any order and interleaving), then once they have all taken effect
— one per tick — no contribution is left: no key is held for the OS and no layer is held. -/
theorem quiesce_layered (km : Keymap) (s : State) (h0 : s.contribs = [])
    (hbal : downAfter s.pending [] = []) :
    (drain km s.pending.length s).contribs = [] ∧ keys (drain km s.pending.length s) = [] ∧
      (drain km s.pending.length s).pending = [] := by
  have := drain_invariant km s.pending.length s [] (by simp [h0]) rfl
  rw [hbal] at this
  have hc : (drain km s.pending.length s).contribs = [] := by
    cases hcs : (drain km s.pending.length s).contribs with
    | nil => rfl
    | cons x xs => have := this.1 x (by simp [hcs]); simp at this
  exact ⟨hc, by simp [keys, hc], this.2⟩

/-! ### ... and hence on the layout model (through `layered_refines`) -/

theorem runS_events (km : Keymap) (evs : List Ev) : ∀ (s : State) (rest : List C04.In),
    C04.runS km s (evs.map C04.In.ev ++ rest) = C04.runS km { s with pending := s.pending ++ evs } rest := by
  induction evs with
  | nil => intro s rest; simp
  | cons e es ih =>
    intro s rest
    simp only [List.map_cons, List.cons_append, C04.runS, input]
    rw [ih]
    simp [List.append_assoc]

theorem runS_ticks_last (km : Keymap) : ∀ (n : Nat) (s : State),
    (C04.runS km s (List.replicate (n + 1) C04.In.tick)).getLast? = some (keys (drain km (n + 1) s)) := by
  intro n
  induction n with
  | zero => intro s; simp [C04.runS, drain]
  | succ n ih =>
    intro s
    have := ih (step km s)
    simp only [List.replicate_succ, C04.runS, drain] at this ⊢
    rw [List.getLast?_cons_cons] at *
    · exact this
    all_goals simp [C04.runS]

/-- **quiesce_frag04** (full on the fragment): on a configuration of the layered fragment, from a
state with nothing held: after any non-empty history that leaves no key physically down (within the
bounds of C04) followed by one tick per event, the layout's key-code list is empty — every key it
had pressed for the OS is gone, whatever the order, the timing and the layers that were active. -/
theorem quiesce_frag04 (l : Layout) (hc : C04.CfgFrag l.cfg) (hi : C04.Inert l)
    (hq : l.queue = []) (hs : l.states = []) (evs : List Ev) (hne : evs ≠ [])
    (hbal : downAfter evs [] = [])
    (hsafe : C04.Safe (C04.km l) (C04.abs l) (evs.map C04.In.ev ++ List.replicate evs.length C04.In.tick))
    (t : List (List KeyCode))
    (hrun : C04.runM l (evs.map C04.In.ev ++ List.replicate evs.length C04.In.tick) = .ok t) :
    t.getLast? = some [] := by
  have href := C04.layered_refines _ l hc hi hsafe t hrun
  rw [href, runS_events]
  obtain ⟨n, hn⟩ : ∃ n, evs.length = n + 1 := ⟨evs.length - 1, by
    have : 0 < evs.length := List.length_pos_iff.mpr hne; omega⟩
  rw [hn, runS_ticks_last]
  have hp : (C04.abs l).pending = [] := by simp [C04.abs, hq]
  have hcn : (C04.abs l).contribs = [] := by simp [C04.abs, hs]
  have := quiesce_layered (C04.km l) { C04.abs l with pending := (C04.abs l).pending ++ evs } hcn
    (by simpa [hp] using hbal)
  simp only [hp, List.nil_append] at this ⊢
  rw [← hn]
  rw [this.2.1]

/-! ### At the OS: a tick that wants no key down releases everything -/

/-- **os_releases_everything** (full, any configuration): when the key list kanata wants down is empty,
the diff step emits a release for every key that was down (mouse buttons as button releases; the
ignored range and wheel notches have no release) and no press; afterwards nothing is recorded as
down. -/
theorem os_releases_everything (k : KState) (rev : Bool) :
    pressNew (releaseOld k [] rev) [] = releaseOld k [] rev ∧
    (releaseOld k [] rev).prevKeys = k.prevKeys ∧
    ∀ x ∈ k.prevKeys, (k.ignoreMin ≤ x ∧ x ≤ k.ignoreMax) ∨ (∃ b, (x, b) ∈ k.wheelCodes) ∨
      (∃ b, (x, b) ∈ k.btnCodes ∧ Os.btnUp b ∈ (releaseOld k [] rev).out) ∨ Os.up x ∈ (releaseOld k [] rev).out := by
  have hfold : ∀ (olds : List KeyCode) (k0 : KState),
      (olds.foldl (fun k x => if ([] : List KeyCode).contains x then k else releaseKey k x) k0).prevKeys = k0.prevKeys ∧
      (∀ e ∈ k0.out, e ∈ (olds.foldl (fun k x => if ([] : List KeyCode).contains x then k else releaseKey k x) k0).out) ∧
      (olds.foldl (fun k x => if ([] : List KeyCode).contains x then k else releaseKey k x) k0).ignoreMin = k0.ignoreMin ∧
      (olds.foldl (fun k x => if ([] : List KeyCode).contains x then k else releaseKey k x) k0).ignoreMax = k0.ignoreMax ∧
      (olds.foldl (fun k x => if ([] : List KeyCode).contains x then k else releaseKey k x) k0).btnCodes = k0.btnCodes ∧
      (olds.foldl (fun k x => if ([] : List KeyCode).contains x then k else releaseKey k x) k0).wheelCodes = k0.wheelCodes ∧
      ∀ x ∈ olds, (k0.ignoreMin ≤ x ∧ x ≤ k0.ignoreMax) ∨ (∃ b, (x, b) ∈ k0.wheelCodes) ∨
        (∃ b, (x, b) ∈ k0.btnCodes ∧ Os.btnUp b ∈ (olds.foldl (fun k x => if ([] : List KeyCode).contains x then k else releaseKey k x) k0).out) ∨
        Os.up x ∈ (olds.foldl (fun k x => if ([] : List KeyCode).contains x then k else releaseKey k x) k0).out := by
    intro olds
    induction olds with
    | nil => intro k0; exact ⟨rfl, fun e h => h, rfl, rfl, rfl, rfl, fun x hx => by cases hx⟩
    | cons y ys ih =>
      intro k0
      simp only [List.foldl_cons, List.contains_nil, Bool.false_eq_true, if_false]
      -- one release
      have hrel : (releaseKey k0 y).prevKeys = k0.prevKeys ∧ (releaseKey k0 y).ignoreMin = k0.ignoreMin ∧
          (releaseKey k0 y).ignoreMax = k0.ignoreMax ∧ (releaseKey k0 y).btnCodes = k0.btnCodes ∧
          (releaseKey k0 y).wheelCodes = k0.wheelCodes ∧ (∀ e ∈ k0.out, e ∈ (releaseKey k0 y).out) ∧
          ((k0.ignoreMin ≤ y ∧ y ≤ k0.ignoreMax) ∨ (∃ b, (y, b) ∈ k0.wheelCodes) ∨
            (∃ b, (y, b) ∈ k0.btnCodes ∧ Os.btnUp b ∈ (releaseKey k0 y).out) ∨ Os.up y ∈ (releaseKey k0 y).out) := by
        unfold releaseKey
        split
        · rename_i hig; exact ⟨rfl, rfl, rfl, rfl, rfl, fun e h => h, Or.inl hig⟩
        · split
          · rename_i b hf
            have hm := List.mem_of_find?_eq_some hf
            have hb : (List.find? (fun x => x.1 == y) k0.btnCodes) = some (_, b) := hf
            have hy := List.find?_some hf
            simp only [beq_iff_eq] at hy
            refine ⟨rfl, rfl, rfl, rfl, rfl, fun e h => by simp [KState.emit, h], Or.inr (Or.inr (Or.inl ⟨b, ?_, by simp [KState.emit]⟩))⟩
            rw [← hy]; exact hm
          · split
            · rename_i d hf
              have hm := List.mem_of_find?_eq_some hf
              have hy := List.find?_some hf
              simp only [beq_iff_eq] at hy
              obtain ⟨d1, d2⟩ := d
              simp only at hy; subst hy
              exact ⟨rfl, rfl, rfl, rfl, rfl, fun e h => h, Or.inr (Or.inl ⟨d2, hm⟩)⟩
            · exact ⟨rfl, rfl, rfl, rfl, rfl, fun e h => by simp [KState.emit, h], Or.inr (Or.inr (Or.inr (by simp [KState.emit])))⟩
      obtain ⟨r1, r2, r3, r4, r5, r6, r7⟩ := hrel
      obtain ⟨i1, i2, i3, i4, i5, i6, i7⟩ := ih (releaseKey k0 y)
      refine ⟨i1.trans r1, fun e h => i2 e (r6 e h), i3.trans r2, i4.trans r3, i5.trans r4, i6.trans r5, ?_⟩
      intro x hx
      rcases List.mem_cons.mp hx with rfl | hx
      · rcases r7 with h | h | ⟨b, hb, ho⟩ | h
        · exact Or.inl h
        · exact Or.inr (Or.inl h)
        · exact Or.inr (Or.inr (Or.inl ⟨b, hb, i2 _ ho⟩))
        · exact Or.inr (Or.inr (Or.inr (i2 _ h)))
      · have := i7 x hx
        rw [r2, r3, r4, r5] at this
        exact this
  refine ⟨by simp [pressNew], ?_, ?_⟩
  · unfold releaseOld; split
    · exact (hfold _ k).1
    · exact (hfold _ k).1
  · intro x hx
    unfold releaseOld; split
    · exact (hfold _ k).2.2.2.2.2.2 x (List.mem_reverse.mpr hx)
    · exact (hfold _ k).2.2.2.2.2.2 x hx

/-! ### kanata reports idle once everything is at rest -/

/-- **idle_when_at_rest** (full): the converse of `idle_covers_time_driven`: with every time-driven
component at rest and no sequence-custom state pending, kanata reports idle (when nothing waits for
idleness, held plain keys do not prevent it). -/
theorem idle_when_at_rest (k : KState)
    (h1 : k.layout.queue = []) (h2 : k.layout.waiting = none) (h3 : k.layout.extraWaiting = [])
    (h4 : k.layout.lptTapHoldTimeout = 0) (h5 : k.layout.oneshot.keys = [])
    (h6 : k.layout.oneshot.pauseInputProcessingTicks = 0) (h7 : k.layout.activeSequences = [])
    (h8 : k.layout.tapDanceEager = none) (h9 : k.layout.actionQueue = []) (h10 : k.scroll = none)
    (h11 : k.hscroll = none) (h12 : k.moveV = none) (h13 : k.moveH = none)
    (h14 : k.macroOnPressCancelDuration = 0) (h15 : k.capsWord = none) (h16 : k.vkeysPendingRelease = [])
    (h17 : k.waitingForIdle = []) (h18 : k.liveReloadRequested = false)
    (h19 : ∀ s ∈ k.layout.states, match s with | .seqCustomPending _ | .seqCustomActive _ => False | _ => True) :
    isIdle k = true := by
  have hst : (k.layout.states.any fun s => match s with
      | .seqCustomPending _ | .seqCustomActive _ => true
      | .normalKey .. => !k.waitingForIdle.isEmpty || k.liveReloadRequested
      | _ => false) = false := by
    rw [List.any_eq_false]
    intro s hs
    have := h19 s hs
    cases s <;> simp_all
  simp only [isIdle, h1, h2, h3, h4, h5, h6, h7, h8, h9, h10, h11, h12, h13, h14, h15, h16, h17, h18]
  simp
  intro x hx
  have := h19 x hx
  cases x <;> simp_all

/-! ### Known finding: the release of a second custom action on one key is dropped -/

/-- **custom_release_keeps_first** (the mechanism behind the known finding `lost-custom-release`):
when one release event removes two `Custom` states of the same coordinate (two custom actions
reached from one key, e.g. one in a `multi` and one behind a tap-hold), `CustomEvent::update`
keeps only the first release: the second action's release handler never runs, so an `unmod` /
`unshift` key list is never cleared and the key stays down at the OS. -/
theorem custom_release_keeps_first (i j : Nat) (c : Coord) :
    let (r1, e1) := (St.custom i c).release c .noEvent
    let (r2, e2) := (St.custom j c).release c e1
    r1 = none ∧ r2 = none ∧ e2 = .release i := by
  simp [St.release, CustomEv.update]

/-- the general form: `CustomEvent` holds one event per tick, ordered `NoEvent < Press < Release`;
whatever else the tick produces is dropped - a second release (its handler never runs: stuck
unmod key, mouse button, wheel), a press that meets a release or another press (the action is
never performed, and its later release releases something that was never pressed) -/
theorem custom_event_holds_one (i j : Nat) :
    (CustomEv.release i).update (.release j) = .release i ∧
    (CustomEv.release i).update (.press j) = .release i ∧
    (CustomEv.press i).update (.press j) = .press i ∧
    (CustomEv.press i).update (.release j) = .release j := by
  refine ⟨rfl, rfl, rfl, rfl⟩

end KVerif.C01
