/-
C01 — no stuck output: once all keys are up, kanata releases everything and goes idle.

Full statement (not proved as one theorem): for every accepted non-latching configuration and every
balanced history, within a bounded time all output is released, nothing further is emitted and
kanata reports idle.  Proved here, each at full strength on its fragment of the action grammar:
  * the layered fragment of C04 (`quiesce_layered`, `quiesce_frag04`, through `layered_refines`);
  * the one-shot fragment of C06 (`quiesce_oneshot`, `quiesce_oneshot_fresh`);
  * the macro fragment of C08 (`quiesce_macro`, `quiesce_macro_fresh`);
  * a tap-hold fragment of C05 (`quiesce_taphold`, `quiesce_taphold_fresh`, `taphold_decided_within_T`);
each of the last three: after EVERY bounded-queue history that leaves no key physically down, an
explicit number of quiet ticks (a function of the configuration's timeouts and of the number of events
still queued) runs without a crash and leaves the layout at rest (`Quiesce.LayoutAtRest`: no state,
nothing queued, waiting, counting or playing);
  * for every configuration: a layout at rest makes kanata release everything at the OS and report
    idle (`at_rest_released_and_idle`, with `os_releases_everything`, `idle_when_at_rest` and C07).
Not proved: tap-dance, chords v1/v2, fork/switch, and mixtures of the fragments (a one-shot key next
to a macro, a tap-hold whose hold action is a one-shot, ...); those are decided by the C01 oracle on
the real code.  Helper lemmas: Lemmas/Quiesce.lean, Lemmas/QuiesceMacro.lean, Lemmas/QuiesceTapHold.lean.
-/
import KVerif.Props.C04
import KVerif.Props.C07
import KVerif.Props.C06
import KVerif.Lemmas.Quiesce
import KVerif.Lemmas.QuiesceMacro
import KVerif.Lemmas.QuiesceTapHold
import KVerif.Props.C08
namespace KVerif.C01
open KVerif.L KVerif.K KVerif.Spec.Layered

/-! ### On the layered machine: contributions belong to keys that are physically down -/

theorem add_coord (cs : List Contrib) (c : Contrib) (co : Coord) (h : ∀ x ∈ cs, contribCoord x = co)
    (hc : contribCoord c = co) : ∀ x ∈ add cs c, contribCoord x = co := by
  intro x hx
  unfold add at hx
  split at hx
  · rcases List.mem_append.mp hx with h1 | h1
    · exact h x h1
    · simp at h1; subst h1; exact hc
  · exact h x hx

/-- what `perform` leaves: old contributions (possibly fewer) and new ones that carry the coordinate
of the press -/
def Grows (co : Coord) (old new : List Contrib) : Prop :=
  ∀ x ∈ new, x ∈ old ∨ contribCoord x = co

theorem Grows.refl (co : Coord) (l : List Contrib) : Grows co l l := fun _ h => Or.inl h
theorem Grows.trans {co : Coord} {a b c : List Contrib} (h1 : Grows co a b) (h2 : Grows co b c) : Grows co a c := by
  intro x hx
  rcases h2 x hx with h | h
  · exact h1 x h
  · exact Or.inr h
theorem Grows.filter (co : Coord) (l : List Contrib) (p : Contrib → Bool) : Grows co l (l.filter p) :=
  fun _ h => Or.inl (List.mem_filter.mp h).1
theorem Grows.add (co : Coord) (l : List Contrib) (c : Contrib) (hc : contribCoord c = co) : Grows co l (add l c) := by
  intro x hx
  unfold Spec.Layered.add at hx
  split at hx
  · rcases List.mem_append.mp hx with h1 | h1
    · exact Or.inl h1
    · simp at h1; subst h1; exact Or.inr hc
  · exact Or.inl hx

theorem grows_foldl (co : Coord) (kcs : List KeyCode) : ∀ (l : List Contrib),
    Grows co l (kcs.foldl (fun cs kc => Spec.Layered.add cs (.key kc co true)) l) := by
  induction kcs with
  | nil => intro l; exact Grows.refl co l
  | cons k rest ih => intro l; exact (Grows.add co l _ rfl).trans (ih _)

theorem perform_grows (km : Keymap) (co : Coord) : ∀ (fuel : Nat),
    (∀ s a ls, Grows co s.contribs (perform km co fuel s a ls).contribs) ∧
    (∀ s a ls, Grows co s.contribs (performFound km co fuel s a ls).contribs) ∧
    (∀ s acs ls, Grows co s.contribs (performAll km co fuel s acs ls).contribs) := by
  intro fuel
  induction fuel with
  | zero => exact ⟨fun s _ _ => Grows.refl co _, fun s _ _ => Grows.refl co _, fun s _ _ => Grows.refl co _⟩
  | succ n ih =>
    obtain ⟨ih1, ih2, ih3⟩ := ih
    refine ⟨?_, ?_, ?_⟩
    · intro s a ls
      simp only [perform]
      exact (Grows.filter co s.contribs _).trans (ih2 _ _ _)
    · intro s a ls
      cases a <;> simp only [performFound] <;> try exact Grows.refl co _
      · exact Grows.add co _ _ rfl
      · exact grows_foldl co _ _
      · exact ih3 s _ ls
      · exact Grows.add co _ _ rfl
      · split <;> exact Grows.refl co _
      · rename_i rs
        cases rs <;> exact Grows.filter co _ _
      · exact ih1 s _ []
    · intro s acs ls
      induction acs generalizing s with
      | nil => exact Grows.refl co _
      | cons a rest ihr =>
        simp only [performAll]
        exact (ih1 s a ls).trans (ih3 _ rest ls)

/-- coordinates physically down after a list of events has taken effect -/
def downAfter : List Ev → List Coord → List Coord
  | [], d => d
  | .press c :: rest, d => downAfter rest (c :: d)
  | .release c :: rest, d => downAfter rest (d.filter (· != c))

/-- **contributions_belong_to_held_keys** (full): on the layered machine every contribution (key or
layer) carries the coordinate of a key that is physically down — whatever the order and timing of
presses and releases and whichever layers were active. -/
theorem contributions_belong_to_held_keys (km : Keymap) (s : State) (down : List Coord)
    (h : ∀ x ∈ s.contribs, contribCoord x ∈ down) :
    match s.pending with
    | [] => True
    | e :: _ => ∀ x ∈ (step km s).contribs, contribCoord x ∈ downAfter [e] down := by
  cases hp : s.pending with
  | nil => trivial
  | cons e rest =>
    cases e with
    | press c =>
      simp only [step, hp, downAfter]
      intro x hx
      have := (perform_grows km c DEPTH).1 { s with pending := rest } .trans (searchOrder km { s with pending := rest }) x hx
      rcases this with h1 | h1
      · exact List.mem_cons_of_mem _ (h x h1)
      · rw [h1]; exact List.mem_cons_self
    | release c =>
      simp only [step, hp, downAfter]
      intro x hx
      have hm := List.mem_filter.mp hx
      refine List.mem_filter.mpr ⟨h x hm.1, ?_⟩
      simpa using hm.2

/-- run the machine until nothing is pending -/
def drain (km : Keymap) : Nat → State → State
  | 0, s => s
  | n + 1, s => drain km n (step km s)

theorem drain_invariant (km : Keymap) : ∀ (n : Nat) (s : State) (down : List Coord),
    (∀ x ∈ s.contribs, contribCoord x ∈ down) → n = s.pending.length →
    (∀ x ∈ (drain km n s).contribs, contribCoord x ∈ downAfter s.pending down) ∧ (drain km n s).pending = [] := by
  intro n
  induction n with
  | zero =>
    intro s down h hn
    have : s.pending = [] := List.length_eq_zero_iff.mp hn.symm
    simp only [drain, this, downAfter]
    exact ⟨h, trivial⟩
  | succ n ih =>
    intro s down h hn
    cases hp : s.pending with
    | nil => simp [hp] at hn
    | cons e rest =>
      have hstep := contributions_belong_to_held_keys km s down h
      simp only [hp] at hstep
      have hpend : (step km s).pending = rest := by
        have := (C04.fifo_one_per_tick km s e rest hp e).2
        exact this
      have := ih (step km s) (downAfter [e] down) hstep (by rw [hpend]; simp [hp] at hn; omega)
      simp only [drain]
      rw [hpend] at this
      refine ⟨?_, this.2⟩
      intro x hx
      have h1 := this.1 x hx
      cases e <;> simpa [downAfter] using h1

/-- **quiesce_layered** (full, on the fragment): if the pending events leave no key physically down
(every press has its release, in any order and interleaving), then once they have all taken effect
— one per tick — no contribution is left: no key is held for the OS and no layer is held. -/
theorem quiesce_layered (km : Keymap) (s : State) (h0 : s.contribs = [])
    (hbal : downAfter s.pending [] = []) :
    (drain km s.pending.length s).contribs = [] ∧ keys (drain km s.pending.length s) = [] ∧
      (drain km s.pending.length s).pending = [] := by
  have := drain_invariant km s.pending.length s [] (by simp [h0]) rfl
  rw [hbal] at this
  have hc : (drain km s.pending.length s).contribs = [] := by
    cases hcs : (drain km s.pending.length s).contribs with
    | nil => rfl
    | cons x xs => have := this.1 x (by simp [hcs]); simp at this
  exact ⟨hc, by simp [keys, hc], this.2⟩

/-! ### ... and hence on the layout model (through `layered_refines`) -/

theorem runS_events (km : Keymap) (evs : List Ev) : ∀ (s : State) (rest : List C04.In),
    C04.runS km s (evs.map C04.In.ev ++ rest) = C04.runS km { s with pending := s.pending ++ evs } rest := by
  induction evs with
  | nil => intro s rest; simp
  | cons e es ih =>
    intro s rest
    simp only [List.map_cons, List.cons_append, C04.runS, input]
    rw [ih]
    simp [List.append_assoc]

theorem runS_ticks_last (km : Keymap) : ∀ (n : Nat) (s : State),
    (C04.runS km s (List.replicate (n + 1) C04.In.tick)).getLast? = some (keys (drain km (n + 1) s)) := by
  intro n
  induction n with
  | zero => intro s; simp [C04.runS, drain]
  | succ n ih =>
    intro s
    have := ih (step km s)
    simp only [List.replicate_succ, C04.runS, drain] at this ⊢
    rw [List.getLast?_cons_cons] at *
    · exact this
    all_goals simp [C04.runS]

/-- **quiesce_frag04** (full on the fragment): on a configuration of the layered fragment, from a
state with nothing held: after any non-empty history that leaves no key physically down (within the
bounds of C04) followed by one tick per event, the layout's key-code list is empty — every key it
had pressed for the OS is gone, whatever the order, the timing and the layers that were active. -/
theorem quiesce_frag04 (l : Layout) (hc : C04.CfgFrag l.cfg) (hi : C04.Inert l)
    (hq : l.queue = []) (hs : l.states = []) (evs : List Ev) (hne : evs ≠ [])
    (hbal : downAfter evs [] = [])
    (hsafe : C04.Safe (C04.km l) (C04.abs l) (evs.map C04.In.ev ++ List.replicate evs.length C04.In.tick))
    (t : List (List KeyCode))
    (hrun : C04.runM l (evs.map C04.In.ev ++ List.replicate evs.length C04.In.tick) = .ok t) :
    t.getLast? = some [] := by
  have href := C04.layered_refines _ l hc hi hsafe t hrun
  rw [href, runS_events]
  obtain ⟨n, hn⟩ : ∃ n, evs.length = n + 1 := ⟨evs.length - 1, by
    have : 0 < evs.length := List.length_pos_iff.mpr hne; omega⟩
  rw [hn, runS_ticks_last]
  have hp : (C04.abs l).pending = [] := by simp [C04.abs, hq]
  have hcn : (C04.abs l).contribs = [] := by simp [C04.abs, hs]
  have := quiesce_layered (C04.km l) { C04.abs l with pending := (C04.abs l).pending ++ evs } hcn
    (by simpa [hp] using hbal)
  simp only [hp, List.nil_append] at this ⊢
  rw [← hn]
  rw [this.2.1]

/-! ### At the OS: a tick that wants no key down releases everything -/

/-- **os_releases_everything** (full, any configuration): when the key list kanata wants down is empty,
the diff step emits a release for every key that was down (mouse buttons as button releases; the
ignored range and wheel notches have no release) and no press; afterwards nothing is recorded as
down. -/
theorem os_releases_everything (k : KState) (rev : Bool) :
    pressNew (releaseOld k [] rev) [] = releaseOld k [] rev ∧
    (releaseOld k [] rev).prevKeys = k.prevKeys ∧
    ∀ x ∈ k.prevKeys, (k.ignoreMin ≤ x ∧ x ≤ k.ignoreMax) ∨ (∃ b, (x, b) ∈ k.wheelCodes) ∨
      (∃ b, (x, b) ∈ k.btnCodes ∧ Os.btnUp b ∈ (releaseOld k [] rev).out) ∨ Os.up x ∈ (releaseOld k [] rev).out := by
  have hfold : ∀ (olds : List KeyCode) (k0 : KState),
      (olds.foldl (fun k x => if ([] : List KeyCode).contains x then k else releaseKey k x) k0).prevKeys = k0.prevKeys ∧
      (∀ e ∈ k0.out, e ∈ (olds.foldl (fun k x => if ([] : List KeyCode).contains x then k else releaseKey k x) k0).out) ∧
      (olds.foldl (fun k x => if ([] : List KeyCode).contains x then k else releaseKey k x) k0).ignoreMin = k0.ignoreMin ∧
      (olds.foldl (fun k x => if ([] : List KeyCode).contains x then k else releaseKey k x) k0).ignoreMax = k0.ignoreMax ∧
      (olds.foldl (fun k x => if ([] : List KeyCode).contains x then k else releaseKey k x) k0).btnCodes = k0.btnCodes ∧
      (olds.foldl (fun k x => if ([] : List KeyCode).contains x then k else releaseKey k x) k0).wheelCodes = k0.wheelCodes ∧
      ∀ x ∈ olds, (k0.ignoreMin ≤ x ∧ x ≤ k0.ignoreMax) ∨ (∃ b, (x, b) ∈ k0.wheelCodes) ∨
        (∃ b, (x, b) ∈ k0.btnCodes ∧ Os.btnUp b ∈ (olds.foldl (fun k x => if ([] : List KeyCode).contains x then k else releaseKey k x) k0).out) ∨
        Os.up x ∈ (olds.foldl (fun k x => if ([] : List KeyCode).contains x then k else releaseKey k x) k0).out := by
    intro olds
    induction olds with
    | nil => intro k0; exact ⟨rfl, fun e h => h, rfl, rfl, rfl, rfl, fun x hx => by cases hx⟩
    | cons y ys ih =>
      intro k0
      simp only [List.foldl_cons, List.contains_nil, Bool.false_eq_true, if_false]
      -- one release
      have hrel : (releaseKey k0 y).prevKeys = k0.prevKeys ∧ (releaseKey k0 y).ignoreMin = k0.ignoreMin ∧
          (releaseKey k0 y).ignoreMax = k0.ignoreMax ∧ (releaseKey k0 y).btnCodes = k0.btnCodes ∧
          (releaseKey k0 y).wheelCodes = k0.wheelCodes ∧ (∀ e ∈ k0.out, e ∈ (releaseKey k0 y).out) ∧
          ((k0.ignoreMin ≤ y ∧ y ≤ k0.ignoreMax) ∨ (∃ b, (y, b) ∈ k0.wheelCodes) ∨
            (∃ b, (y, b) ∈ k0.btnCodes ∧ Os.btnUp b ∈ (releaseKey k0 y).out) ∨ Os.up y ∈ (releaseKey k0 y).out) := by
        unfold releaseKey
        split
        · rename_i hig; exact ⟨rfl, rfl, rfl, rfl, rfl, fun e h => h, Or.inl hig⟩
        · split
          · rename_i b hf
            have hm := List.mem_of_find?_eq_some hf
            have hb : (List.find? (fun x => x.1 == y) k0.btnCodes) = some (_, b) := hf
            have hy := List.find?_some hf
            simp only [beq_iff_eq] at hy
            refine ⟨rfl, rfl, rfl, rfl, rfl, fun e h => by simp [KState.emit, h], Or.inr (Or.inr (Or.inl ⟨b, ?_, by simp [KState.emit]⟩))⟩
            rw [← hy]; exact hm
          · split
            · rename_i d hf
              have hm := List.mem_of_find?_eq_some hf
              have hy := List.find?_some hf
              simp only [beq_iff_eq] at hy
              obtain ⟨d1, d2⟩ := d
              simp only at hy; subst hy
              exact ⟨rfl, rfl, rfl, rfl, rfl, fun e h => h, Or.inr (Or.inl ⟨d2, hm⟩)⟩
            · exact ⟨rfl, rfl, rfl, rfl, rfl, fun e h => by simp [KState.emit, h], Or.inr (Or.inr (Or.inr (by simp [KState.emit])))⟩
      obtain ⟨r1, r2, r3, r4, r5, r6, r7⟩ := hrel
      obtain ⟨i1, i2, i3, i4, i5, i6, i7⟩ := ih (releaseKey k0 y)
      refine ⟨i1.trans r1, fun e h => i2 e (r6 e h), i3.trans r2, i4.trans r3, i5.trans r4, i6.trans r5, ?_⟩
      intro x hx
      rcases List.mem_cons.mp hx with rfl | hx
      · rcases r7 with h | h | ⟨b, hb, ho⟩ | h
        · exact Or.inl h
        · exact Or.inr (Or.inl h)
        · exact Or.inr (Or.inr (Or.inl ⟨b, hb, i2 _ ho⟩))
        · exact Or.inr (Or.inr (Or.inr (i2 _ h)))
      · have := i7 x hx
        rw [r2, r3, r4, r5] at this
        exact this
  refine ⟨by simp [pressNew], ?_, ?_⟩
  · unfold releaseOld; split
    · exact (hfold _ k).1
    · exact (hfold _ k).1
  · intro x hx
    unfold releaseOld; split
    · exact (hfold _ k).2.2.2.2.2.2 x (List.mem_reverse.mpr hx)
    · exact (hfold _ k).2.2.2.2.2.2 x hx

/-! ### kanata reports idle once everything is at rest -/

/-- **idle_when_at_rest** (full): the converse of `idle_covers_time_driven`: with every time-driven
component at rest, no sequence-custom state pending and sequence mode off, kanata reports idle (when nothing waits for
idleness, held plain keys do not prevent it). -/
theorem idle_when_at_rest (k : KState)
    (h1 : k.layout.queue = []) (h2 : k.layout.waiting = none) (h3 : k.layout.extraWaiting = [])
    (h4 : k.layout.lptTapHoldTimeout = 0) (h5 : k.layout.oneshot.keys = [])
    (h6 : k.layout.oneshot.pauseInputProcessingTicks = 0) (h7 : k.layout.activeSequences = [])
    (h8 : k.layout.tapDanceEager = none) (h9 : k.layout.actionQueue = []) (h10 : k.scroll = none)
    (h11 : k.hscroll = none) (h12 : k.moveV = none) (h13 : k.moveH = none)
    (h14 : k.macroOnPressCancelDuration = 0) (h15 : k.capsWord = none) (h16 : k.vkeysPendingRelease = [])
    (h17 : k.waitingForIdle = []) (h18 : k.liveReloadRequested = false)
    (h19 : ∀ s ∈ k.layout.states, match s with | .seqCustomPending _ | .seqCustomActive _ => False | _ => True)
    (h20 : k.seq.st.active = false)
    (h21 : k.dyn.rep = none) :     -- [dyn] no dynamic macro replay in progress
    isIdle k = true := by
  have hst : (k.layout.states.any fun s => match s with
      | .seqCustomPending _ | .seqCustomActive _ => true
      | .normalKey .. => !k.waitingForIdle.isEmpty || k.liveReloadRequested
      | _ => false) = false := by
    rw [List.any_eq_false]
    intro s hs
    have := h19 s hs
    cases s <;> simp_all
  simp only [isIdle, isIdleBase, h1, h2, h3, h4, h5, h6, h7, h8, h9, h10, h11, h12, h13, h14, h15, h16, h17, h18, h20, h21]
  simp
  intro x hx
  have := h19 x hx
  cases x <;> simp_all

/-! ### Known finding: the release of a second custom action on one key is dropped -/

/-- **custom_release_keeps_first** (the mechanism behind the known finding `lost-custom-release`):
when one release event removes two `Custom` states of the same coordinate (two custom actions
reached from one key, e.g. one in a `multi` and one behind a tap-hold), `CustomEvent::update`
keeps only the first release: the second action's release handler never runs, so an `unmod` /
`unshift` key list is never cleared and the key stays down at the OS. -/
theorem custom_release_keeps_first (i j : Nat) (c : Coord) :
    let (r1, e1) := (St.custom i c).release c .noEvent
    let (r2, e2) := (St.custom j c).release c e1
    r1 = none ∧ r2 = none ∧ e2 = .release i := by
  simp [St.release, CustomEv.update]

/-- the general form: `CustomEvent` holds one event per tick, ordered `NoEvent < Press < Release`;
whatever else the tick produces is dropped - a second release (its handler never runs: stuck
unmod key, mouse button, wheel), a press that meets a release or another press (the action is
never performed, and its later release releases something that was never pressed) -/
theorem custom_event_holds_one (i j : Nat) :
    (CustomEv.release i).update (.release j) = .release i ∧
    (CustomEv.release i).update (.press j) = .release i ∧
    (CustomEv.press i).update (.press j) = .press i ∧
    (CustomEv.press i).update (.release j) = .release j := by
  refine ⟨rfl, rfl, rfl, rfl⟩

/-! ### From a layout at rest to kanata: released and idle -/

/-- **at_rest_released_and_idle** (full, any configuration): when the layout is at rest
(`LayoutAtRest`: no state, nothing queued, waiting, counting or playing) and the components kanata
keeps outside the layout are at rest too (sequence mode off included), the layout asks for no key to be down (so the next
`handle_keystate_changes` releases whatever is still down at the OS: `os_releases_everything`), a
further tick changes nothing in it (C07 `layout_tick_silent_when_quiet`) and `is_idle` holds. -/
theorem at_rest_released_and_idle (k : KState) (h : Quiesce.LayoutAtRest k.layout)
    (h10 : k.scroll = none) (h11 : k.hscroll = none) (h12 : k.moveV = none) (h13 : k.moveH = none)
    (h14 : k.macroOnPressCancelDuration = 0) (h15 : k.capsWord = none) (h16 : k.vkeysPendingRelease = [])
    (h17 : k.waitingForIdle = []) (h18 : k.liveReloadRequested = false) (h20 : k.seq.st.active = false)
    (h21 : k.dyn.rep = none) :
    k.layout.keycodes = [] ∧ C07.QuietLayout k.layout ∧ isIdle k = true := by
  refine ⟨by simp [Layout.keycodes, h.states], ⟨h.queue, h.waiting, h.extra, h.osh, h.pause, h.seqs, h.tde, h.aq, ?_⟩, ?_⟩
  · intro st hst; rw [h.states] at hst; cases hst
  · exact idle_when_at_rest k h.queue h.waiting h.extra h.lpt h.osh h.pause h.seqs h.tde h.aq h10 h11 h12 h13
      h14 h15 h16 h17 h18 (fun st hst => by rw [h.states] at hst; cases hst) h20 h21

/-! ### Quiescence on the one-shot fragment of C06 -/

/-- **quiesce_oneshot** (full on the fragment).
Configurations of the C06 fragment: plain keys, output chords, layer-while-held, transparent and
unmapped positions, and one-shot keys of these in all four end variants; every one-shot timeout at
most `B` (`Quiesce.maxOneShot cfg` is such a `B`), rapid-event delay `d`.  From any state the layout
can reach with no key physically down (`C06.Inv s0 []`, `Quiesce.OshB B d s0`, `Quiesce.Safe s0`: all
hold of the fresh layout and are kept by every history), after EVERY history of presses, releases
and ticks — any order and timing, any number of one-shot keys stacked, re-pressed, overflowing the
16-entry tables — that leaves no key physically down (`run … = some (.ok (s1, []))`; an event never
arrives while 32 are pending), `N ≥ (d + 2) · (events still queued) + B + d + 1` ticks without input
run without a crash and leave the layout at rest: no key, layer or other state, an empty queue, no
one-shot key active, no input pause, nothing waiting — for this and every larger `N`, so nothing
is emitted later either.  By `at_rest_released_and_idle` kanata then releases everything at the OS
and reports idle.
The bound is what the code needs: every queued press may be the first key after a one-shot key
(pausing input for `d` ticks) or a further one-shot key (restarting the countdown at up to `B`).
Hypotheses: `h0` no state stranded so far; `hb` bounds the timeouts; `hB` countdown ≤ `B`, pause ≤ `d`
and no quick-tap window at the start; `hS`/`hP` exclude the index panics of `resolve_coord` (layer
references in range, defsrc row of keys, presses inside the layer tables). -/
theorem quiesce_oneshot (s0 : Layout) (B d : Nat) (h0 : C06.Inv s0 []) (hb : Quiesce.OshBound s0.cfg B)
    (hB : Quiesce.OshB B d s0) (hS : Quiesce.Safe s0) (ins : List C06.In) (hP : Quiesce.PressesOK s0.cfg ins)
    (s1 : Layout) (hrun : C06.run s0 [] ins = some (.ok (s1, [])))
    (N : Nat) (hN : (d + 2) * s1.queue.length + B + d + 1 ≤ N) :
    ∃ s2, C06.run s1 [] (List.replicate N .tick) = some (.ok (s2, [])) ∧ Quiesce.LayoutAtRest s2 := by
  obtain ⟨i1, b1, B1⟩ := Quiesce.run_oshB ins s0 [] h0 hb hB s1 [] hrun
  have S1 : Quiesce.Safe s1 := by
    rcases Quiesce.run_never_crashes ins s0 [] h0 hS hP with hn | ⟨s', hr, hs'⟩
    · rw [hn] at hrun; cases hrun
    · rw [hr] at hrun
      injection hrun with hrun; injection hrun with hrun; injection hrun with hrun
      exact hrun ▸ hs'
  obtain ⟨s2, hq⟩ := Quiesce.quiet_total N s1 [] i1 S1
  obtain ⟨_, i2, B2, p2⟩ := Quiesce.quiet_ticks N s1 [] i1 b1 B1 s2 [] hq
  have hp := Quiesce.potential_le B1
  obtain ⟨z1, z2, z3⟩ := Quiesce.potential_zero (B := B) (d := d) (s := s2) (by omega)
  exact ⟨s2, hq, (C06.nothing_lingers i2 z1 z2).1, z1, i2.calm.waiting, i2.calm.extra, B2.lpt, z2, z3,
    i2.calm.seqs, i2.calm.tde, i2.calm.aq⟩

/-- **quiesce_oneshot_fresh**: the same from start-up, every hypothesis a condition on the
configuration or on the list of inputs, and the bound a function of the configuration alone.  For
every configuration of the fragment whose layer references are in range, every history from the
freshly created layout whose presses lie inside the layer tables, in which every pressed key is
released again (`downs [] ins = []`) and no event arrives while 32 are pending (`run … ≠ none`;
`Quiesce.run_defined`: true of every history of at most 32 events): the history runs without a crash,
and `N ≥ 32 (d + 2) + (largest one-shot timeout) + d + 1` further ticks leave the layout at rest. -/
theorem quiesce_oneshot_fresh (cfg : LCfg) (hc : C06.CfgFrag cfg) (hs : Quiesce.CfgSafe cfg) (tv2 dfl qth : Bool)
    (d : Nat) (ins : List C06.In) (hP : Quiesce.PressesOK cfg ins) (hbal : Quiesce.downs [] ins = [])
    (hroom : C06.run { cfg := cfg, transV2 := tv2, delegateToFirstLayer := dfl, quickTapHoldTimeout := qth,
                       oneshot := { pauseInputProcessingDelay := d } } [] ins ≠ none)
    (N : Nat) (hN : (d + 2) * QUEUE_SIZE + Quiesce.maxOneShot cfg + d + 1 ≤ N) :
    ∃ s1 s2, C06.run { cfg := cfg, transV2 := tv2, delegateToFirstLayer := dfl, quickTapHoldTimeout := qth,
                       oneshot := { pauseInputProcessingDelay := d } } [] ins = some (.ok (s1, [])) ∧
      C06.run s1 [] (List.replicate N .tick) = some (.ok (s2, [])) ∧ Quiesce.LayoutAtRest s2 := by
  have h0 := C06.init_inv cfg hc tv2 dfl qth d
  have hb := Quiesce.oshBound_max cfg
  have hB := Quiesce.init_oshB cfg tv2 dfl qth d (Quiesce.maxOneShot cfg)
  have hS := Quiesce.init_safe cfg hs tv2 dfl qth d
  rcases Quiesce.run_never_crashes ins _ [] h0 hS hP with hn | ⟨s1, hr, _⟩
  · exact absurd hn hroom
  · rw [hbal] at hr
    have i1 := (Quiesce.run_oshB ins _ [] h0 hb hB s1 [] hr).1
    obtain ⟨s2, r2, a2⟩ := quiesce_oneshot _ (Quiesce.maxOneShot cfg) d h0 hb hB hS ins hP s1 hr N (by
      have := i1.qlen
      have h2 : (d + 2) * s1.queue.length ≤ (d + 2) * QUEUE_SIZE := Nat.mul_le_mul_left _ this
      omega)
    exact ⟨s1, s2, hr, r2, a2⟩

/-- non-vacuity: a one-shot shift (press variant, 5 ticks), a one-shot layer (release-or-repress
variant, 4 ticks), a plain key that the upper layer remaps and an output chord; rapid-event delay 2 -/
def oshCfg : LCfg :=
  { layers := [
      [((0, 30), .oneShot (.keyCode 42) 5 .firstPress),
       ((0, 48), .oneShot (.layer 1) 4 .firstReleaseOrRepress),
       ((0, 32), .keyCode 32), ((0, 18), .multipleKeyCodes [29, 18])],
      [((0, 32), .keyCode 45)]],
    srcKeys := [(30, .keyCode 30), (48, .keyCode 48), (32, .keyCode 32), (18, .keyCode 18)] }

/-- one-shot shift tapped, one-shot layer pressed and held over two ticks, then a burst: two keys
pressed and everything released without a tick in between (five events are still queued at the end) -/
def oshHist : List C06.In :=
  [.ev (.press (0, 30)), .tick, .ev (.release (0, 30)), .ev (.press (0, 48)), .tick, .tick,
   .ev (.press (0, 32)), .ev (.release (0, 48)), .ev (.press (0, 18)), .ev (.release (0, 32)),
   .ev (.release (0, 18))]

theorem oshCfg_frag : C06.CfgFrag oshCfg := by
  refine ⟨?_, ?_⟩
  · intro tbl ht e he
    simp only [oshCfg, List.mem_cons, List.mem_nil_iff, or_false] at ht
    rcases ht with rfl | rfl
    · simp only [List.mem_cons, List.mem_nil_iff, or_false] at he
      rcases he with rfl | rfl | rfl | rfl <;> simp [C06.Frag, C06.Simple]
    · simp only [List.mem_cons, List.mem_nil_iff, or_false] at he
      subst he; simp [C06.Frag]
  · intro e he
    simp only [oshCfg, List.mem_cons, List.mem_nil_iff, or_false] at he
    rcases he with rfl | rfl | rfl | rfl <;> simp [C06.Frag]

theorem oshCfg_safe : Quiesce.CfgSafe oshCfg := by
  refine ⟨rfl, by decide, ?_, ?_⟩
  · intro tbl ht e he
    simp only [oshCfg, List.mem_cons, List.mem_nil_iff, or_false] at ht
    rcases ht with rfl | rfl
    · simp only [List.mem_cons, List.mem_nil_iff, or_false] at he
      rcases he with rfl | rfl | rfl | rfl <;> intro v hv <;> simp [Quiesce.layerRef] at hv
      subst hv; decide
    · simp only [List.mem_cons, List.mem_nil_iff, or_false] at he
      subst he; intro v hv; simp [Quiesce.layerRef] at hv
  · intro e he
    simp only [oshCfg, List.mem_cons, List.mem_nil_iff, or_false] at he
    rcases he with rfl | rfl | rfl | rfl <;>
      exact ⟨fun v hv => by simp [Quiesce.layerRef] at hv, fun h => by cases h⟩

/-- the hypotheses of `quiesce_oneshot_fresh` hold of this configuration and history (the last one
through `run_defined`: eleven events), so 32·4 + 5 + 2 + 1 = 136 quiet ticks leave the layout at rest -/
example : ∃ s1 s2, C06.run { cfg := oshCfg, oneshot := { pauseInputProcessingDelay := 2 } } [] oshHist
      = some (.ok (s1, [])) ∧
    C06.run s1 [] (List.replicate 136 .tick) = some (.ok (s2, [])) ∧ Quiesce.LayoutAtRest s2 := by
  have hP : Quiesce.PressesOK oshCfg oshHist := by
    intro c hc
    simp only [oshHist, List.mem_cons, List.mem_nil_iff, or_false, C06.In.ev.injEq, Ev.press.injEq,
      reduceCtorEq, false_or, or_false] at hc
    rcases hc with rfl | rfl | rfl | rfl <;> exact ⟨by decide, by decide⟩
  have hbal : Quiesce.downs [] oshHist = [] := by decide
  have hroom : C06.run { cfg := oshCfg, oneshot := { pauseInputProcessingDelay := 2 } } [] oshHist ≠ none := by
    obtain ⟨s', hr, _⟩ := Quiesce.run_defined oshHist _ [] (C06.init_inv oshCfg oshCfg_frag true false false 2)
      (Quiesce.init_safe oshCfg oshCfg_safe true false false 2) hP (by decide)
    rw [hr]; exact fun h => by cases h
  exact quiesce_oneshot_fresh oshCfg oshCfg_frag oshCfg_safe true false false 2 oshHist hP hbal hroom 136 (by decide)

/-! ### Quiescence on the macro fragment of C08 -/

/-- **quiesce_macro** (full on the fragment).
Configurations of the C08 fragment (`CfgM`): plain keys, no-op and transparent keys, custom actions,
`CancelSequences`, and the macro actions — `Sequence` / `RepeatableSequence` with the parser's events,
alone or in a `multi` with custom actions (what the eight macro list actions compile to) — no macro
playing longer than `M` ticks (`Quiesce.maxMacro cfg` is such an `M`).  From any state the layout
can reach with no key physically down (`Quiesce.MInv M s0 []`, `Quiesce.SafeM s0`: both hold of the
fresh layout and are kept by every history), after EVERY history of presses, releases and ticks —
macros started once, repeatedly, overlapping, more than four at once, `macro-repeat` keys held,
cancelled or not — that leaves no key physically down (an event never arrives while 32 are
pending), `N ≥ (input pause) + (events still queued) + M + 2·64 + 1` ticks without input run
without a crash and leave the layout at rest: no `NormalKey`, no `FakeKey`, no `Custom`, no held
`macro-repeat`, no pending custom item of a macro — `states = []` — no active sequence, an empty
queue, nothing waiting; for this and every larger `N`.  So `macro-repeat` stops because its key is
released, every key a macro pressed is released, and by `at_rest_released_and_idle` kanata releases
everything at the OS and reports idle.
The bound follows the code: the queue drains one event per tick; then every active macro (there is no
held `macro-repeat` any more to restart one) ends within `M` ticks; then the custom items the macros
queued in `states` (at most 64, the capacity of `states`) are pressed and released, one step per
tick, and their tombstones swept.
Hypotheses: `h0` the invariant of the fragment (C08's `Quiet`/`SeqInv`, every state with a coordinate
owned by a key that is down or whose release is queued, every active or remembered macro within `M`);
`hS`/`hP` exclude the crash outcomes of the model on this fragment: the index panics of
`resolve_coord` and running out of recursion fuel (nesting of `multi` below 3998). -/
theorem quiesce_macro (s0 : Layout) (M : Nat) (h0 : Quiesce.MInv M s0 []) (hS : Quiesce.SafeM s0)
    (ins : List C06.In) (hP : Quiesce.PressesOK s0.cfg ins) (s1 : Layout)
    (hrun : C06.run s0 [] ins = some (.ok (s1, [])))
    (N : Nat) (hN : s1.oneshot.pauseInputProcessingTicks + s1.queue.length + M + (2 * STATES_CAP + 1) ≤ N) :
    ∃ s2, C06.run s1 [] (List.replicate N .tick) = some (.ok (s2, [])) ∧ Quiesce.LayoutAtRest s2 := by
  obtain ⟨i1, _⟩ := Quiesce.run_minv ins s0 [] h0 s1 [] hrun
  have S1 : Quiesce.SafeM s1 := by
    rcases Quiesce.run_never_crashes_M ins s0 [] h0 hS hP with hn | ⟨s', hr, hs'⟩
    · rw [hn] at hrun; cases hrun
    · rw [hr] at hrun
      injection hrun with hrun; injection hrun with hrun; injection hrun with hrun
      exact hrun ▸ hs'
  obtain ⟨s2, hq⟩ := Quiesce.quiet_total_M N s1 [] i1 S1
  exact ⟨s2, hq, (Quiesce.macro_settles s1 i1 N hN s2 [] hq).2⟩

/-- **quiesce_macro_fresh**: the same from start-up, every hypothesis a condition on the configuration
or on the list of inputs, the bound a function of the configuration alone: after every history from
the freshly created layout in which every pressed key is released again and no event arrives while
32 are pending, `N ≥ 32 + (playback length of the longest macro) + 129` further ticks leave the
layout at rest. -/
theorem quiesce_macro_fresh (cfg : LCfg) (hc : Macro.CfgM cfg) (hs : Quiesce.CfgSafeM cfg) (tv2 dfl qth : Bool)
    (d : Nat) (ins : List C06.In) (hP : Quiesce.PressesOK cfg ins) (hbal : Quiesce.downs [] ins = [])
    (hroom : C06.run { cfg := cfg, transV2 := tv2, delegateToFirstLayer := dfl, quickTapHoldTimeout := qth,
                       oneshot := { pauseInputProcessingDelay := d } } [] ins ≠ none)
    (N : Nat) (hN : QUEUE_SIZE + Quiesce.maxMacro cfg + (2 * STATES_CAP + 1) ≤ N) :
    ∃ s1 s2, C06.run { cfg := cfg, transV2 := tv2, delegateToFirstLayer := dfl, quickTapHoldTimeout := qth,
                       oneshot := { pauseInputProcessingDelay := d } } [] ins = some (.ok (s1, [])) ∧
      C06.run s1 [] (List.replicate N .tick) = some (.ok (s2, [])) ∧ Quiesce.LayoutAtRest s2 := by
  have h0 := Quiesce.init_minv cfg hc (Quiesce.maxMacro cfg) (Quiesce.macroBound_max cfg) tv2 dfl qth d
  have hS := Quiesce.init_safe_M cfg hs tv2 dfl qth d
  rcases Quiesce.run_never_crashes_M ins _ [] h0 hS hP with hn | ⟨s1, hr, _⟩
  · exact absurd hn hroom
  · rw [hbal] at hr
    obtain ⟨i1, p1⟩ := Quiesce.run_minv ins _ [] h0 s1 [] hr
    have hp0 : s1.oneshot.pauseInputProcessingTicks = 0 := Nat.le_zero.mp p1
    obtain ⟨s2, r2, a2⟩ := quiesce_macro _ (Quiesce.maxMacro cfg) h0 hS ins hP s1 hr N (by
      have := i1.qlen
      omega)
    exact ⟨s1, s2, hr, r2, a2⟩

/-- a `macro-repeat` key held over two ticks, a second macro and a plain key pressed meanwhile, then
everything released in a burst (C08's sample configuration: four macro forms, a repeating one with a
custom action, the cancel key) -/
def macroHist : List C06.In :=
  [.ev (.press (0, 3)), .tick, .tick, .ev (.press (0, 2)), .ev (.press (0, 30)), .tick,
   .ev (.release (0, 2)), .ev (.release (0, 3)), .ev (.release (0, 30))]

theorem macroCfg_frag : Macro.CfgM C08.sampleCfg := by
  have hok : Macro.EvsOK (C08.sampleEvs ++ [.complete]) := ⟨C08.sampleEvs, rfl, by decide, by decide⟩
  refine ⟨?_, ?_⟩
  · intro tbl ht e he
    simp only [C08.sampleCfg, List.mem_cons, List.mem_nil_iff, or_false] at ht
    subst ht
    simp only [List.mem_cons, List.mem_nil_iff, or_false] at he
    rcases he with rfl | rfl | rfl | rfl <;> simp [Macro.MFrag, Macro.MFragL, hok]
  · intro e he
    simp only [C08.sampleCfg, List.mem_cons, List.mem_nil_iff, or_false] at he
    rcases he with rfl | rfl | rfl | rfl <;> simp [Macro.MFrag]

theorem macroCfg_safe : Quiesce.CfgSafeM C08.sampleCfg := by
  refine ⟨rfl, by decide, ?_, ?_⟩
  · intro tbl ht e he
    simp only [C08.sampleCfg, List.mem_cons, List.mem_nil_iff, or_false] at ht
    subst ht
    simp only [List.mem_cons, List.mem_nil_iff, or_false] at he
    rcases he with rfl | rfl | rfl | rfl <;> simp [Quiesce.depthA, Quiesce.depthL]
  · intro e he
    simp only [C08.sampleCfg, List.mem_cons, List.mem_nil_iff, or_false] at he
    rcases he with rfl | rfl | rfl | rfl <;> simp [Quiesce.depthA]

/-- the hypotheses of `quiesce_macro_fresh` hold of this configuration and history (six events:
`run_defined_M`); its longest macro plays for 10 ticks, so 32 + 10 + 129 = 171 quiet ticks leave the
layout at rest -/
example : ∃ s1 s2, C06.run { cfg := C08.sampleCfg } [] macroHist = some (.ok (s1, [])) ∧
    C06.run s1 [] (List.replicate 171 .tick) = some (.ok (s2, [])) ∧ Quiesce.LayoutAtRest s2 := by
  have hP : Quiesce.PressesOK C08.sampleCfg macroHist := by
    intro c hc
    simp only [macroHist, List.mem_cons, List.mem_nil_iff, or_false, C06.In.ev.injEq, Ev.press.injEq,
      reduceCtorEq, false_or, or_false] at hc
    rcases hc with rfl | rfl | rfl <;> exact ⟨by decide, by decide⟩
  have hbal : Quiesce.downs [] macroHist = [] := by decide
  have hM : Quiesce.maxMacro C08.sampleCfg = 10 := by
    simp [Quiesce.maxMacro, Quiesce.listMax, C08.sampleCfg, C08.sampleEvs, Quiesce.actLen, Quiesce.actLenL,
      Quiesce.evLen, Macro.ticksOf]
  have hroom : C06.run { cfg := C08.sampleCfg } [] macroHist ≠ none := by
    obtain ⟨s', hr, _⟩ := Quiesce.run_defined_M macroHist _ []
      (Quiesce.init_minv C08.sampleCfg macroCfg_frag _ (Quiesce.macroBound_max _) true false false 0)
      (Quiesce.init_safe_M C08.sampleCfg macroCfg_safe true false false 0) hP (by decide)
    rw [hr]; exact fun h => by cases h
  exact quiesce_macro_fresh C08.sampleCfg macroCfg_frag macroCfg_safe true false false 0 macroHist hP hbal hroom 171
    (by rw [hM]; decide)

/-! ### Quiescence on a tap-hold fragment (C05) -/

/-- **quiesce_taphold** (full on the fragment).
Configurations of the fragment `CfgH`: plain keys, output chords, layer-while-held, transparent and
unmapped positions, and tap-hold keys — any number of them, every variant (default, press, release,
custom release / except keys), any hold timeout `≤ T` and tap-hold interval `≤ I`
(`Quiesce.maxHoldTimeout cfg`, `Quiesce.maxTapInterval cfg`) — whose hold, tap and timeout actions
are a key, an output chord or layer-while-held; rapid-event delay `d`.  From any state the layout
can reach with no key physically down (`Quiesce.HInv T I d s0 []`, `Quiesce.SafeH s0`: both hold of
the fresh layout and are kept by every history), after EVERY history of presses, releases and ticks —
tap-hold keys tapped, held, interleaved with other keys, pressed while another is undecided, released
in any order — that leaves no key physically down (an event never arrives while 32 are pending),
`N ≥ (T + d + I + 2) · (events still queued) + T + 2 d + I + 1` ticks without input run without a
crash and leave the layout at rest: no key or layer state, nothing queued, no tap-hold key undecided,
no input pause, no quick-tap window open; for this and every larger `N`.  By
`at_rest_released_and_idle` kanata then releases everything at the OS and reports idle.
The bound follows the code: while a tap-hold key is undecided nothing is taken from the queue; with
its release queued it is decided within its countdown (`taphold_decided_within_T`); a hold or tap
decision pauses input for `d` ticks; each queued press may be a further tap-hold key.
Hypotheses: `h0` the invariant (every state, and the undecided key, belongs to a key that is down or
whose release is queued; countdown `≤ T`, pause `≤ d`, quick-tap window `≤ I`); `hS`/`hP` exclude the
index panics of `resolve_coord` (layer references in range, defsrc row of keys, presses inside the
layer tables). -/
theorem quiesce_taphold (s0 : Layout) (T I d : Nat) (h0 : Quiesce.HInv T I d s0 []) (hS : Quiesce.SafeH s0)
    (ins : List C06.In) (hP : Quiesce.PressesOK s0.cfg ins) (s1 : Layout)
    (hrun : C06.run s0 [] ins = some (.ok (s1, [])))
    (N : Nat) (hN : (T + d + I + 2) * s1.queue.length + T + 2 * d + I + 1 ≤ N) :
    ∃ s2, C06.run s1 [] (List.replicate N .tick) = some (.ok (s2, [])) ∧ Quiesce.LayoutAtRest s2 := by
  have i1 := Quiesce.run_hinv ins s0 [] h0 s1 [] hrun
  have S1 : Quiesce.SafeH s1 := by
    rcases Quiesce.run_never_crashes_H ins s0 [] h0 hS hP with hn | ⟨s', hr, hs'⟩
    · rw [hn] at hrun; cases hrun
    · rw [hr] at hrun
      injection hrun with hrun; injection hrun with hrun; injection hrun with hrun
      exact hrun ▸ hs'
  obtain ⟨s2, hq⟩ := Quiesce.quiet_total_H N s1 [] i1 S1
  obtain ⟨_, i2, p2⟩ := Quiesce.quiet_ticks_H N s1 i1 s2 [] hq
  have hp := Quiesce.hPot_le i1
  exact ⟨s2, hq, i2.atRest (by omega)⟩

/-- **taphold_decided_within_T** (full on the fragment): once every key is physically up, a tap-hold
key that is still undecided — its countdown at `t ≤ T` — is decided after at most `max t 1` further
ticks (its own release is in the queue: tap or timeout by the release rule of C05
`release_decides`, or an early hold), and on that tick nothing is taken from the queue. -/
theorem taphold_decided_within_T (T I d : Nat) (s : Layout) (w : Waiting) (h : Quiesce.HInv T I d s [])
    (hS : Quiesce.SafeH s) (hw : s.waiting = some w) :
    ∃ k s', 1 ≤ k ∧ k ≤ max w.timeout 1 ∧ C06.run s [] (List.replicate k .tick) = some (.ok (s', [])) ∧
      s'.waiting = none := by
  obtain ⟨k, s', k1, k2, kr, kw, _, _⟩ := Quiesce.decided_within w.timeout s w h hS hw (Nat.le_refl _)
  exact ⟨k, s', k1, k2, kr, kw⟩

/-- **quiesce_taphold_fresh**: the same from start-up, hypotheses on the configuration and the list
of inputs only, the bound a function of the configuration: `N ≥ 32 (T + d + I + 2) + T + 2 d + I + 1`
with `T` the largest hold timeout and `I` the largest tap-hold interval. -/
theorem quiesce_taphold_fresh (cfg : LCfg) (hc : Quiesce.CfgH cfg) (hs : Quiesce.CfgSafeH cfg) (tv2 dfl qth : Bool)
    (d : Nat) (ins : List C06.In) (hP : Quiesce.PressesOK cfg ins) (hbal : Quiesce.downs [] ins = [])
    (hroom : C06.run { cfg := cfg, transV2 := tv2, delegateToFirstLayer := dfl, quickTapHoldTimeout := qth,
                       oneshot := { pauseInputProcessingDelay := d } } [] ins ≠ none)
    (N : Nat) (hN : (Quiesce.maxHoldTimeout cfg + d + Quiesce.maxTapInterval cfg + 2) * QUEUE_SIZE +
      Quiesce.maxHoldTimeout cfg + 2 * d + Quiesce.maxTapInterval cfg + 1 ≤ N) :
    ∃ s1 s2, C06.run { cfg := cfg, transV2 := tv2, delegateToFirstLayer := dfl, quickTapHoldTimeout := qth,
                       oneshot := { pauseInputProcessingDelay := d } } [] ins = some (.ok (s1, [])) ∧
      C06.run s1 [] (List.replicate N .tick) = some (.ok (s2, [])) ∧ Quiesce.LayoutAtRest s2 := by
  have h0 := Quiesce.init_hinv cfg hc _ _ (Quiesce.hBound_max cfg) tv2 dfl qth d
  have hS := Quiesce.init_safe_H cfg hs tv2 dfl qth d
  rcases Quiesce.run_never_crashes_H ins _ [] h0 hS hP with hn | ⟨s1, hr, _⟩
  · exact absurd hn hroom
  · rw [hbal] at hr
    have i1 := Quiesce.run_hinv ins _ [] h0 s1 [] hr
    obtain ⟨s2, r2, a2⟩ := quiesce_taphold _ _ _ d h0 hS ins hP s1 hr N (by
      have := i1.qlen
      have h2 : (Quiesce.maxHoldTimeout cfg + d + Quiesce.maxTapInterval cfg + 2) * s1.queue.length ≤
          (Quiesce.maxHoldTimeout cfg + d + Quiesce.maxTapInterval cfg + 2) * QUEUE_SIZE := Nat.mul_le_mul_left _ this
      omega)
    exact ⟨s1, s2, hr, r2, a2⟩

/-- non-vacuity: a layer-tap key of the release variant (hold: layer 1, 200 ticks), a mod-tap key of
the default variant with a tap-hold interval (hold: LShift, 150 ticks, interval 100), two plain keys,
one of them remapped on the upper layer -/
def thCfg : LCfg :=
  { layers := [
      [((0, 30), .holdTap 200 (.layer 1) (.keyCode 30) (.layer 1) .permissiveHold 0),
       ((0, 31), .holdTap 150 (.keyCode 42) (.keyCode 31) (.keyCode 42) .default 100),
       ((0, 32), .keyCode 32), ((0, 18), .multipleKeyCodes [29, 18])],
      [((0, 32), .keyCode 45)]],
    srcKeys := [(30, .keyCode 30), (31, .keyCode 31), (32, .keyCode 32), (18, .keyCode 18)] }

/-- the layer-tap key held while another key is tapped, then the mod-tap key tapped twice quickly and
everything released in a burst -/
def thHist : List C06.In :=
  [.ev (.press (0, 30)), .tick, .ev (.press (0, 32)), .tick, .ev (.release (0, 32)), .tick, .tick,
   .ev (.press (0, 31)), .ev (.release (0, 31)), .ev (.press (0, 31)), .ev (.press (0, 18)),
   .ev (.release (0, 30)), .ev (.release (0, 18)), .ev (.release (0, 31))]

theorem thCfg_frag : Quiesce.CfgH thCfg := by
  refine ⟨?_, ?_⟩
  · intro tbl ht e he
    simp only [thCfg, List.mem_cons, List.mem_nil_iff, or_false] at ht
    rcases ht with rfl | rfl
    · simp only [List.mem_cons, List.mem_nil_iff, or_false] at he
      rcases he with rfl | rfl | rfl | rfl <;> simp [Quiesce.FragH, C06.Simple]
    · simp only [List.mem_cons, List.mem_nil_iff, or_false] at he
      subst he; simp [Quiesce.FragH]
  · intro e he
    simp only [thCfg, List.mem_cons, List.mem_nil_iff, or_false] at he
    rcases he with rfl | rfl | rfl | rfl <;> simp [Quiesce.FragH]

theorem thCfg_safe : Quiesce.CfgSafeH thCfg := by
  refine ⟨rfl, by decide, ?_, ?_⟩
  · intro tbl ht e he
    simp only [thCfg, List.mem_cons, List.mem_nil_iff, or_false] at ht
    rcases ht with rfl | rfl
    · simp only [List.mem_cons, List.mem_nil_iff, or_false] at he
      rcases he with rfl | rfl | rfl | rfl <;> simp [Quiesce.ActSafeH, Quiesce.SimpleSafe, thCfg]
    · simp only [List.mem_cons, List.mem_nil_iff, or_false] at he
      subst he; simp [Quiesce.ActSafeH]
  · intro e he
    simp only [thCfg, List.mem_cons, List.mem_nil_iff, or_false] at he
    rcases he with rfl | rfl | rfl | rfl <;> exact ⟨by simp [Quiesce.ActSafeH], fun h => by cases h⟩

/-- the hypotheses of `quiesce_taphold_fresh` hold of this configuration and history (ten events),
with rapid-event delay 5: 32 · (200 + 5 + 100 + 2) + 200 + 10 + 100 + 1 = 10135 quiet ticks leave the
layout at rest -/
example : ∃ s1 s2, C06.run { cfg := thCfg, oneshot := { pauseInputProcessingDelay := 5 } } [] thHist
      = some (.ok (s1, [])) ∧
    C06.run s1 [] (List.replicate 10135 .tick) = some (.ok (s2, [])) ∧ Quiesce.LayoutAtRest s2 := by
  have hP : Quiesce.PressesOK thCfg thHist := by
    intro c hc
    simp only [thHist, List.mem_cons, List.mem_nil_iff, or_false, C06.In.ev.injEq, Ev.press.injEq,
      reduceCtorEq, false_or, or_false] at hc
    rcases hc with rfl | rfl | rfl | rfl | rfl <;> exact ⟨by decide, by decide⟩
  have hbal : Quiesce.downs [] thHist = [] := by decide
  have hT : Quiesce.maxHoldTimeout thCfg = 200 := by
    simp [Quiesce.maxHoldTimeout, Quiesce.listMax, thCfg, Quiesce.htT]
  have hI : Quiesce.maxTapInterval thCfg = 100 := by
    simp [Quiesce.maxTapInterval, Quiesce.listMax, thCfg, Quiesce.htI]
  have hroom : C06.run { cfg := thCfg, oneshot := { pauseInputProcessingDelay := 5 } } [] thHist ≠ none := by
    obtain ⟨s', hr, _⟩ := Quiesce.run_defined_H thHist _ []
      (Quiesce.init_hinv thCfg thCfg_frag _ _ (Quiesce.hBound_max _) true false false 5)
      (Quiesce.init_safe_H thCfg thCfg_safe true false false 5) hP (by decide)
    rw [hr]; exact fun h => by cases h
  exact quiesce_taphold_fresh thCfg thCfg_frag thCfg_safe true false false 5 thHist hP hbal hroom 10135
    (by rw [hT, hI]; decide)

/-- a state with a tap-hold key undecided and its release already queued -/
def thWaiting : Layout :=
  { cfg := thCfg, oneshot := { pauseInputProcessingDelay := 5 },
    waiting := some { coord := (0, 30), timeout := 200, delay := 0, ticks := 0, hold := .layer 1,
                      tap := .keyCode 30, timeoutAction := .layer 1, config := .holdTap .permissiveHold,
                      layerStack := [], prevQueueLen := 255 },
    queue := [⟨.release (0, 30), 0⟩] }

/-- it meets the hypotheses of `taphold_decided_within_T` -/
example : ∃ k s', 1 ≤ k ∧ k ≤ 200 ∧
    C06.run thWaiting [] (List.replicate k .tick) = some (.ok (s', [])) ∧ s'.waiting = none := by
  refine taphold_decided_within_T 200 100 5 thWaiting _ ?_ ?_ rfl
  · refine ⟨rfl, rfl, rfl, rfl, fun _ h => (by cases h), rfl, rfl, by decide, ?_, thCfg_frag, ?_, by decide,
      ⟨trivial, trivial⟩, fun _ h => (by cases h), by decide⟩
    · intro w hw
      injection hw with hw; subst hw
      exact ⟨⟨⟨_, rfl⟩, trivial, trivial, trivial, Nat.le_refl _⟩, rfl, Or.inr ⟨_, List.mem_cons_self, rfl⟩⟩
    · have := Quiesce.hBound_max thCfg
      have hT : Quiesce.maxHoldTimeout thCfg = 200 := by
        simp [Quiesce.maxHoldTimeout, Quiesce.listMax, thCfg, Quiesce.htT]
      have hI : Quiesce.maxTapInterval thCfg = 100 := by
        simp [Quiesce.maxTapInterval, Quiesce.listMax, thCfg, Quiesce.htI]
      rw [hT, hI] at this
      exact this
  · refine ⟨thCfg_safe, by decide, fun _ h => (by cases h), ?_, ?_⟩
    · intro w hw
      injection hw with hw; subst hw
      refine ⟨fun v hv => ?_, (fun v hv => by cases hv), fun v hv => ?_⟩ <;>
        (injection hv with hv; subst hv; decide)
    · intro q hq c hc
      have : q = ⟨.release (0, 30), 0⟩ := by
        simpa [thWaiting] using hq
      subst this; cases hc

end KVerif.C01
