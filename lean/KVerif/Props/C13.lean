/-
C13 — global overrides substitute exactly the configured combination, then let go.
Property theorems only; helper lemmas are in KVerif/Lemmas/Override*.lean.

Model: KVerif/Model/Override.lean (key_override.rs; the override/emission slice of
src/kanata/mod.rs; the plain-key slice of keyberon's Layout).  `tbl` is the list of overrides in
the order the configuration lists them, `Overrides.new tbl` the grouped table the code works on.
-/
import KVerif.Lemmas.OverrideSpec
import KVerif.Gen.OverrideTables
namespace KVerif.Override

/-! ## Construction: `Override::try_new`, `Overrides::new` -/

/-- **try_new_spec** (full).  `Override::try_new` accepts exactly the pairs of lists with one
non-modifier key each, and splits them into that key and the modifiers (order and repetitions of
the modifiers kept as written). -/
theorem try_new_spec (ins outs : List Nat) (o : Override) :
    Override.tryNew ins outs = .ok o ↔
      ins.filter (fun k => !isMod k) = [o.inKey] ∧ outs.filter (fun k => !isMod k) = [o.outKey] ∧
      o.inMods = ins.filter isMod ∧ o.outMods = outs.filter isMod := by
  unfold Override.tryNew
  constructor
  · intro h
    split at h
    · cases h
    · cases h
    · rename_i i hi
      split at h
      · cases h
      · cases h
      · rename_i k hk
        cases h
        exact ⟨hi, hk, rfl, rfl⟩
  · rintro ⟨h1, h2, h3, h4⟩
    rw [h1, h2]
    cases o
    simp_all

/-- **try_new_wf** (full).  What the rest of the code relies on: `in_mod_oscs` holds modifiers only
(so `get_mod_mask`'s `expect("mod only")` cannot fire) and the trigger key is not a modifier. -/
theorem try_new_wf (ins outs : List Nat) (o : Override) (h : Override.tryNew ins outs = .ok o) :
    o.WF := by
  obtain ⟨h1, _, h3, _⟩ := (try_new_spec ins outs o).mp h
  constructor
  · intro m hm
    rw [h3] at hm
    exact (List.mem_filter.mp hm).2
  · have : o.inKey ∈ ins.filter (fun k => !isMod k) := by rw [h1]; simp
    simpa using (List.mem_filter.mp this).2

/-- **table_grouping** (full).  `Overrides::new` files every override under its trigger key and
keeps the configuration's order within a key; a key without overrides has no entry. -/
theorem table_grouping (tbl : List Override) (k : Nat) :
    ((Overrides.new tbl).get k).getD [] = tbl.filter (fun o => o.inKey == k) ∧
      ((Overrides.new tbl).isEmpty = true ↔ tbl = []) := by
  constructor
  · rw [← groupOf_new]
    rcases get_eq_groupOf (Overrides.new tbl) k with ⟨h1, h2⟩ | h1
    · rw [h1, h2]; rfl
    · rw [h1]; rfl
  · rw [isEmpty_new]; simp

/-- **override_no_crash** (full).  For a table made of `try_new` results, neither `override_keys`
on any key list and any scratch state, nor any history through the pipeline, reaches the `expect`
in `get_mod_mask`. -/
theorem override_no_crash (tbl : List Override) (hwf : ∀ o ∈ tbl, o.WF) :
    (∀ ks st, ∃ r, (Overrides.new tbl).overrideKeys ks st = .ok r) ∧
      (∀ roa steps, ∃ r, Pipe.run (Overrides.new tbl) roa steps Pipe.init 0 = .ok r) :=
  ⟨overrideKeys_ok tbl hwf, fun roa steps => run_ok tbl hwf roa steps Pipe.init 0⟩

/-! ## The key-list transformation -/

/- `Fires tbl ks o` (Lemmas/OverridePass.lean): `o`'s (non-modifier) key occurs in `ks`, and among the
overrides of that key, in table order, `o` is the first of the longest ones all of whose modifiers
occur *before that occurrence*:
  ∃ l1 l2, ks = l1 ++ o.inKey :: l2 ∧ isMod o.inKey = false ∧
    FirstLongest l1 (tbl.filter (·.inKey == o.inKey)) o -/

/-- **ovr_characterisation** (full).  For every table of `try_new` results, every key list (any
length, repetitions allowed) and every incoming scratch state: `override_keys` returns the keys
that belong to no firing override's combination, in their original order, followed by the output
keys of the firing overrides without repetition; the scratch state holds exactly those two sets.
Which overrides fire is `Fires`: most modifiers wins, ties go to the earlier table entry, and a
modifier counts only if it precedes the key in the list. -/
theorem ovr_characterisation (tbl : List Override) (hwf : ∀ o ∈ tbl, o.WF) (hne : tbl ≠ [])
    (ks : List Nat) (st : OverrideStates) :
    ∃ R A, (Overrides.new tbl).overrideKeys ks st =
        .ok (ks.filter (fun k => !R.contains k) ++ A, ⟨modsOf ks 0, R, A⟩) ∧
      R.Nodup ∧ A.Nodup ∧
      (∀ x, x ∈ R ↔ ∃ o, Fires tbl ks o ∧ x ∈ o.combo) ∧
      (∀ x, x ∈ A ↔ ∃ o, Fires tbl ks o ∧ x ∈ o.outs) := by
  refine ⟨_, _, overrideKeys_eq tbl hwf hne ks st, nodup_remOf List.nodup_nil,
    nodup_addOf List.nodup_nil, ?_, ?_⟩
  · intro x; simp [mem_remOf, fires_iff_applied]
  · intro x; simp [mem_addOf, fires_iff_applied]

/-- **ovr_longest_wins** (full).  `update_keys` for key `k`, called with the `mods_pressed` mask
accumulated over the keys `l1` visited before (`modsOf l1 0`), adds the keys of the selected
override `sel` (or nothing), where `sel = some w` iff `w` is an override of `k` whose modifiers
are all in `l1`, no matching override of `k` has more modifiers (`in_mod_oscs.len()`), and every
matching override of `k` listed before `w` has strictly fewer — and `sel = none` iff none matches. -/
theorem ovr_longest_wins (tbl : List Override) (hwf : ∀ o ∈ tbl, o.WF) (l1 : List Nat) (k : Nat)
    (add rem : List Nat) :
    ∃ sel, (Overrides.new tbl).updateKeys k (modsOf l1 0) add rem =
        .ok (match sel with
             | some w => (w.addOverrideKeys add, w.addRemovedKeys rem)
             | none => (add, rem)) ∧
    (∀ w, sel = some w ↔
      ∃ g1 g2, tbl.filter (fun o => o.inKey == k) = g1 ++ w :: g2 ∧ w.modsIn l1 = true ∧
        (∀ o ∈ g1, o.modsIn l1 = true → o.inMods.length < w.inMods.length) ∧
        (∀ o ∈ g2, o.modsIn l1 = true → o.inMods.length ≤ w.inMods.length)) ∧
    (sel = none ↔ ∀ o ∈ tbl, o.inKey = k → o.modsIn l1 = false) := by
  refine ⟨winnerAt tbl l1 k, updateKeys_eq tbl hwf k l1 add rem, ?_, ?_⟩
  · intro w; exact selectPure_some_iff l1 _ w
  · rw [winnerAt, selectPure_none_iff]
    simp only [List.mem_filter, beq_iff_eq, and_imp]

/-- **ovr_identity_when_no_match** (full).  If no override has its key in the list with all its
modifiers before it — in particular if no override's combination is among the keys at all — the
key list comes back unchanged and nothing is marked for removal or addition. -/
theorem ovr_identity_when_no_match (tbl : List Override) (hwf : ∀ o ∈ tbl, o.WF) (ks : List Nat)
    (st : OverrideStates)
    (hno : ∀ o ∈ tbl, ∀ l1 l2, ks = l1 ++ o.inKey :: l2 → o.modsIn l1 = false) :
    ∃ st', (Overrides.new tbl).overrideKeys ks st = .ok (ks, st') ∧
      (tbl ≠ [] → st'.toRemove = [] ∧ st'.toAdd = []) := by
  cases tbl with
  | nil => exact ⟨st, rfl, fun h => absurd rfl h⟩
  | cons o0 rest =>
    have hap : applied (o0 :: rest) [] ks = [] := by
      apply List.eq_nil_iff_forall_not_mem.mpr
      intro o ho
      obtain ⟨l1, l2, hks, _, g1, g2, hg, hm, _, _⟩ := fires_iff_applied.mpr ho
      have hmem : o ∈ (o0 :: rest).filter (fun o' => o'.inKey == o.inKey) := by rw [hg]; simp
      have := hno o (List.mem_filter.mp hmem).1 l1 l2 hks
      rw [hm] at this; cases this
    have h := overrideKeys_eq (o0 :: rest) hwf (by simp) ks st
    have hf : ks.filter (fun _ => true) = ks := List.filter_eq_self.mpr (fun _ _ => rfl)
    simp only [hap, remOf, addOf, List.foldl_nil, List.contains_nil, Bool.not_false,
      hf, List.append_nil] at h
    exact ⟨_, h, fun _ => ⟨rfl, rfl⟩⟩

theorem ovr_identity_when_not_contained (tbl : List Override) (hwf : ∀ o ∈ tbl, o.WF)
    (ks : List Nat) (st : OverrideStates) (hno : ∀ o ∈ tbl, o.containedIn ks = false) :
    ∃ st', (Overrides.new tbl).overrideKeys ks st = .ok (ks, st') := by
  obtain ⟨st', h, _⟩ := ovr_identity_when_no_match tbl hwf ks st (by
    intro o ho l1 l2 hks
    cases hm : o.modsIn l1 with
    | false => rfl
    | true =>
      have : o.containedIn ks = true := by
        rw [containedIn_iff]
        refine ⟨by rw [hks]; simp, ?_⟩
        intro m hmm
        have := (o.modsIn_iff l1).mp hm m hmm
        rw [hks]; simp [this]
      rw [hno o ho] at this; cases this)
  exact ⟨st', h⟩

/-- **ovr_substitutes_when_mods_precede** (full, for the code's notion of "contains").  Let `o`
be an override of the table, let its key occur in the key list with all of `o`'s modifiers
somewhere before that occurrence, and let no other override concern a key of the list.  Then the
OS-bound list is the key list minus `o`'s key and `o`'s modifiers (everything else in its
original order), followed by `o`'s output keys without repetition — exactly as written when the
output list is written without repetition. -/
theorem ovr_substitutes_when_mods_precede (tbl : List Override) (hwf : ∀ o ∈ tbl, o.WF)
    (o : Override) (ho : o ∈ tbl) (pre post : List Nat) (st : OverrideStates)
    (hpre : ∀ m ∈ o.inMods, m ∈ pre)
    (hother : ∀ o' ∈ tbl, o'.inKey ∈ pre ++ o.inKey :: post → o' = o) :
    ∃ st', (Overrides.new tbl).overrideKeys (pre ++ o.inKey :: post) st =
        .ok ((pre ++ o.inKey :: post).filter (fun x => !o.combo.contains x) ++
              o.addOverrideKeys [], st') ∧
      (o.addOverrideKeys []).Nodup ∧ (∀ x, x ∈ o.addOverrideKeys [] ↔ x ∈ o.outs) ∧
      (o.outs.Nodup → o.addOverrideKeys [] = o.outs) := by
  have hne : tbl ≠ [] := fun h => by rw [h] at ho; cases ho
  have hgrp : ∀ o' ∈ tbl.filter (fun o' => o'.inKey == o.inKey), o' = o := by
    intro o' ho'
    have := List.mem_filter.mp ho'
    exact hother o' this.1 (by simp [show o'.inKey = o.inKey by simpa using this.2])
  -- `o` fires at the given occurrence: its group consists of copies of `o` only
  have hfire : o ∈ applied tbl [] (pre ++ o.inKey :: post) := by
    apply fires_iff_applied.mp
    refine ⟨pre, post, rfl, (hwf o ho).2, ?_⟩
    have hmem : o ∈ tbl.filter (fun o' => o'.inKey == o.inKey) := by simp [List.mem_filter, ho]
    cases hg : tbl.filter (fun o' => o'.inKey == o.inKey) with
    | nil => rw [hg] at hmem; cases hmem
    | cons h t =>
      have hh : h = o := hgrp h (by rw [hg]; simp)
      subst hh
      refine ⟨[], t, rfl, (h.modsIn_iff pre).mpr hpre, by simp, ?_⟩
      intro o' ho' _
      have := hgrp o' (by rw [hg]; simp [ho'])
      subst this; exact Nat.le_refl _
  have hall : ∀ o' ∈ applied tbl [] (pre ++ o.inKey :: post), o' = o := by
    intro o' ho'
    have hf := fires_iff_applied.mpr ho'
    have hc := hf.contained
    exact hother o' hc.1 ((containedIn_iff o' _).mp hc.2).1
  have hR : ∀ x, x ∈ remOf (applied tbl [] (pre ++ o.inKey :: post)) [] ↔ x ∈ o.combo := by
    intro x
    rw [mem_remOf]
    constructor
    · rintro (h | ⟨o', ho', hx⟩)
      · cases h
      · rw [hall o' ho'] at hx; exact hx
    · intro hx; exact Or.inr ⟨o, hfire, hx⟩
  have hfil : (pre ++ o.inKey :: post).filter
        (fun k => !(remOf (applied tbl [] (pre ++ o.inKey :: post)) []).contains k) =
      (pre ++ o.inKey :: post).filter (fun x => !o.combo.contains x) := by
    apply List.filter_congr
    intro x _
    have := hR x
    by_cases hx : x ∈ o.combo
    · simp [hx, this.mpr hx]
    · have hx' : x ∉ remOf (applied tbl [] (pre ++ o.inKey :: post)) [] := fun h => hx (this.mp h)
      simp [hx, hx']
  have hA := addOf_all_same o _ hall (fun h => by rw [h] at hfire; cases hfire)
  have h := overrideKeys_eq tbl hwf hne (pre ++ o.inKey :: post) st
  rw [hfil, hA] at h
  exact ⟨_, h, nodup_addOverrideKeys List.nodup_nil, fun x => by simp [mem_addOverrideKeys],
    addOverrideKeys_nil_of_nodup o⟩

/-- **ovr_substitutes_any_order_counterexample** (counterexample).  The literal statement — the same
conclusion whenever the key list merely *contains* the combination — is false of the code:
`(defoverrides (lsft a) (b))` on the key list `[a, lsft]` leaves the list as it is (the OS sees
`a` and `lsft`), while the statement requires `b`.  `mods_pressed` is accumulated during the same
pass that looks the keys up, so a modifier that follows its key is not seen. -/
theorem ovr_substitutes_any_order_counterexample :
    ¬ (∀ (tbl : List Override) (o : Override) (ks : List Nat) (st : OverrideStates),
        (∀ o ∈ tbl, o.WF) → o ∈ tbl → o.containedIn ks = true →
        (∀ o' ∈ tbl, o'.inKey ∈ ks → o' = o) →
        ∃ st', (Overrides.new tbl).overrideKeys ks st =
          .ok (ks.filter (fun x => !o.combo.contains x) ++ o.addOverrideKeys [], st')) := by
  intro h
  let o : Override := ⟨30, 48, [42], []⟩
  obtain ⟨st', hst⟩ := h [o] o [30, 42] OverrideStates.new
    (by intro o' ho'; simp at ho'; subst ho'; exact ⟨by decide, by decide⟩)
    (by simp) (by decide) (by intro o' ho' _; simpa using ho')
  have hreal : (Overrides.new [o]).overrideKeys [30, 42] OverrideStates.new =
      .ok ([30, 42], ⟨2, [], []⟩) := rfl
  rw [hreal] at hst
  injection hst with h1
  injection h1 with h2 _
  exact absurd h2 (by decide)

/-- the same witness against the order-free specification used as oracle -/
theorem spec_counterexample :
    let o : Override := ⟨30, 48, [42], []⟩
    specHeld [o] [30, 42] = some [48] ∧ lateMod [o] [30, 42] = true ∧
    (Overrides.new [o]).overrideKeys [30, 42] OverrideStates.new = .ok ([30, 42], ⟨2, [], []⟩) ∧
    (Overrides.new [o]).overrideKeys [42, 30] OverrideStates.new = .ok ([48], ⟨2, [42, 30], [48]⟩) :=
  ⟨rfl, rfl, rfl, rfl⟩

/-- **ovr_outside_untouched** (full).  The keys that belong to no firing override's combination
survive with their multiplicity and in their original relative order, as a prefix of the result;
everything after that prefix is output keys of firing overrides. -/
theorem ovr_outside_untouched (tbl : List Override) (hwf : ∀ o ∈ tbl, o.WF) (ks : List Nat)
    (st : OverrideStates) :
    ∃ kept A st', (Overrides.new tbl).overrideKeys ks st = .ok (kept ++ A, st') ∧
      kept.Sublist ks ∧
      (∀ x, (¬ ∃ o, Fires tbl ks o ∧ x ∈ o.combo) → kept.count x = ks.count x) ∧
      (∀ x, (∃ o, Fires tbl ks o ∧ x ∈ o.combo) → x ∉ kept) ∧
      (∀ x ∈ A, ∃ o, Fires tbl ks o ∧ x ∈ o.outs) := by
  cases tbl with
  | nil =>
    refine ⟨ks, [], st, by simp [overrideKeys_empty], List.Sublist.refl _, fun _ _ => rfl, ?_, by simp⟩
    rintro x ⟨o, hf, _⟩
    exact absurd hf.contained.1 (by simp)
  | cons o0 rest =>
    obtain ⟨R, A, h, _, _, hR, hA⟩ := ovr_characterisation (o0 :: rest) hwf (by simp) ks st
    refine ⟨_, A, _, h, List.filter_sublist, ?_, ?_, fun x hx => (hA x).mp hx⟩
    · intro x hx
      apply List.count_filter
      have : x ∉ R := fun hr => hx ((hR x).mp hr)
      simp [this]
    · intro x hx hk
      have : x ∈ R := (hR x).mpr hx
      simp [List.mem_filter, this] at hk

/-- **ovr_stateless** (full).  The OS-bound key list is a function of the table and the current
key list only: whatever a previous call left in `OverrideStates` has no influence (and for a
non-empty table the scratch state it leaves is a function of them too). -/
theorem ovr_stateless (t : Overrides) (ks : List Nat) (st1 st2 : OverrideStates) :
    (t.overrideKeys ks st1).map (·.1) = (t.overrideKeys ks st2).map (·.1) ∧
      (t.isEmpty = false → t.overrideKeys ks st1 = t.overrideKeys ks st2) := by
  unfold Overrides.overrideKeys
  cases t.isEmpty with
  | true => exact ⟨rfl, fun h => by cases h⟩
  | false => exact ⟨rfl, fun _ => rfl⟩

/-- **ovr_lets_go** (full).  A key is in the OS-bound list only if it is among the held keys or
is an output key of an override whose combination is among the held keys.  So once the
combination no longer holds, the next list contains none of that override's output keys — unless
the key is itself held or another override with its combination present outputs it — and the
diff against the previous list (`emit_tracks`) releases it. -/
theorem ovr_lets_go (tbl : List Override) (hwf : ∀ o ∈ tbl, o.WF) (ks : List Nat)
    (st : OverrideStates) (ks' : List Nat) (st' : OverrideStates)
    (h : (Overrides.new tbl).overrideKeys ks st = .ok (ks', st')) (x : Nat) (hx : x ∈ ks') :
    x ∈ ks ∨ ∃ o ∈ tbl, o.containedIn ks = true ∧ x ∈ o.outs := by
  cases tbl with
  | nil =>
    rw [overrideKeys_empty] at h; cases h; exact Or.inl hx
  | cons o0 rest =>
    obtain ⟨R, A, h', _, _, _, hA⟩ := ovr_characterisation (o0 :: rest) hwf (by simp) ks st
    rw [h'] at h; cases h
    rcases List.mem_append.mp hx with hx | hx
    · exact Or.inl (List.mem_filter.mp hx).1
    · obtain ⟨o, hf, hxo⟩ := (hA x).mp hx
      exact Or.inr ⟨o, hf.contained.1, hf.contained.2, hxo⟩

/-- **ovr_mods_come_back** (full).  A held key (in particular a still-held modifier) that belongs
to the combination of no override whose combination is among the held keys is in the OS-bound
list. -/
theorem ovr_mods_come_back (tbl : List Override) (hwf : ∀ o ∈ tbl, o.WF) (ks : List Nat)
    (st : OverrideStates) (ks' : List Nat) (st' : OverrideStates)
    (h : (Overrides.new tbl).overrideKeys ks st = .ok (ks', st')) (m : Nat) (hm : m ∈ ks)
    (hfree : ∀ o ∈ tbl, o.containedIn ks = true → m ∉ o.combo) : m ∈ ks' := by
  cases tbl with
  | nil => rw [overrideKeys_empty] at h; cases h; exact hm
  | cons o0 rest =>
    obtain ⟨R, A, h', _, _, hR, _⟩ := ovr_characterisation (o0 :: rest) hwf (by simp) ks st
    rw [h'] at h; cases h
    apply List.mem_append_left
    have : m ∉ R := by
      intro hr
      obtain ⟨o, hf, hmo⟩ := (hR m).mp hr
      exact hfree o hf.contained.1 hf.contained.2 hmo
    simp [List.mem_filter, hm, this]

/-! ## The statement itself, order-free, and where the code parts from it -/

/-- **ovr_meets_statement_when_mods_precede** (full under the named hypothesis; see
`ovr_statement_partial`).  `specHeld` is the statement read literally: for every held key take the
overrides of that key whose combination is *contained* in the held keys, let the one with the most
modifiers win, remove the winners' combinations, add their outputs (a set; `none` where the
statement does not determine the winner).  Whenever no modifier of a contained combination comes
after an occurrence of its key (`lateMod = false`), the set of keys `override_keys` produces is
exactly that set — for every table, every key list, every scratch state. -/
theorem ovr_meets_statement_when_mods_precede (tbl : List Override) (hwf : ∀ o ∈ tbl, o.WF)
    (ks : List Nat) (st : OverrideStates) (S : List Nat)
    (hlate : lateMod tbl ks = false) (hs : specHeld tbl ks = some S) :
    ∃ ks' st', (Overrides.new tbl).overrideKeys ks st = .ok (ks', st') ∧ ∀ x, x ∈ ks' ↔ x ∈ S := by
  unfold specHeld at hs
  simp only at hs
  split at hs
  · cases hs
  · rename_i hany
    have hall : ∀ k ∈ ks, (specWinner tbl ks k).isSome = true := by
      intro k hk
      have : ¬ (specWinner tbl ks k).isNone = true := by
        intro hn
        exact hany (List.any_eq_true.mpr ⟨_, List.mem_map.mpr ⟨k, hk, rfl⟩, hn⟩)
      cases h : specWinner tbl ks k with
      | none => simp [h] at this
      | some _ => rfl
    have hw := spec_winners_eq_applied hwf hlate [] ks rfl hall
    rw [hw] at hs
    cases hs
    cases tbl with
    | nil =>
      refine ⟨ks, st, rfl, ?_⟩
      intro x
      simp [mem_sortDedup, applied_nil_tbl]
    | cons o0 rest =>
      refine ⟨_, _, overrideKeys_eq (o0 :: rest) hwf (by simp) ks st, ?_⟩
      intro x
      simp only [mem_sortDedup, List.mem_append, List.mem_filter, Bool.not_eq_true',
        List.contains_eq_mem, decide_eq_false_iff_not, mem_remOf, mem_addOf, List.mem_flatMap,
        List.not_mem_nil, false_or]

/-- **ovr_statement_partial** (partial).  Full statement: for every table, key list and scratch
state with `specHeld tbl ks = some S`, the keys `override_keys` produces are exactly `S`.  Proved
above under the extra hypothesis `lateMod tbl ks = false`; without it the statement is false of
the code (`ovr_substitutes_any_order_counterexample`, `spec_counterexample`): what is missing is
exactly the inputs in which a modifier of a contained combination follows its key.  This theorem
shows that the hypothesis cannot be dropped and is the only thing in the way: on the witness both
readings are defined and differ. -/
theorem ovr_statement_partial :
    (∀ (tbl : List Override) (ks : List Nat) (st : OverrideStates) (S : List Nat),
      (∀ o ∈ tbl, o.WF) → lateMod tbl ks = false → specHeld tbl ks = some S →
      ∃ ks' st', (Overrides.new tbl).overrideKeys ks st = .ok (ks', st') ∧ ∀ x, x ∈ ks' ↔ x ∈ S) ∧
    ¬ (∀ (tbl : List Override) (ks : List Nat) (st : OverrideStates) (S : List Nat),
      (∀ o ∈ tbl, o.WF) → specHeld tbl ks = some S →
      ∃ ks' st', (Overrides.new tbl).overrideKeys ks st = .ok (ks', st') ∧ ∀ x, x ∈ ks' ↔ x ∈ S) := by
  refine ⟨fun tbl ks st S hwf hl hs => ovr_meets_statement_when_mods_precede tbl hwf ks st S hl hs, ?_⟩
  intro h
  obtain ⟨ks', st', hk, hx⟩ := h [⟨30, 48, [42], []⟩] [30, 42] OverrideStates.new [48]
    (by intro o' ho'; simp at ho'; subst ho'; exact ⟨by decide, by decide⟩) rfl
  have hreal : (Overrides.new [⟨30, 48, [42], []⟩]).overrideKeys [30, 42] OverrideStates.new =
      .ok ([30, 42], ⟨2, [], []⟩) := rfl
  rw [hreal] at hk
  injection hk with h1
  injection h1 with h2 _
  subst h2
  have := (hx 30).mp (by simp)
  simp at this

/-! ## From the key list to the OS -/

/-- **emission** (full).  `handle_keystate_changes` turns two consecutive key lists into OS events
such that, if the OS held exactly the keys of the previous list, it now holds exactly the keys of
the current one; in particular every key that left the list gets a release event. -/
theorem emission (prev cur held : List Nat) (h : ∀ x, x ∈ held ↔ x ∈ prev) :
    (∀ x, x ∈ osRun held (emitReleases prev cur ++ emitPresses cur prev) ↔ x ∈ cur) ∧
      (∀ k ∈ prev, k ∉ cur → OsEv.up k ∈ emitReleases prev cur) :=
  ⟨emit_tracks prev cur held h, fun k h1 h2 => release_emitted prev cur k h1 h2⟩

/-- **pipeline_os_sees_override_of_held** (full).  For every table of `try_new` results, with
release-on-activation on or off, after every history of press/release events and ticks (any
length, physically consistent or not) followed by one more tick: the set of keys the OS holds is
exactly the set of keys `override_keys` returns for the keys the layout holds in that tick. -/
theorem pipeline_os_sees_override_of_held (tbl : List Override) (roa : Bool) (steps : List Step)
    (p p' : Pipe) (evs : List (Nat × OsEv)) (evs' : List OsEv)
    (hrun : Pipe.run (Overrides.new tbl) roa steps Pipe.init 0 = .ok (p, evs))
    (htick : p.tick (Overrides.new tbl) roa = .ok (p', evs')) :
    ∃ st', (Overrides.new tbl).overrideKeys p.preKeys p.ost = .ok (p'.prev, st') ∧
      ∀ x, x ∈ osRun [] (evs.map (·.2) ++ evs') ↔ x ∈ p'.prev := by
  obtain ⟨st', h1, _⟩ := tick_prev htick
  refine ⟨st', h1, ?_⟩
  intro x
  rw [osRun_append]
  exact tick_tracks htick (fun y => run_tracks _ roa steps Pipe.init p 0 evs [] hrun (by simp [Pipe.init]) y) x

/-- **pipeline_lets_go** (full).  After any history and one more tick: a key is down at the OS only
if the layout holds it in that tick or it is an output key of an override whose combination the
layout holds in that tick.  Hence when the combination has ended, that override's output keys are
up again (unless held themselves or output by another override whose combination is held); and a
key the layout holds that belongs to no such override's combination — a still-held modifier — is
down.  When the layout holds nothing, nothing is down. -/
theorem pipeline_lets_go (tbl : List Override) (hwf : ∀ o ∈ tbl, o.WF) (roa : Bool)
    (steps : List Step) (p p' : Pipe) (evs : List (Nat × OsEv)) (evs' : List OsEv)
    (hrun : Pipe.run (Overrides.new tbl) roa steps Pipe.init 0 = .ok (p, evs))
    (htick : p.tick (Overrides.new tbl) roa = .ok (p', evs')) :
    (∀ x, x ∈ osRun [] (evs.map (·.2) ++ evs') →
      x ∈ p.preKeys ∨ ∃ o ∈ tbl, o.containedIn p.preKeys = true ∧ x ∈ o.outs) ∧
    (∀ m ∈ p.preKeys, (∀ o ∈ tbl, o.containedIn p.preKeys = true → m ∉ o.combo) →
      m ∈ osRun [] (evs.map (·.2) ++ evs')) ∧
    (p.preKeys = [] → osRun [] (evs.map (·.2) ++ evs') = []) := by
  obtain ⟨st', h1, h2⟩ := pipeline_os_sees_override_of_held tbl roa steps p p' evs evs' hrun htick
  refine ⟨?_, ?_, ?_⟩
  · intro x hx
    exact ovr_lets_go tbl hwf _ _ _ _ h1 x ((h2 x).mp hx)
  · intro m hm hfree
    exact (h2 m).mpr (ovr_mods_come_back tbl hwf _ _ _ _ h1 m hm hfree)
  · intro hempty
    apply List.eq_nil_iff_forall_not_mem.mpr
    intro x hx
    rcases ovr_lets_go tbl hwf _ _ _ _ h1 x ((h2 x).mp hx) with h | ⟨o, _, hc, _⟩
    · rw [hempty] at h; cases h
    · rw [hempty, containedIn_iff] at hc
      cases hc.1

/-- **eager_erasure_and_release_on_activation** (full).  After `override_keys`, every layout state
whose key is the (non-modifier) trigger of a firing override is flagged clear-on-next-action and
clear-on-next-release, so the next press drops it and the next release of any key drops it; with
release-on-activation it is dropped at once.  Modifier states are never touched. -/
theorem eager_erasure_and_release_on_activation (removed : List Nat) (states : List NKey) :
    (∀ s ∈ markEager removed states, (∃ r ∈ removed, isMod r = false ∧ r = s.kc) →
        s.clearOnNextAction = true ∧ s.clearOnNextRelease = true) ∧
    (∀ s ∈ releaseOnActivation removed states, ¬ ∃ r ∈ removed, isMod r = false ∧ r = s.kc) ∧
    (∀ s ∈ states, isMod s.kc = true →
        s ∈ markEager removed states ∧ s ∈ releaseOnActivation removed states) := by
  have hany : ∀ (kc : Nat), (removed.any (fun r => !isMod r && r == kc) = true) ↔
      ∃ r ∈ removed, isMod r = false ∧ r = kc := by
    intro kc; simp [List.any_eq_true]
  refine ⟨?_, ?_, ?_⟩
  · intro s hs hr
    simp only [markEager, List.mem_map] at hs
    obtain ⟨s0, _, rfl⟩ := hs
    by_cases h : removed.any (fun r => !isMod r && r == s0.kc) = true
    · simp only [h, if_true]
      simp only [NKey.clearOnNextAction, NKey.clearOnNextRelease, NKF_CLEAR_ON_NEXT_ACTION,
        NKF_CLEAR_ON_NEXT_RELEASE, beq_iff_eq]
      constructor
      · apply Nat.eq_of_testBit_eq; intro i
        simp only [Nat.testBit_and, Nat.testBit_or]
        cases i with
        | zero => simp
        | succ j => simp [Nat.testBit_succ]
      · apply Nat.eq_of_testBit_eq; intro i
        simp only [Nat.testBit_and, Nat.testBit_or]
        match i with
        | 0 => simp
        | 1 => simp [Nat.testBit_succ]
        | j + 2 => simp [Nat.testBit_succ]
    · simp only [h] at hr ⊢
      exact absurd ((hany s0.kc).mpr hr) h
  · intro s hs hr
    simp only [releaseOnActivation, List.mem_filter, Bool.not_eq_true'] at hs
    have := (hany s.kc).mpr hr
    rw [hs.2] at this; cases this
  · intro s hs hm
    have hn : removed.any (fun r => !isMod r && r == s.kc) = false := by
      rw [Bool.eq_false_iff]
      intro h
      obtain ⟨r, _, hr1, hr2⟩ := (hany s.kc).mp h
      rw [hr2, hm] at hr1; cases hr1
    constructor
    · simp only [markEager, List.mem_map]
      exact ⟨s, hs, by simp [hn]⟩
    · simp [releaseOnActivation, List.mem_filter, hs, hn]

/-! ## Tables regenerated from the source -/

/-- **tables_from_source** (full).  `maskForKey` is `mask_for_key` as it stands in the source tree
now, `OsCode::is_modifier` denotes the same eight keys, and the flag constants and capacities of
the layout slice are the source's (`KVerif.Gen.OverrideTables` is regenerated on every run). -/
theorem tables_from_source :
    (∀ p ∈ Gen.ovrMaskArms, maskForKey p.1 = some (2 ^ p.2)) ∧
    Gen.ovrMaskArms.length = 8 ∧
    (∀ k, isMod k = true ↔ k ∈ Gen.ovrMaskArms.map (·.1)) ∧
    (∀ k, isMod k = true ↔ k ∈ Gen.osIsModifier) ∧
    NKF_CLEAR_ON_NEXT_ACTION = Gen.NKF_CLEAR_ON_NEXT_ACTION ∧
    NKF_CLEAR_ON_NEXT_RELEASE = Gen.NKF_CLEAR_ON_NEXT_RELEASE ∧
    QUEUE_SIZE = Gen.LAYOUT_QUEUE_SIZE ∧ STATES_CAP = Gen.LAYOUT_STATES_CAP := by
  refine ⟨by decide, by decide, ?_, ?_, rfl, rfl, rfl, rfl⟩
  · intro k
    simp only [isMod, maskForKey, Gen.ovrMaskArms, List.map_cons, List.map_nil, List.mem_cons,
      List.not_mem_nil, or_false]
    repeat' split
    all_goals simp_all
  · intro k
    simp only [isMod, maskForKey, Gen.osIsModifier, List.mem_cons, List.not_mem_nil, or_false]
    repeat' split
    all_goals simp_all

/-! ## Non-vacuity: concrete, non-trivial instances meet the hypotheses used above

Keys: lctl 29, lsft 42, lalt 56, rctl 97; a 30, b 48, c 46, d 32, 1 2. -/

/-- `(defoverrides (lsft a) (b)  (lsft lctl a) (lalt c)  (lctl a) (d)  (1) (lsft 1)  (lsft 1) (1))` -/
def sampleTable : List Override :=
  [⟨30, 48, [42], []⟩, ⟨30, 46, [42, 29], [56]⟩, ⟨30, 32, [29], []⟩, ⟨2, 2, [], [42]⟩, ⟨2, 2, [42], []⟩]

-- the table is what `try_new` makes of the written lists, hence well-formed
example : [Override.tryNew [42, 30] [48], Override.tryNew [42, 29, 30] [56, 46],
    Override.tryNew [29, 30] [32], Override.tryNew [2] [42, 2], Override.tryNew [42, 2] [2]] =
    sampleTable.map Except.ok := rfl
example : ∀ o ∈ sampleTable, o.WF := by
  intro o ho
  simp only [sampleTable, List.mem_cons, List.not_mem_nil, or_false] at ho
  rcases ho with rfl | rfl | rfl | rfl | rfl <;> exact ⟨by decide, by decide⟩
example : Override.tryNew [42] [48] = .error .inNone ∧ Override.tryNew [30, 48] [48] = .error .inMultiple ∧
    Override.tryNew [42, 30] [42] = .error .outNone ∧ Override.tryNew [30] [30, 48] = .error .outMultiple :=
  ⟨rfl, rfl, rfl, rfl⟩

-- most modifiers wins (`ovr_longest_wins`, `Fires`): lsft, lctl, a → the two-modifier override
example : Fires sampleTable [42, 29, 30] ⟨30, 46, [42, 29], [56]⟩ := fires_iff_applied.mpr (by decide)
example : (Overrides.new sampleTable).overrideKeys [42, 29, 30] OverrideStates.new =
    .ok ([56, 46], ⟨3, [42, 29, 30], [56, 46]⟩) := rfl
-- ties go to the earlier entry: with lctl before a and lsft after, `(lctl a)` fires; with both
-- before, neither one-modifier entry does (the two-modifier entry is longer)
example : Fires sampleTable [29, 30, 42] ⟨30, 32, [29], []⟩ := fires_iff_applied.mpr (by decide)
example : winnerAt [⟨30, 48, [42], []⟩, ⟨30, 32, [29], []⟩] [42, 29] 30 = some ⟨30, 48, [42], []⟩ := rfl
example : winnerAt [⟨30, 32, [29], []⟩, ⟨30, 48, [42], []⟩] [42, 29] 30 = some ⟨30, 32, [29], []⟩ := rfl

-- `ovr_substitutes_when_mods_precede`: `(lsft rctl a) (lalt b)` with rctl, d, lsft before a and c after
example : ∃ st', (Overrides.new [⟨30, 48, [42, 97], [56]⟩]).overrideKeys [97, 32, 42, 30, 46] OverrideStates.new
    = .ok ([32, 46, 56, 48], st') := by
  obtain ⟨st', h, _⟩ := ovr_substitutes_when_mods_precede [⟨30, 48, [42, 97], [56]⟩]
    (by intro o ho; simp at ho; subst ho; exact ⟨by decide, by decide⟩)
    ⟨30, 48, [42, 97], [56]⟩ (by simp) [97, 32, 42] [46] OverrideStates.new (by decide)
    (by intro o' ho' _; simpa using ho')
  exact ⟨st', h⟩

-- `ovr_identity_when_no_match`: a alone, and a before its modifier
example : ∀ o ∈ sampleTable, ∀ l1 l2, [30, 42] = l1 ++ o.inKey :: l2 → o.modsIn l1 = false := by
  intro o ho l1 l2 h
  simp only [sampleTable, List.mem_cons, List.not_mem_nil, or_false] at ho
  rcases ho with rfl | rfl | rfl | rfl | rfl <;>
    (rcases l1 with _ | ⟨x, _ | ⟨y, _ | ⟨z, l⟩⟩⟩ <;>
      first | (simp [Override.modsIn]; done) | (simp at h; done) | simp_all [Override.modsIn])

-- `ovr_meets_statement_when_mods_precede`: hypotheses hold on a list with two firing overrides
example : lateMod sampleTable [42, 30, 2] = false ∧ specHeld sampleTable [42, 30, 2] = some [2, 48] := by
  decide
example : (Overrides.new sampleTable).overrideKeys [42, 30, 2] OverrideStates.new =
    .ok ([48, 2], ⟨2, [42, 30, 2], [48, 2]⟩) := rfl

-- the pipeline theorems: lsft, a, then lsft released (eager erasure drops a), release-on-activation off and on
example : ∃ p evs, Pipe.run (Overrides.new sampleTable) false
    [.ev (.press 42), .tick, .ev (.press 30), .tick, .ev (.release 42), .tick] Pipe.init 0 = .ok (p, evs) ∧
    evs = [(1, .down 42), (2, .up 42), (2, .down 48), (3, .up 48)] ∧ p.preKeys = [] :=
  ⟨_, _, rfl, rfl, rfl⟩
example : ∃ p evs, Pipe.run (Overrides.new sampleTable) true
    [.ev (.press 42), .tick, .ev (.press 30), .tick, .tick] Pipe.init 0 = .ok (p, evs) ∧
    evs = [(1, .down 42), (2, .up 42), (2, .down 48), (3, .up 48), (3, .down 42)] ∧ p.preKeys = [42] :=
  ⟨_, _, rfl, rfl, rfl⟩

/-- Observation (not part of the statement): "most modifiers" is `in_mod_oscs.len()`, so a modifier
written three times outweighs two different ones. -/
example : winnerAt [⟨30, 48, [42, 42, 42], []⟩, ⟨30, 46, [42, 29], []⟩] [42, 29] 30 =
    some ⟨30, 48, [42, 42, 42], []⟩ := rfl

end KVerif.Override
