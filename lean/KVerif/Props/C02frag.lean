/-
C02 (continued) — an accepted configuration never crashes or hangs event processing: the statement IN
FULL on further fragments of the layout model.

`Props/C02.lean` proves the no-crash statement in full on the layered fragment of C04
(`frag04_never_crashes`), for histories that keep fewer than 32 events pending and at most 10 layers
held.  Here the same statement is proved

  1. on the one-shot fragment of C06           (`frag06_never_crashes`),
  2. on the macro fragment of C08              (`frag08_never_crashes`),
  3. on the tap-hold fragment of C05 / C01     (`frag05_never_crashes`),
  4. on their UNION with the layered fragment, `fork`, `one-shot-pause-processing` and custom actions,
     arbitrarily nested                        (`union_never_crashes`, `union_contains_the_fragments`),

for EVERY history of presses (inside the layer table), releases (of any coordinate at all, also of
keys that are not down; repeated presses of a key that is down) and ticks — any order, any timing, any
number of events between two ticks.  In particular the overflow path of `Layout::event` is covered: an
event arriving while 32 are pending flushes every undecided tap-hold key into its hold action and
processes the oldest event at once, which — with 16 one-shot keys active — re-enters `event` through
the overflow of the one-shot table, possibly 32 levels deep.  No bound on pending events, held
layers, active one-shot keys, states, active sequences or history length is assumed:

* **capacities are discharged, not assumed.**  16 active one-shot keys (`ONE_SHOT_MAX_ACTIVE`: the 17th
  pushes the oldest out, whose release is fed back through `event`), 16 deferred releases, 16 other
  pressed keys, 64 states (`push` is refused silently), 4 active sequences (the oldest is evicted and
  what it held is released), 8 extra waiting states (the oldest is dropped), 32 queued events, 12
  layers on the layer stack (after fix 31b82c0; before it: `pinned_layer_stack_counterexample`): none
  of these overflows reaches a crash branch, for any history (`capacities_need_no_hypothesis`).
* what IS assumed, each hypothesis a decidable predicate and each shown to be needed:
  - `RangeU` (configuration): repaired layer stack (`pinned_layer_stack_counterexample`); there is a
    layer; every action is in the fragment and every layer-while-held / one-shot-layer / tap-hold-layer
    target exists (`oneshot_layer_out_of_range_counterexample`, `taphold_layer_out_of_range_counterexample`,
    `C02.layer_target_out_of_range_counterexample`); the defsrc row holds no transparent / use-defsrc item
    (`C02.trans_in_defsrc_counterexample`, `C02.src_in_defsrc_diverges`).  kanata's parser resolves layer
    names and fills the defsrc row with plain key codes.
  - `InTable` (history): every press has row < `rows`, column < `cols` (`press_outside_table_counterexample`);
    releases need no bound.  The event loop only forwards codes in `MAPPED_KEYS` (C11).
  - `StartU` (state): met by a freshly created layout (`startU_init`) and kept by every step
    (`union_run_keeps_conditions`).
  - the recursion budget — `FuelU` for the union (a closed formula in the configuration), `CostU 3997`
    for the macro fragment, nothing for the one-shot and tap-hold fragments (their actions are flat).
    This is an artefact of the MODEL: `doAction` recurses on `FUEL` = 4000 and its `multi` loop spends
    one unit per member, where Rust loops; the re-entered `event` spends it where Rust spends stack
    (`fuel_budget_counterexample`: a flat `multi` of 3998 keys, harmless in Rust, exhausts the model's
    budget).  What it stands for in the real code — unbounded nesting exhausting the stack — is probed
    by the C02 crash oracle, see the remark at `frag04_never_crashes`.
Helper lemmas: Lemmas/NoCrashFrag.lean (`engine` is the induction over the recursion budget).
-/
import KVerif.Lemmas.NoCrashFrag
import KVerif.Props.C01
namespace KVerif.C02
open KVerif.L KVerif.NCF
open KVerif.C04 (In runM)

/-! ## 1. the one-shot fragment -/

/-- **frag06_never_crashes** (full, on the fragment).  For every configuration of the one-shot fragment
of C06 — base and upper layers of keys, output chords, layer-while-held, transparent / unmapped
positions, one-shot keys of all four end variants with any timeout — that is well-formed (`RangeU`),
every state that meets the state conditions (in particular the initial one) and EVERY history of
presses inside the table, releases and ticks, the model of `Layout::event` / `Layout::tick` never takes
a crash branch.  No capacity hypothesis: any number of one-shot keys may be stacked, any number of
events may arrive between two ticks (see the header).  (`RangeU` alone places the configuration in the
union fragment; `CfgFrag` narrows it to the one-shot fragment, whose actions are flat, so that no
recursion budget has to be assumed.) -/
theorem frag06_never_crashes (ins : List In) (s : Layout) (hc : C06.CfgFrag s.cfg) (hr : RangeU s.cfg)
    (hs : StartU s) (ht : InTable s.cfg ins) : ∃ t, runM s ins = .ok t :=
  run_ok (cfgOK_06 hc hr) budget_06 ins s hs.nc ht

/-! ## 2. the macro fragment -/

/-- **frag08_never_crashes** (full, on the fragment).  For every configuration of the macro fragment of
C08 (`CfgM`: keys, no-op, transparent, custom actions, `CancelSequences`, macros and repeating macros
alone or inside `multi`, nested to any depth) that is well-formed and whose actions cost at most 3997
units of fuel (`CostU`; `ucost`: 2 for anything but a `multi`, and for a `multi` 2 + the largest of
(position + 1 + cost) over its members, e.g. `n + 4` for a flat `multi` of `n` keys — the bound is a
model artefact, see `fuel_budget_counterexample`), EVERY history is processed without a crash outcome —
any number of macros started at once (the ring of 4 evicts), any number of events between two ticks. -/
theorem frag08_never_crashes (ins : List In) (s : Layout) (hc : Macro.CfgM s.cfg) (hr : RangeU s.cfg)
    (hd : CostU 3997 s.cfg) (hs : StartU s) (ht : InTable s.cfg ins) : ∃ t, runM s ins = .ok t :=
  run_ok (cfgOK_08 hc hr hd (by decide)) (budget_08 (Nat.le_refl _)) ins s hs.nc ht

/-! ## 3. the tap-hold fragment -/

/-- **frag05_never_crashes** (full, on the fragment).  For every configuration of the tap-hold fragment
(`CfgH`: keys, output chords, layer-while-held, transparent / unmapped positions and tap-hold keys —
any number of them, every variant, any hold timeout and tap-hold interval, hold / tap / timeout actions
a key, an output chord or layer-while-held) that is well-formed, EVERY history is processed without a
crash outcome: whatever is pressed while a key is undecided, however many events pile up (on a full
queue the undecided key takes its hold action and the oldest event is processed at once). -/
theorem frag05_never_crashes (ins : List In) (s : Layout) (hc : Quiesce.CfgH s.cfg) (hr : RangeU s.cfg)
    (hs : StartU s) (ht : InTable s.cfg ins) : ∃ t, runM s ins = .ok t :=
  run_ok (cfgOK_05 hc hr) budget_05 ins s hs.nc ht

/-! ## 4. the union -/

/-- **union_never_crashes** (full, on the union fragment `UAct`).  Configurations built — with
arbitrary nesting of `multi` and `fork` — from keys, output chords, no-op, transparent, use-defsrc,
layer-while-held, layer-switch, release-key / release-layer (C04); one-shot keys (C06); macros,
repeating macros, custom actions, cancel (C08); tap-hold keys (C05); `one-shot-pause-processing`:
if the configuration is well-formed (`RangeU`) and within the recursion budget (`FuelU`), EVERY
history is processed without a crash outcome, from every state that meets `StartU`.
Compared with `frag04_never_crashes` there is no bound on pending events or held layers. -/
theorem union_never_crashes (ins : List In) (s : Layout) (hr : RangeU s.cfg) (hf : FuelU s.cfg)
    (hs : StartU s) (ht : InTable s.cfg ins) : ∃ t, runM s ins = .ok t :=
  run_ok (cfgOK_of_range hr) hf ins s hs.nc ht

/-- **union_run_keeps_conditions**: the state reached meets the state conditions again (with the same
configuration), so the theorem applies to every continuation of the history. -/
theorem union_run_keeps_conditions (ins : List In) (s : Layout) (hr : RangeU s.cfg) (hf : FuelU s.cfg)
    (hs : StartU s) (ht : InTable s.cfg ins) : ∃ s', runL s ins = .ok s' ∧ s'.cfg = s.cfg ∧ StartU s' := by
  obtain ⟨s', h1, h2⟩ := runL_ok (cfgOK_of_range hr) hf ins s hs.nc ht
  exact ⟨s', h1, h2.cfgEq, NC.startU (h2.cfgEq.symm ▸ h2)⟩

/-- **union_contains_the_fragments**: every action of the layered fragment of C04, of the one-shot
fragment of C06, of the macro fragment of C08 and of the tap-hold fragment of C05 whose layer targets
exist (`L` layers) is an action of the union fragment. -/
theorem union_contains_the_fragments (L : Nat) (a : Action) :
    (C04.Frag a → C04.layersIn L a = true → UAct L a = true) ∧
    (C06.Frag a → Quiesce.ActSafe L a → UAct L a = true) ∧
    (Macro.MFrag a → UAct L a = true) ∧
    (Quiesce.FragH a → Quiesce.ActSafeH L a → UAct L a = true) :=
  ⟨fun h1 h2 => (frag04_facts L (ucost a) a (Nat.le_refl _) h1 h2).1, fun h1 h2 => frag06_facts h1 h2,
   fun h => (frag08_facts L (ucost a) a (Nat.le_refl _) h).1, fun h1 h2 => frag05_facts h1 h2⟩

/-- a freshly created layout meets the state conditions (so the theorems apply from start-up) -/
theorem startU_init (cfg : LCfg) (hr : RangeU cfg) (tv2 dfl qth : Bool) (osd : Nat) :
    StartU ({ cfg := cfg, transV2 := tv2, delegateToFirstLayer := dfl, quickTapHoldTimeout := qth,
              oneshot := { pauseInputProcessingDelay := osd } } : Layout) :=
  NCF.startU_init cfg hr.unpack.pos tv2 dfl qth osd

/-! ## Non-vacuity -/

/-- `n` presses of the keys in columns `from .. from + n - 1`, no tick in between -/
def burst (from_ n : Nat) : List In := (List.range n).map fun i => .ev (.press (0, from_ + i))

/-! ### one-shot: 20 one-shot keys, 17 of them tapped one after the other (the 16-entry table
overflows), then 40 more presses of one-shot keys without a single tick (the 32-entry queue overflows
while 16 one-shot keys are active: `event` re-enters itself through `do_action`) -/

def manyOneShots : LCfg :=
  { layers := [((List.range 20).map fun i => ((0, 1 + i), Action.oneShot (.keyCode (100 + i)) 1000 .firstPress)) ++
                 [((0, 30), .oneShot (.layer 1) 500 .firstReleaseOrRepress), ((0, 31), .keyCode 31)],
               [((0, 31), .multipleKeyCodes [42, 31])]],
    srcKeys := [(30, .keyCode 30), (31, .keyCode 31)] }

def manyOneShotsHist : List In :=
  ((List.range 17).flatMap fun i => [.ev (.press (0, 1 + i)), .tick, .ev (.release (0, 1 + i)), .tick]) ++
  burst 1 20 ++ burst 1 20 ++ [.ev (.press (0, 30)), .ev (.release (0, 77)), .tick, .ev (.press (0, 31)), .tick, .tick]

theorem manyOneShots_frag : C06.CfgFrag manyOneShots := by
  refine ⟨?_, ?_⟩
  · intro tbl ht e he
    simp only [manyOneShots, List.mem_cons, List.mem_nil_iff, or_false] at ht
    rcases ht with rfl | rfl
    · rcases List.mem_append.mp he with he | he
      · obtain ⟨i, _, rfl⟩ := List.mem_map.mp he
        simp [C06.Frag, C06.Simple]
      · simp only [List.mem_cons, List.mem_nil_iff, or_false] at he
        rcases he with rfl | rfl <;> simp [C06.Frag, C06.Simple]
    · simp only [List.mem_cons, List.mem_nil_iff, or_false] at he
      subst he; simp [C06.Frag]
  · intro e he
    simp only [manyOneShots, List.mem_cons, List.mem_nil_iff, or_false] at he
    rcases he with rfl | rfl <;> simp [C06.Frag]

example : RangeU manyOneShots := by decide
example : StartU { cfg := manyOneShots } := by decide
example : InTable manyOneShots manyOneShotsHist := by decide

/-- **capacities_need_no_hypothesis**: the theorem applied to the history above — 17 one-shot keys
active in a row, then 43 events without a tick.  The second component (evaluated) shows that the run
really goes through the overflow of both tables: at the end 32 events are still queued and all 16
slots of the one-shot table are in use. -/
theorem capacities_need_no_hypothesis :
    (∃ t, runM { cfg := manyOneShots } manyOneShotsHist = .ok t) ∧
    (match runL { cfg := manyOneShots } (manyOneShotsHist.take (17 * 4 + 40)) with
      | .ok s => some (s.queue.length, s.oneshot.keys.length)
      | .error _ => none) = some (32, 16) :=
  ⟨frag06_never_crashes manyOneShotsHist { cfg := manyOneShots } manyOneShots_frag (by decide) (by decide) (by decide),
   by decide +kernel⟩

/-! ### macros: the configuration of C08 with all macro forms; four macros started on top of each
other, then 40 events in a burst -/

def macroHist : List In :=
  [.ev (.press (0, 2)), .tick, .ev (.press (0, 3)), .tick, .tick, .ev (.press (0, 2)), .ev (.press (0, 2)),
   .ev (.press (0, 2)), .tick, .tick, .tick, .tick, .ev (.release (0, 3))] ++ burst 0 40 ++
  [.tick, .ev (.press (0, 11)), .tick, .tick, .ev (.release (0, 2)), .tick]

example : RangeU C08.sampleCfg := by decide
example : CostU 3997 C08.sampleCfg := by decide
example : StartU { cfg := C08.sampleCfg } := by decide
example : InTable C08.sampleCfg macroHist := by decide

example : ∃ t, runM { cfg := C08.sampleCfg } macroHist = .ok t :=
  frag08_never_crashes macroHist { cfg := C08.sampleCfg } C01.macroCfg_frag (by decide) (by decide) (by decide) (by decide)

/-! ### tap-hold: the configuration of C01 (a layer-tap key of the release variant, a mod-tap key with
a tap-hold interval); both tap-hold keys pressed, 40 events in a burst while they are undecided -/

def tapHoldHist : List In :=
  [.ev (.press (0, 30)), .tick, .ev (.press (0, 32)), .tick, .ev (.release (0, 32)), .tick, .tick,
   .ev (.press (0, 31)), .ev (.release (0, 31)), .ev (.press (0, 31)), .tick, .tick] ++ burst 18 40 ++
  [.tick, .ev (.release (0, 30)), .ev (.release (0, 31)), .ev (.release (0, 31)), .tick, .tick, .tick]

example : RangeU C01.thCfg := by decide
example : InTable C01.thCfg tapHoldHist := by decide

/-- a state in which a tap-hold key is undecided meets the state conditions as well -/
def tapHoldWaiting : Layout :=
  { cfg := C01.thCfg,
    waiting := some { coord := (0, 30), timeout := 150, delay := 0, ticks := 50, hold := .layer 1, tap := .keyCode 30,
                      timeoutAction := .layer 1, config := .holdTap .permissiveHold, layerStack := [0],
                      prevQueueLen := 0 },
    queue := [⟨.press (0, 32), 3⟩] }

example : StartU { cfg := C01.thCfg } ∧ StartU tapHoldWaiting := by decide

example : (∃ t, runM { cfg := C01.thCfg } tapHoldHist = .ok t) ∧ (∃ t, runM tapHoldWaiting tapHoldHist = .ok t) :=
  ⟨frag05_never_crashes tapHoldHist { cfg := C01.thCfg } C01.thCfg_frag (by decide) (by decide) (by decide),
   frag05_never_crashes tapHoldHist tapHoldWaiting C01.thCfg_frag (by decide) (by decide) (by decide)⟩

/-! ### the union: three layers with every kind of action of the union fragment, nested -/

def unionCfg : LCfg :=
  { layers := [
      [((0, 30), .oneShot (.keyCode 42) 500 .firstPress),
       ((0, 31), .holdTap 200 (.layer 1) (.keyCode 31) (.layer 1) .permissiveHold 0),
       ((0, 32), .sequence (C08.sampleEvs ++ [.complete])),
       ((0, 33), .multipleActions [.keyCode 29, .layer 2]),
       ((0, 34), .fork (.keyCode 34) (.multipleKeyCodes [42, 34]) [42]),
       ((0, 35), .defaultLayer 2), ((0, 36), .custom 7), ((0, 37), .cancelSequences),
       ((0, 38), .multipleActions [.oneShot (.layer 1) 50 .firstRelease, .custom 8]),
       ((0, 39), .fork (.holdTap 100 (.keyCode 56) (.keyCode 39) (.keyCode 56) .default 150) (.keyCode 1) [29])],
      [((0, 30), .oneShot (.layer 2) 10 .firstReleaseOrRepress),
       ((0, 33), .multipleActions [.trans, .releaseState (.keyCode 29)]), ((0, 34), .src), ((0, 36), .noOp)],
      [((0, 32), .multipleActions [.repeatableSequence (C08.sampleEvs ++ [.complete]), .custom 0]),
       ((0, 35), .defaultLayer 0), ((0, 36), .oneShotIgnoreEventsTicks 5), ((0, 37), .releaseState (.layer 1))]],
    srcKeys := [(30, .keyCode 30), (31, .keyCode 31), (32, .keyCode 32), (33, .keyCode 33), (34, .keyCode 34),
                (35, .keyCode 35), (36, .keyCode 36), (37, .keyCode 37), (38, .keyCode 38), (39, .keyCode 39)] }

def unionHist : List In :=
  [.ev (.press (0, 30)), .tick, .ev (.release (0, 30)), .tick, .ev (.press (0, 31)), .tick, .ev (.press (0, 33)), .tick,
   .ev (.press (0, 32)), .ev (.press (0, 38)), .tick, .tick, .tick, .ev (.press (0, 39)), .ev (.press (0, 34))] ++
  burst 30 10 ++ burst 30 10 ++ burst 30 10 ++ burst 30 10 ++
  [.tick, .ev (.release (0, 31)), .ev (.release (0, 99)), .tick, .ev (.press (0, 35)), .tick, .ev (.press (0, 36)), .tick] ++
  List.replicate 250 .tick ++ burst 30 10

example : RangeU unionCfg := by decide
example : FuelU unionCfg := by decide +kernel
example : maxCost unionCfg = 7 ∧ pressCost unionCfg = 97 ∧ cfgOsh unionCfg = true := by decide +kernel
example : StartU { cfg := unionCfg } := by decide
example : InTable unionCfg unionHist := by decide +kernel

example : ∃ t, runM { cfg := unionCfg } unionHist = .ok t :=
  union_never_crashes unionHist { cfg := unionCfg } (by decide) (by decide +kernel) (by decide) (by decide +kernel)

/-- the sample configuration of C04 / `frag04_never_crashes` is within the union theorem, with no bound
on pending events or held layers -/
example : RangeU C04.sampleCfg ∧ FuelU C04.sampleCfg ∧ StartU sampleState := ⟨by decide, by decide, by decide⟩

example : ∃ t, runM sampleState (sampleHist ++ burst 30 20 ++ burst 30 20 ++ sampleHist) = .ok t :=
  union_never_crashes _ sampleState (by decide) (by decide) (by decide) (by decide +kernel)

/-! ## Each hypothesis is needed -/

/-- thirteen layer-while-held keys (on both layers, so that they stay reachable while layer 1 is
held) and a plain key; `pinned` = the code before fix 31b82c0 -/
def pinnedCfg (pinned : Bool) : LCfg :=
  { layers := [((List.range 13).map fun i => ((0, 1 + i), Action.layer 1)) ++ [((0, 20), .keyCode 20)],
               (List.range 13).map fun i => ((0, 1 + i), Action.layer 1)],
    srcKeys := [(20, .keyCode 20)], pinnedLayerStack := pinned }

def pinnedHist : List In :=
  ((List.range 13).flatMap fun i => [.ev (.press (0, 1 + i)), .tick]) ++ [.ev (.press (0, 20)), .tick]

/-- **pinned_layer_stack_counterexample**: `RangeU` asks for the repaired layer stack.  On the pinned
code thirteen held layers make the next press panic (`Vec::from_iter overflow` in
`trans_resolution_layer_order`; reproduced on the real code, repaired by 31b82c0); on the repaired
code the same history of the same configuration runs. -/
theorem pinned_layer_stack_counterexample :
    ¬ RangeU (pinnedCfg true) ∧ RangeU (pinnedCfg false) ∧ InTable (pinnedCfg true) pinnedHist ∧
    crashOf (runM { cfg := pinnedCfg true } pinnedHist) = some .layerStackOverflow ∧
    ∃ t, runM { cfg := pinnedCfg false } pinnedHist = .ok t := by
  refine ⟨by decide, by decide, by decide, by decide +kernel, ?_⟩
  exact union_never_crashes pinnedHist { cfg := pinnedCfg false } (by decide) (by decide) (by decide) (by decide)

/-- a one-shot layer key whose layer does not exist -/
def badOneShotCfg : LCfg :=
  { layers := [[((0, 30), .oneShot (.layer 5) 100 .firstPress), ((0, 31), .keyCode 31)]],
    srcKeys := [(30, .keyCode 30), (31, .keyCode 31)] }

/-- **oneshot_layer_out_of_range_counterexample**: the layer targets inside one-shot keys have to exist:
otherwise the press after the one-shot key indexes `self.layers[5]`. -/
theorem oneshot_layer_out_of_range_counterexample :
    ¬ RangeU badOneShotCfg ∧
    crashOf (runM { cfg := badOneShotCfg } [.ev (.press (0, 30)), .tick, .ev (.press (0, 31)), .tick])
      = some (.indexOOB "layers[layer]") := by
  refine ⟨by decide, by decide +kernel⟩

/-- a layer-tap key whose hold layer does not exist -/
def badTapHoldCfg : LCfg :=
  { layers := [[((0, 30), .holdTap 3 (.layer 7) (.keyCode 30) (.layer 7) .default 0), ((0, 31), .keyCode 31)]],
    srcKeys := [(30, .keyCode 30), (31, .keyCode 31)] }

/-- **taphold_layer_out_of_range_counterexample**: likewise for the hold action of a tap-hold key: held
past its timeout, the next press indexes `self.layers[7]`. -/
theorem taphold_layer_out_of_range_counterexample :
    ¬ RangeU badTapHoldCfg ∧
    crashOf (runM { cfg := badTapHoldCfg }
      [.ev (.press (0, 30)), .tick, .tick, .tick, .tick, .tick, .ev (.press (0, 31)), .tick])
      = some (.indexOOB "layers[layer]") := by
  refine ⟨by decide, by decide +kernel⟩

/-- **press_outside_table_counterexample**: `InTable` is needed: column 767 (`KEY_MAX`, see
`input_code_767_counterexample`) is outside the 2 × 767 table. -/
theorem press_outside_table_counterexample :
    RangeU manyOneShots ∧ ¬ InTable manyOneShots [.ev (.press (0, 767)), .tick] ∧
    crashOf (runM { cfg := manyOneShots } [.ev (.press (0, 767)), .tick]) = some (.indexOOB "layers[l][x][y]") := by
  refine ⟨by decide, by decide, by decide +kernel⟩

/-- the defsrc row must hold no transparent item: the configuration of `trans_in_defsrc_counterexample` -/
example : ¬ RangeU transDefsrcCfg := by decide

/-- a `multi` of `n` plain keys: an action of the macro fragment (and of the layered one) -/
def longMulti (n : Nat) : Action := .multipleActions (List.replicate n (.keyCode 30))

/-- **fuel_budget_counterexample**: the recursion budget is a hypothesis about the MODEL, and it is
needed there.  A flat `multi` of `n ≥ 3998` plain keys is an action of the macro fragment of cost
`n + 4 > 3997`; in Rust it is a `for` loop, but the model's `doActions` loop spends one unit of fuel per
member, so with `FUEL` = 4000 the model answers `fuelOut` — whatever the state. -/
theorem fuel_budget_counterexample (n : Nat) (hn : FUEL - 2 ≤ n) (s : Layout) (c : Coord) (d : Nat) (os : Bool)
    (ls : List Nat) :
    Macro.MFrag (longMulti n) ∧ ucost (longMulti n) = n + 4 ∧
    doAction FUEL s (longMulti n) c d os ls = .error .fuelOut := by
  have h1 : ∀ m, Macro.MFragL (List.replicate m (.keyCode 30)) := by
    intro m
    induction m with
    | zero => trivial
    | succ m ih => exact ⟨trivial, (fun h => by cases h), ih⟩
  have h2 : ∀ m, ucostL (List.replicate (m + 1) (.keyCode 30)) = m + 3 := by
    intro m
    induction m with
    | zero => rfl
    | succ m ih =>
      rw [List.replicate_succ, ucostL, ih]
      simp only [ucost]; omega
  have h3 : ∀ (fuel m : Nat), fuel ≤ m → ∀ (s : Layout) (cu : CustomEv),
      doActions fuel s (List.replicate m (.keyCode 30)) c d os ls cu = .error .fuelOut := by
    intro fuel
    induction fuel with
    | zero => intro m _ s cu; rfl
    | succ fuel ih =>
      intro m hm s cu
      obtain ⟨k, rfl⟩ : ∃ k, m = k + 1 := ⟨m - 1, by omega⟩
      rw [List.replicate_succ]
      simp only [doActions]
      match fuel, ih with
      | 0, _ => rfl
      | 1, _ => rfl
      | f + 2, ih =>
        simp only [doAction, dispatch]
        exact ih k (by omega) _ _
  refine ⟨h1 n, ?_, ?_⟩
  · obtain ⟨k, rfl⟩ : ∃ k, n = k + 1 := ⟨n - 1, by simp only [FUEL] at hn; omega⟩
    simp only [longMulti, ucost, h2]; omega
  · have e : FUEL = 3998 + 2 := rfl
    rw [e]
    simp only [longMulti, doAction, dispatch]
    rw [h3 3998 n (by simp only [FUEL] at hn; omega)]

end KVerif.C02
