/-
C19 — dynamic macros replay what was typed and never leave a key down.
Property theorems only; helper lemmas are in KVerif/Lemmas/DynMacro*.lean.

Reading guide.  `Rec`, `Replay`, `beginRecord`, `recordPress`, `recordRelease`, `stopMacro`,
`playMacro`, `tickReplay` model src/kanata/dynamic_macro.rs; `K`, `handleInput`, `tickStates`, `tickMs`,
`run` model the glue in src/kanata/mod.rs over an arbitrary layout `I : LayoutI L` (so the
theorems about the glue hold whatever keyberon does).  `c.fix = true` is the code with the proposed
fix, `false` the pinned code.  `k.fed` is the log of the key events the replay handed to
`layout.event`, `k.lost` the log of events the `extra_ticks` loop popped and dropped.
-/
import KVerif.Lemmas.DynMacroRun
import KVerif.Lemmas.DynMacroFlatK
import KVerif.Lemmas.DynMacroOvershoot
import KVerif.Gen.DynMacroConsts
namespace KVerif.DynMacro

/-! ## What gets stored -/

/-- **replay_is_recorded** (full).  Start a recording of macro `id`, let any history `evs` of
presses, releases and ticks go by (fewer than the limit: at most `2·max + 2` key events, the last of
which is the stop key), then stop with truncation `n`.  What is stored under `id` is exactly: the
typed key events in order, each with the time to the next one (`timed`), without the last one (the
stop key) and without `n` more (`specBody`), followed by one zero-delay release for each key that
this body leaves down, in some order (`tail` is a permutation of `leftDown`).  For every history, every
`n`, every hash-set order `hint`; on the pinned code provided at least one key event was recorded. -/
theorem replay_is_recorded (fix : Bool) (hint hint' : List Nat) (max id n : Nat) (st : Store)
    (evs : List RecEv) (hlim : keyCount evs ≤ 2 * max + 2) (hne : fix = true ∨ keyCount evs ≠ 0) :
    ∃ tail : List Nat,
      (do let (r0, _) ← beginRecord fix hint id none
          let (r1, st1) := recordAll hint max (r0, st) evs
          let (r2, sv) ← stopMacro fix hint' n r1
          pure (r2, st1.save sv)) =
        .ok (none, st.insert id (specBody n evs ++ tail.map (Item.release · 0))) ∧
      tail.Perm (leftDown (specBody n evs)) := by
  have hrun : recordAll hint max (some (Rec.new id), st) evs =
      (some (recRun (Rec.new id) evs), st) :=
    recordAll_eq hint max id st [] evs (by simpa using hlim)
  have hflush := flush_recRun_new id evs
  have hid : (recRun (Rec.new id) evs).id = id := recRun_id (Rec.new id) evs
  obtain ⟨tail, ht1, ht2⟩ := addReleases_eq hint' (specBody n evs)
  refine ⟨tail, ?_, ht2⟩
  have hne' : ¬ (timed evs = [] ∧ fix = false) := by
    rintro ⟨h1, h2⟩
    rcases hne with h | h
    · simp [h] at h2
    · have := timed_length evs
      rw [h1] at this; simp at this; exact h this.symm
  have hrl : removeLast fix .stopLenMinusOne (timed evs) = .ok (timed evs).dropLast := by
    simp only [removeLast]
    split
    · rename_i h; simp at h; exact absurd ⟨h.1, h.2⟩ hne'
    · rfl
  have htake : (timed evs).dropLast.take ((timed evs).dropLast.length - n) = specBody n evs := by
    simp only [specBody, List.dropLast_eq_take, List.take_take, List.length_take]
    congr 1; omega
  simp only [beginRecord, bind, Except.bind, pure, Except.pure, hrun, stopMacro, hflush, hrl, htake,
    ht1, Store.save, hid]

/-- **leftDown_iff**: which keys get a trailing release — exactly those for which the body contains
a press that is not followed by a release of the same key; each once. -/
theorem leftDown_iff (items : List Item) (x : Nat) :
    x ∈ leftDown items ↔
      ∃ pre post, evsQ items = pre ++ ⟨true, x⟩ :: post ∧ (⟨false, x⟩ : KeyEv) ∉ post := by
  unfold leftDown unreleased
  rw [scan_eq_scanEv, mem_scanEv_iff]
  simp

theorem leftDown_nodup (items : List Item) : (leftDown items).Nodup := by
  unfold leftDown unreleased
  rw [scan_eq_scanEv]; exact scanEv_nodup [] _ (by simp)

/-- **stops_at_limit** (full).  While fewer than `2·max + 2` key events have been recorded a press
is accepted; the press after that stops the recording by itself and stores everything recorded
except the event still waiting (the last one typed), with the releases of the keys left down.  So
no stored macro has more than `2·max + 1` typed items. -/
theorem stops_at_limit (hint : List Nat) (max id o : Nat) (evs : List RecEv) :
    (keyCount evs < 2 * max + 2 →
      recordPress hint max o (some (recRun (Rec.new id) evs)) =
        (some (recRun (Rec.new id) (evs ++ [.press o])), none)) ∧
    (keyCount evs = 2 * max + 2 →
      ∃ tail : List Nat,
        recordPress hint max o (some (recRun (Rec.new id) evs)) =
          (none, some (id, specBody 0 evs ++ tail.map (Item.release · 0))) ∧
        tail.Perm (leftDown (specBody 0 evs)) ∧ (specBody 0 evs).length = 2 * max + 1) := by
  have hlen := items_length_recRun_new id evs
  have hitems := items_recRun_new id evs
  have hid : (recRun (Rec.new id) evs).id = id := recRun_id (Rec.new id) evs
  constructor
  · intro h
    have : ¬ ((recRun (Rec.new id) evs).items.length > max * 2) := by rw [hlen]; omega
    simp only [recordPress, this, if_false, recRun_append]
    rfl
  · intro h
    have : (recRun (Rec.new id) evs).items.length > max * 2 := by rw [hlen]; omega
    obtain ⟨tail, ht1, ht2⟩ := addReleases_eq hint (specBody 0 evs)
    have hb : specBody 0 evs = (timed evs).dropLast := by
      simp [specBody, List.dropLast_eq_take]
    refine ⟨tail, ?_, ht2, ?_⟩
    · have this' : (specBody 0 evs).length > max * 2 := by rw [hb, ← hitems]; exact this
      simp only [recordPress, hitems, ← hb, ht1, hid, this', if_true]
    · rw [hb, List.length_dropLast, timed_length]; omega

/-! ## What the replay feeds -/

/-- **replay_feeds_same_events** (full).  Take any state with a replay in progress and any further
history (key events and `tick_ms` calls with arbitrary `ms`, on the pinned code `ms < 65536`) during
which the layout fires no `dynamic-macro-play`.  Then, for any layout:
(1) the key events handed to `layout.event` so far, followed by the key events of the items still
    queued, is always the same list — nothing is reordered, duplicated or invented;
(2) no event is popped and dropped by the `extra_ticks` loop;
(3) once the ticks add up to at least `mu` (a bound computed from the queued delays) the replay is
    over and what was handed to the layout is exactly the queued items' key events, in order. -/
theorem replay_feeds_same_events {L} (I : LayoutI L) (c : Cfg) (hn : NoPlay I) (inputs : List Input)
    (k k' : K L) (hm : MsOK c inputs) (h : run I c k inputs = .ok k') :
    k'.fed ++ planOf k'.rep = k.fed ++ planOf k.rep ∧ k'.lost = k.lost ∧
      (mu c.beh k.rep ≤ totalMs inputs → k'.rep = none ∧ k'.fed = k.fed ++ planOf k.rep) := by
  obtain ⟨h1, h2⟩ := run_noPlay I c hn inputs k k' hm h
  refine ⟨h1, run_lost I c inputs k k' hm h, ?_⟩
  intro hmu
  have : k'.rep = none := mu_eq_zero c.beh _ (by omega)
  refine ⟨this, ?_⟩
  rw [this] at h1; simpa [planOf] using h1

/-- **play_queues_the_macro**: `dynamic-macro-play id` with no replay running queues exactly the
stored items of `id`; with a replay running and `id` not active it puts them (and an end marker) in
front of what is queued; in every other case it changes nothing. -/
theorem play_queues_the_macro (id : Nat) (store : Store) (rep : Option Replay) :
    planOf (playMacro id store rep) = planOf rep ∨
      ∃ items, store.get id = some items ∧
        planOf (playMacro id store rep) = evsQ items ++ planOf rep :=
  playMacro_plan id store rep

/-- **no_overshoot**: the `extra_ticks` loop never drops a replay event — fixed code: for every
`ms_elapsed`; pinned code: for `ms_elapsed < 65536`. -/
theorem no_overshoot {L} (I : LayoutI L) (c : Cfg) (ms : Nat) (k k' : K L)
    (hms : c.fix = true ∨ ms < 65536) (h : tickMs I c ms k = .ok k') : k'.lost = k.lost :=
  tickMs_lost I c ms k k' hms h

/-- a replay in progress (recorded delays): `a` down, 65 535 ms, `b` down, `b` up, `a` up -/
def ovRep : Replay :=
  { active := [1], delay := 1, queue := [.press 30 65535, .press 31 0, .release 31 0, .release 30 0] }
def ovK : K Unit := { lay := (), rep := some ovRep }
def ovRepA : Replay := { active := [1], delay := 65535, queue := [.press 31 0, .release 31 0, .release 30 0] }
def ovRepB : Replay := { ovRepA with delay := 1 }
def ovRepC : Replay := { active := [1], delay := 0, queue := [.release 31 0, .release 30 0] }
def ovRepD : Replay := { active := [1], delay := 0, queue := [.release 30 0] }
def pinnedCfg : Cfg := { fix := false, beh := .recorded, maxPresses := 128 }

/-- **extra_loop_overshoot_counterexample** (pinned code).  `tick_ms` called with
`ms_elapsed = 65536` (`as u16` = 0) while that replay is in progress: the first loop hands `a`↓ and
`b`↓ to the layout, then the `extra_ticks` loop runs `65535 - 0` times instead of none, pops `b`↑ in
its first iteration and drops it ("overshot to next event ... the code is broken!") — `b` is never
released.  So `ms_elapsed < 65536` in `no_overshoot` cannot be dropped for the pinned code; the
fixed code (clamping instead of wrapping) drops nothing.  Reproduced on the real pinned code by the
harness with `tick_ms(70000)` (key left down for ever). -/
theorem extra_loop_overshoot_counterexample :
    (∃ k', tickMs unitI pinnedCfg 65536 ovK = .ok k' ∧
      k'.fed = [⟨true, 30⟩, ⟨true, 31⟩] ∧ k'.lost = [⟨false, 31⟩]) ∧
    (∀ k', tickMs unitI { pinnedCfg with fix := true } 65536 ovK = .ok k' → k'.lost = []) := by
  constructor
  · -- first iteration: `a`↓ is popped with its delay of 65535
    obtain ⟨kA, hA, vA⟩ := iterStep_view pinnedCfg ovK 0
    have hA1 : mainLoop unitI pinnedCfg 1 ovK 0 = .ok (kA, 65535) := by
      rw [mainLoop_succ, hA]; rfl
    have rA : kA.rep = some ovRepA := by
      have := congrArg View.rep vA; simp only [view] at this; exact this.trans rfl
    have nA : kA.rcd = none := by
      have := congrArg View.rcd vA; simp only [view] at this; exact this.trans rfl
    -- 65534 iterations that only count down
    obtain ⟨kB, hB, vB⟩ := mainLoop_idle pinnedCfg 65534 kA 65535 _ rA nA (by decide)
    -- last iteration of the first loop: `b`↓ is popped, delay 0
    obtain ⟨kC, hC, vC⟩ := iterStep_view pinnedCfg kB 65535
    have rB : kB.rep = some ovRepB := by
      have := congrArg View.rep vB; simp only [view] at this; exact this.trans rfl
    have fB : kB.fed = [⟨true, 30⟩] := by
      have h1 := congrArg View.fed vB; have h2 := congrArg View.fed vA
      simp only [view] at h1 h2; rw [h1, h2]; rfl
    have lB : kB.lost = [] := by
      have h1 := congrArg View.lost vB; have h2 := congrArg View.lost vA
      simp only [view] at h1 h2; rw [h1, h2]; rfl
    rw [rB] at hC vC
    have hmain : mainLoop unitI pinnedCfg 65536 ovK 0 = .ok (kC, 65535) := by
      have e1 : 65536 = 1 + (65534 + 1) := by decide
      rw [e1, mainLoop_add, hA1]
      simp only
      rw [mainLoop_add, hB]
      simp only
      rw [mainLoop_succ, hC]; rfl
    -- the second loop: 65535 - (65536 as u16) = 65535 iterations; the first one pops `b`↑
    have rC : kC.rep = some ovRepC := by
      have := congrArg View.rep vC; simp only [view] at this; exact this.trans rfl
    obtain ⟨kD, hD, vD⟩ := extraStep_view_pop pinnedCfg kC
      (some ovRepD) ⟨false, 31⟩ 0 (by rw [rC]; rfl)
    refine ⟨kD, ?_, ?_, ?_⟩
    · rw [tickMs_of_mainLoop unitI pinnedCfg 65536 ovK kC 65535 hmain]
      exact extraLoop_pop unitI pinnedCfg 65534 kC kD hD
    · have h1 := congrArg View.fed vD; have h2 := congrArg View.fed vC
      simp only [view] at h1 h2; rw [h1, h2, fB]; rfl
    · have h1 := congrArg View.lost vD; have h2 := congrArg View.lost vC
      simp only [view] at h1 h2; rw [h1, h2, lB]; rfl
  · intro k' h
    exact no_overshoot unitI _ 65536 ovK k' (.inl rfl) h

/-! ## Nothing is left down; no self-recursion -/

/-- **replay_ends_released** (full).  For any layout, any configuration values, any history from
start-up whatsoever (recordings, re-recordings, truncations, the limit, nested plays, typing during
replays, any `ms_elapsed`; pinned code: `ms_elapsed < 65536`): whenever no replay is in progress,
every key press that replays have handed to the layout has been followed by a release of the same
key, also handed to the layout. And every stored macro is balanced in the same sense. -/
theorem replay_ends_released {L} (I : LayoutI L) (c : Cfg) (lay : L) (inputs : List Input) (k' : K L)
    (hm : MsOK c inputs) (h : run I c (K.init lay) inputs = .ok k') :
    (k'.rep = none →
      ∀ pre post x, k'.fed = pre ++ ⟨true, x⟩ :: post → (⟨false, x⟩ : KeyEv) ∈ post) ∧
    (∀ id items, k'.store.get id = some items →
      ∀ pre post x, evsQ items = pre ++ ⟨true, x⟩ :: post → (⟨false, x⟩ : KeyEv) ∈ post) := by
  obtain ⟨_, g2, _, g4⟩ := run_good I c inputs _ k' hm (good_init lay) h
  constructor
  · intro hr pre post x hf
    unfold Bal at g4
    rw [hr] at g4
    simp only [planOf, List.append_nil] at g4
    false_or_by_contra
    rename_i hc
    have : x ∈ scanEv [] k'.fed := (mem_scanEv_iff x [] k'.fed).mpr (.inl ⟨pre, post, hf, hc⟩)
    simp [g4] at this
  · intro id items hg pre post x hf
    have := (g2 id items hg).2
    unfold unreleased at this
    rw [scan_eq_scanEv] at this
    false_or_by_contra
    rename_i hc
    have hx : x ∈ scanEv [] (evsQ items) := (mem_scanEv_iff x [] _).mpr (.inl ⟨pre, post, hf, hc⟩)
    simp [this] at hx

/-- **no_self_recursion** (full).  In every reachable state with a replay in progress, the guard set
`active_macros` is duplicate-free and consists of one top-level macro plus exactly the macros whose
end marker is still in the queue (i.e. whose items are still being played), the markers being
distinct; and playing an active macro changes nothing.  So a macro's items are never queued again
while an earlier expansion of the same macro is unfinished. -/
theorem no_self_recursion {L} (I : LayoutI L) (c : Cfg) (lay : L) (inputs : List Input) (k' : K L)
    (hm : MsOK c inputs) (h : run I c (K.init lay) inputs = .ok k') (st : Replay)
    (hs : k'.rep = some st) :
    st.active.Nodup ∧ (markers st.queue).Nodup ∧
      (∃ top, Item.endMacro top ∉ st.queue ∧
        ∀ a, a ∈ st.active ↔ (a = top ∨ Item.endMacro a ∈ st.queue)) ∧
      ∀ id ∈ st.active, playMacro id k'.store (some st) = some st := by
  obtain ⟨_, _, g3, _⟩ := run_good I c inputs _ k' hm (good_init lay) h
  rw [hs] at g3
  obtain ⟨h1, h2, top, h3, h4⟩ := g3
  refine ⟨h1, h2, ⟨top, by rwa [← mem_markers], fun a => by rw [h4 a, mem_markers]⟩, ?_⟩
  intro id hid
  simp [playMacro, hid]

/-! ## Findings: dynamic-macro actions that fire late (KNOWN_FINDINGS.jsonl, C19, L lines)

`no_self_recursion` speaks about the guard set while the items of a macro are still in the replay
queue.  The guard dies with the queue: `tick_replay_state` sets the replay state to `None` one pop
after the last item was handed to `layout.event`, whether or not the layout has acted on the events
yet.  A play action that the layout performs later than that (tap-dance item at the dance timeout,
hold of a tap-hold, tap of a tap-hold behind another undecided tap-hold, a plain play key queued
behind an undecided tap-hold) finds no replay running and starts the macro again - from the macro's
own events, for ever.  Likewise the stop action drops ONE item, the last one recorded, which is the
stop key's press only if the action fires on that press. -/

/-- a layout with one key (32) whose action `(dynamic-macro-play 1)` fires `T` ticks after its press
(what a tap-dance item or the hold of a tap-hold does); the state is the countdown -/
def lateI (T : Nat) : LayoutI (Option Nat) :=
  { event := fun l e => if e.press && e.osc == 32 && l.isNone then some T else l,
    tick := fun l => match l with
      | none => (none, [], [])
      | some 0 => (none, [.play 1], [])
      | some (n + 1) => (some n, [], []) }

/-- macro 1 is a tap of that key -/
def lateK : K (Option Nat) := { (K.init none) with store := [(1, [.press 32 1, .release 32 1])] }

/-- **late_play_self_recursion_counterexample** (the code as it is; either delay behaviour).  ONE
physical press of the key, then 60 ms without any input: macro 1 - a tap of that key - has been
replayed five times, each replay started by the play action that the previous replay's own press
caused, each time with no replay running any more (so `playMacro` does not refuse).  The statement
of C19 ("a macro never replays itself recursively") and the documentation ("dynamic macros cannot
recurse") are violated; reproduced on the real code by the `C19 L` lines (tap-dance, tap-hold). -/
theorem late_play_self_recursion_counterexample (beh : Beh) :
    ∃ k', run (lateI 10) { fix := true, beh := beh, maxPresses := 128 } lateK
        [.key ⟨true, 32⟩, .tick 60] = .ok k' ∧
      k'.fed = [⟨true, 32⟩, ⟨false, 32⟩, ⟨true, 32⟩, ⟨false, 32⟩, ⟨true, 32⟩, ⟨false, 32⟩,
                ⟨true, 32⟩, ⟨false, 32⟩, ⟨true, 32⟩, ⟨false, 32⟩] := by
  cases beh <;> exact ⟨_, rfl, rfl⟩

/-- **stop_on_release_keeps_stop_key_counterexample**.  Recording: `a` (30) tapped, then the stop
key (31) pressed and released, the stop action firing on the release (the tap of a tap-hold).  The
stored macro still contains the press of the stop key, and a release is synthesized for it: only
the last recorded item is dropped.  C19 wants the stop key itself excluded. -/
theorem stop_on_release_keeps_stop_key_counterexample :
    stopMacro true [] 0 (recordRelease 31 (recordPress [] 128 31 (recordRelease 30
        (recordPress [] 128 30 (some (Rec.new 1))).1)).1) =
      .ok (none, some (1, [.press 30 0, .release 30 0, .press 31 0, .release 31 0])) := rfl

/-! ## No crash -/

/-- **stop_no_crash** (full, fixed code).  No history makes the dynamic-macro code of the fixed tree
crash, for any layout and any configuration values. -/
theorem stop_no_crash {L} (I : LayoutI L) (c : Cfg) (hf : c.fix = true) (inputs : List Input)
    (k : K L) : ∃ k', run I c k inputs = .ok k' :=
  run_total I c hf inputs k

/-- `(multi (dynamic-macro-record 1) (dynamic-macro-record 1))` on key 44, plus a plain key -/
def cexKeys : List KeyDef :=
  [{ osc := 44, out := none, acts := [.record 1, .record 1] }, { osc := 30, out := some 30, acts := [] }]

def cexInputs : List Input := [.key ⟨true, 44⟩, .tick 1]

/-- **stop_no_crash_counterexample** (pinned code).  Pressing that key once and letting one
millisecond pass runs `begin_record_macro` on a recording with nothing in it: `len() - 1` on an
empty `Vec` (reproduced on the real code by the harness: "attempt to subtract with overflow").
The fixed code stores an empty macro instead. -/
theorem stop_no_crash_counterexample :
    run (flatI cexKeys) { fix := false, beh := .recorded, maxPresses := 128 } (K.init {}) cexInputs
        = .error .beginLenMinusOne ∧
      ∃ k', run (flatI cexKeys) { fix := true, beh := .recorded, maxPresses := 128 } (K.init {}) cexInputs
        = .ok k' ∧ k'.store = [(1, [])] ∧ k'.rcd = none := by
  exact ⟨rfl, _, rfl, rfl, rfl⟩

/-- The pinned code crashes exactly when a recording with nothing recorded is stopped or re-begun. -/
theorem stop_crash_iff_pinned (hint : List Nat) (n : Nat) (r : Rec) :
    (∃ e, stopMacro false hint n (some r) = .error e) ↔ (r.items = [] ∧ r.waiting = none) := by
  obtain ⟨id, w, items, d⟩ := r
  cases w <;> cases items <;> simp [stopMacro, removeLast, Rec.flushItems]

/-! ## Same output as typing again (one-layer configurations of plain keys) -/

/-- **flat_output_is_timing_independent** (full, for the one-layer layout `Flat`).  Take a one-layer
configuration, a layout state whose event queue is empty and whose previous-keys list is up to date,
and any interleaving of events and ticks in which every event is followed by a tick before the
next event arrives (so that the 32-slot queue never holds two events), ending with a tick.  The OS
key events written, in order, are a function of the event sequence alone: how many ticks pass
between the events does not matter.  This is the determinism that turns "the same events in the
same order" into "the same output". -/
theorem flat_output_is_timing_independent (keys : List KeyDef) (l : Flat) (ops : List FlatOp)
    (hq : l.queue = []) (hp : l.prev = keycodes l.states) (hs : Spaced ops = true) :
    (flatRun keys l ops).2 = flatTrace keys l.states (eventsOf ops) :=
  flatRun_trace keys ops l hq hp hs

/-- **flat_replay_output** (full, for the one-layer layout).  A replay in progress on a one-layer
configuration without play keys, the layout's queue empty, nothing else arriving, `tick_ms` called
with any sequence of `ms` values that add up to at least `mu`: the replay ends, and the OS key events
written meanwhile are exactly `flatTrace` of the queued key events — every fed event is processed
in a tick of its own, none is lost, whatever the delays and the delay behaviour. -/
theorem flat_replay_output (keys : List KeyDef) (c : Cfg) (hn : NoPlay (flatI keys)) (ticks : List Nat)
    (k k' : K Flat) (hms : ∀ ms ∈ ticks, c.fix = true ∨ ms < 65536)
    (hq : k.lay.queue = []) (hp : k.lay.prev = keycodes k.lay.states)
    (hmu : mu c.beh k.rep ≤ ticks.sum)
    (h : run (flatI keys) c k (ticks.map .tick) = .ok k') :
    k'.rep = none ∧
      osKeys k'.os = osKeys k.os ++ flatTrace keys k.lay.states (planOf k.rep) := by
  have hj : FlatJ keys (osKeys k.os ++ flatTrace keys k.lay.states (planOf k.rep)) k :=
    ⟨hp, .inl hq, fun _ => hq, by simp [hq]⟩
  obtain ⟨_, _, j3, j4⟩ := runTicks_flatJ keys c hn _ ticks k k' hms hj h
  have hnone := (replay_feeds_same_events (flatI keys) c hn _ k k' (msOK_ticks c ticks hms) h).2.2
    (by rw [totalMs_ticks]; exact hmu)
  refine ⟨hnone.1, ?_⟩
  rw [hnone.1] at j4
  simpa [j3 hnone.1, planOf, flatTrace] using j4

/-- **replay_same_output_partial**.  Full statement wanted: on every time-insensitive configuration
the OS output of a replay equals the OS output of the original typing, followed by the releases of
the keys the typing left down.  Proved: exactly that for one-layer configurations of plain keys and
record/stop keys (`Flat`), for every typing history in which each event gets a tick before the next
(`Spaced`), every spacing of ticks, both delay behaviours and any `ms_elapsed` sequence: if the
replay's queue holds the typed events followed by `rels` (which is what `replay_is_recorded` stores:
`typed` = the kept events, `rels` = releases of the keys left down) and both start from the same
layout states, then

    replay output = typing output ++ output of feeding `rels`.

Not proved: the same for full keyberon (layers, and the time-sensitive actions — for those it is
false with constant delays, and holds with recorded delays only when no other event shares the
layout queue); there the check compares the real OS traces on generated histories. -/
theorem replay_same_output_partial (keys : List KeyDef) (c : Cfg) (hn : NoPlay (flatI keys))
    -- the typing
    (l : Flat) (ops : List FlatOp) (hlq : l.queue = []) (hlp : l.prev = keycodes l.states)
    (hs : Spaced ops = true)
    -- the replay
    (ticks : List Nat) (k k' : K Flat) (hms : ∀ ms ∈ ticks, c.fix = true ∨ ms < 65536)
    (hq : k.lay.queue = []) (hp : k.lay.prev = keycodes k.lay.states)
    (hmu : mu c.beh k.rep ≤ ticks.sum)
    (h : run (flatI keys) c k (ticks.map .tick) = .ok k')
    -- same starting states; the queue holds what was typed, then the releases
    (hst : k.lay.states = l.states) (rels : List KeyEv) (hplan : planOf k.rep = eventsOf ops ++ rels) :
    osKeys k'.os = osKeys k.os ++ (flatRun keys l ops).2 ++
      flatTrace keys (flatStates keys l.states (eventsOf ops)) rels := by
  obtain ⟨_, h2⟩ := flat_replay_output keys c hn ticks k k' hms hq hp hmu h
  rw [h2, hplan, flatTrace_append, hst, flat_output_is_timing_independent keys l ops hlq hlp hs,
    List.append_assoc]

/-! ## The model's constants and code shape are the ones in the source tree now -/

/-- **consts_from_source**: `KVerif.Gen.DynMacroConsts` is regenerated from the source on every run.
The replay gap 5, the limit factor 2, the layout's queue size and `states` capacity are the ones
the model uses; and the tree contains the two repaired expressions, i.e. the model with
`fix = true` (which the correspondence check runs) is the model of the current code. -/
theorem consts_from_source :
    Gen.DM_REPLAY_GAP = 5 ∧ Gen.DM_LIMIT_FACTOR = 2 ∧ Gen.LAYOUT_QUEUE_SIZE = QUEUE_SIZE ∧
      Gen.LAYOUT_STATES_CAP = STATES_CAP ∧ Gen.DM_FIX_POP = true ∧ Gen.DM_FIX_CLAMP = true := by
  decide

/-! ## Non-vacuity -/

/-- a typing history: `a` down, 3 ms, `b` down, `a` up, 1 ms, stop key down -/
def sampleEvs : List RecEv :=
  [.release 2, .tick, .press 30, .tick, .tick, .tick, .press 48, .release 30, .tick, .press 8]

example : keyCount sampleEvs ≤ 2 * 128 + 2 := by decide
example : timed sampleEvs =
    [.release 2 1, .press 30 3, .press 48 0, .release 30 1, .press 8 0] := by decide
example : specBody 1 sampleEvs = [.release 2 1, .press 30 3, .press 48 0] := by decide
example : leftDown (specBody 1 sampleEvs) = [30, 48] := by decide
example : leftDown (specBody 0 sampleEvs) = [48] := by decide
/-- a limit that is reached: max = 1 allows 4 key events, the fifth press stops the recording -/
example : keyCount (sampleEvs.take 9) = 2 * 1 + 2 := by decide
example : MsOK { fix := false, beh := .recorded, maxPresses := 1 } [.key ⟨true, 30⟩, .tick 5, .hint [1]] := by
  simp [MsOK]
example : NoPlay (flatI [{ osc := 30, out := some 30, acts := [] }, { osc := 2, out := none, acts := [.record 1] }]) := by
  apply noPlay_flat
  intro kd hkd id
  simp at hkd
  rcases hkd with rfl | rfl <;> simp
example : Spaced [.ev ⟨true, 30⟩, .tick, .tick, .ev ⟨false, 30⟩, .tick] = true := by decide

/-- a replay on a two-key one-layer configuration: the hypotheses of `flat_replay_output` and
`replay_same_output_partial` hold and the trace is the expected one -/
def sampleKeys : List KeyDef :=
  [{ osc := 30, out := some 30, acts := [] }, { osc := 48, out := some 48, acts := [] },
   { osc := 2, out := none, acts := [.record 1] }]
def sampleRep : Replay :=
  { active := [1], delay := 0, queue := [.press 30 3, .press 48 0, .release 30 1, .release 48 0] }
def sampleK : K Flat := { lay := {}, rep := some sampleRep }
def sampleCfg : Cfg := { fix := false, beh := .recorded, maxPresses := 128 }
def sampleOps : List FlatOp :=
  [.ev ⟨true, 30⟩, .tick, .tick, .tick, .ev ⟨true, 48⟩, .tick, .ev ⟨false, 30⟩, .tick]

example : NoPlay (flatI sampleKeys) := by
  apply noPlay_flat
  intro kd hkd id
  simp [sampleKeys] at hkd
  rcases hkd with rfl | rfl | rfl <;> simp
example : mu sampleCfg.beh sampleK.rep ≤ [2, 3, 1, 1].sum := by decide
example : Spaced sampleOps = true := by decide
example : planOf sampleK.rep = eventsOf sampleOps ++ [⟨false, 48⟩] := by decide
example : ∃ k', run (flatI sampleKeys) sampleCfg sampleK ([2, 3, 1, 1].map .tick) = .ok k' ∧
    osKeys k'.os = [⟨true, 30⟩, ⟨true, 48⟩, ⟨false, 30⟩, ⟨false, 48⟩] := ⟨_, rfl, rfl⟩
example : (flatRun sampleKeys {} sampleOps).2 = [⟨true, 30⟩, ⟨true, 48⟩, ⟨false, 30⟩] := by decide
/-- a reachable replay state with a nested macro: the guard set is {top} ∪ markers -/
example : playMacro 2 [(2, [.press 30 0, .release 30 0])]
      (some { active := [1], delay := 3, queue := [.release 5 0] }) =
    some { active := [1, 2], delay := 3,
           queue := [.press 30 0, .release 30 0, .endMacro 2, .release 5 0] } := by decide

end KVerif.DynMacro
