/-
C03 — configuration parsing is total; the part about `defvar`.

Fix 8dc9082 ("reject variables that are defined in terms of themselves") put a cycle check into
`parse_vars` (parser/src/cfg/mod.rs): after every insertion a work-list search starts at the new
variable, follows the `$name` atoms found at every depth of the stored values (only names that are
keys of the table count, so a forward reference joins the graph when its target is defined) and
refuses the definition when it comes back to the new variable.  The model of that code is
`reachesVar` / `parseVarsPairs` / `parseVars` in Model/SExpr.lean with `Fixes.varCycle = true`; the
C03 correspondence compares it with the real `parse_vars` on every generated text (`vr` field).

Here it is proved, for every list of `defvar` items of any size and every recursion budget:

* the search decides self-reachability (`cycle_check_decides`), a loop-by-loop transcription of the
  Rust check gives the same verdict and cannot panic (`check_as_written`), and on an acyclic table
  a new definition is refused exactly when the table with it is cyclic (`insert_check_exact`);
* SOUNDNESS  an accepted list leaves an acyclic reference graph (`parse_vars_sound`);
* COMPLETENESS  the check refuses nothing else: the repaired `parse_vars` accepts with table `T`
  exactly when the unrepaired one does and `T` is acyclic (`parse_vars_accepts_iff`);
* CONSEQUENCES  against an accepted table, `SExpr::atom(vars)` / `SExpr::list(vars)` return with a
  recursion depth of at most the number of variables (`resolve_total_of_accepted`), the complete
  substitution `SExpr.expand` returns with that many hops and leaves no reference to a defined
  variable (`expand_total_of_accepted`), and `parse_vars` itself — which resolves variables while it
  evaluates `concat` — returns a table or a diagnostic, never overflowing (`parse_vars_total`).

Definitions: `Edge`, `Reaches`, `Acyclic`, `Defined`, `SExpr.expand` in Model/VarCycle.lean; helper
lemmas in Lemmas/VarCycle.lean.  `fx.varCycle = true` selects the repaired revision
(`Fixes.fixed`), `fx.varCycle = false` the pinned one; the other fields of `Fixes` do not occur in
`parseVars`.
-/
import KVerif.Lemmas.VarCycle
namespace KVerif.SExpr

/-! ## 0. instances used by the examples -/

/-- an atom / a list with a dummy span -/
def vA (t : String) : SExpr := .atom (kw t) Span.default
def vL (xs : List SExpr) : SExpr := .list xs Span.default

/-- `(defvar top (multi $l $r) l (f ($bot)) r $bot bot x)`: a diamond `top → l, r → bot` in which
every reference is a forward reference and one sits in a nested list -/
def diamondItem : List SExpr :=
  [vA "defvar", vA "top", vL [vA "multi", vA "$l", vA "$r"], vA "l", vL [vA "f", vL [vA "$bot"]],
   vA "r", vA "$bot", vA "bot", vA "x"]

/-- the table that `parse_vars` builds for `diamondItem` -/
def diamondVars : Vars :=
  [(kw "top", vL [vA "multi", vA "$l", vA "$r"]), (kw "l", vL [vA "f", vL [vA "$bot"]]),
   (kw "r", vA "$bot"), (kw "bot", vA "x")]

/-- `(defvar a (multi $c x) b $a c (macro $b))`: the cycle `a → c → b → a` is closed by the last
definition, through the forward reference `$c` of the first one -/
def cycle3Item : List SExpr :=
  [vA "defvar", vA "a", vL [vA "multi", vA "$c", vA "x"], vA "b", vA "$a", vA "c", vL [vA "macro", vA "$b"]]

/-- the table the unrepaired `parse_vars` builds for `cycle3Item` -/
def cycle3Vars : Vars :=
  [(kw "a", vL [vA "multi", vA "$c", vA "x"]), (kw "b", vA "$a"), (kw "c", vL [vA "macro", vA "$b"])]

/-- `(defvar p (concat $q "-" $r) q (x $r) r y)` then `(defvar s (concat $p $q))`: `concat` is
evaluated while the table is built, over forward references (`$q`, `$r` are still undefined when `p`
is stored, so they stay text) and over a list-valued variable (`$q` resolves to `(x $r)`, whose
`$r` resolves to `y`) -/
def concatItems : List (List SExpr) :=
  [[vA "defvar", vA "p", vL [vA "concat", vA "$q", vA "\"-\"", vA "$r"], vA "q", vL [vA "x", vA "$r"], vA "r", vA "y"],
   [vA "defvar", vA "s", vL [vA "concat", vA "$p", vA "$q"]]]

/-! ## 1. the check -/

/-- **cycle_check_decides** (full).  Run as `parse_vars` runs it — work list `[name]`, nothing
visited, on the table that already holds `name` — the search of the cycle check answers `true`
exactly when `name` reaches itself through one or more references between defined variables.  For
every table (also one with cycles elsewhere, or with repeated keys) and every name; in particular
the fuel `vars.length + 1` that the model gives the Rust `while let Some(name) = pending.pop()` loop
is never exhausted. -/
theorem cycle_check_decides (vars : Vars) (name : Bytes) :
    reachesVar vars name (vars.length + 1) [name] [] = true ↔ Reaches vars name name :=
  reachesVar_iff vars name

/-- in the table of `cycle3Item`, `c` reaches itself; in the diamond, `top` does not -/
example : Reaches cycle3Vars (kw "c") (kw "c") := (cycle_check_decides _ _).mp rfl
example : ¬ Reaches diamondVars (kw "top") (kw "top") := fun h => by
  have := (cycle_check_decides _ _).mpr h
  exact absurd this (by decide)

/-- **check_as_written** (full).  The same check transcribed loop by loop from the Rust text
(`selfRefCheck`: the stack `values` walked depth-first from the right, one `visited.insert` per
reference, `pending.pop()`, the index `vars[name]`), for a variable that is in the table — as the
one just inserted always is: it ends by refusing or by running to the end (`vars[name]` cannot
panic, the outer loop finishes within `vars.length + 1` rounds), it refuses exactly when the
variable reaches itself, and that is the verdict of the search `reachesVar` used by the model of
`parse_vars` that the correspondence check runs against the real code. -/
theorem check_as_written (vars : Vars) (name : Bytes) (hn : Defined vars name) :
    (selfRefCheck vars name = .bail ∨ selfRefCheck vars name = .pass) ∧
    (selfRefCheck vars name = .bail ↔ Reaches vars name name) ∧
    (selfRefCheck vars name = .bail ↔ reachesVar vars name (vars.length + 1) [name] [] = true) := by
  rcases selfRefCheck_spec vars name hn with ⟨h1, h2⟩ | ⟨h1, h2⟩
  · refine ⟨Or.inl h1, ⟨fun _ => h2, fun _ => h1⟩, ⟨fun _ => (cycle_check_decides _ _).mpr h2, fun _ => h1⟩⟩
  · have hne : selfRefCheck vars name ≠ .bail := by rw [h1]; decide
    exact ⟨Or.inr h1, ⟨fun h => absurd h hne, fun h => absurd h h2⟩,
      ⟨fun h => absurd h hne, fun h => absurd ((cycle_check_decides _ _).mp h) h2⟩⟩

example : selfRefCheck cycle3Vars (kw "c") = .bail ∧ selfRefCheck diamondVars (kw "top") = .pass := ⟨rfl, rfl⟩
/-- the hypothesis is needed: for a name that is not a key the Rust index would panic -/
example : selfRefCheck diamondVars (kw "nokey") = .indexPanic := rfl

/-- **insert_check_exact** (full).  On an acyclic table a new definition passes the check exactly
when the table with it is still acyclic: a new cycle can only run through the new variable, because
every new edge starts there or — a forward reference that becomes live — ends there. -/
theorem insert_check_exact (vars : Vars) (name : Bytes) (v : SExpr) (hac : Acyclic vars) :
    reachesVar (vars ++ [(name, v)]) name ((vars ++ [(name, v)]).length + 1) [name] [] = false ↔
      Acyclic (vars ++ [(name, v)]) := by
  constructor
  · intro h
    apply acyclic_snoc hac
    intro hc
    rw [(cycle_check_decides _ _).mpr hc] at h
    exact absurd h (by simp)
  · intro h
    cases hr : reachesVar (vars ++ [(name, v)]) name ((vars ++ [(name, v)]).length + 1) [name] [] with
    | false => rfl
    | true => exact absurd ((cycle_check_decides _ _).mp hr) (h name)

/-- the first two definitions of `cycle3Item` form an acyclic table, and the third one is refused -/
example : Acyclic (cycle3Vars.take 2) ∧
    reachesVar cycle3Vars (kw "c") (cycle3Vars.length + 1) [kw "c"] [] = true := by
  refine ⟨?_, rfl⟩
  have h1 : Acyclic [(kw "a", vL [vA "multi", vA "$c", vA "x"])] :=
    (insert_check_exact [] (kw "a") _ acyclic_nil).mp rfl
  exact (insert_check_exact _ (kw "b") (vA "$a") h1).mp rfl

/-! ## 2. soundness and completeness of the repaired `parse_vars` -/

/-- **parse_vars_sound** (full).  If the repaired `parse_vars` accepts a list of `defvar` items —
any number of items and definitions, any values (atoms, nested lists, `concat`), any recursion
budget — then in the table it returns no variable reaches itself through one or more references
(`$name` atoms at any depth of a stored value whose `name` is defined; forward references
included). -/
theorem parse_vars_sound (fx : Fixes) (hfx : fx.varCycle = true) (fuel : Nat) (items : List (List SExpr))
    (vars : Vars) (h : parseVars fx fuel items [] = .ok (.ok vars)) : Acyclic vars :=
  parseVars_acyclic fx hfx fuel items [] vars h acyclic_nil

/-- the diamond is accepted (so its table is acyclic) -/
example : parseVars Fixes.fixed 0 [diamondItem] [] = .ok (.ok diamondVars) := rfl
example : Acyclic diamondVars := parse_vars_sound Fixes.fixed rfl 0 [diamondItem] _ rfl

/-- **parse_vars_accepts_iff** (full: soundness and completeness).  The repaired `parse_vars`
accepts a list of items with table `vars` exactly when the unrepaired one accepts it with the same
table and that table is acyclic.  So the check refuses nothing but cyclic definitions: whatever else
is rejected (a list as a name, a name without value, a duplicate name, an item that is not a
`defvar`) is rejected by both revisions. -/
theorem parse_vars_accepts_iff (fx fx0 : Fixes) (hfx : fx.varCycle = true) (hfx0 : fx0.varCycle = false)
    (fuel : Nat) (items : List (List SExpr)) (vars : Vars) :
    parseVars fx fuel items [] = .ok (.ok vars) ↔
      (parseVars fx0 fuel items [] = .ok (.ok vars) ∧ Acyclic vars) := by
  constructor
  · intro h
    exact ⟨parseVars_agree fx fx0 fuel items [] vars h (fun hx => by rw [hfx0] at hx; cases hx),
      parse_vars_sound fx hfx fuel items vars h⟩
  · intro ⟨h, hac⟩
    exact parseVars_agree fx0 fx fuel items [] vars h (fun _ => hac)

/-- the diamond: accepted by both revisions; the 3-cycle through a forward reference: accepted by
the unrepaired `parse_vars` only, with a diagnostic at the name `c` from the repaired one -/
example : parseVars Fixes.pinned 0 [diamondItem] [] = .ok (.ok diamondVars) ∧ Acyclic diamondVars :=
  (parse_vars_accepts_iff Fixes.fixed Fixes.pinned rfl rfl 0 [diamondItem] _).mp rfl
example : parseVars Fixes.pinned 0 [cycle3Item] [] = .ok (.ok cycle3Vars) ∧
    parseVars Fixes.fixed 0 [cycle3Item] [] = .ok (.error (selfRefDiag Span.default)) ∧ ¬ Acyclic cycle3Vars :=
  ⟨rfl, rfl, fun h => h (kw "c") ((cycle_check_decides _ _).mp rfl)⟩

/-! ## 3. consequences: nothing that follows references recurses without end -/

/-- **resolve_total_of_accepted** (full).  Against a table accepted by the repaired `parse_vars`,
`SExpr::atom(vars)` and `SExpr::list(vars)` return for every expression with a recursion depth of at
most the number of variables: the fuel `vars.length` is never exhausted (a chain of references never
revisits a variable).  Compare `parse_vars_accepts_cycle_counterexample` in Props/C03.lean: with
the table of `(defvar a $a)` the pinned code overflows at every depth. -/
theorem resolve_total_of_accepted (fx : Fixes) (hfx : fx.varCycle = true) (fuel : Nat)
    (items : List (List SExpr)) (vars : Vars) (h : parseVars fx fuel items [] = .ok (.ok vars))
    (e : SExpr) (depth : Nat) (hd : vars.length ≤ depth) :
    (∃ r, e.atomV depth (some vars) = .ok r) ∧ (∃ r, e.listV depth (some vars) = .ok r) :=
  resolves_of_acyclic (parse_vars_sound fx hfx fuel items vars h) e depth hd

/-- `$top` of the diamond resolves to a list, `$r` to the atom `x`, with depth 4 -/
example : (vA "$top").listV 4 (some diamondVars) = .ok (some [vA "multi", vA "$l", vA "$r"]) ∧
    (vA "$r").atomV 4 (some diamondVars) = .ok (some (kw "x")) := ⟨rfl, rfl⟩

/-- **expand_total_of_accepted** (full).  Against an accepted table the complete substitution of
variable references — every `$name` at every depth replaced by the expanded value of `name`, which
is the most any consumer of the configuration can unfold — returns with a budget of `vars.length`
nested hops, and what it returns mentions no defined variable any more.  The measure behind it: a
chain of hops visits pairwise distinct variables (`acyclic_fuel_induction`), so its length is below
the number of variables. -/
theorem expand_total_of_accepted (fx : Fixes) (hfx : fx.varCycle = true) (fuel : Nat)
    (items : List (List SExpr)) (vars : Vars) (h : parseVars fx fuel items [] = .ok (.ok vars))
    (e : SExpr) (hops : Nat) (hd : vars.length ≤ hops) :
    ∃ r, e.expand hops vars = .ok r ∧ ∀ m ∈ r.refs, ¬ Defined vars m := by
  obtain ⟨r, hr⟩ := expands_of_acyclic (parse_vars_sound fx hfx fuel items vars h) e hops hd
  exact ⟨r, hr, expand_no_refs vars hops e r hr⟩

/-- `($top $undefined)` against the diamond -/
example : (vL [vA "$top", vA "$undefined"]).expand 4 diamondVars =
    .ok (vL [vL [vA "multi", vL [vA "f", vL [vA "x"]], vA "x"], vA "$undefined"]) := rfl
/-- the budget is sharp: the chain `top → l → bot` needs three hops -/
example : (vA "$top").expand 2 diamondVars = .error .fuelOut := rfl

/-- **parse_vars_total** (full, on the model of `parse_vars` with the cycle check).  For every list
of `defvar` items there is a recursion budget from which on `parse_vars` returns a table or a
diagnostic: the recursion of `push_all_atoms` (the evaluation of `concat`, which resolves variables
and descends into the lists they stand for while the table is being built) is bounded, because the
table is acyclic whenever it runs.  Compare `concat_list_cycle_counterexample` in Props/C03.lean: the
pinned code overflows on `(defvar l (x $l) c (concat $l))` at every budget. -/
theorem parse_vars_total (fx : Fixes) (hfx : fx.varCycle = true) (items : List (List SExpr)) :
    ∃ F, ∀ fuel, F ≤ fuel → ∃ r, parseVars fx fuel items [] = .ok r :=
  parseVars_total fx hfx items [] acyclic_nil

/-- two items with `concat` over forward references and a list-valued variable: budget 4 is enough,
budget 3 is not -/
example : ∃ vars, parseVars Fixes.fixed 4 concatItems [] = .ok (.ok vars) ∧
    vars.lookup (kw "p") = some (vA "$q-$r") ∧ vars.lookup (kw "s") = some (vA "$q-$rxy") := ⟨_, rfl, rfl, rfl⟩
example : parseVars Fixes.fixed 3 concatItems [] = .error .fuelOut := rfl

/-- **parse_vars_outcome_stable** (full).  The outcome does not depend on the budget once there is
one: a larger budget gives the same table or the same diagnostic (both revisions). -/
theorem parse_vars_outcome_stable (fx : Fixes) (fuel fuel' : Nat) (hf : fuel ≤ fuel') (items : List (List SExpr))
    (r : Except Diag Vars) (h : parseVars fx fuel items [] = .ok r) : parseVars fx fuel' items [] = .ok r :=
  parseVars_mono fx fuel fuel' hf items [] r h

example : ∀ fuel, 4 ≤ fuel → ∃ vars, parseVars Fixes.fixed fuel concatItems [] = .ok (.ok vars) ∧ vars.length = 4 :=
  fun fuel hf => ⟨_, parse_vars_outcome_stable Fixes.fixed 4 fuel hf concatItems _ rfl, rfl⟩

end KVerif.SExpr
