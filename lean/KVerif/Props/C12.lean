/-
C12 — sequences: accepted `defseq` tables are unambiguous; a typed sequence fires its key once.
Property theorems only; helper lemmas are in KVerif/Lemmas/Seq*.lean, the executable model in
KVerif/Model/SeqTrie.lean (parser side) and KVerif/Model/Sequences.lean (runtime side), the
specification-side definitions (`perms`, `orderings`, `PrefixFree`, `lvs`, `absKey`) in
KVerif/Model/SeqSpec.lean.
-/
import KVerif.Lemmas.SeqRunPlain
import KVerif.Gen.SeqConsts
namespace KVerif.Seq

/-! ## the table side -/

/-- **seq_consts_from_source**: masks, key codes and small match-arm tables the model uses are the
ones in the source tree now (`KVerif.Gen.SeqConsts` is regenerated from the source on every run),
and the textual shape of the group-size arms of `parse_sequences` and of the three `Trie` wrappers
is the one modelled. -/
theorem seq_consts_from_source :
    MASK_KEYCODES = Gen.SEQ_MASK_KEYCODES ∧ MASK_MODDED = Gen.SEQ_MASK_MODDED ∧
    KEY_OVERLAP_MARKER = Gen.SEQ_KEY_OVERLAP_MARKER ∧ KC_OVERLAP = Gen.SEQ_KEY_OVERLAP ∧
    NOT_OVERLAP_MARKER = 65535 - Gen.SEQ_KEY_OVERLAP_MARKER ∧
    (∀ p ∈ Gen.SEQ_MOD_MASKS, modMask p.1 = p.2) ∧
    (∀ k < 1024, modMask k ≠ 0 → k ∈ Gen.SEQ_MOD_MASKS.map (·.1)) ∧
    (∀ k < 1024, isModifier k = Gen.SEQ_IS_MODIFIER.contains k) ∧
    (∀ k < 1024, isVbReleasedMod k = Gen.SEQ_VB_RELEASED_MODS.contains k) ∧
    (∀ k < 1024, normaliseMod k = (Gen.SEQ_R2L.lookup k).getD k) ∧
    KEY_IGNORE_MIN = Gen.SEQ_KEY_IGNORE_MIN ∧ KEY_IGNORE_MAX = Gen.SEQ_KEY_IGNORE_MAX ∧
    KC_BSPACE = Gen.SEQ_KEY_BACKSPACE ∧ Gen.SEQ_GROUP_ARMS_AS_MODELLED = true ∧
    Gen.SEQ_TRIE_WRAPPERS_AS_MODELLED = true := by
  refine ⟨by decide, by decide, by decide, by decide, by decide, by decide, ?_, ?_, ?_, ?_,
    by decide, by decide, by decide, by decide, by decide⟩ <;> decide +kernel

/-- **gen_permutations_complete** (full for the sizes that reach it).  For a group of 2 to 6 members
— the only sizes for which `parse_sequences` calls `gen_permutations` — Heap's algorithm as
implemented produces exactly the permutations of the group: every list it outputs is a permutation
of the input and every permutation of the input is output.  Proved by naturality of the algorithm
in the element type (all sizes, by induction) plus complete evaluation on the index lists of length
2..6 inside the kernel; not proved for sizes above 6, which the parser rejects before calling it. -/
theorem gen_permutations_complete {α : Type} (l : List α) (h2 : 2 ≤ l.length) (h6 : l.length ≤ 6)
    (p : List α) : p ∈ genPermutations l ↔ p.Perm l :=
  mem_genPermutations_iff l h2 h6 p

example : [3, 1, 2] ∈ genPermutations [1, 2, 3] :=
  (gen_permutations_complete [1, 2, 3] (by decide) (by decide) _).2 (by decide)

/-- **insertion_accepts_iff** (full).  The conflict checks of the insertion loop (`ancestor_exists`,
`descendant_exists`) accept a batch of keys exactly when the new keys are non-empty, pairwise
prefix-incomparable and incomparable with every key already stored; the trie then holds exactly the
old entries and the new keys with the given value. -/
theorem insertion_accepts_iff {V : Type} (v : V) (ps : List Key) (t t' : Trie V) :
    insertPerms t v ps = .ok t' ↔
      t'.entries = ps.reverse.map (fun p => (p, v)) ++ t.entries ∧ ps.Pairwise Incomp ∧ [] ∉ ps ∧
        ∀ p ∈ ps, ∀ k ∈ t.keys, Incomp p k :=
  insertPerms_ok_iff v ps t t'

/-- **accepted_prefix_free** (full).  Whenever the parser accepts a set of `defseq` tables, no stored
key — with every overlap group in every order included — is a prefix of another stored key (nor
equal to one stored at another position). -/
theorem accepted_prefix_free (tbl : List (Nat × List Item)) (t : Trie Nat)
    (h : parseSequences tbl = .ok t) : PrefixFree t.keys :=
  (parseFrom_ok tbl Trie.empty t h (by simp [TrieOK, Trie.keys, Trie.empty])).1

/-- **accepted_stores_orderings** (full).  An accepted table stores exactly the permitted orderings of
its key lists (specification `orderings`: every `O-(…)` group in every permutation of its members,
given by plain insertion-permutations, not by Heap's algorithm), each with the virtual key of its
entry, and each is found by the runtime lookup with that virtual key. -/
theorem accepted_stores_orderings (tbl : List (Nat × List Item)) (t : Trie Nat)
    (h : parseSequences tbl = .ok t) :
    ∃ pairs, tableOrderings encOf tbl = some pairs ∧ (∀ x, x ∈ t.entries ↔ x ∈ pairs) ∧
      ∀ p v, (p, v) ∈ pairs → t.getOrDescendant p = .hasValue v := by
  obtain ⟨hok, pairs, hp, hm⟩ := parseFrom_ok tbl Trie.empty t h (by simp [TrieOK, Trie.keys, Trie.empty])
  refine ⟨pairs, hp, fun x => by simpa [Trie.empty] using hm x, fun p v hpv => ?_⟩
  exact lookup_of_mem t hok p v ((hm (p, v)).2 (Or.inl hpv))

/-- the table `(defseq v0 (a b) v1 (O-(c d)))` -/
def exTable : List (Nat × List Item) :=
  [(0, [.key 30, .key 48]), (1, [.held [251] [.key 46, .key 32]])]

def exTrie : Trie Nat := ⟨[([1056, 1070, 1024], 1), ([1070, 1056, 1024], 1), ([30, 48], 0)]⟩

example : parseSequences exTable = .ok exTrie := by rfl
example : PrefixFree exTrie.keys := accepted_prefix_free exTable exTrie (by rfl)
example : tableOrderings encOf exTable =
    some [([30, 48], 0), ([1070, 1056, 1024], 1), ([1056, 1070, 1024], 1)] := by decide
/-- a table in which one sequence is a prefix of another is rejected -/
example : parseSequences [(0, [.key 30]), (1, [.key 30, .key 48])] = .error .conflictAncestor := by rfl

/-- **lookup_unique** (full).  In a trie whose keys are prefix-free, what the user types determines at
most one match: along any typed word at most one prefix has a value. -/
theorem lookup_unique (t : Trie Nat) (hpf : PrefixFree t.keys) (w p q : Key) (a b : Nat)
    (hp : p <+: w) (hq : q <+: w) (ha : t.getOrDescendant p = .hasValue a)
    (hb : t.getOrDescendant q = .hasValue b) : p = q ∧ a = b := by
  have mem : ∀ (x : Key) (c : Nat), t.getOrDescendant x = .hasValue c → (x, c) ∈ t.entries := by
    intro x c hx
    rw [getOrDescendant_eq] at hx
    cases hl : lookupKey t.entries x with
    | none => rw [hl] at hx; simp only at hx; split at hx <;> simp at hx
    | some c' =>
      rw [hl] at hx
      have : c' = c := by simpa using hx
      exact this ▸ mem_of_lookupKey hl
  have hpa := mem p a ha
  have hqb := mem q b hb
  by_cases he : (p, a) = (q, b)
  · simpa using he
  · exfalso
    have hok : TrieOK t := hpf
    unfold TrieOK Trie.keys at hok
    rw [List.pairwise_map] at hok
    have hinc := pairwise_mem_ne (R := fun x y : Key × Nat => Incomp x.1 y.1)
      (fun _ _ hxy => Incomp.symm hxy) hok _ hpa _ hqb he
    rcases List.prefix_or_prefix_of_prefix hp hq with h | h
    · exact hinc.1 h
    · exact hinc.2 h

example : exTrie.getOrDescendant [30, 48] = .hasValue 0 ∧ exTrie.getOrDescendant [30] = .inTrie := by decide

/-! ## the runtime side -/

/-- **seq_fires_once_partial** (proved for tables of plain keys).
Full statement: for every accepted table (plain keys, modifier chords and groups, `O-(…)` groups),
after the leader, typing a defined sequence in a permitted order with every key arriving before the
timeout taps its virtual key exactly once and leaves sequence mode.
Proved here: the table consists of plain keys (`PlainTrie`; prefix-freeness `TrieOK` is what
`accepted_prefix_free` provides), the typed keys reach `do_sequence_press_logic` with no modifier
held, and between two keys any number `< T` of `tick_sequence_state` calls and any number of
all-keys-released hooks may occur.  Then exactly one virtual key is tapped, the one of the typed
sequence; sequence mode ends; in the hidden modes nothing at all is emitted at the OS; in
visible-backspaced mode the OS sees the typed keys, releases of held ctrl/alt/gui keys, and one
backspace per typed key (less the `sequence-noerase` count).
Missing for chorded and overlap tables: a characterisation of the modifier-bit backtracking loop,
of the overlapped-sequence variant and of the all-released completion when they *do* find entries
(they mutate both encodings), and of the key-state diff that supplies `mod_mask`; those paths are
modelled (Model/Sequences.lean) and compared with the real code tick by tick, not proved about. -/
theorem seq_fires_once_partial {t : Trie Nat} (hp : PlainTrie t) (hok : TrieOK t) (mc : Bool)
    (e : Eng) (u : Key) (k j : Nat) (pre : List Inp)
    (hs : (u ++ [k], j) ∈ t.entries)
    (ha : e.st.active = true) (hseq : e.st.sequence = []) (hT : 0 < e.st.timeout)
    (hb : e.st.ticksUntilTimeout = e.st.timeout)
    (hkeys : keysOf pre = u) (hwt : WellTimed e.st.timeout e.st.timeout pre) :
    ∃ e', engRun t mc e (pre ++ [.key k]) = .ok e' ∧ e'.st.active = false ∧ e'.taps = e.taps ++ [j] ∧
      (e.st.mode ≠ .visibleBackspaced → e'.out = e.out) ∧
      (e.st.mode = .visibleBackspaced → ∃ rel : List Nat,
        e'.out = e.out ++ (u ++ [k]).map Out.down ++ rel.flatMap osRelease ++
          (List.replicate ((u ++ [k]).length - e.st.noerase) [Out.down KC_BSPACE, Out.up KC_BSPACE]).flatten) := by
  have hplain := plain_of_mem hp hs
  have hku : ∀ x ∈ keysOf pre, plainKey x = true := fun x hx => hplain x (by rw [hkeys] at hx; simp [hx])
  have hkk : plainKey k = true := hplain k (by simp)
  have htr : absTrack t.entries e.st.sequence (keysOf pre) = some u := by
    rw [hseq, hkeys]
    simpa using absTrack_prefix hok hs u [] [k] (by simp) (by simp)
  obtain ⟨e1, hr, h1a, h1s, h1t, h1st, h1raw, h1m, h1T, h1ne, _, h1o⟩ :=
    run_tracks hp mc pre e e.st.timeout u ha (by rw [hseq]; simp) hb hT hT hku hwt htr
  have hs1 : ∀ x ∈ e1.st.sequence, x < 1024 := by
    rw [h1s]; intro x hx; exact plainKey_lt (hplain x (by simp [hx]))
  have hks := key_step hp mc e1 hkk hs1
  rw [h1s, absKey_complete hok hs] at hks
  obtain ⟨ovl, b, hbo, hd⟩ := hks
  have pf := pressBase_fields e1 hkk
  refine ⟨_, by rw [engRun_append, hr]; simp only [engRun, engStep, h1a, if_true, hd]; rfl, ?_, ?_, ?_, ?_⟩
  · exact (terminate_fields _ j b).1
  · rw [(terminate_fields _ j b).2.1]; show (pressBase e1 k).taps ++ [j] = _; rw [pf.2.1, h1t]
  · intro hm
    rw [(terminate_fields _ j b).2.2.2 (by show (pressBase e1 k).st.mode ≠ _; rw [pf.2.2.2.2.1, h1m]; exact hm)]
    show (pressBase e1 k).out = _
    rw [pf.2.2.2.2.2.2.2.2, h1o, h1m]; simp [hm]
  · intro hm
    obtain ⟨rel, hrel⟩ := terminate_visible_out
      { pressBase e1 k with st := { (pressBase e1 k).st with sequence := u ++ [k], overlapped := ovl } } j b
      (by show (pressBase e1 k).st.mode = _; rw [pf.2.2.2.2.1, h1m]; exact hm)
    refine ⟨rel, ?_⟩
    rw [hrel]
    have hseqw : (if b = true then ovl else u ++ [k]) = u ++ [k] := by
      cases b with
      | true => simp [hbo rfl]
      | false => simp
    show (pressBase e1 k).out ++ _ ++ (List.replicate (charCount (if b = true then ovl else u ++ [k]) -
      (pressBase e1 k).st.noerase) _).flatten = _
    rw [hseqw, charCount_plain _ hplain, pf.2.2.2.2.2.2.2.2, pf.2.2.2.2.2.2.1, h1o, h1m, h1ne]
    simp [hm, hkeys]

/-- the plain table `(defseq v0 (a b) v1 (a c d))` as the trie the parser builds -/
def exPlain : Trie Nat := ⟨[([30, 46, 32], 1), ([30, 48], 0)]⟩
def exPlainTable : List (Nat × List Item) := [(0, [.key 30, .key 48]), (1, [.key 30, .key 46, .key 32])]
example : parseSequences exPlainTable = .ok exPlain := by rfl
/-- sequence mode as `sldr` leaves it: hidden-suppressed, timeout 5 -/
def exFresh (mode : Mode) : Eng := { st := ({} : SeqState).activate mode 5, states := [] }

/-- `a`, two ticks, all keys released, `b`: virtual key 0 is tapped once, nothing is typed -/
example : ∃ e', engRun exPlain true (exFresh .hiddenSuppressed)
      ([.key 30, .tick, .tick, .released] ++ [.key 48]) = .ok e' ∧ e'.st.active = false ∧ e'.taps = [0] ∧
      e'.out = [] := by
  obtain ⟨e', h1, h2, h3, h4, _⟩ := seq_fires_once_partial (t := exPlain) (by decide)
    (accepted_prefix_free exPlainTable exPlain (by rfl)) true (exFresh .hiddenSuppressed) [30] 48 0
    [.key 30, .tick, .tick, .released] (by decide) rfl rfl (by decide) rfl rfl (by simp [WellTimed, exFresh, SeqState.activate])
  exact ⟨e', h1, h2, h3, h4 (by decide)⟩

/-- **nonmatching_key_ends_partial** (proved for tables of plain keys; what is missing for chorded
and overlap tables is as for `seq_fires_once_partial`).  After a proper prefix `u` of a defined
sequence has been typed in time, a key `k` after which no defined sequence can still match — no
non-empty suffix of what was typed is the beginning of a defined sequence — ends sequence mode
without tapping any virtual key.  hidden-suppressed emits nothing; hidden-delay-type types the raw
keys as taps; visible-backspaced has shown the typed keys and sends no backspace. -/
theorem nonmatching_key_ends_partial {t : Trie Nat} (hp : PlainTrie t) (hok : TrieOK t) (mc : Bool)
    (e : Eng) (s u v : Key) (k j : Nat) (pre : List Inp)
    (hs : (s, j) ∈ t.entries) (hsv : u ++ v = s) (hv : v ≠ [])
    (hk : plainKey k = true) (hfail : lvs t.entries (u ++ [k]) = [])
    (ha : e.st.active = true) (hseq : e.st.sequence = []) (hT : 0 < e.st.timeout)
    (hb : e.st.ticksUntilTimeout = e.st.timeout)
    (hkeys : keysOf pre = u) (hwt : WellTimed e.st.timeout e.st.timeout pre) :
    ∃ e', engRun t mc e (pre ++ [.key k]) = .ok e' ∧ e'.st.active = false ∧ e'.taps = e.taps ∧
      e'.out = e.out ++
        (match e.st.mode with
         | .hiddenSuppressed => []
         | .hiddenDelayType => (e.st.rawOscs ++ u ++ [k]).flatMap (fun x => osPress x ++ osRelease x)
         | .visibleBackspaced => (u ++ [k]).map Out.down) := by
  have hplain := plain_of_mem hp hs
  have hku : ∀ x ∈ keysOf pre, plainKey x = true := fun x hx =>
    hplain x (by rw [hkeys] at hx; rw [← hsv]; simp [hx])
  have htr : absTrack t.entries e.st.sequence (keysOf pre) = some u := by
    rw [hseq, hkeys]
    simpa using absTrack_prefix hok hs u [] v (by simpa using hsv) hv
  obtain ⟨e1, hr, h1a, h1s, h1t, h1st, h1raw, h1m, h1T, h1ne, _, h1o⟩ :=
    run_tracks hp mc pre e e.st.timeout u ha (by rw [hseq]; simp) hb hT hT hku hwt htr
  have hs1 : ∀ x ∈ e1.st.sequence, x < 1024 := by
    rw [h1s]; intro x hx; exact plainKey_lt (hplain x (by rw [← hsv]; simp [hx]))
  have hks := key_step hp mc e1 hk hs1
  have hab : absKey t.entries u k = .failed := by simp [absKey, hfail]
  rw [h1s, hab] at hks
  obtain ⟨ovl, hd⟩ := hks
  have pf := pressBase_fields e1 hk
  have cf := cancelSequence_fields
    { pressBase e1 k with st := { (pressBase e1 k).st with sequence := [], overlapped := ovl } }
  refine ⟨_, by rw [engRun_append, hr]; simp only [engRun, engStep, h1a, if_true, hd], cf.1, ?_, ?_⟩
  · rw [cf.2.1]; show (pressBase e1 k).taps = _; rw [pf.2.1, h1t]
  · rw [cf.2.2.2.2]
    show (pressBase e1 k).out ++ (if (pressBase e1 k).st.mode = _ then
      (pressBase e1 k).st.rawOscs.flatMap _ else []) = _
    rw [pf.2.2.2.2.2.2.2.2, pf.2.2.2.2.1, pf.2.2.2.1, h1o, h1m, h1raw, hkeys]
    cases hmode : e.st.mode with
    | hiddenSuppressed => simp
    | visibleBackspaced => simp
    | hiddenDelayType =>
      simp

/-- `a`, then `x` (which begins nothing): sequence mode ends, nothing is tapped; hidden-delay-type
types `a x` as taps -/
example : ∃ e', engRun exPlain true (exFresh .hiddenDelayType) ([.key 30, .tick] ++ [.key 45]) = .ok e' ∧
      e'.st.active = false ∧ e'.taps = [] ∧
      e'.out = [.down 30, .up 30, .down 45, .up 45] := by
  obtain ⟨e', h1, h2, h3, h4⟩ := nonmatching_key_ends_partial (t := exPlain) (by decide)
    (accepted_prefix_free exPlainTable exPlain (by rfl)) true (exFresh .hiddenDelayType) [30, 48] [30] [48] 45 0
    [.key 30, .tick] (by decide) rfl (by decide) (by decide) (by decide) rfl rfl (by decide) rfl rfl
    (by simp [WellTimed, exFresh, SeqState.activate])
  exact ⟨e', h1, h2, h3, h4⟩

/-- **timeout_ends** (full, every table).  With `b` ticks left on the sequence timer (`b` is the
configured timeout `T` right after the leader and right after every key: `SequenceState::activate`
and `do_sequence_press_logic` both reset it), fewer than `b` calls of `tick_sequence_state` leave
sequence mode on and emit nothing; the `b`-th ends it without tapping any virtual key
(hidden-delay-type then types the raw keys).  So a key processed `T - 1` ticks after the previous
one still belongs to the sequence, one processed `T` ticks after it does not. -/
theorem timeout_ends (t : Trie Nat) (mc : Bool) (e : Eng) (ha : e.st.active = true)
    (hb : 0 < e.st.ticksUntilTimeout) :
    (∀ n, n < e.st.ticksUntilTimeout → ∃ e', engRun t mc e (List.replicate n .tick) = .ok e' ∧
        e'.st.active = true ∧ e'.taps = e.taps ∧ e'.out = e.out ∧ e'.st.sequence = e.st.sequence) ∧
    ∃ e', engRun t mc e (List.replicate e.st.ticksUntilTimeout .tick) = .ok e' ∧
        e'.st.active = false ∧ e'.taps = e.taps ∧
        e'.out = e.out ++ (if e.st.mode = .hiddenDelayType then
          e.st.rawOscs.flatMap (fun k => osPress k ++ osRelease k) else []) := by
  constructor
  · intro n hn
    exact ⟨_, ticks_keep_active t mc n e ha hn, ha, rfl, rfl, rfl⟩
  · have cf := cancelSequence_fields { e with st := { e.st with ticksUntilTimeout := 0 } }
    exact ⟨_, ticks_time_out t mc e ha hb, cf.1, cf.2.1, cf.2.2.2.2⟩

example : (exFresh .hiddenSuppressed).st.active = true ∧ 0 < (exFresh .hiddenSuppressed).st.ticksUntilTimeout := by
  decide

/-- **accepted_no_empty_key**: an accepted table never stores the empty key list (used below: after a
cancelled sequence the lookup of the emptied sequence cannot complete anything). -/
theorem accepted_no_empty_key (tbl : List (Nat × List Item)) (t : Trie Nat)
    (h : parseSequences tbl = .ok t) : ∀ j, t.getOrDescendant [] ≠ .hasValue j := by
  intro j hj
  have hne := parseFrom_no_empty tbl Trie.empty t h (by simp [Trie.keys, Trie.empty])
  apply hne
  rw [getOrDescendant_eq] at hj
  cases hl : lookupKey t.entries [] with
  | none => rw [hl] at hj; simp only at hj; split at hj <;> simp at hj
  | some j' =>
    have := mem_of_lookupKey hl
    simp only [Trie.keys, List.mem_map]
    exact ⟨_, this, rfl⟩

/-- **hidden_presses_nothing** (full, every table: plain, chorded, overlap groups; any modifier mask;
any state).  In the two hidden modes, while sequence mode is on, none of the three sequence hooks
presses anything at the OS — with one exception, which is the documented behaviour of
hidden-delay-type: when a key or the timeout cancels the sequence (and only then: no virtual key is
tapped in that step) the raw typed keys are sent as taps.  (`hne`: the table stores no empty key
list — `accepted_no_empty_key`.) -/
theorem hidden_presses_nothing (t : Trie Nat) (hne : ∀ j, t.getOrDescendant [] ≠ .hasValue j)
    (mc : Bool) (e : Eng) (hm : e.st.mode ≠ .visibleBackspaced) :
    (∀ k mm, (doSeqPress t mc e k mm).out = e.out ∨
      (e.st.mode = .hiddenDelayType ∧ (doSeqPress t mc e k mm).st.active = false ∧
        (doSeqPress t mc e k mm).taps = e.taps ∧
        (doSeqPress t mc e k mm).out = e.out ++
          (e.st.rawOscs ++ [k]).flatMap (fun k => osPress k ++ osRelease k))) ∧
    (allReleasedHook t e).out = e.out ∧
    (∀ e', tickSeq e = .ok e' → e'.out = e.out ∨
      (e.st.mode = .hiddenDelayType ∧ e'.st.active = false ∧ e'.taps = e.taps ∧
        e'.out = e.out ++ e.st.rawOscs.flatMap (fun k => osPress k ++ osRelease k))) := by
  refine ⟨fun k mm => doSeqPress_hidden t hne mc e k mm hm, ?_, ?_⟩
  · unfold allReleasedHook
    split
    · rfl
    · simp only
      split
      · exact (terminate_fields _ _ true).2.2.2 hm
      · rfl
      · rfl
  · intro e' h
    unfold tickSeq at h
    split at h
    · left; simp only [Except.ok.injEq] at h; rw [← h]
    · split at h
      · simp at h
      · simp only at h
        split at h
        · simp only [Except.ok.injEq] at h
          have cf := cancelSequence_fields { e with st := { e.st with ticksUntilTimeout := e.st.ticksUntilTimeout - 1 } }
          rw [← h]
          by_cases hd : e.st.mode = .hiddenDelayType
          · right; exact ⟨hd, cf.1, cf.2.1, by rw [cf.2.2.2.2]; simp [hd]⟩
          · left; rw [cf.2.2.2.2]; simp [hd]
        · left; simp only [Except.ok.injEq] at h; rw [← h]

example : ∀ j, exTrie.getOrDescendant [] ≠ .hasValue j := accepted_no_empty_key exTable exTrie (by rfl)

/-- **backspaces_eq_typed** (full, every table).  When a sequence completes in visible-backspaced
mode the output is: releases of held ctrl/alt/gui keys, then exactly one backspace tap per character
key of the completed sequence — every element that is not the overlap marker, not a modifier and not
in the ignored range (this is how the code defines "character") — less the pending
`sequence-noerase` count.  For a plain-key sequence that is one backspace per typed key
(`seq_fires_once_partial`). -/
theorem backspaces_eq_typed (e : Eng) (j : Nat) (viaOverlap : Bool) (h : e.st.mode = .visibleBackspaced) :
    ∃ rel : List Nat, (terminate e j viaOverlap).out = e.out ++ rel.flatMap osRelease ++
      (List.replicate (charCount (if viaOverlap then e.st.overlapped else e.st.sequence) - e.st.noerase)
        [Out.down KC_BSPACE, Out.up KC_BSPACE]).flatten :=
  terminate_visible_out e j viaOverlap h

/-- `S-(a b)` completed: lsft is not a character, `a` and `b` are: two backspaces -/
example : charCount [42 ||| 0x8000, 30 ||| 0x8000, 48 ||| 0x8000] = 2 := by decide

end KVerif.Seq
