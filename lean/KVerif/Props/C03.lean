/-
C03 — configuration parsing is total: every text yields a configuration or a diagnostic.
Property theorems only, over the model of the front end (Model/SExpr.lean, Model/Template.lean);
helper lemmas are in KVerif/Lemmas/SExpr*.lean.  The ~90 per-action argument parsers are not
modelled: for them the check is the oracle run on the real parser (harness/src/c03.rs).

`fx : Fixes` selects the revision of the code: `Fixes.pinned` is the pinned source, `Fixes.fixed`
has the repairs fix-1, fix-3, fix-4, fix-7.  A theorem quantified over `fx` holds for both.
-/
import KVerif.Lemmas.SExprFront
import KVerif.Lemmas.SExprTemplate
import KVerif.Lemmas.SExprBalance
import KVerif.Gen.C03Consts
namespace KVerif.SExpr

/-! ## 1. lexer and list builder -/

/-- a span lies inside text `s` -/
def InBounds (s : List Nat) (sp : Span) : Prop := sp.start.abs ≤ sp.stop.abs ∧ sp.stop.abs ≤ s.length

/-- both ends of a span are character boundaries of `s` (what `&s[span]` and miette's
`SourceSpan` need) -/
def OnCharBoundaries (s : List Nat) (sp : Span) : Prop :=
  isCharBoundary s sp.start.abs = true ∧ isCharBoundary s sp.stop.abs = true

/-- `P` holds for every span of a parse result: the spans of all atoms and lists of the tree and of
the collected comments/whitespace when the text is accepted, the span of the diagnostic when it is
rejected. -/
def EverySpan (P : Span → Prop) (r : Except PErr (List TopLevel × List Meta)) : Prop :=
  match r with
  | .ok (tops, md) => (∀ t ∈ tops, P t.sp ∧ SExpr.AllL (fun _ sp => P sp) t.xs) ∧ ∀ m ∈ md, P m.span
  | .error e => P e.span

/-- **parse_total** (full, both revisions).  On every UTF-8 text — any bytes a Rust `&str` can
hold, no bound on length or nesting — `sexpr::parse_` returns: none of `Position::new`'s and
`Span::new`'s asserts, `Span::cover`'s file-name assert, the `expect`s on the stack and on the BOM
strip, or the `&s[span]` slices can panic, and the token loop finishes (it needs at most one
iteration per byte). -/
theorem parse_total (fx : Fixes) (ignore : Bool) (s : List Nat) (h : validUtf8 s = true) :
    ∃ r, parse fx ignore s = .ok r := by
  obtain ⟨_, r, _, hr, _⟩ := parse_spec fx ignore s h
  exact ⟨r, hr⟩

/-- the text `(defsrc a) ;; é⏎(deflayer "x" r#"漢"# #| 😀 |# a)` (1- to 4-byte characters) -/
def sampleText : List Nat :=
  [40, 100, 101, 102, 115, 114, 99, 32, 97, 41, 32, 59, 59, 32, 195, 169, 10, 40, 100, 101, 102, 108, 97, 121, 101,
   114, 32, 34, 120, 34, 32, 114, 35, 34, 230, 188, 162, 34, 35, 32, 35, 124, 32, 240, 159, 152, 128, 32, 124, 35, 32,
   97, 41]

example : validUtf8 sampleText = true := by decide
example : ∃ tops, parse Fixes.pinned true sampleText = .ok (.ok (tops, [])) ∧ tops.length = 2 := ⟨_, rfl, rfl⟩

/-- **spans_in_bounds** (full, both revisions).  Every span produced for an accepted or a rejected
text satisfies `start ≤ end ≤ length` of the text the spans refer to (the text after the BOM, which
is what the parser attaches to its spans as `file_content`). -/
theorem spans_in_bounds (fx : Fixes) (ignore : Bool) (s s' : List Nat) (r) (h : validUtf8 s = true)
    (hs : stripBom s = .ok s') (hr : parse fx ignore s = .ok r) : EverySpan (InBounds s') r := by
  obtain ⟨s'', r', hs'', hr', hpost⟩ := parse_spec fx ignore s h
  rw [hs] at hs''; cases hs''
  rw [hr] at hr'; cases hr'
  unfold EverySpan
  unfold ParsePost at hpost
  split
  · rename_i tops md
    simp only at hpost
    refine ⟨fun t ht => ?_, fun m hm => ?_⟩
    · have := hpost.1 t ht
      exact ⟨⟨this.1.le, this.1.stop.le⟩, SExpr.AllL.imp (fun _ sp h => ⟨h.1.le, h.1.stop.le⟩) _ this.2⟩
    · have := hpost.2 m hm
      exact ⟨this.le, this.stop.le⟩
  · rename_i e
    simp only at hpost
    exact ⟨hpost.le, hpost.inb⟩

/-- **spans_on_char_boundary** (full for the repaired lexer; for the pinned lexer every span
except the end of an "Unterminated multiline string" diagnostic).  If the text is valid UTF-8, every
span starts and ends at a character boundary: the lexer only ever stops after an ASCII byte, before
an ASCII byte, or at the end of the text, and in UTF-8 a continuation byte never follows an ASCII
byte. -/
theorem spans_on_char_boundary (fx : Fixes) (ignore : Bool) (s s' : List Nat) (r) (h : validUtf8 s = true)
    (hs : stripBom s = .ok s') (hr : parse fx ignore s = .ok r)
    (hfix : fx.rawEnd = true ∨ ∀ e, r = .error e → e.msg ≠ .lex .untermMlString) :
    EverySpan (OnCharBoundaries s') r := by
  obtain ⟨s'', r', hs'', hr', hpost⟩ := parse_spec fx ignore s h
  rw [hs] at hs''; cases hs''
  rw [hr] at hr'; cases hr'
  unfold EverySpan
  unfold ParsePost at hpost
  split
  · rename_i tops md
    simp only at hpost
    refine ⟨fun t ht => ?_, fun m hm => ?_⟩
    · have := hpost.1 t ht
      exact ⟨⟨this.1.bs, this.1.be⟩, SExpr.AllL.imp (fun _ sp h => ⟨h.1.bs, h.1.be⟩) _ this.2⟩
    · have := hpost.2 m hm
      exact ⟨this.bs, this.be⟩
  · rename_i e
    simp only at hpost
    refine ⟨hpost.bs, hpost.be fun hm => ?_⟩
    rcases hfix with hf | hf
    · exact hf
    · exact absurd hm (hf e rfl)

/-- **atoms_are_slices** (full, both revisions).  In an accepted text every atom's string is exactly
`&s[span]` — the literal, checked slice of the text at the atom's span (`slice` panics like Rust
does when a bound is out of range or inside a character; it does not here).  This also justifies
the model's shortcut of taking an atom's bytes from the iterator instead of re-slicing the text. -/
theorem atoms_are_slices (fx : Fixes) (ignore : Bool) (s s' : List Nat) (tops md) (h : validUtf8 s = true)
    (hs : stripBom s = .ok s') (hr : parse fx ignore s = .ok (.ok (tops, md))) :
    ∀ t ∈ tops, SExpr.AllL (fun txt sp => ∀ a, txt = some a → slice s' sp.start.abs sp.stop.abs = .ok a) t.xs := by
  obtain ⟨s'', r', hs'', hr', hpost⟩ := parse_spec fx ignore s h
  rw [hs] at hs''; cases hs''
  rw [hr] at hr'; cases hr'
  intro t ht
  exact SExpr.AllL.imp (fun _ _ h => h.2) _ (hpost.1 t ht).2

/-- **raw_string_span_counterexample** (pinned source).  `r#"é` — an unterminated raw string that
ends in a two-byte character — is rejected with a span that ends *inside* that character
(offset 4 of 5): `read_until_multiline_string_end` stops one byte short of the end.  miette then
panics while rendering the one-line snippet (reproduced on the real code: "end byte index 4 is not
a char boundary", miette-5.10.0 graphical.rs:640). -/
theorem raw_string_span_counterexample :
    validUtf8 [114, 35, 34, 195, 169] = true ∧
    ∃ e, parse Fixes.pinned true [114, 35, 34, 195, 169] = .ok (.error e) ∧ e.msg = .lex .untermMlString ∧
      e.span.stop.abs = 4 ∧ isCharBoundary [114, 35, 34, 195, 169] 4 = false :=
  ⟨by decide, ⟨⟨⟨0, 0, 0⟩, ⟨4, 0, 0⟩, 1⟩, .lex .untermMlString⟩, rfl, rfl, rfl, by decide⟩

/-- with fix-7 the same text is rejected with the span of the whole text -/
example : ∃ e, parse Fixes.fixed true [114, 35, 34, 195, 169] = .ok (.error e) ∧ e.span.stop.abs = 5 :=
  ⟨⟨⟨⟨0, 0, 0⟩, ⟨5, 0, 0⟩, 1⟩, .lex .untermMlString⟩, rfl, rfl⟩

/-- **unbalanced_is_diag** (full, both revisions).  Let `ks` be the token kinds the lexer yields
for the text and `balance ks 0` the ordinary parenthesis count over them (the specification,
Lemmas/SExprBalance.lean).  Then `parse` answers exactly what the count says: a closing parenthesis
with nothing open gives the diagnostic "Unexpected closing parenthesis", parentheses left open give
"Unclosed opening parenthesis", a lexical error gives that error, and a text is accepted only if it
is balanced.  With `parse_total`: an unbalanced text always yields a diagnostic, never a crash and
never a configuration. -/
theorem unbalanced_is_diag (fx : Fixes) (ignore : Bool) (s s' : List Nat) (ks) (r)
    (hs : stripBom s = .ok s') (hk : tokKinds fx ignore (s'.length + 1) (It.ofText s') = .ok ks)
    (hr : parse fx ignore s = .ok r) :
    (balance ks 0 = .unexpectedClose → ∃ sp, r = .error ⟨sp, .unexpectedClose⟩) ∧
    (balance ks 0 = .unclosed → ∃ sp, r = .error ⟨sp, .unclosedOpen⟩) ∧
    (balance ks 0 = .lexError → ∃ sp l, r = .error ⟨sp, .lex l⟩) ∧
    (∀ tops md, r = .ok (tops, md) → balance ks 0 = .balanced) := by
  unfold parse at hr
  simp only [hs, bind, Except.bind] at hr
  cases hl : parseLoop fx ignore (s'.length + 1) (It.ofText s') [⟨[], Span.default⟩] [] with
  | error c => simp [hl] at hr
  | ok rl =>
    simp only [hl] at hr
    have hb := parseLoop_balance fx ignore _ _ _ _ rl ks hl hk (by simp)
    simp only [List.length_singleton, Nat.sub_self] at hb
    have key : ∀ v, balance ks 0 = v → LoopAnswers v rl := fun v hv => hv ▸ hb
    have h1 : balance ks 0 = .unexpectedClose → ∃ sp, r = .error ⟨sp, .unexpectedClose⟩ := by
      intro hv
      obtain ⟨e, rfl, hm⟩ := key _ hv
      unfold finish at hr
      simp only [hm, pure, Except.pure, Except.ok.injEq] at hr
      exact ⟨e.span, by rw [← hr]; cases e; simp_all⟩
    have h2 : balance ks 0 = .unclosed → ∃ sp, r = .error ⟨sp, .unclosedOpen⟩ := by
      intro hv
      obtain ⟨st, md, rfl, hlen⟩ := key _ hv
      unfold finish at hr
      match st, hlen with
      | top :: a :: rest, _ =>
        simp [pure, Except.pure] at hr
        exact ⟨top.span, hr.symm⟩
    have h3 : balance ks 0 = .lexError → ∃ sp l, r = .error ⟨sp, .lex l⟩ := by
      intro hv
      obtain ⟨e, l, rfl, hm⟩ := key _ hv
      unfold finish at hr
      simp only [hm] at hr
      split at hr
      · simp [pure, Except.pure] at hr; exact ⟨_, _, hr.symm⟩
      · simp [pure, Except.pure] at hr; exact ⟨e.span, l, by rw [← hr]; cases e; simp_all⟩
    refine ⟨h1, h2, h3, ?_⟩
    intro tops md hok
    subst hok
    cases hv : balance ks 0 with
    | balanced => rfl
    | unexpectedClose => obtain ⟨_, h⟩ := h1 hv; cases h
    | unclosed => obtain ⟨_, h⟩ := h2 hv; cases h
    | lexError => obtain ⟨_, _, h⟩ := h3 hv; cases h

/-- `(a))` has one closing parenthesis too many; `((a)` one too few -/
example : ∃ ks, tokKinds Fixes.fixed true 5 (It.ofText [40, 97, 41, 41]) = .ok ks ∧ balance ks 0 = .unexpectedClose :=
  ⟨_, rfl, rfl⟩
example : ∃ ks, tokKinds Fixes.fixed true 5 (It.ofText [40, 40, 97, 41]) = .ok ks ∧ balance ks 0 = .unclosed :=
  ⟨_, rfl, rfl⟩


/-- the token stream of the hypothesis exists for every text -/
example (fx : Fixes) (s : List Nat) : ∃ ks, tokKinds fx true (s.length + 1) (It.ofText s) = .ok ks :=
  tokKinds_total fx true s _ _ [] (Good.ofText s) (by simp [It.ofText])

/-! ## 2. `impl Debug for SExpr` -/

/-- **debug_total** (full, with fix-1).  The repaired `{:?}` of `SExpr` returns a string for every
expression, empty lists included. -/
theorem debug_total (e : SExpr) : ∃ bs, e.debug Fixes.fixed = .ok bs := debug_total_aux Fixes.fixed rfl e

/-- `(defalias () a)` -/
def debugWitness : List Nat := [40, 100, 101, 102, 97, 108, 105, 97, 115, 32, 40, 41, 32, 97, 41]

/-- **debug_counterexample** (pinned source).  `(defalias () a)` parses, and formatting the parsed
item with `{:?}` — which `parse_aliases`' error path does — hits `l.t.len() - 1` on the empty list
(reproduced on the real code: "attempt to subtract with overflow", sexpr.rs:226). -/
theorem debug_counterexample :
    ∃ xs sp, parse Fixes.pinned true debugWitness = .ok (.ok ([⟨xs, sp⟩], [])) ∧
      (SExpr.list xs sp).debug Fixes.pinned = .error .debugUnderflow :=
  ⟨_, _, rfl, rfl⟩

example : ∃ xs sp, parse Fixes.fixed true debugWitness = .ok (.ok ([⟨xs, sp⟩], [])) ∧
      (SExpr.list xs sp).debug Fixes.fixed = .ok debugWitness :=
  ⟨_, _, rfl, rfl⟩

/-! ## 3. variables -/

/-- **resolve_terminates** (full, on the model of `SExpr::atom(vars)` / `SExpr::list(vars)`).
If the chain of `$name` references is ranked (no variable reaches itself through atom values), then
resolving any expression finishes: there is a recursion depth that suffices, for every expression. -/
theorem resolve_terminates (vars : Vars) (rank : Bytes → Nat) (h : ChainRanked vars rank) (e : SExpr) :
    ∃ n, ∀ fuel, n ≤ fuel →
      (∃ r, e.atomV fuel (some vars) = .ok r) ∧ (∃ r, e.listV fuel (some vars) = .ok r) := by
  cases e with
  | list xs sp => exact ⟨0, fun fuel _ => ⟨⟨none, by simp [SExpr.atomV]⟩, ⟨some xs, by simp [SExpr.listV]⟩⟩⟩
  | atom t sp =>
    cases hd : stripDollar t with
    | none => exact ⟨0, fun fuel _ => by unfold SExpr.atomV SExpr.listV; simp [hd]⟩
    | some m =>
      cases hl : vars.lookup m with
      | none => exact ⟨0, fun fuel _ => by unfold SExpr.atomV SExpr.listV; simp [hd, hl]⟩
      | some v =>
        refine ⟨rank m + 1, fun fuel hf => ?_⟩
        obtain ⟨f, rfl⟩ : ∃ f, fuel = f + 1 := ⟨fuel - 1, by omega⟩
        unfold SExpr.atomV SExpr.listV
        simp only [hd, hl]
        exact resolve_value vars rank h (rank m) m v hl (Nat.le_refl _) f (by omega)

/-- `(defvar a $b b c)`: `$a` resolves to `c` -/
example : ChainRanked [([97], .atom [36, 98] Span.default), ([98], .atom [99] Span.default)]
    (fun n => if n = [97] then 1 else 0) := by
  intro n t sp m v hn hd hm
  by_cases h1 : n = [97]
  · subst h1
    simp [List.lookup] at hn
    obtain ⟨rfl, _⟩ := hn
    simp [stripDollar] at hd
    subst hd
    decide
  · by_cases h2 : n = [98]
    · subst h2
      simp [List.lookup] at hn
      obtain ⟨rfl, _⟩ := hn
      simp [stripDollar] at hd
    · have e1 : (n == [97]) = false := by simpa using h1
      have e2 : (n == [98]) = false := by simpa using h2
      simp [List.lookup, e1, e2] at hn

/-- `(defvar a $a)` -/
def varCycleWitness : List Nat := [40, 100, 101, 102, 118, 97, 114, 32, 97, 32, 36, 97, 41]

/-- **parse_vars_accepts_cycle_counterexample** (pinned source).  `parse_vars` accepts
`(defvar a $a)`, and resolving `$a` afterwards recurses without end at every recursion depth: the
real parser overflows its stack (reproduced: process abort). -/
theorem parse_vars_accepts_cycle_counterexample :
    ∃ xs sp vars, parse Fixes.pinned true varCycleWitness = .ok (.ok ([⟨xs, sp⟩], [])) ∧
      parseVars Fixes.pinned 100 [xs] [] = .ok (.ok vars) ∧
      ∀ fuel, (SExpr.atom [36, 97] Span.default).atomV fuel (some vars) = .error .fuelOut :=
  ⟨_, _, [([97], .atom [36, 97] ⟨⟨10, 0, 0⟩, ⟨12, 0, 0⟩, 1⟩)], rfl, rfl, fun fuel => selfref_diverges _ fuel _⟩

/-- with fix-3 the definition is refused with a diagnostic at the variable name -/
example : ∃ xs sp d, parse Fixes.fixed true varCycleWitness = .ok (.ok ([⟨xs, sp⟩], [])) ∧
    parseVars Fixes.fixed 100 [xs] [] = .ok (.error d) ∧ (d.span.map (·.start.abs)) = some 8 :=
  ⟨_, _, _, rfl, rfl, rfl⟩

/-- `(defvar l (x $l) c (concat $l))` -/
def varListCycleWitness : List Nat :=
  [40, 100, 101, 102, 118, 97, 114, 32, 108, 32, 40, 120, 32, 36, 108, 41, 32, 99, 32, 40, 99, 111, 110, 99, 97, 116,
   32, 36, 108, 41, 41]

/-- **concat_list_cycle_counterexample** (pinned source).  A list-valued variable that mentions
itself makes `push_all_atoms` (the evaluation of `concat`) recurse without end, inside `parse_vars`
itself: at every fuel the model runs out (reproduced on the real parser: stack overflow). -/
theorem concat_list_cycle_counterexample :
    parse Fixes.pinned true varListCycleWitness = .ok (.ok ([⟨[A "defvar" 1 7, A "l" 8 9,
      L [A "x" 11 12, A "$l" 13 15] 10 16, A "c" 17 18, L [A "concat" 20 26, A "$l" 27 29] 19 30], sp1 0 31⟩], [])) ∧
    ∀ fuel, parseVars Fixes.pinned fuel [[A "defvar" 1 7, A "l" 8 9,
      L [A "x" 11 12, A "$l" 13 15] 10 16, A "c" 17 18, L [A "concat" 20 26, A "$l" 27 29] 19 30]] [] =
        .error .fuelOut := by
  refine ⟨rfl, fun fuel => ?_⟩
  have k1 : kw "defvar" = [100, 101, 102, 118, 97, 114] := rfl
  have k2 : kw "concat" = [99, 111, 110, 99, 97, 116] := rfl
  have k3 : kw "l" = [108] := rfl
  have k4 : kw "x" = [120] := rfl
  have k5 : kw "$l" = [36, 108] := rfl
  have k6 : kw "c" = [99] := rfl
  simp [parseVars, checkFirstExpr, SExpr.atom?, A, L, k1, k2, k3, k4, k5, k6, parseVarsPairs, parseListVar,
    List.lookup, Fixes.pinned, bind, Except.bind, pure, Except.pure, pushAllAtoms_list_cycle]

example : ∃ xs sp d, parse Fixes.fixed true varListCycleWitness = .ok (.ok ([⟨xs, sp⟩], [])) ∧
    parseVars Fixes.fixed 100 [xs] [] = .ok (.error d) ∧ (d.span.map (·.start.abs)) = some 8 :=
  ⟨_, _, _, rfl, rfl, rfl⟩


/-! ## 4. templates -/

/-- `(deftemplate a (x y) ($x a $x $y))(t! a t! t!)` -/
def tmplWitness1 : List Nat :=
  [40, 100, 101, 102, 116, 101, 109, 112, 108, 97, 116, 101, 32, 97, 32, 40, 120, 32, 121, 41, 32, 40, 36, 120, 32, 97,
   32, 36, 120, 32, 36, 121, 41, 41, 40, 116, 33, 32, 97, 32, 116, 33, 32, 116, 33, 41]

def tmplTops1 : List TopLevel :=
  [⟨[A "deftemplate" 1 12, A "a" 13 14, L [A "x" 16 17, A "y" 18 19] 15 20,
     L [A "$x" 22 24, A "a" 25 26, A "$x" 27 29, A "$y" 30 32] 21 33], sp1 0 34⟩,
   ⟨[A "t!" 35 37, A "a" 38 39, A "t!" 40 42, A "t!" 43 45], sp1 34 46⟩]

/-- **expand_diverges_counterexample** (pinned source).  With `t!` passed as a parameter, the
expansion of `(t! a t! t!)` is `(t! a t! t!)` again: `expand` re-scans and re-expands it forever.
At every fuel the model of the pinned `expand_templates` runs out (reproduced: the real parser does
not return; killed after 20 s). -/
theorem expand_diverges_counterexample :
    parse Fixes.pinned true tmplWitness1 = .ok (.ok (tmplTops1, [])) ∧
    ∀ fuel, expandTemplates Fixes.pinned fuel tmplTops1 = .error .fuelOut := by
  refine ⟨rfl, fun fuel => ?_⟩
  have hts : collectTemplates tmplTops1 [] =
      .ok [⟨kw "a", [kw "x", kw "y"], [L [A "$x" 22 24, A "a" 25 26, A "$x" 27 29, A "$y" 30 32] 21 33]⟩] := rfl
  have hd := pinned_diverges
    [⟨kw "a", [kw "x", kw "y"], [L [A "$x" 22 24, A "a" 25 26, A "$x" 27 29, A "$y" 30 32] 21 33]⟩]
    []
    [A "t!" 35 37, A "a" 38 39, A "t!" 40 42, A "t!" 43 45]
    [A "t!" 40 42, A "a" 25 26, A "t!" 40 42, A "t!" 43 45]
    (sp1 34 46) (sp1 21 33) rfl rfl rfl rfl rfl fuel
  unfold expandTemplates
  simp only [hts]
  have hl : ((tmplTops1.filter fun t => !isDeftemplate t).map fun t => SExpr.list t.xs t.sp) =
      [] ++ [.list [A "t!" 35 37, A "a" 38 39, A "t!" 40 42, A "t!" 43 45] (sp1 34 46)] := rfl
  rw [hl, hd]
  rfl

/-- `(deftemplate a () ((if-equal x x t!) a))(t! a)` -/
def tmplWitness2 : List Nat :=
  [40, 100, 101, 102, 116, 101, 109, 112, 108, 97, 116, 101, 32, 97, 32, 40, 41, 32, 40, 40, 105, 102, 45, 101, 113,
   117, 97, 108, 32, 120, 32, 120, 32, 116, 33, 41, 32, 97, 41, 41, 40, 116, 33, 32, 97, 41]

def tmplTops2 : List TopLevel :=
  [⟨[A "deftemplate" 1 12, A "a" 13 14, L [] 15 17,
     L [L [A "if-equal" 20 28, A "x" 29 30, A "x" 31 32, A "t!" 33 35] 19 36, A "a" 37 38] 18 39], sp1 0 40⟩,
   ⟨[A "t!" 41 43, A "a" 44 45], sp1 40 46⟩]

/-- **expand_diverges_without_expand_arguments_counterexample** (pinned source).  The hypothesis
"no `template-expand`/`t!` atom among the arguments" does not make expansion terminate either: a
conditional inside the template can produce the `t!` (`deftemplate`'s validation only looks at a
`t!` that is followed by a name).  `(t! a)` has no arguments at all and expands to itself forever
(reproduced: the real parser does not return). -/
theorem expand_diverges_without_expand_arguments_counterexample :
    parse Fixes.pinned true tmplWitness2 = .ok (.ok (tmplTops2, [])) ∧
    ∀ fuel, expandTemplates Fixes.pinned fuel tmplTops2 = .error .fuelOut := by
  refine ⟨rfl, fun fuel => ?_⟩
  have hts : collectTemplates tmplTops2 [] =
      .ok [⟨kw "a", [], [L [L [A "if-equal" 20 28, A "x" 29 30, A "x" 31 32, A "t!" 33 35] 19 36, A "a" 37 38] 18 39]⟩] := rfl
  have hd := pinned_diverges
    [⟨kw "a", [], [L [L [A "if-equal" 20 28, A "x" 29 30, A "x" 31 32, A "t!" 33 35] 19 36, A "a" 37 38] 18 39]⟩]
    []
    [A "t!" 41 43, A "a" 44 45]
    [A "t!" 33 35, A "a" 37 38]
    (sp1 40 46) (sp1 18 39) rfl rfl rfl rfl rfl fuel
  unfold expandTemplates
  simp only [hts]
  have hl : ((tmplTops2.filter fun t => !isDeftemplate t).map fun t => SExpr.list t.xs t.sp) =
      [] ++ [.list [A "t!" 41 43, A "a" 44 45] (sp1 40 46)] := rfl
  rw [hl, hd]
  rfl

/-- **expand_templates_total** (full, with fix-4).  The repaired `expand_templates` returns on
every list of top-level items — an expanded list or a diagnostic: the depth and size limits bound
the expansion (the model function is defined by well-founded recursion on them, without fuel), the
`expect("validated matching var lens")` is unreachable after the parameter-count check, and the
`while evaluate_conditionals` loop finishes because every changing sweep removes a node. -/
theorem expand_templates_total (fuel : Nat) (tops : List TopLevel) :
    ∃ r, expandTemplates Fixes.fixed fuel tops = .ok r := by
  unfold expandTemplates
  cases collectTemplates tops [] with
  | error d => exact ⟨_, rfl⟩
  | ok ts =>
    obtain ⟨r, hr⟩ := (expand_pass_total ts).1 ⟨0, MAX_EXPANDED_NODES⟩
      ((tops.filter fun t => !isDeftemplate t).map fun t => SExpr.list t.xs t.sp)
    simp only [Fixes.fixed, if_true, hr, bind, Except.bind]
    cases r with
    | error d => exact ⟨_, rfl⟩
    | ok p => exact ⟨_, rfl⟩

/- (That the fix turns both divergent inputs into diagnostics at the offending expansion is checked by the
correspondence run: corpus cases `known:10…`; the well-founded definition does not reduce in the kernel.) -/

/-- **tmpl_limits_from_source**: the two limits of the model are the constants the translator read
from deftemplate.rs (regenerated on every run; `none` — and this fails — when the source lacks fix-4). -/
theorem tmpl_limits_from_source :
    Gen.C03_TMPL_LIMITS = some (MAX_EXPANSION_DEPTH, MAX_EXPANDED_NODES) := rfl

/-- **expand_terminates_partial** (pinned source; partial).  Full statement wanted: expansion
terminates whenever no template can produce a new expansion.  Proved: on items that contain no
`(template-expand …)`/`(t! …)` list at all, the pinned `expand` finishes within fuel proportional to
the size of the items and returns them unchanged.  Missing: a syntactic class of templates with
expansions for which termination holds — the two counterexamples above show that "no `t!` among the
arguments" is not such a class. -/
theorem expand_terminates_partial (ts : List Template) (xs : List SExpr) (h : inertL xs = true) :
    ∀ fuel, 2 * countNodes xs + 1 ≤ fuel → expandPinned ts fuel xs = .ok (.ok xs) :=
  fun fuel hf => (inert_pinned_ok ts fuel xs h).2 hf

example : inertL [L [A "deflayer" 1 9, A "base" 10 14, L [A "tap-hold" 16 24, A "200" 25 28] 15 29] 0 30] = true := rfl

/-! ## 5. the whole loader, with the unmodelled back end as a parameter -/

/-- outcome of loading a configuration: accepted, or rejected with a diagnostic (from the front end
or from the back end) -/
inductive Loaded | cfg | syntaxDiag (e : PErr) | diag (d : Diag)

/-- `parse_cfg_raw_string` as far as it is modelled: `sexpr::parse`, then `expand_templates`, then
everything else — include/platform/environment filtering and the ~90 per-action parsers — as the
parameter `P`. -/
def load (fx : Fixes) (P : List TopLevel → Except Crash (Except Diag Unit)) (s : List Nat) : Except Crash Loaded := do
  match ← parse fx true s with
  | .error e => pure (.syntaxDiag e)
  | .ok (tops, _) =>
    match ← expandTemplates fx 0 tops with
    | .error d => pure (.diag d)
    | .ok tops' =>
      match ← P tops' with
      | .error d => pure (.diag d)
      | .ok () => pure .cfg

/-- **parse_total_full_partial**.  Full statement wanted: for every UTF-8 text, loading returns a
configuration or an in-bounds diagnostic and never crashes or hangs.  Proved: this holds for the
repaired front end composed with *any* back end `P` that is itself total — the assumption
`hP` stands for the ~90 argument parsers of cfg/mod.rs, which are not modelled; for them the check
is the oracle run on the real parser (harness/src/c03.rs), which found and fixed panics in four of
them. -/
theorem parse_total_full_partial (P : List TopLevel → Except Crash (Except Diag Unit))
    (hP : ∀ tops, ∃ r, P tops = .ok r) (s : List Nat) (h : validUtf8 s = true) :
    ∃ r, load Fixes.fixed P s = .ok r := by
  obtain ⟨r, hr⟩ := parse_total Fixes.fixed true s h
  unfold load
  simp only [hr, bind, Except.bind]
  match r with
  | .error e => exact ⟨_, rfl⟩
  | .ok (tops, md) =>
    obtain ⟨r2, hr2⟩ := expand_templates_total 0 tops
    simp only [hr2]
    match r2 with
    | .error d => exact ⟨_, rfl⟩
    | .ok tops' =>
      obtain ⟨r3, hr3⟩ := hP tops'
      simp only [hr3]
      match r3 with
      | .error d => exact ⟨_, rfl⟩
      | .ok () => exact ⟨_, rfl⟩

example : ∀ tops, ∃ r, (fun (_ : List TopLevel) => (pure (.ok ()) : Except Crash (Except Diag Unit))) tops = .ok r :=
  fun _ => ⟨_, rfl⟩

end KVerif.SExpr
