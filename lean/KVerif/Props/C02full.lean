/-
C02 (continued) — an accepted configuration never crashes or hangs event processing: the no-crash
statement of `Props/C02frag.lean` (`union_never_crashes`) extended, in stages, towards the whole action
grammar of `Model/Action.lean`.

What is proved here, for EVERY history (presses inside the layer table; releases of any coordinate at
all, also of keys that are not down; repeated presses; ticks; any order, any timing, any number of
events between two ticks) and from every state that meets the invariant (in particular the fresh one):

  stage 1+2  `tapdance_chords_never_crash`   union fragment + tap-dance (lazy and eager) + chords v1
                                             (incl. the decomposition into the action queue and the
                                             repetition of a chord's action on the participating keys)
  stage 3    `switch_never_crashes`          + `switch` (opcodes checked by the decidable `opsCompiled`,
                                             sound by `eval_no_crash` of C10; the yielded actions go
                                             through the action queue)
  stage 4    the overflow path of `Layout::event` (an event arriving while 32 are pending) is INSIDE all
             of these theorems: no bound on pending events is assumed (`overflow_path_is_covered`).
  `whole_grammar_never_crashes_partial`      the statement for `CfgWF'`; see there for what is missing
                                             of the whole grammar (`repeat`; tap-hold keys whose HOLD
                                             action is not a key, an output chord or layer-while-held
                                             — tap and timeout actions are arbitrary; chords v2 has its
                                             own theorem).

The actions may be nested arbitrarily: tap-dance members, chord actions, switch case actions, `multi`
members, `fork` branches and the tap and timeout actions of a tap-hold key are again actions of the
fragment.  Helper lemmas: Lemmas/NoCrashFull.lean
(`engine2`: induction over the recursion budget; `NC2`: the state invariant, which now allows a waiting
state of tap-dance / chord kind, an eager tap-dance state and entries in the action queue, all carrying
sub-actions of configured actions and coordinates inside the table), Lemmas/SwitchDecomp.lean.
-/
import KVerif.Lemmas.NoCrashFull
import KVerif.Lemmas.SwitchDecomp
import KVerif.Props.C02frag
namespace KVerif.C02
open KVerif.L KVerif.NCF KVerif.NCG
open KVerif.C04 (In runM)

/-! ## the conditions -/

/-- **CfgWF'** (decidable): what the run time relies on.  For each clause: does the real parser
guarantee it?

* `RangeG` (`nodeOK` on every node of every configured action, `flat` = all nested actions):
  - the repaired layer stack (fix 31b82c0) — a property of the code, not of the configuration;
  - there is a layer — parser: `deflayer` is mandatory (`parse_cfg_raw_string`, "no deflayer");
  - `layer-while-held` / one-shot-layer / tap-hold-layer targets exist — parser: `layer_idx`
    (parser/src/cfg/mod.rs) resolves names, an unknown name is an error;
  - a one-shot key holds a key, an output chord or layer-while-held — parser: `parse_one_shot`
    ("one-shot is only allowed to contain layer-while-held, a keycode, or a chord");
  - **tap-hold: the HOLD action is a key, an output chord or layer-while-held — NOT guaranteed by the
    parser** (`parse_tap_hold` accepts any action); this is a restriction of the theorem, see
    `whole_grammar_never_crashes_partial`.  The tap and timeout actions are arbitrary actions of the
    fragment (they run from `tick` with the whole budget, or — inside the tap-hold interval — nested);
  - tap-dance lists are non-empty — parser: `parse_tap_dance` ("the list must not be empty");
    needed: `empty_tap_dance_counterexample`;
  - chord coordinates lie inside the layer table — parser: `resolve_chord_groups` takes them from
    defsrc positions; needed: `chord_coordinate_counterexample`;
  - switch opcodes are compiler output within the length (4095) and depth (8) limits, every operator
    has an operand, every leaf is in range (`Switch.opsCompiled`) — parser: `parse_switch_case_bool`
    (parser/src/cfg/switch.rs) is the only producer and performs both checks;
  - no `repeat` (`rpt`, `rpt-any`) and no repeat-buffer action — NOT a parser guarantee: outside the
    theorem (the pinned defect c6daee1 is `C02.repeat_*` in Props/C02.lean);
  - the defsrc row holds no transparent / use-defsrc item — parser: the row is filled with key codes.
* `FuelG`: the explicit budget for action nesting, a closed formula in the configuration
  (`pressCostG + 2`, plus `14 + 32 * (pressCostG + 3)` when a one-shot key occurs, at most 3999) — an
  artefact of the fuelled model (see `fuel_budget_counterexample`); the parser bounds nesting only by
  the length of the configuration text.
Capacities (32 queued events, 16 one-shot keys, 8 extra waiting states, 8 action-queue entries, 64
states, 4 sequences, 12 layers) are NOT hypotheses: every overflow path is covered. -/
def CfgWF' (cfg : LCfg) : Prop := RangeG Switch.opsCompiled cfg ∧ FuelG cfg

instance (cfg : LCfg) : Decidable (CfgWF' cfg) := by unfold CfgWF'; exact inferInstance

/-- the state invariant for a configuration that meets `RangeG sw` (see `NCG.NC2`) -/
abbrev InvG (sw : List Nat → Bool) (cfg : LCfg) (s : Layout) : Prop :=
  NC2 cfg sw (maxCostG cfg) (pressCostG cfg) (cfgOshG cfg) s

/-- a state that meets the state conditions of the union theorem (`StartU`: in particular a freshly
created layout, `startU_init`) meets the invariant -/
theorem invG_start (sw : List Nat → Bool) (s : Layout) (hs : StartU s) : InvG sw s.cfg s := NC.toNC2 hs.nc

/-! ## stage 3 (contains stages 1, 2 and 4) -/

/-- **switch_never_crashes** (full, on the fragment `GAct`).  Configurations built — with arbitrary
nesting of `multi`, `fork`, tap-dance members, chord actions and switch case actions — from the union
fragment of `union_never_crashes` (keys, output chords, no-op, transparent, use-defsrc, layer-while-held,
layer-switch, release-key / release-layer, one-shot keys, macros, repeating macros, custom actions,
cancel, one-shot-pause-processing), **tap-hold keys** of every variant whose hold action is a key, an
output chord or layer-while-held and whose tap and timeout actions are ANY actions of the fragment
(the union theorem wanted all three simple), **tap-dance** (lazy and eager, any timeout, non-empty list), **chords v1**
(any group whose coordinates lie inside the table, any timeout) and **switch** (opcodes accepted by a
sound check `sw`, break and fallthrough cases): if the configuration is well-formed (`RangeG sw`) and
within the recursion budget (`FuelG`), EVERY history is processed without a crash outcome, from every
state that meets the invariant.  No bound on pending events (the overflow path of `Layout::event`
— flush of all nine waiting slots, then the oldest event processed at once, possibly re-entering
`event` through the one-shot table — is covered), held layers, active one-shot keys, queued actions or
history length. -/
theorem switch_never_crashes (sw : List Nat → Bool) (hsw : SwSound sw) (ins : List In) (s : Layout)
    (hr : RangeG sw s.cfg) (hf : FuelG s.cfg) (hs : InvG sw s.cfg s) (ht : InTable s.cfg ins) :
    ∃ t, runM s ins = .ok t :=
  run_ok2 (cfgOK2_of_range hr hsw) hf ins s hs ht

/-- **run_keeps_invariant**: the state reached meets the invariant again, so the theorem applies to
every continuation of the history -/
theorem run_keeps_invariant (sw : List Nat → Bool) (hsw : SwSound sw) (ins : List In) (s : Layout)
    (hr : RangeG sw s.cfg) (hf : FuelG s.cfg) (hs : InvG sw s.cfg s) (ht : InTable s.cfg ins) :
    ∃ s', runL s ins = .ok s' ∧ s'.cfg = s.cfg ∧ InvG sw s.cfg s' := by
  obtain ⟨s', h1, h2⟩ := runL_ok2 (cfgOK2_of_range hr hsw) hf ins s hs ht
  exact ⟨s', h1, h2.cfgEq, h2⟩

/-- **fragment_contains_the_union**: every action of the union fragment of `union_never_crashes` is an
action of the fragment of this file (for any opcode check), so the theorems here subsume it -/
theorem fragment_contains_the_union (cfg : LCfg) (sw : List Nat → Bool) (a : Action)
    (h : UAct cfg.layers.length a = true) : GAct cfg sw a = true :=
  union_in_G cfg sw (ucost a) a (Nat.le_refl _) h

/-! ## stages 1 and 2: no hypothesis about opcodes -/

/-- **tapdance_chords_never_crash** (full, on the fragment without `switch`): the union fragment with
tap-dance (stage 1) and chords v1 (stage 2), arbitrarily nested.  `RangeG (fun _ => false)` admits no
switch case, so nothing is assumed about opcode arrays. -/
theorem tapdance_chords_never_crash (ins : List In) (s : Layout) (hr : RangeG (fun _ => false) s.cfg)
    (hf : FuelG s.cfg) (hs : StartU s) (ht : InTable s.cfg ins) : ∃ t, runM s ins = .ok t :=
  switch_never_crashes (fun _ => false) (fun _ h => by cases h) ins s hr hf (invG_start _ s hs) ht

/-! ## the statement for `CfgWF'` -/

/-
FULL STATEMENT (not proved):
  theorem whole_grammar_never_crashes (cfg) (h : CfgWF cfg) (ins) (ht : InTable cfg ins) :
      ∃ t, runM { cfg := cfg } ins = .ok t
where `CfgWF` admits EVERY action of Model/Action.lean that the parser can produce.
Missing from `CfgWF'` below:
  (a) `repeat` (rpt, rpt-any).  After fix c6daee1 the saved action runs with the repeat slot emptied, so
      termination rests on the SIZE of the saved action going down along nested repeats — except
      when a one-shot key inside it overflows the one-shot table and re-enters `event`, which can save
      ANY configured action.  The fuel accounting of `engine2` (cost of an action = a closed formula of
      the action) does not express that; it needs a lexicographic measure (pending presses, size of
      the saved action).  Not attempted here.
  (b) tap-hold keys whose HOLD action is not a key, an output chord or layer-while-held (the parser
      accepts any action; tap and timeout actions are covered).  The flush on queue overflow runs
      every hold action inside `event`; a hold action that is a one-shot key re-enters `event` with
      the same number of pending presses but one waiting state fewer: again a lexicographic measure.
  (c) chords v2 (`chord_v2_tick_never_fails`, Props/C09V2*.lean) and the kanata layer above keyberon.
-/

/-- **whole_grammar_never_crashes_partial**.  For every configuration that meets the decidable
`CfgWF'` (see its doc comment for the list of clauses and where the parser guarantees each), the run
of `Layout::event` / `Layout::tick` from the fresh state — any start-up options — on ANY history
(events also physically impossible; presses inside the table, which the event loop guarantees: C11)
yields no crash outcome.  Partial with respect to the whole grammar in exactly two action kinds:
`repeat`, and tap-hold keys with a non-simple HOLD action (see the comment above). -/
theorem whole_grammar_never_crashes_partial (cfg : LCfg) (h : CfgWF' cfg) (tv2 dfl qth : Bool) (osd : Nat)
    (ins : List In) (ht : InTable cfg ins) :
    ∃ t, runM ({ cfg := cfg, transV2 := tv2, delegateToFirstLayer := dfl, quickTapHoldTimeout := qth,
                 oneshot := { pauseInputProcessingDelay := osd } } : Layout) ins = .ok t := by
  have hp : 0 < cfg.layers.length := by
    have := h.1
    unfold RangeG at this
    simp only [Bool.and_eq_true, decide_eq_true_eq] at this
    exact this.1.1.2
  exact switch_never_crashes Switch.opsCompiled Switch.opsCompiled_sound ins _ h.1 h.2
    (invG_start _ _ (NCF.startU_init cfg hp tv2 dfl qth osd)) ht

/-! ## Non-vacuity -/

/-- a chord group on three keys: single keys, two two-key chords; the three-key chord is undefined, so
pressing all three decomposes into the action queue -/
def grp : Action := .chords [((0, 32), 1), ((0, 33), 2), ((0, 34), 4)]
  [(1, .keyCode 32), (2, .keyCode 33), (4, .keyCode 34), (3, .multipleActions [.keyCode 42, .keyCode 40]), (6, .layer 1)] 50

/-- the opcodes of `(switch ((or a (and b (not (input real 31)) (key-timing 3 gt 3000)) (layer 1))) …)` -/
def sampleOps : List Nat := [30, 8199, 1, 12294, 851, 31, 18948, 853, 1]

def fullCfg : LCfg :=
  { layers := [
      [((0, 30), .tapDance [.keyCode 30, .multipleActions [.keyCode 42, .keyCode 31], .layer 1] 200 false),
       ((0, 31), .tapDance [.keyCode 31, .oneShot (.keyCode 42) 500 .firstPress, .trans] 150 true),
       ((0, 32), grp), ((0, 33), grp), ((0, 34), grp),
       ((0, 35), .holdTap 200 (.layer 1) (.multipleActions [.keyCode 35, .sequence (C08.sampleEvs ++ [.complete])])
                   (.switch [([], .tapDance [.keyCode 7, .keyCode 8] 30 false, true)]) .permissiveHold 150),
       ((0, 36), .oneShot (.keyCode 42) 500 .firstPress),
       ((0, 37), .fork (.tapDance [.keyCode 37, .keyCode 38] 100 false) (.keyCode 1) [42]),
       ((0, 38), .multipleActions [.sequence (C08.sampleEvs ++ [.complete]), .custom 3]),
       ((0, 39), .switch [(sampleOps, .keyCode 39, false), ([30], .chords [((0, 32), 1)] [(1, .keyCode 5)] 20, false),
                          ([], .tapDance [.keyCode 1, .keyCode 2] 50 true, true)])],
      [((0, 30), .tapDance [.trans, .keyCode 2] 100 true), ((0, 36), .src), ((0, 37), .noOp)]],
    srcKeys := (List.range 10).map fun i => (30 + i, .keyCode (30 + i)) }

/-- all three chord keys (decomposition), a lazy tap-dance interrupted by 40 presses in one burst
(queue overflow with a tap-dance waiting), an eager tap-dance tapped three times (its second member is
a one-shot key, its third transparent), a tap-hold key (tap action a `multi` with a macro, timeout action a `switch` that yields a tap-dance; held
past its timeout, tapped, pressed again inside its tap-hold interval), the switch key, 300 idle ticks,
another burst -/
def fullHist : List In :=
  [.ev (.press (0, 32)), .tick, .ev (.press (0, 33)), .ev (.press (0, 34)), .tick, .tick, .ev (.release (0, 33)),
   .tick, .tick, .tick, .tick, .ev (.release (0, 32)), .ev (.release (0, 34)), .tick, .tick,
   .ev (.press (0, 30)), .tick, .ev (.release (0, 30)), .tick, .ev (.press (0, 30)), .tick] ++
  burst 30 10 ++ burst 30 10 ++ burst 30 10 ++ burst 30 10 ++
  [.tick, .tick, .ev (.press (0, 31)), .tick, .ev (.release (0, 31)), .tick, .ev (.press (0, 31)), .tick,
   .ev (.press (0, 31)), .tick, .ev (.press (0, 35)), .tick, .ev (.press (0, 30)), .tick, .ev (.press (0, 39)),
   .ev (.release (5, 9999)), .tick, .tick, .tick] ++ List.replicate 300 .tick ++ burst 30 10 ++
  [.tick, .ev (.press (0, 35)), .ev (.release (0, 35)), .tick, .tick, .ev (.press (0, 35)), .tick, .tick] ++
  List.replicate 250 .tick

example : CfgWF' fullCfg := by decide +kernel
example : maxCostG fullCfg = 8 ∧ pressCostG fullCfg = 110 ∧ cfgOshG fullCfg = true := by decide +kernel
example : InTable fullCfg fullHist := by decide +kernel
example : Switch.opsCompiled sampleOps = true ∧ Switch.opsCompiled [] = true ∧ Switch.opsCompiled [851] = false := by
  decide +kernel

example : ∃ t, runM { cfg := fullCfg } fullHist = .ok t :=
  whole_grammar_never_crashes_partial fullCfg (by decide +kernel) true false false 0 fullHist (by decide +kernel)

/-- the same configuration without its switch key and its tap-hold key (whose timeout action is a
`switch`) is within stages 1 and 2 -/
def tdChordCfg : LCfg := { fullCfg with layers := fullCfg.layers.map fun tbl => tbl.filter fun e => e.1 != (0, 39) && e.1 != (0, 35) }

example : ∃ t, runM { cfg := tdChordCfg } fullHist = .ok t :=
  tapdance_chords_never_crash fullHist { cfg := tdChordCfg } (by decide +kernel) (by decide +kernel) (by decide)
    (by decide +kernel)

/-- **overflow_path_is_covered** (stage 4): the theorem applied to `fullHist`, and — evaluated — the
places the run goes through: after 8 inputs the undefined three-key chord has been decomposed into two
queued actions; after 57 inputs 32 events are pending while a tap-dance state waits and an eager
tap-dance state exists, and 28 more events arrive before the next tick (each of them takes the
overflow path of `Layout::event`). -/
theorem overflow_path_is_covered :
    (∃ t, runM { cfg := fullCfg } fullHist = .ok t) ∧
    (match runL { cfg := fullCfg } (fullHist.take 8) with
      | .ok s => some (s.actionQueue.length, s.queue.length)
      | .error _ => none) = some (2, 1) ∧
    (match runL { cfg := fullCfg } (fullHist.take 57) with
      | .ok s => some (s.queue.length, s.waiting.isSome, s.tapDanceEager.isSome)
      | .error _ => none) = some (32, true, true) :=
  ⟨whole_grammar_never_crashes_partial fullCfg (by decide +kernel) true false false 0 fullHist (by decide +kernel),
   by decide +kernel, by decide +kernel⟩

/-- the union fragment's sample configuration meets `CfgWF'` as well (its actions are actions of the
larger fragment) -/
example : CfgWF' unionCfg := by decide +kernel

/-! ## Each new hypothesis is needed -/

/-- a lazy and an eager tap-dance key with an empty list -/
def emptyDanceCfg : LCfg :=
  { layers := [[((0, 30), .tapDance [] 3 false), ((0, 31), .tapDance [] 3 true)]],
    srcKeys := [(30, .keyCode 30), (31, .keyCode 31)] }

/-- **empty_tap_dance_counterexample**: tap-dance lists have to be non-empty.  kanata:
`(tap-dance 3 ())` — refused by `parse_tap_dance`; on the run-time side the lazy variant indexes
`tds.actions[0]` when its countdown ends, the eager one at once. -/
theorem empty_tap_dance_counterexample :
    ¬ CfgWF' emptyDanceCfg ∧
    crashOf (runM { cfg := emptyDanceCfg } [.ev (.press (0, 30)), .tick, .tick, .tick, .tick, .tick])
      = some (.indexOOB "tap-dance actions") ∧
    crashOf (runM { cfg := emptyDanceCfg } [.ev (.press (0, 31)), .tick]) = some (.indexOOB "td.actions[0]") := by
  refine ⟨by decide +kernel, by decide +kernel, by decide +kernel⟩

/-- a chord group that names a coordinate outside the 2 × 767 table; its one-key chord is use-defsrc -/
def badChordCfg : LCfg :=
  { layers := [[((0, 30), .chords [((0, 30), 1), ((0, 800), 2)] [(1, .src)] 50)]],
    srcKeys := [(30, .keyCode 30)] }

/-- **chord_coordinate_counterexample**: the coordinates of a chord group have to lie inside the table.
The release of the group's other "key" — a release is accepted for any coordinate — moves the pending
chord to that coordinate, and its action then indexes `src_keys[800]`.  (The parser takes chord
coordinates from defsrc positions, so this is not reachable from a configuration text.) -/
theorem chord_coordinate_counterexample :
    ¬ CfgWF' badChordCfg ∧ InTable badChordCfg [.ev (.press (0, 30)), .tick, .ev (.release (0, 800)), .tick, .tick] ∧
    crashOf (runM { cfg := badChordCfg } [.ev (.press (0, 30)), .tick, .ev (.release (0, 800)), .tick, .tick])
      = some (.indexOOB "src_keys[coord.1]") := by
  refine ⟨by decide +kernel, by decide +kernel, by decide +kernel⟩

/-- a switch case whose opcode array ends inside a two-word opcode -/
def badSwitchCfg : LCfg :=
  { layers := [[((0, 30), .switch [([851], .keyCode 30, true)])]], srcKeys := [(30, .keyCode 30)] }

/-- **switch_opcodes_counterexample**: the opcode check is needed: `[851]` (an `input` opcode without
its second word; never produced by `parse_switch_case_bool`) reaches the `expect` in `opcode_type`. -/
theorem switch_opcodes_counterexample :
    ¬ CfgWF' badSwitchCfg ∧
    crashOf (runM { cfg := badSwitchCfg } [.ev (.press (0, 30)), .tick]) = some (.switchCrash .nextMissing) := by
  refine ⟨by decide +kernel, by decide +kernel⟩

end KVerif.C02
