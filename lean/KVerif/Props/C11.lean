import KVerif.Lemmas.KeyId
import KVerif.Gen.SeqConsts
/-!
# C11 — key identity: every key name and code survives the trip from config to OS output

All statements are about the model `KVerif.KeyId` (Model/KeyId.lean) instantiated with the tables
regenerated from the current source (Gen/KeyTables.lean, Linux build).  Statements over "every
code" / "every name" hold for the *complete* tables: the finite checks behind them are kernel
evaluations over whole tables (Lemmas/KeyId.lean, part A), lifted to `∀` by lemmas.  The statement
about the set of intercepted keys is a theorem about list programs, proved by induction for all
configurations (no bound on the number of keys, layers, exceptions).
-/
namespace KVerif.Props.C11
open KVerif.KeyId KVerif.Gen.KeyTables KVerif
open KVerif.KeyId.Spec (denotes)

/-! ## the two code spaces coincide value for value -/

/-- `OsCode` and `KeyCode` have exactly the same discriminants (for every `Nat`, hence for every
    `u16`): the soundness condition of both `transmute`s in parser/src/keys/mappings.rs. -/
theorem discriminants_coincide (v : Nat) : isOsCode v = isKeyCode v :=
  isOsCode_eq_isKeyCode v

example : isOsCode 30 = true ∧ isKeyCode 766 = true ∧ isOsCode 768 = false := by decide +kernel

/-- Over *all* discriminants (all 768, including the 18 that `from_u16` never returns): converting
    in either direction yields a value that exists in the target enum, keeps the number, and the
    round trip is the identity. -/
theorem transmute_target_valid (v : Nat) :
    (isOsCode v = true → keyCodeOfOsCode v = .ok v ∧ osCodeOfKeyCode v = .ok v) ∧
    (isKeyCode v = true → osCodeOfKeyCode v = .ok v ∧ keyCodeOfOsCode v = .ok v) := by
  constructor
  · intro h
    have h' : isKeyCode v = true := by rw [← isOsCode_eq_isKeyCode]; exact h
    simp [keyCodeOfOsCode, osCodeOfKeyCode, h, h']
  · intro h
    have h' : isOsCode v = true := by rw [isOsCode_eq_isKeyCode]; exact h
    simp [keyCodeOfOsCode, osCodeOfKeyCode, h, h']

example : isOsCode 749 = true ∧ keyCodeOfOsCode 749 = .ok 749 := by decide +kernel

/-- The codes kanata knows on Linux are exactly the enum discriminants outside `KEY_749 … KEY_766`. -/
theorem accepted_set (v : Nat) : accepted v = (isOsCode v && !(decide (749 ≤ v) && decide (v ≤ 766))) := by
  rw [accepted_eq_known]; rfl

example : fromU16Arms.length = 750 ∧ osCodeDiscs.length = 768 := by decide +kernel

/-- `from_u16` / `as_u16` round trips: whatever `from_u16` returns has the number that went in and is
    a discriminant of the enum; and on every accepted code `from_u16 (as_u16 c) = Some c`. -/
theorem code_roundtrip :
    (∀ v c, fromU16 v = some c → asU16 c = v ∧ isOsCode c = true) ∧
    (∀ c, accepted c = true → fromU16 (asU16 c) = some c) :=
  ⟨fun _ _ h => ⟨fromU16_id h, fromU16_isOsCode h⟩, fun _ h => accepted_iff.1 h⟩

/-- For every accepted code the whole chain `u16 → OsCode → KeyCode → OsCode → u16` is the identity. -/
theorem code_chain_identity (v : Nat) (h : accepted v = true) :
    fromU16 v = some v ∧ keyCodeOfOsCode v = .ok v ∧ osCodeOfKeyCode v = .ok v ∧ asU16 v = v :=
  ⟨accepted_iff.1 h, keyCodeOfOsCode_accepted h, osCodeOfKeyCode_accepted h, rfl⟩

example : accepted 30 = true ∧ accepted 767 = true ∧ accepted 750 = false := by decide +kernel

/-! ## the defsrc layer -/

/-- `create_defsrc_layer` never hits an invalid `transmute`; it has `KEYS_IN_ROW` entries, entry 0
    is `NoOp`, and every other entry `v` is `KeyCode(v)` if `v` is a known code and `NoOp` otherwise. -/
theorem defsrc_identity :
    ∃ L, createDefsrcLayer = .ok L ∧ L.length = keysInRow ∧ L[0]? = some .noOp ∧
      ∀ v, v ≠ 0 → v < keysInRow → L[v]? = some (if accepted v then .keyCode v else .noOp) :=
  ⟨_, createDefsrcLayer_eq, by simp, by rw [getElem?_range_map _ (by decide)]; rfl, fun v h0 hlt => by
    rw [getElem?_range_map _ hlt]; simp [defsrcFn, h0]⟩

/-! ## key names -/

/-- Every arm of `str_to_oscode` and every default mapping is live and unambiguous: the name
    denotes exactly the code written next to it (no arm is shadowed by an earlier arm or by a
    default mapping with a different code); aliases of one arm therefore agree. -/
theorem names_functional (n c : Nat) (h : (n, c) ∈ defaultMappings ++ nameArms) :
    strToOscode defaultCustom n = some c :=
  strToOscode_of_mem h

example : (encName [108, 115, 102, 116] /- "lsft" -/, 42) ∈ defaultMappings ++ nameArms ∧ (encName [8249, 8679] /- "‹⇧" -/, 42) ∈ defaultMappings ++ nameArms := by
  decide +kernel

/-- **overlap_marker_is_a_nameable_key_counterexample** [t8] (known finding, remark R7; "a key name
    denotes the same code wherever it is written" is FALSE for one name).  The key code the parser
    uses internally as the `O-` marker of defseq (`KEY_OVERLAP = KeyCode::ErrorRollOver`, regenerated
    as `Gen.SEQ_KEY_OVERLAP`) is the code the key name `dnd` (alias `DoNotDisturb`) denotes.  As a
    plain action `dnd` is key 251; written as the key of an output chord (`C-dnd`), as a macro item
    or inside a defseq key list the parser takes it for the marker and refuses the configuration
    ("O- is only valid in sequences", "macro contains O-", "O-(...) lists must have a minimum of 2
    elements") - on the real code: the `pipe-contexts` family of the C11 check. -/
theorem overlap_marker_is_a_nameable_key_counterexample :
    strToOscode defaultCustom (encName [100, 110, 100] /- "dnd" -/) = some Gen.SEQ_KEY_OVERLAP ∧
    strToOscode defaultCustom (encName [68, 111, 78, 111, 116, 68, 105, 115, 116, 117, 114, 98] /- "DoNotDisturb" -/) =
      some Gen.SEQ_KEY_OVERLAP ∧
    accepted Gen.SEQ_KEY_OVERLAP = true := by
  decide +kernel

/-- Every built-in key name denotes a code kanata knows — not 0, not the no-op key code, and small
    enough to index a layer row (so a name can never cause the out-of-bounds access of
    `key_max_counterexample`). -/
theorem names_denote_known_codes (n c : Nat) (h : strToOscode defaultCustom n = some c) :
    accepted c = true ∧ c ≠ 0 ∧ c < keysInRow ∧ c ≠ keyCodeNo :=
  name_code_known h

/-- A key name denotes the same key wherever it is written: in action position
    (`parse_action_atom`, which tests its special atoms and the list-action names first) every
    built-in key name yields an action for the very code `str_to_oscode` gives in defsrc,
    deflayermap-input and exception position. -/
theorem action_position_agrees (n c : Nat) (h : strToOscode defaultCustom n = some c) :
    ∃ a, parseActionAtom defaultCustom n = some (.ok a) ∧ denotes a c := by
  have hf := fastLookup_of_strToOscode h
  have hk := name_code_known h
  unfold parseActionAtom
  have nk : ∀ {l : List Nat}, l.all (fun a => fastLookup a == none) = true → l.contains n = false := by
    intro l hl
    cases hc : l.contains n with
    | false => rfl
    | true =>
      have := (List.all_eq_true.1 hl) n (by simpa using hc)
      simp [hf] at this
  simp only [nk listActions_not_keys, nk transAtoms_not_keys, nk noopAtoms_not_keys, nk errAtoms_not_keys]
  cases hm : mouseActionAtoms.lookup n with
  | some c' =>
    have := (List.all_eq_true.1 mouseAtoms_keys) (n, c') (lookup_mem hm)
    simp only [hf, Bool.and_eq_true, beq_iff_eq, Option.some.injEq, Bool.or_eq_true] at this
    obtain ⟨hcc, hbw⟩ := this
    subst hcc
    by_cases hb : mouseBtnCodes.contains c = true
    · have hb' : c ∈ mouseBtnCodes := by simpa using hb
      exact ⟨.mouseBtn c, by simp [hb'], rfl, hb⟩
    · have hw : mouseWheelCodes.contains c = true := by
        rcases hbw with h | h
        · exact absurd h hb
        · exact h
      have hb' : c ∉ mouseBtnCodes := by simpa using hb
      exact ⟨.mouseWheel c, by simp [hb'], rfl, hw⟩
  | none =>
    have hs : specialActionAtoms.contains n = false := by
      cases hc : specialActionAtoms.contains n with
      | false => rfl
      | true =>
        have := (List.all_eq_true.1 specialAtoms_keys) n (by simpa using hc)
        simp [hm, hf] at this
    refine ⟨.keyCode c, ?_, rfl⟩
    have hs' : n ∉ specialActionAtoms := by simpa using hs
    simp [hs', h, keyCodeOfOsCode_accepted hk.1]

example : ∃ a, parseActionAtom defaultCustom (encName [109, 108, 102, 116] /- "mlft" -/) = some (.ok a) ∧ denotes a 272 :=
  action_position_agrees _ _ (by decide +kernel)

/-- Where the source itself writes the name of a key — the evdev identifier (`KEY_FOO` ↦ `foo`)
    and keyberon's `Display` string — an accepted key name of that spelling denotes that key, with
    the four documented exceptions `yen`, `menu`, `next`, `break`. -/
theorem canonical_names_agree (n v c : Nat) (hc : Spec.canonCode n = some v)
    (h : strToOscode defaultCustom n = some c) : c = v := by
  have hf := fastLookup_of_strToOscode h
  unfold Spec.canonCode at hc
  split at hc
  · cases hc
  · rename_i hex
    have key : (n, v) ∈ osCodeCanonNames ++ keyCodeDisplay := by
      cases ho : osCodeCanonNames.lookup n with
      | some v' =>
        simp only [ho] at hc
        cases hc
        exact List.mem_append_left _ (lookup_mem ho)
      | none =>
        simp only [ho] at hc
        exact List.mem_append_right _ (lookup_mem hc)
    have := (List.all_eq_true.1 canon_agree) (n, v) key
    simp only [hf, Bool.or_eq_true, beq_iff_eq, Option.some.injEq] at this
    rcases this with (h1 | h1) | h1
    · exact absurd h1 hex
    · cases h1
    · exact h1

example : Spec.canonCode (encName [101, 115, 99] /- "esc" -/) = some 1 ∧ strToOscode defaultCustom (encName [101, 115, 99] /- "esc" -/) = some 1 := by
  decide +kernel

/-! ## the reserved no-op codes -/

/-- The reserved no-op codes are the ones the names `nop0 … nop9` denote: the ten names map, in
    order, onto the ignored output range, and no other key name denotes a code in that range. -/
theorem nop_names_are_the_ignored_codes :
    Spec.nopNames.map (strToOscode defaultCustom) = (List.range' keyIgnoreMin 10).map some ∧
    keyIgnoreMax + 1 = keyIgnoreMin + 10 ∧
    ∀ n c, strToOscode defaultCustom n = some c → ignored c = true → n ∈ Spec.nopNames := by
  refine ⟨by decide +kernel, by decide, fun n c h hi => ?_⟩
  have := (List.all_eq_true.1 nop_only) (n, c) (strToOscode_default_mem h)
  simp only [hi, Bool.not_true, Bool.false_or] at this
  simpa using this

/-- An ignored code is never sent to the OS by any of the three output filters, and nothing the
    filters emit is about an ignored code. -/
theorem ignored_never_sent (c : Nat) :
    (ignored c = true → pressKey c = [] ∧ releaseKey c = [] ∧ ∀ r, writeKey c r = []) ∧
    (∀ r, ∀ o ∈ pressKey c ++ releaseKey c ++ writeKey c r, o.code = c ∧ ignored o.code = false) := by
  constructor
  · intro h
    simp [pressKey, releaseKey, writeKey, h]
  · intro r o ho
    cases hi : ignored c with
    | true => simp [pressKey, releaseKey, writeKey, hi] at ho
    | false =>
      simp only [pressKey, releaseKey, writeKey, hi, Bool.false_eq_true, ↓reduceIte, List.mem_append] at ho
      have : o.code = c := by
        rcases ho with (ho | ho) | ho
        · split at ho
          · simp at ho; subst ho; rfl
          · split at ho <;> (simp at ho; subst ho; rfl)
        · split at ho
          · simp at ho; subst ho; rfl
          · split at ho
            · simp at ho
            · simp at ho; subst ho; rfl
        · simp at ho; subst ho; cases r <;> rfl
      exact ⟨this, by rw [this]; exact hi⟩

example : ignored 676 = true ∧ pressKey 30 = [.down 30] ∧ pressKey 272 = [.btnDown 272] := by decide

/-! ## the set of intercepted keys -/

/-- **The set of keys kanata intercepts is exactly defsrc, plus the deflayermap inputs, plus — when
    process-unmapped-keys is on — every known key below `KEYS_IN_ROW` other than the no-op key code
    and the listed exceptions**, for every configuration the parser slice accepts: any deflocalkeys,
    any number of defsrc keys, layers, deflayermap pairs (wildcards included) and exceptions. -/
theorem mapped_set_spec (cfg : Config) (m : List Nat) (h : mappedKeys cfg = .ok m) :
    ∀ x, x ∈ m ↔ x ∈ Spec.mappedSpec cfg := by
  intro x
  unfold mappedKeys at h
  cases hp : parseCfg cfg with
  | rejected e => simp [hp] at h
  | crash c => simp [hp] at h
  | ok p =>
    simp only [hp, Outcome.ok.injEq] at h
    subst h
    exact (parseCfg_mapped cfg p hp x)

example : mappedKeys { defsrc := [encName [97] /- "a" -/],
                       layers := [.map [(.key (encName [99] /- "c" -/), encName [88, 88] /- "XX" -/), (.any1, encName [97])]] }
    = .ok [30, 46] := by decide +kernel

example : ∃ m, mappedKeys { puk := .yes, layers := [.plain []] } = .ok m ∧ 31 ∈ m ∧ 240 ∉ m ∧ 767 ∉ m := by
  obtain ⟨m, hp, hm⟩ := parseCfg_puk_yes
  refine ⟨m, mappedKeys_of_parse hp, (hm 31).2 (by decide +kernel), fun h => ?_, fun h => ?_⟩
  · exact absurd ((hm 240).1 h).2.2 (by decide)
  · exact absurd ((hm 767).1 h).1 (by decide)

/-- The only way this slice of the parser can crash is an index equal to `KEYS_IN_ROW`, i.e. the
    key `KEY_MAX` in defsrc or as a deflayermap input (`key_max_counterexample`); in particular it
    never performs an invalid `transmute`, and the process-unmapped-keys loop is total. -/
theorem parser_crash_only_at_key_max (cfg : Config) (c : Crash) (h : mappedKeys cfg = .crash c) :
    c = .indexOOB keysInRow := by
  unfold mappedKeys at h
  cases hp : parseCfg cfg with
  | rejected e => simp [hp] at h
  | ok p => simp [hp] at h
  | crash c' =>
    simp only [hp, Outcome.crash.injEq] at h
    subst h
    exact parseCfg_crash cfg c' hp

/-! ## one key through the pipeline -/

/-
Full statement (false of the code, see `key_max_counterexample`):
  for every accepted code `v ≠ 0` and every one-layer configuration that maps `v` to itself, leaves it
  transparent or does not mention it, a tap of `v` comes out as `Spec.tapSpec`.
Proved here for `v < KEYS_IN_ROW`, i.e. for every accepted code except `KEY_MAX = 767`; what is
missing is exactly that one code, for which the layer row has no slot.
-/
/-- A tap of a known key `v` on a layer row whose entry for `v` is absent, `Trans`, or `v` itself
    comes out as the same code through the channel the OS expects for it (nothing for the reserved
    no-op codes), or untouched if the key is not intercepted. -/
theorem key_identity_partial (mapped : List Nat) (row : Row) (v : Nat)
    (hv : accepted v = true) (h0 : v ≠ 0) (hlt : v < keysInRow)
    (hrow : row.lookup v = none ∨ row.lookup v = some .trans ∨
      ∃ a, row.lookup v = some a ∧ denotes a v) :
    tap mapped row v = .ok (Spec.tapSpec (mapped.contains v) v) :=
  tap_identity mapped row v hv h0 hlt (by
    rcases hrow with h | h | ⟨a, ha, hd⟩
    · exact Or.inl h
    · exact Or.inr (Or.inl h)
    · refine Or.inr (Or.inr ?_)
      cases a with
      | keyCode k => simp only [denotes] at hd; subst hd; exact Or.inl ha
      | mouseBtn k => simp only [denotes] at hd; obtain ⟨rfl, hb⟩ := hd; exact Or.inr (Or.inl ⟨ha, hb⟩)
      | mouseWheel k => simp only [denotes] at hd; obtain ⟨rfl, hb⟩ := hd; exact Or.inr (Or.inr ⟨ha, hb⟩)
      | noOp => simp [denotes] at hd
      | trans => simp [denotes] at hd
      | other => simp [denotes] at hd)

example : tap [30] [(30, .keyCode 30)] 30 = .ok [.down 30, .up 30] := by decide +kernel

/-- **Self-mapped.** For every built-in key name `n`: `(defsrc n) (deflayer l n)`, key pressed and
    released ⇒ intercepted, and the same code comes out. -/
theorem self_mapped_identity (n v : Nat) (h : strToOscode defaultCustom n = some v) :
    tapCfg { defsrc := [n], layers := [.plain [n]] } v = .ok (true, Spec.tapSpec true v) := by
  obtain ⟨a, ha, hd⟩ := action_position_agrees n v h
  have hk := name_code_known h
  have hp : parseCfg { defsrc := [n], layers := [.plain [n]] } =
      .ok { custom := defaultCustom, mapped := [v], rows := [[(v, a)]] } := by
    have hlt : ¬ v ≥ keysInRow := by omega
    have hdc : addDefaults [] = defaultCustom := rfl
    simp [parseCfg, parseLocalKeys, replaceCustom, pukExceptions, defsrcKeys, pukOn, parseLayers,
      plainLayer, parseAct, ha, hlt, hdc, h]
  have ht := key_identity_partial [v] [(v, a)] v hk.1 hk.2.1 hk.2.2.1
    (Or.inr (Or.inr ⟨a, by simp [List.lookup], hd⟩))
  rw [tapCfg_of_parse hp]
  simp only [List.headD_cons]
  rw [ht]
  simp

/-- **Transparent.** `(defsrc n) (deflayer l _)` ⇒ the same code comes out (through the defsrc layer). -/
theorem transparent_identity (n v : Nat) (h : strToOscode defaultCustom n = some v) :
    tapCfg { defsrc := [n], layers := [.plain [encName [95] /- "_" -/]] } v = .ok (true, Spec.tapSpec true v) := by
  have hk := name_code_known h
  have ha : parseActionAtom defaultCustom (encName [95] /- "_" -/) = some (.ok .trans) := by decide +kernel
  have hp : parseCfg { defsrc := [n], layers := [.plain [encName [95] /- "_" -/]] } =
      .ok { custom := defaultCustom, mapped := [v], rows := [[(v, .trans)]] } := by
    have hlt : ¬ v ≥ keysInRow := by omega
    have hdc : addDefaults [] = defaultCustom := rfl
    simp [parseCfg, parseLocalKeys, replaceCustom, pukExceptions, defsrcKeys, pukOn, parseLayers,
      plainLayer, parseAct, ha, hlt, hdc, h]
  have ht := key_identity_partial [v] [(v, .trans)] v hk.1 hk.2.1 hk.2.2.1
    (Or.inr (Or.inl (by simp [List.lookup])))
  rw [tapCfg_of_parse hp]
  simp only [List.headD_cons]
  rw [ht]
  simp

/-
Full statement (false of the code, see `key_max_counterexample`): for *every* accepted code `v ≠ 0`,
also one that has no built-in name and is named with deflocalkeys-linux.  Proved for `v < KEYS_IN_ROW`,
i.e. for every accepted code except `KEY_MAX = 767`.
-/
/-- **Self-mapped, any code.** `(deflocalkeys-linux kx v) (defsrc kx) (deflayer l kx)` ⇒ the same code comes out. -/
theorem local_self_mapped_identity_partial (v : Nat) (hv : accepted v = true) (h0 : v ≠ 0) (hlt : v < keysInRow) :
    tapCfg { localKeys := [(localName, v)], defsrc := [localName], layers := [.plain [localName]] } v =
      .ok (true, Spec.tapSpec true v) := by
  rw [tapCfg_of_parse (parseCfg_local v hv hlt localName _ (parseActionAtom_local v hv))]
  simp only [List.headD_cons]
  rw [key_identity_partial [v] [(v, .keyCode v)] v hv h0 hlt
    (Or.inr (Or.inr ⟨.keyCode v, by simp [List.lookup], rfl⟩))]
  simp

/-- **Transparent, any code.** `(deflocalkeys-linux kx v) (defsrc kx) (deflayer l _)` ⇒ the same code comes out. -/
theorem local_transparent_identity_partial (v : Nat) (hv : accepted v = true) (h0 : v ≠ 0) (hlt : v < keysInRow) :
    tapCfg { localKeys := [(localName, v)], defsrc := [localName], layers := [.plain [encName [95] /- "_" -/]] } v =
      .ok (true, Spec.tapSpec true v) := by
  rw [tapCfg_of_parse (parseCfg_local v hv hlt _ _ (parseActionAtom_trans _))]
  simp only [List.headD_cons]
  rw [key_identity_partial [v] [(v, .trans)] v hv h0 hlt (Or.inr (Or.inl (by simp [List.lookup])))]
  simp

example : accepted 300 = true ∧ (300 : Nat) < keysInRow ∧ fastLookup 300 = none := by decide +kernel

/-- **Unmapped with process-unmapped-keys.** `(defcfg process-unmapped-keys yes) (defsrc) (deflayer l)`:
    every known code other than 0 comes out as the same code — processed if it is below
    `KEYS_IN_ROW` and not the no-op key code (240), forwarded untouched otherwise. -/
theorem unmapped_identity (v : Nat) (hv : accepted v = true) (h0 : v ≠ 0) :
    tapCfg { puk := .yes, layers := [.plain []] } v =
      .ok (decide (v < keysInRow ∧ v ≠ keyCodeNo), Spec.tapSpec (decide (v < keysInRow ∧ v ≠ keyCodeNo)) v) := by
  obtain ⟨m, hp, hmem⟩ := parseCfg_puk_yes
  have hc : m.contains v = decide (v < keysInRow ∧ v ≠ keyCodeNo) := by
    apply Bool.eq_iff_iff.2
    simp only [List.contains_iff_mem, hmem v, hv, true_and, decide_eq_true_eq]
  rw [tapCfg_of_parse hp]
  simp only [List.headD_cons]
  by_cases hlt : v < keysInRow
  · rw [key_identity_partial m [] v hv h0 hlt (Or.inl rfl)]
    simp only [hc]
  · have hcf : m.contains v = false := by rw [hc]; simp [hlt]
    unfold tap
    rw [hcf]
    simp only [Bool.not_false, ↓reduceIte, ← hc, hcf, Spec.tapSpec]

example : accepted 240 = true ∧ decide (240 < keysInRow ∧ 240 ≠ keyCodeNo) = false := by decide

/-- **Boundary of the full statement.** `KEY_MAX = 767` is a code `from_u16` accepts, but a layer
    row has only 767 slots.  Before the repair (414291c) `(deflocalkeys-linux k 767)` was accepted and
    putting that key in defsrc made `parse_layers` index the row at 767 — the parser panicked; the
    repaired `parse_deflocalkeys` refuses the number, so the key can never be named. -/
theorem key_max_counterexample :
    accepted 767 = true ∧
    tapCfg { localKeys := [(encName [107] /- "k" -/, 767)], defsrc := [encName [107] /- "k" -/], layers := [.plain [encName [107] /- "k" -/]] } 767
      = .rejected .localUnknownNumber := by
  decide +kernel

/-! ## the transcribed source is the source -/

/-- The pieces of the Rust source that Model/KeyId.lean transcribes by hand are textually the ones
    it transcribes (checked by the translator on every run). -/
theorem model_matches_source :
    parserSliceAsModelled = true ∧ asU16IsCast = true ∧ keyCodeOsCodeIsTransmute = true := by decide

end KVerif.Props.C11
