/-
C14 (table level, chords v2) — the key-output table `create_key_outputs` builds lists, per layer and
physical key, also every key code of every `defchordsv2` chord the key takes part in and that is not
disabled on that layer - and nothing of a chord that is disabled there.

Model: Model/KeyOutputsV2.lean (`createKeyOutputs`: layers x key positions, the key's own action then
the chords registered for the key, override table passed down to `add_kc_output`; `registerChords`:
the registration loop of `parse_defchordv2`). Helper lemmas: Lemmas/KeyOutputsV2.lean.
All statements are unbounded in the number of layers, positions, chords, participants and in the
nesting of the actions.
-/
import KVerif.Lemmas.KeyOutputsV2
namespace KVerif.C14v2
open KVerif.L KVerif.K KVerif.KO KVerif.KO2 KVerif.C14

/-! ### concrete table used by the examples: keys j k l on two layers, three overlapping chords,
the first one disabled on layer 1, an override `lsft+x -> q` -/

def exOverrides : Override.Overrides :=
  Override.Overrides.new [{ inKey := 45, outKey := 16, inMods := [42], outMods := [] }]

/-- `(j k) x 50 all-released (l1)`, `(k l) (multi y (tap-hold 200 200 1 lctl)) …  ()`,
`(j l) (fork z S-w (lalt)) … ()` -/
def exChords : List ChordV2 :=
  [ { action := .keyCode 45, keys := [36, 37], pending := 50, disabledLayers := [1], release := .onLastRelease },
    { action := .multipleActions [.keyCode 21, .holdTap 200 (.keyCode 29) (.keyCode 2) (.keyCode 29) .default 200],
      keys := [37, 38], pending := 50, disabledLayers := [], release := .onLastRelease },
    { action := .fork (.keyCode 44) (.multipleKeyCodes [42, 17]) [56],
      keys := [36, 38], pending := 50, disabledLayers := [], release := .onFirstRelease } ]

def exLayers : List (List (Nat × Action)) :=
  [ [(36, .keyCode 36), (37, .keyCode 37), (38, .keyCode 38)],
    [(36, .keyCode 36), (37, .trans), (38, .multipleKeyCodes [42, 38])] ]

def exChv2 : Option ChV2Cfg := some { mapping := registerChords exChords, minIdle := 5 }

/-- the table of the example, as `create_key_outputs` builds it: on layer 0 `j` lists `x` (and the
override output `q`), on layer 1 - where the chord `(j k)` is disabled - neither `j` nor `k` does -/
def exTable : List Rows :=
  [ [(36, [36, 45, 16, 44, 42, 17]), (37, [37, 45, 16, 21, 2, 29]), (38, [38, 21, 2, 29, 44, 42, 17])],
    [(36, [36, 44, 42, 17]), (37, [21, 2, 29]), (38, [42, 38, 21, 2, 29, 44, 17])] ]

theorem exTable_eq : createKeyOutputs exOverrides [] (fun _ => true) exChv2 exLayers = .ok exTable := by rfl

/-! ### the table is built whenever the layer indices fit `u16` -/

/-- **create_key_outputs_ok** (full): with at most 65536 layers the assertion on the layer index holds
and the table has one row map per layer. -/
theorem create_key_outputs_ok (t : Override.Overrides) (customs : List (List CAct)) (valid : Nat → Bool)
    (chv2 : Option ChV2Cfg) (layers : List (List (Nat × Action))) (h : layers.length ≤ LAYER_IDX_MAX + 1) :
    ∃ tbl, createKeyOutputs t customs valid chv2 layers = .ok tbl ∧ tbl.length = layers.length := by
  obtain ⟨tbl, htbl⟩ := createFrom_ok t customs valid chv2 layers 0 (by omega)
  exact ⟨tbl, htbl, (createFrom_get t customs valid chv2 layers 0 tbl htbl).1⟩

example : ∃ tbl, createKeyOutputs exOverrides [] (fun _ => true) exChv2 exLayers = .ok tbl ∧ tbl.length = 2 :=
  create_key_outputs_ok _ _ _ _ exLayers (by decide)

/-- **create_key_outputs_layer_idx_assert** (full): a layer whose index exceeds `u16::MAX` and that has
a key position makes `add_chordsv2_output_for_key_pos` fail its assertion (the parser never builds
that many layers). -/
theorem create_key_outputs_layer_idx_assert (t : Override.Overrides) (customs : List (List CAct)) (valid : Nat → Bool)
    (chv2 : Option ChV2Cfg) (layerIdx : Nat) (hL : layerIdx > LAYER_IDX_MAX) (layer : List (Nat × Action))
    (m : Rows) (h : ∃ e ∈ layer, valid e.1 = true) :
    layerOutputs t customs valid chv2 layerIdx layer m = .error .layerIdxAssert :=
  layerOutputs_crash t customs valid chv2 layerIdx hL layer m h

example : layerOutputs exOverrides [] (fun _ => true) exChv2 65536 [(36, .keyCode 36)] [] = .error .layerIdxAssert :=
  create_key_outputs_layer_idx_assert _ _ _ _ 65536 (by decide) _ _ ⟨(36, .keyCode 36), by simp, rfl⟩

/-! ### the row of a key, exactly -/

/-- **keyouts_v2_row** (full; this is also the ORDER statement): the row of key position `k` on layer
`L` is exactly: the outputs of the key's own action (in the order `keyouts_complete` speaks about),
then the outputs of the chords registered for `k` that are not disabled on `L`, in table order, each
key code at its first occurrence only, each followed by the output keys of its overrides.
`handle_repeat` scans the row backwards (`repeat_prefers_last_listed`), so an active output of a
later chord is preferred to one of an earlier chord, and any chord output to the key's own. -/
theorem keyouts_v2_row (t : Override.Overrides) (customs : List (List CAct)) (valid : Nat → Bool)
    (chv2 : Option ChV2Cfg) (layers : List (List (Nat × Action))) (tbl : List Rows)
    (h : createKeyOutputs t customs valid chv2 layers = .ok tbl)
    (L : Nat) (hL : L < layers.length) (hnd : (layers[L].map (·.1)).Nodup)
    (k : Nat) (a : Action) (hpos : (k, a) ∈ layers[L]) (hv : valid k = true) :
    tableRow tbl L k = rowV2 t customs k a L (chordsFor chv2 k) := by
  obtain ⟨hlen, hget⟩ := createFrom_get t customs valid chv2 layers 0 tbl h
  have hL' : L < tbl.length := by omega
  have hlay := hget L hL hL'
  rw [Nat.zero_add] at hlay
  have hidx : L ≤ LAYER_IDX_MAX := by
    apply Nat.le_of_not_gt
    intro hgt
    rw [layerOutputs_crash t customs valid chv2 L hgt layers[L] [] ⟨(k, a), hpos, hv⟩] at hlay
    cases hlay
  obtain ⟨m', hm', g⟩ := layerOutputs_get t customs valid chv2 L hidx layers[L] []
  rw [hlay] at hm'
  injection hm' with hm'
  subst hm'
  have hrow : tableRow tbl L k = Rows.get tbl[L] k := by
    unfold tableRow
    rw [List.getElem?_eq_getElem hL']
    rfl
  rw [hrow, g k, rowFold_nodup t customs valid chv2 L k a hv layers[L] _ hnd hpos]
  have e0 : Rows.get [] k = withOverrides t [] := rfl
  rw [e0, addOutputsOv_withOverrides, addChordsRow_withOverrides]
  rfl

example : tableRow exTable 0 36 = rowV2 exOverrides [] 36 (.keyCode 36) 0 (chordsFor exChv2 36) :=
  keyouts_v2_row _ _ _ _ exLayers _ exTable_eq 0 (by decide) (by decide) 36 _ (by simp [exLayers]) rfl

example : tableRow exTable 0 36 = [36, 45, 16, 44, 42, 17] ∧ tableRow exTable 1 36 = [36, 44, 42, 17] := by decide

/-- **keyouts_v2_own_outputs_first** (full; order): the row the key would have without chords v2 - the
entry `keyouts_complete_with_overrides` speaks about - is a PREFIX of its row: chord outputs are only
appended. With the backward scan of `handle_repeat` (`repeat_prefers_last_listed`) an active chord
output therefore wins over the key's own outputs. -/
theorem keyouts_v2_own_outputs_first (t : Override.Overrides) (customs : List (List CAct)) (valid : Nat → Bool)
    (chv2 : Option ChV2Cfg) (layers : List (List (Nat × Action))) (tbl : List Rows)
    (h : createKeyOutputs t customs valid chv2 layers = .ok tbl)
    (L : Nat) (hL : L < layers.length) (hnd : (layers[L].map (·.1)).Nodup)
    (k : Nat) (a : Action) (hpos : (k, a) ∈ layers[L]) (hv : valid k = true) :
    withOverrides t (keyOutputs customs k a) <+: tableRow tbl L k := by
  rw [keyouts_v2_row t customs valid chv2 layers tbl h L hL hnd k a hpos hv]
  exact withOverrides_prefix t _ _ (foldChords_prefix customs k _ _)

example : withOverrides exOverrides (keyOutputs [] 38 (.multipleKeyCodes [42, 38])) <+: tableRow exTable 1 38 :=
  keyouts_v2_own_outputs_first exOverrides [] (fun _ => true) exChv2 exLayers exTable exTable_eq 1 (by decide) (by decide)
    38 (.multipleKeyCodes [42, 38]) (by simp [exLayers]) rfl

/-- **holdtap_same_timeout_visit_is_noop** (full): the hold-tap arm of
`add_key_output_from_action_to_key_pos` skips the timeout action when it is the same nested hold-tap
object as the hold action; the model visits it always. On every row the builder ever holds (an
override closure) the two agree: visiting the hold action again adds nothing. -/
theorem holdtap_same_timeout_visit_is_noop (t : Override.Overrides) (customs : List (List CAct)) (slot : Nat)
    (timeout interval : Nat) (cfg : HTConfig) (hold tap : Action) (outs : List Nat) :
    addOutputsOv t customs slot (.holdTap timeout hold tap hold cfg interval) (withOverrides t outs) =
      addOutputsOv t customs slot hold (addOutputsOv t customs slot tap (withOverrides t outs)) := by
  simp only [addOutputsOv]
  rw [addOutputsOv_withOverrides t customs slot tap outs]
  exact addOutputsOv_idem t customs slot hold _

example : addOutputsOv exOverrides [] 30 (.holdTap 200 (.holdTap 100 (.keyCode 45) (.keyCode 2) (.keyCode 45) .default 0) (.keyCode 21)
      (.holdTap 100 (.keyCode 45) (.keyCode 2) (.keyCode 45) .default 0) .default 0) [] = [21, 2, 45, 16] := by decide

/-! ### completeness -/

/-- **keyouts_complete_chords_v2_mapping** (full), in terms of the table `ChordsForKeys.mapping`: for
every layer `L`, every key position `k`, every chord registered for `k` that is not disabled on `L`
and every key code `x` of a key-producing leaf of the chord's action (any nesting; the leaf notion of
`keyouts_complete`): `x` is in the row of `k` on layer `L`, and so is the output key of every
override of `x`. -/
theorem keyouts_complete_chords_v2_mapping (t : Override.Overrides) (customs : List (List CAct)) (valid : Nat → Bool)
    (chv2 : Option ChV2Cfg) (layers : List (List (Nat × Action))) (tbl : List Rows)
    (h : createKeyOutputs t customs valid chv2 layers = .ok tbl)
    (L : Nat) (hL : L < layers.length) (hnd : (layers[L].map (·.1)).Nodup)
    (k : Nat) (a : Action) (hpos : (k, a) ∈ layers[L]) (hv : valid k = true)
    (C : ChordV2) (hC : C ∈ chordsFor chv2 k) (hen : L ∉ C.disabledLayers)
    (x : Nat) (hx : x ∈ possibleOutputs customs k C.action) :
    x ∈ tableRow tbl L k ∧ ∀ o ∈ overrideOuts t x, o ∈ tableRow tbl L k := by
  rw [keyouts_v2_row t customs valid chv2 layers tbl h L hL hnd k a hpos hv]
  unfold rowV2
  have hb := foldChords_complete customs k (enabledChords L (chordsFor chv2 k)) (keyOutputs customs k a) C x
    ((mem_enabledChords L _ C).mpr ⟨hC, hen⟩) hx
  exact ⟨withOverrides_go t _ [] x (Or.inr (Or.inl hb)),
         fun o ho => withOverrides_go t _ [] o (Or.inr (Or.inr ⟨x, hb, ho⟩))⟩

/-- **keyouts_complete_chords_v2** (full): the same with the mapping built by the registration loop of
`parse_defchordv2` from the list of chords: for every layer `L`, every chord `C` of the
configuration not disabled on `L`, every participating key `k` of `C` and every key code `x` that
`C`'s action can produce, `x` is in row `k` of layer `L` - and with overrides the override outputs too. -/
theorem keyouts_complete_chords_v2 (t : Override.Overrides) (customs : List (List CAct)) (valid : Nat → Bool)
    (chords : List ChordV2) (minIdle : Nat) (layers : List (List (Nat × Action))) (tbl : List Rows)
    (h : createKeyOutputs t customs valid (some { mapping := registerChords chords, minIdle }) layers = .ok tbl)
    (L : Nat) (hL : L < layers.length) (hnd : (layers[L].map (·.1)).Nodup)
    (C : ChordV2) (hC : C ∈ chords) (hen : L ∉ C.disabledLayers)
    (k : Nat) (hk : k ∈ C.keys) (a : Action) (hpos : (k, a) ∈ layers[L]) (hv : valid k = true)
    (x : Nat) (hx : x ∈ possibleOutputs customs k C.action) :
    x ∈ tableRow tbl L k ∧ ∀ o ∈ overrideOuts t x, o ∈ tableRow tbl L k := by
  apply keyouts_complete_chords_v2_mapping t customs valid _ layers tbl h L hL hnd k a hpos hv C _ hen x hx
  rw [chordsFor_eq_regGet]
  exact (mem_regGet_registerChords chords k C).mpr ⟨hC, hk⟩

/-- the chord `(j k) -> x` is enabled on layer 0: `x` and the override output `q` are in row `j` -/
example : 45 ∈ tableRow exTable 0 36 ∧ ∀ o ∈ overrideOuts exOverrides 45, o ∈ tableRow exTable 0 36 :=
  keyouts_complete_chords_v2 exOverrides [] (fun _ => true) exChords 5 exLayers exTable exTable_eq 0 (by decide) (by decide)
    exChords[0] (by simp [exChords]) (by decide) 36 (by decide) (.keyCode 36) (by simp [exLayers]) rfl 45 (by decide)

/-- the tap-hold nested in a multi of chord `(k l)`: its tap key `1` is in row `l` of layer 1 -/
example : 2 ∈ tableRow exTable 1 38 :=
  (keyouts_complete_chords_v2 exOverrides [] (fun _ => true) exChords 5 exLayers exTable exTable_eq 1 (by decide) (by decide)
    exChords[1] (by simp [exChords]) (by decide) 38 (by decide) (.multipleKeyCodes [42, 38]) (by simp [exLayers]) rfl 2 (by decide)).1

/-- **keyouts_complete_own_with_chords_v2** (full): the chords do not push the key's own outputs out:
every key code of a key-producing leaf of the key's own action on layer `L` (and its override
outputs) is in the row as well. -/
theorem keyouts_complete_own_with_chords_v2 (t : Override.Overrides) (customs : List (List CAct)) (valid : Nat → Bool)
    (chv2 : Option ChV2Cfg) (layers : List (List (Nat × Action))) (tbl : List Rows)
    (h : createKeyOutputs t customs valid chv2 layers = .ok tbl)
    (L : Nat) (hL : L < layers.length) (hnd : (layers[L].map (·.1)).Nodup)
    (k : Nat) (a : Action) (hpos : (k, a) ∈ layers[L]) (hv : valid k = true)
    (x : Nat) (hx : x ∈ possibleOutputs customs k a) :
    x ∈ tableRow tbl L k ∧ ∀ o ∈ overrideOuts t x, o ∈ tableRow tbl L k := by
  rw [keyouts_v2_row t customs valid chv2 layers tbl h L hL hnd k a hpos hv]
  unfold rowV2
  have hb := foldChords_mono customs k (enabledChords L (chordsFor chv2 k)) (keyOutputs customs k a) x
    (keyouts_complete customs k a x hx)
  exact ⟨withOverrides_go t _ [] x (Or.inr (Or.inl hb)),
         fun o ho => withOverrides_go t _ [] o (Or.inr (Or.inr ⟨x, hb, ho⟩))⟩

example : 38 ∈ tableRow exTable 1 38 :=
  (keyouts_complete_own_with_chords_v2 exOverrides [] (fun _ => true) exChv2 exLayers exTable exTable_eq 1 (by decide) (by decide)
    38 (.multipleKeyCodes [42, 38]) (by simp [exLayers]) rfl 38 (by decide)).1

/-! ### only enabled chords contribute -/

/-- a key code "comes from" an action: it is the code of a key-producing leaf, or the output key of
an override of one -/
def FromAction (t : Override.Overrides) (customs : List (List CAct)) (k : Nat) (a : Action) (x : Nat) : Prop :=
  x ∈ possibleOutputs customs k a ∨ ∃ y ∈ possibleOutputs customs k a, x ∈ overrideOuts t y

/-- **keyouts_v2_only_enabled** (full): every key code in row `k` of layer `L` comes from the key's own
action on `L` or from a chord registered for `k` that is NOT disabled on `L`. So a chord disabled on
`L` contributes nothing to `L`: a code that only it produces is in no row of `L`. -/
theorem keyouts_v2_only_enabled (t : Override.Overrides) (customs : List (List CAct)) (valid : Nat → Bool)
    (chv2 : Option ChV2Cfg) (layers : List (List (Nat × Action))) (tbl : List Rows)
    (h : createKeyOutputs t customs valid chv2 layers = .ok tbl)
    (L : Nat) (hL : L < layers.length) (hnd : (layers[L].map (·.1)).Nodup)
    (k : Nat) (a : Action) (hpos : (k, a) ∈ layers[L]) (hv : valid k = true)
    (x : Nat) (hx : x ∈ tableRow tbl L k) :
    FromAction t customs k a x ∨
    ∃ C ∈ chordsFor chv2 k, L ∉ C.disabledLayers ∧ FromAction t customs k C.action x := by
  rw [keyouts_v2_row t customs valid chv2 layers tbl h L hL hnd k a hpos hv] at hx
  unfold rowV2 at hx
  have src : ∀ y, y ∈ (enabledChords L (chordsFor chv2 k)).foldl (fun o c => addOutputs customs k c.action o) (keyOutputs customs k a) →
      y ∈ possibleOutputs customs k a ∨ ∃ C ∈ chordsFor chv2 k, L ∉ C.disabledLayers ∧ y ∈ possibleOutputs customs k C.action := by
    intro y hy
    rcases foldChords_sound customs k _ _ y hy with hy | ⟨C, hC, hy⟩
    · rcases add_sound customs k a [] y hy with hy | hy
      · cases hy
      · exact Or.inl hy
    · obtain ⟨hC1, hC2⟩ := (mem_enabledChords L _ C).mp hC
      exact Or.inr ⟨C, hC1, hC2, hy⟩
  rcases withOverrides_sound t _ x hx with hx | ⟨y, hy, hxy⟩
  · rcases src x hx with h1 | ⟨C, hC, hen, h1⟩
    · exact Or.inl (Or.inl h1)
    · exact Or.inr ⟨C, hC, hen, Or.inl h1⟩
  · rcases src y hy with h1 | ⟨C, hC, hen, h1⟩
    · exact Or.inl (Or.inr ⟨y, h1, hxy⟩)
    · exact Or.inr ⟨C, hC, hen, Or.inr ⟨y, h1, hxy⟩⟩

/-- **keyouts_v2_disabled_contributes_nothing** (full), the same read the other way: if on layer `L` the
key's own action does not produce `x` (nor an override of its outputs) and no chord of `k` that is
enabled on `L` does, then `x` is not in the row - whatever the chords disabled on `L` produce. -/
theorem keyouts_v2_disabled_contributes_nothing (t : Override.Overrides) (customs : List (List CAct)) (valid : Nat → Bool)
    (chv2 : Option ChV2Cfg) (layers : List (List (Nat × Action))) (tbl : List Rows)
    (h : createKeyOutputs t customs valid chv2 layers = .ok tbl)
    (L : Nat) (hL : L < layers.length) (hnd : (layers[L].map (·.1)).Nodup)
    (k : Nat) (a : Action) (hpos : (k, a) ∈ layers[L]) (hv : valid k = true)
    (x : Nat) (hown : ¬ FromAction t customs k a x)
    (hch : ∀ C ∈ chordsFor chv2 k, L ∉ C.disabledLayers → ¬ FromAction t customs k C.action x) :
    x ∉ tableRow tbl L k := by
  intro hx
  rcases keyouts_v2_only_enabled t customs valid chv2 layers tbl h L hL hnd k a hpos hv x hx with h1 | ⟨C, hC, hen, h1⟩
  · exact hown h1
  · exact hch C hC hen h1

/-- chord `(j k) -> x` is disabled on layer 1: `x` (and the override output `q`) is not in row `j` there -/
example : 45 ∉ tableRow exTable 1 36 ∧ 16 ∉ tableRow exTable 1 36 := by decide

example : 45 ∈ tableRow exTable 0 36 →
    FromAction exOverrides [] 36 (.keyCode 36) 45 ∨
    ∃ C ∈ chordsFor exChv2 36, 0 ∉ C.disabledLayers ∧ FromAction exOverrides [] 36 C.action 45 :=
  keyouts_v2_only_enabled exOverrides [] (fun _ => true) exChv2 exLayers exTable exTable_eq 0 (by decide) (by decide)
    36 (.keyCode 36) (by simp [exLayers]) rfl 45

/-- **keyouts_v2_unlisted_position** (full): a position that is no `OsCode` or that the layer does not
have gets no row. -/
theorem keyouts_v2_unlisted_position (t : Override.Overrides) (customs : List (List CAct)) (valid : Nat → Bool)
    (chv2 : Option ChV2Cfg) (layers : List (List (Nat × Action))) (tbl : List Rows)
    (h : createKeyOutputs t customs valid chv2 layers = .ok tbl)
    (L : Nat) (hL : L < layers.length) (hidx : L ≤ LAYER_IDX_MAX)
    (k : Nat) (hno : valid k = false ∨ k ∉ layers[L].map (·.1)) :
    tableRow tbl L k = [] := by
  obtain ⟨hlen, hget⟩ := createFrom_get t customs valid chv2 layers 0 tbl h
  have hL' : L < tbl.length := by omega
  have hlay := hget L hL hL'
  rw [Nat.zero_add] at hlay
  obtain ⟨m', hm', g⟩ := layerOutputs_get t customs valid chv2 L hidx layers[L] []
  rw [hlay] at hm'
  injection hm' with hm'
  subst hm'
  have hrow : tableRow tbl L k = Rows.get tbl[L] k := by
    unfold tableRow
    rw [List.getElem?_eq_getElem hL']
    rfl
  rw [hrow, g k]
  apply rowFold_absent
  intro e he hek
  rcases hno with h1 | h1
  · exact h1
  · exact absurd (hek ▸ List.mem_map_of_mem (f := (·.1)) he) h1

example : tableRow exTable 0 30 = [] :=
  keyouts_v2_unlisted_position exOverrides [] (fun _ => true) exChv2 exLayers exTable exTable_eq 0 (by decide) (by decide)
    30 (Or.inr (by decide))

/-! ### registration -/

/-- **chords_v2_registered_iff** (full): after the registration loop of `parse_defchordv2` a chord is in
the list of a key exactly when it is a chord of the configuration and the key takes part in it. -/
theorem chords_v2_registered_iff (chords : List ChordV2) (minIdle k : Nat) (C : ChordV2) :
    C ∈ chordsFor (some { mapping := registerChords chords, minIdle }) k ↔ C ∈ chords ∧ k ∈ C.keys := by
  rw [chordsFor_eq_regGet]
  exact mem_regGet_registerChords chords k C

example : (chordsFor exChv2 37).map (·.keys) = [[36, 37], [37, 38]] := by decide

end KVerif.C14v2
