/-
C04 — layered remapping fidelity: on the fragment (plain keys, output chords, multi, no-op,
transparent, use-defsrc, layer-while-held, layer-switch, release-key/layer) the layout model is a
refinement of the simple layered-keymap machine of Spec/Layered.lean.
Property theorems only; helper lemmas are in Lemmas/Layered.lean and Lemmas/LayeredTick.lean.
-/
import KVerif.Lemmas.LayeredTick
import KVerif.Gen.Consts
import KVerif.Model.Kanata
namespace KVerif.C04
open KVerif.L KVerif.Spec.Layered

/-- inputs of a run: a key event, or one millisecond -/
inductive In
  | ev (e : Ev)
  | tick
  deriving Repr

/-- the layout model run on a history; the trace is the key-code list after every tick -/
def runM : Layout → List In → Except Crash (List (List KeyCode))
  | _, [] => .ok []
  | s, .ev e :: r =>
    match s.event e with
    | .error c => .error c
    | .ok s' => runM s' r
  | s, .tick :: r =>
    match tick s with
    | .error c => .error c
    | .ok (s', _) =>
      match runM s' r with
      | .error c => .error c
      | .ok t => .ok (s'.keycodes :: t)

/-- the layered machine run on the same history -/
def runS (km : Keymap) : State → List In → List (List KeyCode)
  | _, [] => []
  | s, .ev e :: r => runS km (input s e) r
  | s, .tick :: r => keys (step km s) :: runS km (step km s) r

/-- the bounds of the statement, expressed on the run of the *simple* machine: fewer than 32 events
pending whenever one arrives, and at most 10 layers held at once (the layer stack holds 12 entries
including the base layer and the first layer) -/
def Safe (km : Keymap) : State → List In → Prop
  | _, [] => True
  | s, .ev e :: r => s.pending.length < QUEUE_SIZE ∧ Safe km (input s e) r
  | s, .tick :: r => (heldLayers s).length + 2 ≤ MAX_ACTIVE_LAYERS ∧ Safe km (step km s) r

/-- **layered_refines** (full, on the fragment).  For every configuration of the C04 fragment, every
inert state (in particular the initial one) and every history — any order and timing of presses,
releases and ticks, physically consistent or not — that keeps the simple machine within the stated
bounds: if the layout processes the history, the key-code list it shows after every tick is exactly
that of the layered-keymap machine. -/
theorem layered_refines : ∀ (ins : List In) (s : Layout), CfgFrag s.cfg → Inert s →
    Safe (km s) (abs s) ins → ∀ t, runM s ins = .ok t → t = runS (km s) (abs s) ins := by
  intro ins
  induction ins with
  | nil => intro s _ _ _ t h; simp only [runM] at h; injection h with h; subst h; rfl
  | cons i rest ih =>
    intro s hc hi hs t h
    cases i with
    | ev e =>
      simp only [Safe] at hs
      obtain ⟨s1, e1, e2, e3, e4⟩ := event_input hi e hs.1
      simp only [runM, e1] at h
      have := ih s1 (e3.cfg ▸ hc) e2 (by rw [e3.km, e4]; exact hs.2) t h
      rw [this, e3.km, e4]; rfl
    | tick =>
      simp only [Safe] at hs
      simp only [runM] at h
      split at h
      · cases h
      · rename_i s1 cu ht
        obtain ⟨t1, t2, _, t4⟩ := tick_step hc hi hs.1 s1 cu ht
        split at h
        · cases h
        · rename_i tr hr
          injection h with h; subst h
          have := ih s1 (t2.cfg ▸ hc) t1 (by rw [t2.km, t4]; exact hs.2) tr hr
          rw [this, t2.km, t4, keycodes_abs t1.states, t4]; rfl

/-- **stays_inert**: on the fragment nothing ever waits — no tap-hold, tap-dance, chord, one-shot,
macro or queued action state arises, whatever the history. -/
theorem stays_inert : ∀ (ins : List In) (s : Layout), CfgFrag s.cfg → Inert s →
    Safe (km s) (abs s) ins → ∀ s' , (ins.foldlM (fun (s : Layout) i => match i with
        | .ev e => s.event e
        | .tick => match tick s with
          | .ok (s', _) => .ok s'
          | .error c => .error c) s) = .ok s' → Inert s' := by
  intro ins
  induction ins with
  | nil => intro s _ hi _ s' h; simp only [List.foldlM, pure, Except.pure] at h; injection h with h; subst h; exact hi
  | cons i rest ih =>
    intro s hc hi hs s' h
    simp only [List.foldlM, bind, Except.bind] at h
    cases i with
    | ev e =>
      simp only [Safe] at hs
      obtain ⟨s1, e1, e2, e3, e4⟩ := event_input hi e hs.1
      simp only [e1] at h
      exact ih s1 (e3.cfg ▸ hc) e2 (by rw [e3.km, e4]; exact hs.2) s' h
    | tick =>
      simp only [Safe] at hs
      cases ht : tick s with
      | error c => simp [ht] at h
      | ok r =>
        obtain ⟨s1, cu⟩ := r
        obtain ⟨t1, t2, _, t4⟩ := tick_step hc hi hs.1 s1 cu ht
        simp only [ht] at h
        exact ih s1 (t2.cfg ▸ hc) t1 (by rw [t2.km, t4]; exact hs.2) s' h

/-! ### What the layered machine guarantees (and hence, by `layered_refines`, the layout) -/

/-- **fifo_one_per_tick**: events take effect in arrival order, one per tick: an arriving event goes
to the back, a step consumes exactly the front. -/
theorem fifo_one_per_tick (km : Keymap) (s : State) (e : Ev) (rest : List Ev) (h : s.pending = e :: rest) (e2 : Ev) :
    (step km (input s e2)).pending = rest ++ [e2] ∧ (step km s).pending = rest := by
  have hpre : ∀ (fuel : Nat) (s : State) (c : Coord) (a : Action) (ls : List Nat),
      (perform km c fuel s a ls).pending = s.pending ∧ (performFound km c fuel s a ls).pending = s.pending ∧
      ∀ acs, (performAll km c fuel s acs ls).pending = s.pending := by
    intro fuel
    induction fuel with
    | zero => intro s c a ls; exact ⟨rfl, rfl, fun _ => rfl⟩
    | succ n ih =>
      intro s c a ls
      refine ⟨?_, ?_, ?_⟩
      · simp only [perform]; exact (ih _ c _ _).2.1
      · cases a <;> simp only [performFound] <;> try rfl
        · exact (ih s c .noOp ls).2.2 _
        · split <;> rfl
        · rename_i rs; cases rs <;> rfl
        · exact (ih s c _ []).1
      · intro acs
        induction acs generalizing s with
        | nil => rfl
        | cons a r ihr =>
          simp only [performAll]
          rw [(ih _ c .noOp ls).2.2 r]
          exact (ih s c a ls).1
  constructor
  · simp only [step, input, h, List.cons_append]
    cases e <;> simp [(hpre _ _ _ _ _).1]
  · simp only [step, h]
    cases e <;> simp [(hpre _ _ _ _ _).1]

/-- **release_undoes_press**: when a release takes effect, every contribution made by presses of that
coordinate is gone — whatever layers were active then or now — and every other contribution is kept,
in order. -/
theorem release_undoes_press (km : Keymap) (s : State) (c : Coord) (rest : List Ev)
    (h : s.pending = .release c :: rest) :
    (∀ x ∈ (step km s).contribs, contribCoord x ≠ c) ∧
    (step km s).contribs = s.contribs.filter (fun x => contribCoord x != c) ∧
    (step km s).base = s.base := by
  simp only [step, h]
  refine ⟨?_, by first | rfl | trivial, by first | rfl | trivial⟩
  intro x hx
  have := (List.mem_filter.mp hx).2
  simpa using this

/-- **press_searches_in_order**: the action a press performs is the first non-transparent entry in
the search order — held layers from the most recently activated to the oldest, then the base layer,
then (when configured) the first layer — and the defsrc key if all are transparent. -/
theorem press_searches_in_order (km : Keymap) (c : Coord) (order : List Nat) :
    (∀ l ∈ order, tableAction km l c = .trans) →
      lookup km c order = (if c.1 == 0 then km.cfg.srcKey c.2 else .noOp, []) := by
  induction order with
  | nil => intro _; rfl
  | cons l rest ih =>
    intro h
    have hl := h l (by simp)
    simp only [lookup, hl]
    exact ih (fun x hx => h x (by simp [hx]))

theorem press_finds_first (km : Keymap) (c : Coord) (pre : List Nat) (l : Nat) (post : List Nat)
    (hpre : ∀ x ∈ pre, tableAction km x c = .trans) (hl : tableAction km l c ≠ .trans) :
    lookup km c (pre ++ l :: post) = (tableAction km l c, post) := by
  induction pre with
  | nil =>
    cases hta : tableAction km l c <;> simp_all [lookup]
  | cons x xs ih =>
    have hx := hpre x (by simp)
    simp only [List.cons_append, lookup, hx]
    exact ih (fun y hy => hpre y (by simp [hy]))

/-- the search order itself -/
theorem search_order_spec (km : Keymap) (s : State) :
    searchOrder km s =
      if km.layerStack then
        heldLayers s ++ [s.base] ++ (if km.delegateToFirst && currentLayer s != 0 && s.base != 0 then [0] else [])
      else [currentLayer s] ++ (if km.delegateToFirst && currentLayer s != 0 then [0] else []) := rfl

/-- **init_inert**: a freshly created layout is inert (so the theorems apply from start-up). -/
theorem init_inert (cfg : LCfg) (tv2 dfl qth : Bool) (osd : Nat) :
    Inert { cfg := cfg, transV2 := tv2, delegateToFirstLayer := dfl, quickTapHoldTimeout := qth,
            oneshot := { pauseInputProcessingDelay := osd } } :=
  ⟨rfl, rfl, rfl, rfl, rfl, rfl, rfl, fun _ h => by cases h⟩

/-- capacities used by the model are the ones in the source tree now -/
theorem consts_from_source :
    ACTION_QUEUE_LEN = Gen.ACTION_QUEUE_LEN ∧ MAX_ACTIVE_LAYERS = Gen.MAX_ACTIVE_LAYERS := by decide

/-! ### Non-vacuity: a three-layer configuration with every kind of action of the fragment -/

def sampleCfg : LCfg :=
  { layers := [
      [((0, 30), .layer 1), ((0, 48), .multipleActions [.keyCode 42, .layer 2]), ((0, 46), .keyCode 45)],
      [((0, 30), .trans), ((0, 48), .defaultLayer 2), ((0, 46), .multipleKeyCodes [42, 2])],
      [((0, 30), .src), ((0, 48), .releaseState (.layer 1)), ((0, 46), .multipleActions [.trans, .releaseState (.keyCode 42)])]],
    srcKeys := [(30, .keyCode 30), (48, .keyCode 48), (46, .keyCode 46)] }

example : CfgFrag sampleCfg := by
  refine ⟨?_, ?_⟩
  · intro tbl ht e he
    simp only [sampleCfg, List.mem_cons, List.mem_nil_iff, or_false] at ht
    rcases ht with rfl | rfl | rfl <;>
      (simp only [List.mem_cons, List.mem_nil_iff, or_false] at he
       rcases he with rfl | rfl | rfl <;> simp [Frag, FragL])
  · intro e he
    simp only [sampleCfg, List.mem_cons, List.mem_nil_iff, or_false] at he
    rcases he with rfl | rfl | rfl <;> simp [Frag]

/-! ### Beyond the bound of `Safe`: twelve and more layers held at once (known finding) -/

/-- layers 1 … n held, activated in that order -/
def heldN (n : Nat) : Layout :=
  { cfg := { layers := [], srcKeys := [] },
    states := (List.range n).map fun i => .layerModifier (i + 1) (0, 59 + i) }

/-- **twelve_held_layers_skip_base_counterexample**: the statement searches "the held layers from most
recently activated to oldest, then the base layer"; `LayerStack` has 12 entries, the held layers go in
first and the base layer is pushed with `let _ = v.push(..)`: with twelve layers held the base layer
(0) is not in the order the layout uses, and with thirteen the oldest held layer (1) is missing as
well, while the layered machine of the specification has both. Reproduced on the real code
(corpus/C04.txt, KNOWN_FINDINGS.jsonl); this is why `Safe` bounds the held layers by 10. -/
theorem twelve_held_layers_skip_base_counterexample :
    (heldN 12).transOrder = .ok [12, 11, 10, 9, 8, 7, 6, 5, 4, 3, 2, 1] ∧
    searchOrder (km (heldN 12)) (abs (heldN 12)) = [12, 11, 10, 9, 8, 7, 6, 5, 4, 3, 2, 1, 0] ∧
    (heldN 13).transOrder = .ok [13, 12, 11, 10, 9, 8, 7, 6, 5, 4, 3, 2] ∧
    searchOrder (km (heldN 13)) (abs (heldN 13)) = [13, 12, 11, 10, 9, 8, 7, 6, 5, 4, 3, 2, 1, 0] ∧
    (heldN 11).transOrder = .ok (searchOrder (km (heldN 11)) (abs (heldN 11))) := by
  refine ⟨rfl, by decide, rfl, by decide, rfl⟩

/-! ### The emission step: a key can be released twice (known finding) -/

/-- two keys that both output `lsft` are held: the layout's key list, and with it `prev_keys`, holds
`lsft` twice -/
def dupWitness : K.KState :=
  { layout := { cfg := { layers := [[]], srcKeys := [] } }, customs := [], keyOutputs := [[]],
    mods := { codes := [42, 54, 56, 100, 29, 97, 125, 126], lsft := 42, rsft := 54 },
    prevKeys := [42, 42] }

/-- **duplicate_release_counterexample**: the OS events of the statement are "the ordered,
de-duplicated diff of consecutive key lists"; presses are de-duplicated (`pressNew` extends `prev_keys`
as it goes), releases are not: `prev_keys` keeps the duplicates of the layout's key list, and when all
of them go away in the same tick (`(release-key lsft)`) the release loop emits `up lsft` twice.
Reproduced on the real code (corpus/C04.txt, observable `OS=` of the C04 harness); known finding. -/
theorem duplicate_release_counterexample :
    (K.releaseOld dupWitness [] false).out = [.up 42, .up 42] ∧
    (K.pressNew { dupWitness with prevKeys := [] } [42, 42]).out = [.down 42] := by
  refine ⟨by decide, by decide⟩

end KVerif.C04
