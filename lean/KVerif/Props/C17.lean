/-
C17 — tap-dance performs exactly the action for the number of taps.
Property theorems only; helper lemmas are in Lemmas/TapDance.lean (queue functions, one tick),
Lemmas/TapDanceRun.lean (abstract count machine, refinement, closed forms) and
Lemmas/TapDanceLayout.lean (inside `tick` / `dequeue` / `do_action`; eager form).

All statements are about the model functions of Model/Layout.lean (`evictSameCoord`, `countTaps`,
`handleTapDance`, `tickWtTd`, `tickWt`, `tickMain`, `dequeue`, `dispatch`, `tickPre`), for all list
lengths, timeouts, queue contents and numbers of ticks.

The model follows the code after the two `fix:` commits of this check: `evict_same_coord_events`
evicts only the presses that were counted as taps (`no_press_is_lost`, `late_tap_starts_a_new_dance`,
`press_behind_interrupt_is_kept`), and `parse_tap_dance` rejects an empty list, so the index panics
are unreachable from an accepted configuration (`accepted_tap_dance_never_panics`).  What was false
of the pinned commit is kept as counterexample theorems about the separately named pinned eviction
`evictSameCoordPinned` (`late_tap_is_dropped`, `press_behind_interrupt_is_dropped`,
`tapdance_press_lost_counterexample`).
-/
import KVerif.Lemmas.TapDanceLayout
namespace KVerif.C17
open KVerif.L

/-! ## 1. The eviction lemma -/

/-- **eviction** (full, any queue, any counters).  The `retain` of `evict_same_coord_events` with `r`
releases and `p` presses of the key to remove keeps every event of other coordinates, in order;
drops the first `p` presses of the key and keeps every later one, in order; drops the first `r`
releases of the key and keeps the later ones, in order; and neither reorders nor invents anything. -/
theorem eviction (w : Waiting) (r p : Nat) (q : List Queued) :
    (evictSameCoord w r p q).filter (otherCoord w) = q.filter (otherCoord w) ∧
    (evictSameCoord w r p q).filter (isPr w) = (q.filter (isPr w)).drop p ∧
    (evictSameCoord w r p q).filter (isRel w) = (q.filter (isRel w)).drop r ∧
    (evictSameCoord w r p q).Sublist q :=
  ⟨evict_others_kept w r p q, evict_presses w r p q, evict_releases w r p q, evict_sublist w r p q⟩

/-- **no press is lost** (full).  Ending a dance on `n` taps removes exactly `n − 1` presses of the
key from the queue (fewer only if fewer are queued): every uncounted press of the key stays queued,
in order — it will open a new dance. -/
theorem no_press_is_lost (w : Waiting) (n : Nat) (q : List Queued) :
    (evictTaps w n q).filter (isPr w) = (q.filter (isPr w)).drop (n - 1) ∧
    nPr w (evictTaps w n q) = nPr w q - (n - 1) ∧
    (n - 1 < nPr w q → ∃ s ∈ evictTaps w n q, isPr w s = true) :=
  ⟨evictTaps_presses w n q, evictTaps_nPr w n q, evict_keeps_uncounted_presses w _ _ q⟩

/-- **the dance is processed as one press and one release** (full).  On a physically possible
history the key's queued events alternate release, press, release, … (its opening press has been
taken out).  Ending the dance on `n` taps (`n − 1` of the queued presses counted) removes exactly
the first `n − 1` release/press pairs of the key: what is left of the key's events starts with the
release of the LAST counted tap (if the key has been let go) — so the chosen action is pressed once,
by the decision, and released once, by that release — followed, untouched and still alternating, by
whatever the key did afterwards. -/
theorem one_press_one_release (w : Waiting) (q : List Queued) (halt : Alt false (keyEvs w q))
    (n : Nat) (hn : n - 1 ≤ nPr w q) :
    keyEvs w (evictTaps w n q) = (keyEvs w q).drop (2 * (n - 1)) ∧
    Alt false (keyEvs w (evictTaps w n q)) := by
  have h := evict_keyEvs w q halt (n - 1) hn
  refine ⟨h, ?_⟩
  show Alt false (keyEvs w (evictSameCoord w (n - 1) (n - 1) q))
  rw [h]
  exact alt_drop_two _ false _ halt

/-! ## 2. Counting taps -/

/-- **tap counting** (full, any queue).  The fold answers `.error` exactly when another key's press
is queued; the count is the start value plus the presses of the key queued before that press (all of
them when there is none); releases — of any key — neither end nor change the count. -/
theorem tap_count (w : Waiting) (n : Nat) (q : List Queued) :
    (countTaps w n q =
      if q.any (otherPress w) then .error (n + nPr w (q.takeWhile (fun s => !otherPress w s)))
      else .ok (n + nPr w q)) ∧
    ((∃ m, countTaps w n q = .error m) ↔ ∃ s ∈ q, otherPress w s = true) ∧
    countTaps w n (q.filter (·.ev.isPress)) = countTaps w n q :=
  ⟨countTaps_eq w n q, countTaps_error_iff w n q, countTaps_ignores_releases w n q⟩

/-! ## 3. One tick of the waiting state -/

/-- the listed action for a count: the `n`-th for `1 ≤ n ≤ len`, the last one from `len` on -/
theorem chosen_action (acts : List Action) (n : Nat) :
    (n ≤ acts.length → tdPick acts n = acts[n - 1]?) ∧ (acts.length ≤ n → tdPick acts n = acts.getLast?) :=
  ⟨tdPick_nth acts n, tdPick_last acts n⟩

/-- **tapdance_decides** (full).  One `tick_wt` of a lazy tap-dance waiting state, complete case
analysis.  With `w₁` the state after the countdown step: it decides exactly when `decidesOn` gives a
count `n` — the countdown reached 0 (then `n` is the count recorded on an EARLIER tick: the queue is
not read again), or the queue length changed and it shows another key's press or a count ≥ the list
length (then `n = 1 +` the key's presses before that press) — and then: the decision is `Tap`, the
action stored for it is the one listed for `n`, the queue is the eviction with `n − 1`, the action
queue is untouched.  Otherwise nothing is decided and the queue is untouched.  It panics exactly
when it decides and the list is empty. -/
theorem tapdance_decides (w : Waiting) (acts : List Action) (T k : Nat) (hc : w.config = .tapDance acts T k)
    (q : List Queued) (aq : ActionQueue) :
    (∀ n, decidesOn (cd w) acts.length k q = some n →
      (∃ a, tdPick acts n = some a ∧ ∃ w', tickWt w q aq =
          .ok (w', evictTaps w n q, aq, some (.tap, none)) ∧ w'.tap = a ∧ w'.coord = w.coord ∧
          w'.layerStack = w.layerStack) ∨
      (acts = [] ∧ tickWt w q aq = .error (.indexOOB "tap-dance actions"))) ∧
    (decidesOn (cd w) acts.length k q = none →
      ∃ w', tickWt w q aq = .ok (w', q, aq, none) ∧ w'.tap = w.tap ∧ w'.coord = w.coord ∧
        w'.layerStack = w.layerStack ∧ ∃ n, w'.config = .tapDance acts T n) := by
  have hcases := tickWtTd_cases (cd w) acts T k q
  rw [tickWt_td w acts T k hc]
  constructor
  · intro n hn
    rcases hcases.2.1 n hn with ⟨a, ha, w', hw', hta⟩ | ⟨he, hcr⟩
    · left
      obtain ⟨f1, _, _, _, _, f6, _⟩ := tickWtTd_fields hw'
      refine ⟨a, ha, w', ?_, hta, f1, f6⟩
      rw [hw', evictTaps_coord_congr (show (cd w).coord = w.coord from rfl)]
      rfl
    · right
      exact ⟨he, by rw [hcr]⟩
  · intro hn
    obtain ⟨w', hw'⟩ := hcases.2.2 hn
    obtain ⟨f1, _, _, _, _, f6, _, f8, _, f10⟩ := tickWtTd_fields hw'
    exact ⟨w', by rw [hw']; rfl, (f8 rfl).1, f1, f6, f10⟩

/-- **the index panic of the lazy form** (full): `tds.actions[idx]` is out of bounds exactly for the
empty list, on the tick the dance is decided — never otherwise.  `parse_tap_dance` rejects the empty
list since the `fix:` commit, so this is unreachable from an accepted configuration
(`accepted_tap_dance_never_panics`). -/
theorem lazy_crash_iff_empty_list (w : Waiting) (acts : List Action) (T k : Nat) (q : List Queued) :
    (∃ c, tickWtTd w acts T k q = .error c) ↔ (acts = [] ∧ decidesOn w acts.length k q ≠ none) := by
  have hcases := tickWtTd_cases w acts T k q
  constructor
  · rintro ⟨c, hc⟩
    cases hd : decidesOn w acts.length k q with
    | none =>
      obtain ⟨w', hw'⟩ := hcases.2.2 hd
      rw [hw'] at hc; cases hc
    | some n =>
      rcases hcases.2.1 n hd with ⟨a, _, w', hw', _⟩ | ⟨he, _⟩
      · rw [hw'] at hc; cases hc
      · exact ⟨he, by simp⟩
  · rintro ⟨he, hd⟩
    cases hd' : decidesOn w acts.length k q with
    | none => exact absurd hd' hd
    | some n =>
      rcases hcases.2.1 n hd' with ⟨a, ha, _⟩ | ⟨_, hcr⟩
      · subst he; cases ha
      · exact ⟨_, hcr⟩

/-- **restart and countdown** (full): one tick of the waiting state is one step of the abstract
count machine `specStep` — in particular, while undecided, the deadline moves to `T` ticks from now
exactly when the count grew, and otherwise comes one tick closer. -/
theorem tick_refines_abstract_step {w : Waiting} {acts : List Action} {T k : Nat} {q : List Queued}
    (hI : Inv w acts T k q) (hne : acts ≠ []) (b : List Queued) (hlen : (q ++ b).length < 255) :
    match specStep T acts.length k w.timeout (arrivalOf w (w.prevQueueLen == 255) b) with
    | .decided n =>
      ∃ a, tdPick acts n = some a ∧ ∃ w', tickWtTd (cd w) acts T k (q ++ b) =
        .ok (w', evictTaps w n (q ++ b), some .tap) ∧ w'.tap = a ∧ w'.coord = w.coord
    | .pending k' rem' =>
      ∃ w', tickWtTd (cd w) acts T k (q ++ b) = .ok (w', q ++ b, none) ∧ w'.timeout = rem' ∧
        Inv w' acts T k' (q ++ b) ∧ w'.prevQueueLen ≠ 255 ∧ w'.coord = w.coord ∧ w'.tap = w.tap ∧
        w'.layerStack = w.layerStack :=
  tickWtTd_refines hI hne b hlen

/-- **where a dance starts** (full): the waiting state `do_action` creates for a lazy tap-dance key
(the `TapDance` arm: `armWait … (.tapDance acts T 1)`) has one tap counted, the deadline `T` ticks
away and nothing read yet — the invariant the many-tick theorems below start from, with the queue
content of that moment arriving as the first batch. -/
theorem fresh_dance_invariant (s : Layout) (c : Coord) (d T : Nat) (acts : List Action) (ls : List Nat) :
    ∃ w, (armWait s c d T (.tapDance acts T 1) ls).waiting = some w ∧ Inv w acts T 1 [] ∧
      w.timeout = T ∧ w.coord = c ∧ w.layerStack = ls :=
  ⟨_, rfl, ⟨rfl, rfl, rfl, Or.inr rfl⟩, rfl, rfl, rfl⟩

/-! ## 4. Many ticks: the N-th action, on time -/

/-- **the waiting state refines the abstract count machine over any number of ticks** (full) -/
theorem run_refines_abstract_machine {acts : List Action} {T : Nat} (hne : acts ≠ [])
    (bs : List (List Queued)) (w : Waiting) (q : List Queued) (k : Nat) (hI : Inv w acts T k q)
    (hlen : (q ++ bs.flatten).length < 255) :
    match specRun T acts.length k w.timeout (arrivals w (w.prevQueueLen == 255) bs) with
    | (t, .decided n) =>
      ∃ a, tdPick acts n = some a ∧ ∃ w', tdDrive w q bs =
        .ok (t, w', evictTaps w n (q ++ (bs.take t).flatten), some .tap) ∧ w'.tap = a ∧
        w'.coord = w.coord
    | (t, .pending k' rem') =>
      ∃ w', tdDrive w q bs = .ok (t, w', q ++ bs.flatten, none) ∧ w'.timeout = rem' ∧
        Inv w' acts T k' (q ++ bs.flatten) ∧ t = bs.length ∧ w'.coord = w.coord :=
  tdDrive_refines hne bs w q k hI hlen

/-- **tapdance_nth** (full, lists of any length, any `T ≥ 1`, any number of taps, any gaps).
The key has been tapped `k` times so far and the deadline is `T` ticks away.  `m` further taps
follow, each first seen fewer than `T` ticks after the previous one was seen (only releases arrive in
between), with `k + m` below the list length; then only releases for at least `T` ticks.  Then the
dance stays undecided until exactly `T` ticks after the last tap was seen — tick `g + T` — and on
that tick it is decided, once, on the `(k + m)`-th listed action; the queue left behind is the
eviction, with `k + m − 1`, of what had arrived. -/
theorem tapdance_nth {acts : List Action} {T : Nat} (hne : acts ≠ []) (hT : 1 ≤ T)
    {w : Waiting} {q : List Queued} {k : Nat} (hI : Inv w acts T k q) (hto : w.timeout = T)
    {m g : Nat} {bs : List (List Queued)} (hb : TapBatches w T m g bs) (hk : k + m < acts.length)
    (tail : List (List Queued)) (hq : ∀ b ∈ tail, QuietBatch b) (hl : T ≤ tail.length)
    (hlen : (q ++ (bs ++ tail).flatten).length < 255) :
    ∃ a, acts[k + m - 1]? = some a ∧ ∃ w', tdDrive w q (bs ++ tail) =
      .ok (g + T, w', evictTaps w (k + m) (q ++ ((bs ++ tail).take (g + T)).flatten), some .tap) ∧
      w'.tap = a := by
  have href := tdDrive_refines hne (bs ++ tail) w q k hI hlen
  have hspec : specRun T acts.length k w.timeout (arrivals w (w.prevQueueLen == 255) (bs ++ tail)) =
      (g + T, .decided (k + m)) := by
    rw [hto, arrivals_append]
    exact spec_nth (tapBatches_arrivals hb _) k hk hT _ (arrivals_quiet hq w _) (by rw [arrivals_length]; exact hl)
  rw [hspec] at href
  obtain ⟨a, ha, w', hw', hta, _⟩ := href
  rw [tdPick_nth acts (k + m) (by omega)] at ha
  exact ⟨a, ha, w', hw', hta⟩

/-- **list exhausted** (full): the tap that brings the count to the list length ends the dance on
the very tick it is seen, on the last listed action — no waiting for the timeout. -/
theorem tapdance_exhausted {acts : List Action} {T : Nat} (hne : acts ≠ [])
    {w : Waiting} {q : List Queued} {k : Nat} (hI : Inv w acts T k q) (hto : w.timeout = T)
    {m g : Nat} {bs : List (List Queued)} (hb : TapBatches w T m g bs) (hk : k + m + 1 = acts.length)
    (quiets : List (List Queued)) (hq : ∀ b ∈ quiets, QuietBatch b) (hl : quiets.length + 1 < T)
    (b : List Queued) (htap : TapBatch w b) (rest : List (List Queued))
    (hlen : (q ++ (bs ++ (quiets ++ b :: rest)).flatten).length < 255) :
    ∃ a, acts.getLast? = some a ∧ ∃ w', tdDrive w q (bs ++ (quiets ++ b :: rest)) =
      .ok (g + quiets.length + 1, w',
        evictTaps w acts.length (q ++ ((bs ++ (quiets ++ b :: rest)).take (g + quiets.length + 1)).flatten),
        some .tap) ∧ w'.tap = a := by
  have href := tdDrive_refines hne (bs ++ (quiets ++ b :: rest)) w q k hI hlen
  have hspec : specRun T acts.length k w.timeout
      (arrivals w (w.prevQueueLen == 255) (bs ++ (quiets ++ b :: rest))) =
      (g + quiets.length + 1, .decided acts.length) := by
    rw [hto, arrivals_append, arrivals_append]
    simp only [arrivals]
    rw [spec_exhausted (tapBatches_arrivals hb (w.prevQueueLen == 255)) k hk
      (arrivals w ((w.prevQueueLen == 255) && bs.isEmpty) quiets) (arrivals_quiet hq w _)
      (by rw [arrivals_length]; exact hl)
      (arrivalOf w ((w.prevQueueLen == 255) && bs.isEmpty && quiets.isEmpty) b) (tapBatch_arrival htap _)
      (arrivals w false rest), arrivals_length]
  rw [hspec] at href
  obtain ⟨a, ha, w', hw', hta, _⟩ := href
  rw [tdPick_last acts acts.length (Nat.le_refl _)] at ha
  exact ⟨a, ha, w', hw', hta⟩

/-- **timeout_exactly_at_T for tap-dance** (full, every `T`, every count below the list length).
With only releases arriving, the dance stays undecided, with `T − n` ticks to go, after `n < T`
ticks, and is decided on exactly the `T`-th tick, on the count so far. -/
theorem tapdance_deadline_exact {acts : List Action} {T : Nat} (hne : acts ≠ []) (hT : 1 ≤ T)
    {w : Waiting} {q : List Queued} {k : Nat} (hI : Inv w acts T k q) (hto : w.timeout = T)
    (hk : k < acts.length) (bs : List (List Queued)) (hq : ∀ b ∈ bs, QuietBatch b)
    (hlen : (q ++ bs.flatten).length < 255) :
    (bs.length < T → ∃ w', tdDrive w q bs = .ok (bs.length, w', q ++ bs.flatten, none) ∧
      w'.timeout = T - bs.length) ∧
    (T ≤ bs.length → ∃ a, acts[k - 1]? = some a ∧ ∃ w', tdDrive w q bs =
      .ok (T, w', evictTaps w k (q ++ (bs.take T).flatten), some .tap) ∧ w'.tap = a) := by
  have href := tdDrive_refines hne bs w q k hI hlen
  have hs := spec_timeout_exact (T := T) hk (arrivals w (w.prevQueueLen == 255) bs) (arrivals_quiet hq w _) T hT
  rw [arrivals_length] at hs
  rw [hto] at href
  constructor
  · intro h
    rw [hs.1 h] at href
    obtain ⟨w', hw', hto', _⟩ := href
    exact ⟨w', hw', hto'⟩
  · intro h
    rw [hs.2 h] at href
    obtain ⟨a, ha, w', hw', hta, _⟩ := href
    rw [tdPick_nth acts k (by omega)] at ha
    exact ⟨a, ha, w', hw', hta⟩

/-- **another key ends the count** (full): a press of another key first seen before the deadline
ends the dance on that tick, on the count including the taps queued before it (capped at the list
length: taps queued beyond it are not part of this dance, fix PENDING-1); every event of other
coordinates — the interrupting press among them — is still in the queue afterwards, in order. -/
theorem tapdance_interrupted {acts : List Action} {T : Nat} (hne : acts ≠ [])
    {w : Waiting} {q : List Queued} {k : Nat} (hI : Inv w acts T k q) (hk : k < acts.length)
    (quiets : List (List Queued)) (hq : ∀ b ∈ quiets, QuietBatch b) (hl : quiets.length + 1 < w.timeout)
    (b : List Queued) (hb : interrupted w b = true) (rest : List (List Queued))
    (hlen : (q ++ (quiets ++ b :: rest).flatten).length < 255) :
    let n := inThisDance (k + nPr w (b.takeWhile (fun s => !otherPress w s))) acts.length
    ∃ a, tdPick acts n = some a ∧ ∃ w' q', tdDrive w q (quiets ++ b :: rest) =
      .ok (quiets.length + 1, w', q', some .tap) ∧ w'.tap = a ∧
      q' = evictTaps w n (q ++ (quiets ++ [b]).flatten) ∧
      q'.filter (otherCoord w) = (q ++ (quiets ++ [b]).flatten).filter (otherCoord w) ∧
      ∃ x ∈ q', otherPress w x = true := by
  intro n
  have href := tdDrive_refines hne (quiets ++ b :: rest) w q k hI hlen
  have hne' : b ≠ [] := by rintro rfl; simp [interrupted] at hb
  have hspec : specRun T acts.length k w.timeout (arrivals w (w.prevQueueLen == 255) (quiets ++ b :: rest)) =
      (quiets.length + 1, .decided n) := by
    rw [arrivals_append]
    simp only [arrivals]
    have := spec_interrupt (T := T) hk (arrivals w (w.prevQueueLen == 255) quiets) (arrivals_quiet hq w _) w.timeout
      (by rw [arrivals_length]; exact hl) (arrivalOf w ((w.prevQueueLen == 255) && quiets.isEmpty) b)
      (by
        show (_ || !b.isEmpty) = true
        cases b with
        | nil => exact absurd rfl hne'
        | cons _ _ => simp)
      hb (arrivals w false rest)
    rw [arrivals_length] at this
    exact this
  rw [hspec] at href
  obtain ⟨a, ha, w', hw', hta, _⟩ := href
  have htake := take_len_succ b rest quiets
  rw [htake] at hw'
  refine ⟨a, ha, w', _, hw', hta, rfl, evictTaps_others_kept w _ _, ?_⟩
  -- the interrupting press is an event of another coordinate, hence kept
  obtain ⟨x, hx, hxo⟩ : ∃ x ∈ b, otherPress w x = true := by simpa [interrupted] using hb
  have hoc : otherCoord w x = true := by
    rw [otherCoord_iff]
    refine ⟨otherPress_not_isPr hxo, ?_⟩
    cases h : isRel w x with
    | false => rfl
    | true => exact absurd (otherPress_isPress hxo) (by simp [isRel_not_isPress h])
  have hmem : x ∈ (q ++ (quiets ++ [b]).flatten).filter (otherCoord w) := by
    rw [List.mem_filter]
    exact ⟨by simp [hx], hoc⟩
  rw [← evictTaps_others_kept w n] at hmem
  exact ⟨x, (List.mem_filter.mp hmem).1, hxo⟩

/-! ## 5. Uncounted presses stay queued (and what the pinned commit did instead) -/

/-- **late_tap_starts_a_new_dance** (full, every `T`, count and queue).  When the deadline tick
comes (`T − 1` ticks with only releases, then the `T`-th), whatever arrives with that tick is not
counted — the dance is decided on the OLD count `k` — and every press of the key that arrived with
it is still in the queue afterwards: the late tap opens a new dance. -/
theorem late_tap_starts_a_new_dance {acts : List Action} {T : Nat} (hne : acts ≠ [])
    {w : Waiting} {q : List Queued} {k : Nat} (hI : Inv w acts T k q) (hk : k < acts.length)
    (quiets : List (List Queued)) (hq : ∀ b ∈ quiets, QuietBatch b) (hl : quiets.length + 1 = w.timeout)
    (b : List Queued) (rest : List (List Queued))
    (hlen : (q ++ (quiets ++ b :: rest).flatten).length < 255) :
    ∃ a, acts[k - 1]? = some a ∧ ∃ w' q', tdDrive w q (quiets ++ b :: rest) =
      .ok (w.timeout, w', q', some .tap) ∧ w'.tap = a ∧
      q' = evictTaps w k (q ++ (quiets ++ [b]).flatten) ∧
      q'.filter (isPr w) = b.filter (isPr w) := by
  have href := tdDrive_refines hne (quiets ++ b :: rest) w q k hI hlen
  have hspec : specRun T acts.length k w.timeout (arrivals w (w.prevQueueLen == 255) (quiets ++ b :: rest)) =
      (w.timeout, .decided k) := by
    rw [arrivals_append]
    simp only [arrivals]
    exact spec_deadline_wins hk _ (arrivals_quiet hq w _) w.timeout (by rw [arrivals_length]; exact hl) _ _
  rw [hspec] at href
  obtain ⟨a, ha, w', hw', hta, _⟩ := href
  rw [tdPick_nth acts k (by omega)] at ha
  rw [← hl, take_len_succ] at hw'
  rw [hl] at hw'
  refine ⟨a, ha, w', _, hw', hta, rfl, ?_⟩
  rw [evictTaps_presses]
  have hq1 : (q.filter (isPr w)).length = k - 1 := by
    have := seenTaps_not_interrupted hI.clean
    rw [hI.seen] at this
    show nPr w q = k - 1
    omega
  simp only [List.flatten_append, List.flatten_cons, List.flatten_nil, List.append_nil, List.filter_append,
    quiets_no_press hq w, List.nil_append]
  exact drop_append_len _ _ _ hq1

/-- **press_behind_interrupt_is_kept** (full).  When another key's press ends the dance, the count
stops at that press (and at the list length), and every press of the dance key queued BEHIND it
stays queued, in order - as do the presses before it that exceed the list length. -/
theorem press_behind_interrupt_is_kept (w : Waiting) (k len : Nat) (pre post : List Queued) (x : Queued)
    (hpre : interrupted w pre = false) (hx : otherPress w x = true)
    (hfast : ¬ ((pre ++ x :: post).length % 256 == w.prevQueueLen && w.timeout > 0) = true)
    (hto : w.timeout ≠ 0) :
    let n := inThisDance (1 + nPr w pre) len
    handleTapDance w k len (pre ++ x :: post) = (evictTaps w n (pre ++ x :: post), some .tap, n) ∧
    (evictTaps w n (pre ++ x :: post)).filter (isPr w) =
      (pre.filter (isPr w)).drop (n - 1) ++ post.filter (isPr w) := by
  intro n
  constructor
  · rw [handleTapDance_spec]
    have h2 : (w.timeout == 0) = false := by simpa using hto
    have hi : interrupted w (pre ++ x :: post) = true := by
      simp [interrupted, hx]
    have hall : ∀ y ∈ pre, (fun s => !otherPress w s) y = true := by
      intro y hy
      have := List.any_eq_false.mp hpre y hy
      simpa using this
    have hs : seenTaps w (pre ++ x :: post) = 1 + nPr w pre := by
      unfold seenTaps
      rw [takeWhile_append_all _ hall, List.takeWhile_cons]
      simp [hx]
    simp only [hfast, if_false, h2, Bool.false_eq_true, hi, Bool.true_or, if_true, hs]
    rfl
  · rw [evictTaps_presses, List.filter_append, List.filter_cons, otherPress_not_isPr hx]
    have hn : n - 1 ≤ (pre.filter (isPr w)).length := by
      show inThisDance (1 + nPr w pre) len - 1 ≤ nPr w pre
      unfold inThisDance; omega
    simp only [Bool.false_eq_true, if_false]
    exact List.drop_append_of_le_length hn

/-- **late_tap_is_dropped** (counterexample material: the eviction of the PINNED commit).  It removed
every queued press of the key, so whenever a press was queued that had not been counted
(`k − 1 < nPr w q`), that tap was lost — while the eviction of the current code keeps it. -/
theorem late_tap_is_dropped (w : Waiting) (k : Nat) (q : List Queued) (h : k - 1 < nPr w q) :
    (∀ s ∈ evictSameCoordPinned w (k - 1) q, isPr w s = false) ∧
    ∃ s ∈ evictTaps w k q, isPr w s = true :=
  ⟨pinned_no_press w _ q, evict_keeps_uncounted_presses w _ _ q h⟩

/-- **press_behind_interrupt_is_dropped** (counterexample material, PINNED commit): with the count
stopped at another key's press, the pinned eviction also dropped every press of the dance key queued
behind it. -/
theorem press_behind_interrupt_is_dropped (w : Waiting) (pre post : List Queued) (x : Queued) :
    ∀ s ∈ evictSameCoordPinned w (nPr w pre) (pre ++ x :: post), isPr w s = false :=
  pinned_no_press w _ _

/-- a concrete waiting state: dance key `a` = (0,30), list `(q w)`, `T = 3`, one tap counted, the
deadline one tick away, the queue (length 1: the key's release) read on the previous tick -/
def lateW : Waiting :=
  { coord := (0, 30), timeout := 1, delay := 0, ticks := 2, hold := .noOp, tap := .noOp, timeoutAction := .noOp,
    config := .tapDance [.keyCode 16, .keyCode 17] 3 1, layerStack := [0], prevQueueLen := 1 }

/-- **tapdance_press_lost_counterexample** (concrete witness against the PINNED commit; input in
corpus/C17.txt, fixed finding in KNOWN_FINDINGS.jsonl).  `(tap-dance 3 (q w))`: the key was tapped
once, its second press arrives with the deadline tick.  The pinned eviction left two releases of the
key and no press — the second tap was lost.  The current code decides on ONE tap (`q`) as before and
leaves the second press queued. -/
theorem tapdance_press_lost_counterexample :
    evictSameCoordPinned lateW 0 [⟨.release (0, 30), 2⟩, ⟨.press (0, 30), 1⟩, ⟨.release (0, 30), 1⟩] =
      [⟨.release (0, 30), 2⟩, ⟨.release (0, 30), 1⟩] ∧
    ∃ w', tickWt lateW [⟨.release (0, 30), 2⟩, ⟨.press (0, 30), 1⟩, ⟨.release (0, 30), 1⟩] [] =
      .ok (w', [⟨.release (0, 30), 2⟩, ⟨.press (0, 30), 1⟩, ⟨.release (0, 30), 1⟩], [], some (.tap, none)) ∧
      w'.tap = .keyCode 16 := by
  refine ⟨rfl, { lateW with timeout := 0, ticks := 3, tap := .keyCode 16, prevQueueLen := 3 }, ?_, rfl⟩
  rw [tickWt_td lateW _ 3 1 rfl]
  rfl

/-! ## 5b. Taps beyond the list length are not part of the dance (fix PENDING-1) -/

/-- **taps_beyond_list_stay_queued** (full, any queue - also several taps arriving between two
ticks).  Whenever the queue is read and the dance is decided (another key's press, or the count has
reached the list length), it is decided on at most `len` taps, so at most `len − 1` presses of the key
leave the queue: every press beyond the list length stays queued and opens the next dance. -/
theorem taps_beyond_list_stay_queued (w : Waiting) (k len : Nat) (q : List Queued)
    (hfast : ¬ (q.length % 256 == w.prevQueueLen && w.timeout > 0) = true) (hto : w.timeout ≠ 0)
    (hex : interrupted w q = true ∨ len ≤ seenTaps w q) :
    ∃ n, n ≤ len ∧ handleTapDance w k len q = (evictTaps w n q, some .tap, n) ∧
      nPr w (evictTaps w n q) = nPr w q - (n - 1) ∧ nPr w q - (len - 1) ≤ nPr w (evictTaps w n q) := by
  refine ⟨inThisDance (seenTaps w q) len, Nat.min_le_right _ _, ?_, evictTaps_nPr w _ q, ?_⟩
  · rw [handleTapDance_spec]
    have h2 : (w.timeout == 0) = false := by simpa using hto
    have h3 : (interrupted w q || decide (seenTaps w q ≥ len)) = true := by
      rcases hex with h | h
      · simp [h]
      · simp [h]
    simp only [hfast, if_false, h2, Bool.false_eq_true, h3, if_true]
  · rw [evictTaps_nPr]
    have : inThisDance (seenTaps w q) len ≤ len := Nat.min_le_right _ _
    omega

/-- a concrete waiting state: dance key `a` = (0,30), list `(x y)`, `T = 200`, just created (nothing
read yet) -/
def burstW : Waiting :=
  { coord := (0, 30), timeout := 199, delay := 0, ticks := 1, hold := .noOp, tap := .noOp, timeoutAction := .noOp,
    config := .tapDance [.keyCode 45, .keyCode 21] 200 1, layerStack := [0], prevQueueLen := 255 }

/-- **tapdance_tap_beyond_list_lost_counterexample** (concrete witness against the code BEFORE fix
PENDING-1; input in corpus/C17.txt, `fixed` record in KNOWN_FINDINGS.jsonl).  `(tap-dance 200 (x y))`,
three taps of the key arrive between two ticks.  The earlier code counted three taps and evicted two
presses: only one release was left - `y` was tapped and the third tap was swallowed.  The current code
decides on TWO taps (`y`) and leaves the third tap's press and release queued (it then opens a new
dance, as it does when it arrives a tick later). -/
theorem tapdance_tap_beyond_list_lost_counterexample :
    handleTapDanceUncapped burstW 1 2
        [⟨.release (0, 30), 0⟩, ⟨.press (0, 30), 0⟩, ⟨.release (0, 30), 0⟩, ⟨.press (0, 30), 0⟩, ⟨.release (0, 30), 0⟩] =
      ([⟨.release (0, 30), 0⟩], some .tap, 3) ∧
    handleTapDance burstW 1 2
        [⟨.release (0, 30), 0⟩, ⟨.press (0, 30), 0⟩, ⟨.release (0, 30), 0⟩, ⟨.press (0, 30), 0⟩, ⟨.release (0, 30), 0⟩] =
      ([⟨.release (0, 30), 0⟩, ⟨.press (0, 30), 0⟩, ⟨.release (0, 30), 0⟩], some .tap, 2) := by
  constructor <;> decide

/-! ## 6. Inside `tick`: exactly one action, and the interrupting key after it -/

/-- **exactly_one_tap_dance_action** (full).  One tick of the layout with a lazy tap-dance pending
either changes nothing but the waiting state's countdown / count / memo (nothing is output, the
queue is untouched), or consumes the waiting state, evicts the key's counted events, and performs
EXACTLY ONE `do_action`: on the action listed for the decided count, at the key's coordinate, with
the layers active when it was pressed, on a state that otherwise equals the previous one.  Since the
waiting state is gone afterwards, no dance resolves twice. -/
theorem exactly_one_tap_dance_action (s : Layout) (w : Waiting) (acts : List Action) (T k : Nat)
    (hw : s.waiting = some w) (hc : w.config = .tapDance acts T k) :
    (decidesOn (cd w) acts.length k s.queue = none ∧
      ∃ w', tickMain s = .ok ({ s with waiting := some w' }, .noEvent) ∧ w'.coord = w.coord ∧
        w'.tap = w.tap ∧ w'.layerStack = w.layerStack ∧ ∃ n, w'.config = .tapDance acts T n) ∨
    (∃ n, decidesOn (cd w) acts.length k s.queue = some n ∧
      ((∃ a, tdPick acts n = some a ∧
          tickMain s =
            match doAction FUEL { s with waiting := none, queue := evictTaps w n s.queue }
                a w.coord 0 false w.layerStack with
            | .error e => .error e
            | .ok (s1, cu) => .ok (tapPost s1, cu)) ∨
       (acts = [] ∧ tickMain s = .error (.indexOOB "tap-dance actions")))) :=
  lazy_tick_cases s w acts T k hw hc

/-- **interrupt_after_action** (full for a listed plain key or layer-while-held; `_partial` below
for other listed actions).  On the tick the dance is decided on a plain key: that key is pressed at
the dance key's coordinate, the waiting state is gone, and EVERY event of other coordinates that was
queued — an interrupting key's press among them — is still queued, in order, untouched; together
with `buffered_events_replayed_in_order` (C05) it is therefore taken from the queue on a LATER tick,
after the chosen action. -/
theorem interrupt_after_action (s : Layout) (w : Waiting) (acts : List Action) (T k n : Nat)
    (hw : s.waiting = some w) (hc : w.config = .tapDance acts T k)
    (hd : decidesOn (cd w) acts.length k s.queue = some n) :
    (∀ kc, tdPick acts n = some (.keyCode kc) →
      ∃ s', tickMain s = .ok (s', .noEvent) ∧ s'.waiting = none ∧
        s'.queue = evictTaps w n s.queue ∧
        s'.queue.filter (otherCoord w) = s.queue.filter (otherCoord w) ∧
        s'.states = pushCap STATES_CAP (s.states.filter (fun st => !st.clearOnNextAction)) (.normalKey kc w.coord 0)) ∧
    (∀ l, tdPick acts n = some (.layer l) →
      ∃ s', tickMain s = .ok (s', .noEvent) ∧ s'.waiting = none ∧
        s'.queue = evictTaps w n s.queue ∧
        s'.queue.filter (otherCoord w) = s.queue.filter (otherCoord w) ∧
        s'.states = pushCap STATES_CAP (s.states.filter (fun st => !st.clearOnNextAction)) (.layerModifier l w.coord)) := by
  have hcases := lazy_tick_cases s w acts T k hw hc
  rcases hcases with ⟨hnone, _⟩ | ⟨n', hn', hrest⟩
  · rw [hnone] at hd; cases hd
  · rw [hd] at hn'
    injection hn' with hn'
    subst hn'
    constructor
    · intro kc hp
      rcases hrest with ⟨a, ha, ht⟩ | ⟨he, _⟩
      · rw [hp] at ha
        injection ha with ha
        subst ha
        rw [FUEL_two, doAction_keyCode] at ht
        obtain ⟨p1, p2, _, _, p5, _⟩ := prelude_fields ({ s with waiting := none, queue := evictTaps w n s.queue } : Layout) w.coord
        obtain ⟨a1, a2, _, _, a5⟩ := armKeyCode_fields (prelude ({ s with waiting := none, queue := evictTaps w n s.queue } : Layout) w.coord) (.keyCode kc) kc w.coord false
        refine ⟨_, ht, ?_, ?_, ?_, ?_⟩
        · exact a2.trans p2
        · exact a1.trans p1
        · have hq' := a1.trans p1
          show List.filter _ (tapPost _).queue = _
          rw [show ∀ x : Layout, (tapPost x).queue = x.queue from fun _ => rfl, hq']
          exact evictTaps_others_kept w _ _
        · exact a5.trans (by rw [p5])
      · subst he; cases hp
    · intro l hp
      rcases hrest with ⟨a, ha, ht⟩ | ⟨he, _⟩
      · rw [hp] at ha
        injection ha with ha
        subst ha
        rw [FUEL_two, doAction_layer] at ht
        obtain ⟨p1, p2, _, _, p5, _⟩ := prelude_fields ({ s with waiting := none, queue := evictTaps w n s.queue } : Layout) w.coord
        obtain ⟨a1, a2, _, _, a5⟩ := armLayer_fields (prelude ({ s with waiting := none, queue := evictTaps w n s.queue } : Layout) w.coord) l w.coord false
        refine ⟨_, ht, ?_, ?_, ?_, ?_⟩
        · exact a2.trans p2
        · exact a1.trans p1
        · have hq' := a1.trans p1
          show List.filter _ (tapPost _).queue = _
          rw [show ∀ x : Layout, (tapPost x).queue = x.queue from fun _ => rfl, hq']
          exact evictTaps_others_kept w _ _
        · exact a5.trans (by rw [p5])
      · subst he; cases hp

/-- **interrupt_after_action_partial**: for ANY listed action (a tap-hold, a nested list, …) the state
the single `do_action` starts from already has the interrupting key's events queued, in order, and
no waiting state; what that action itself then does to the queue (a one-shot overflow re-enters
`event`) is not characterised here — covered by the correspondence and the trace oracle. -/
theorem interrupt_after_action_partial (s : Layout) (w : Waiting) (n : Nat) :
    ({ s with waiting := none, queue := evictTaps w n s.queue } : Layout).queue.filter (otherCoord w) =
      s.queue.filter (otherCoord w) :=
  evictTaps_others_kept w _ _

/-! ## 7. The eager form -/

/-- **tapdance_eager_each** (full).  While an eager state is live (countdown not over, list not
exhausted), a press of the dance key performs `actions[num_taps]` — its own action, at once, one
`do_action` — and then the count goes up by one and the countdown restarts at the configured
timeout.  The index cannot go out of bounds. -/
theorem tapdance_eager_each (f : Nat) (s : Layout) (t : TDE) (c : Coord) (since : Nat) (order : List Nat)
    (ht : s.tapDanceEager = some t) (hc : c = s.lptCoord) (hlive : t.isExpired = false)
    (ho : s.transOrder = .ok order) :
    ∃ a, t.actions[t.numTaps]? = some a ∧
      dequeue (f + 1) s ⟨.press c, since⟩ =
        (match doAction f s a c since false (order.drop 1) with
        | .error e => .error e
        | .ok (s1, cu) => .ok ({ s1 with tapDanceEager := s1.tapDanceEager.map TDE.incrTaps }, cu)) ∧
      t.incrTaps.numTaps = t.numTaps + 1 ∧ t.incrTaps.timeout = t.origTimeout :=
  let ⟨a, h1, h2⟩ := eager_tap f s t c since order ht hc hlive ho
  ⟨a, h1, h2, rfl, rfl⟩

/-- for a listed plain key the whole effect of an eager tap: the key is pressed, the eager state
counts one more tap with a fresh countdown, nothing else moves -/
theorem tapdance_eager_each_key (f : Nat) (s : Layout) (t : TDE) (c : Coord) (since : Nat) (order : List Nat)
    (ht : s.tapDanceEager = some t) (hc : c = s.lptCoord) (hlive : t.isExpired = false)
    (ho : s.transOrder = .ok order) (kc : KeyCode) (hk : t.actions[t.numTaps]? = some (.keyCode kc)) :
    ∃ s', dequeue (f + 3) s ⟨.press c, since⟩ = .ok (s', .noEvent) ∧
      s'.tapDanceEager = some t.incrTaps ∧ s'.queue = s.queue ∧ s'.waiting = s.waiting ∧
      s'.states = pushCap STATES_CAP (s.states.filter (fun st => !st.clearOnNextAction)) (.normalKey kc c 0) := by
  obtain ⟨a, ha, hd⟩ := eager_tap (f + 2) s t c since order ht hc hlive ho
  rw [hk] at ha
  injection ha with ha
  subst ha
  rw [doAction_keyCode] at hd
  obtain ⟨p1, p2, _, p4, p5, _⟩ := prelude_fields s c
  obtain ⟨a1, a2, _, a4, a5⟩ := armKeyCode_fields (prelude s c) (.keyCode kc) kc c false
  refine ⟨_, hd, ?_, a1.trans p1, a2.trans p2, a5.trans (by rw [p5])⟩
  show Option.map TDE.incrTaps (armKeyCode (prelude s c) (.keyCode kc) kc c false).tapDanceEager = _
  rw [a4, p4, ht]
  rfl

/-- **the eager dance ends** (full): by another real key's press (the state is marked expired before
that key's own action runs, and forgotten on the next tick), by the timeout — exactly `T` ticks after
the last tap, not before —, or by exhaustion of the list (forgotten on the next tick).  In `tick` the
countdown advances exactly once per tick, before anything is dequeued. -/
theorem tapdance_eager_ends :
    (∀ (f : Nat) (s : Layout) (t : TDE) (c : Coord) (since : Nat) (order : List Nat),
      s.tapDanceEager = some t → (c ≠ s.lptCoord ∨ t.isExpired = true) → c.1 = 0 → s.transOrder = .ok order →
      dequeue (f + 1) s ⟨.press c, since⟩ =
        doAction f { s with tapDanceEager := some t.setExpired } .trans c since false order ∧
      t.setExpired.isExpired = true ∧ tdeTick t.setExpired = none) ∧
    (∀ (T : Nat) (t : TDE), t.timeout = T → 1 ≤ T → t.numTaps < t.actions.length →
      (∀ n, n < T → tdeTicks n (some t) = some { t with timeout := T - n }) ∧
      (∀ n, T ≤ n → tdeTicks n (some t) = none)) ∧
    (∀ t : TDE, t.actions.length ≤ t.numTaps → tdeTick t = none) ∧
    (∀ s : Layout, (tickPre s).tapDanceEager = s.tapDanceEager.bind tdeTick) :=
  ⟨eager_other_key, eager_expiry_exact, eager_exhausted, tickPre_tde⟩

/-- **the first press of an eager dance** (full): a fresh state (one tap counted, countdown `T`)
unless one for the same coordinate is still there, and the first listed action is performed at once. -/
theorem tapdance_eager_first (f : Nat) (s : Layout) (acts : List Action) (T : Nat) (c : Coord) (d : Nat)
    (os : Bool) (ls : List Nat) :
    dispatch (f + 1) s (.tapDance acts T true) c d os ls =
      (match acts[0]? with
      | none => .error (.indexOOB "td.actions[0]")
      | some a0 =>
        match doAction f (armEager s c acts T) a0 c d false ls with
        | .error e => .error e
        | .ok r => .ok (r.1, .noEvent)) ∧
    (s.tapDanceEager = none → (armEager s c acts T).tapDanceEager =
      some { coord := c, actions := acts, timeout := T, origTimeout := T, numTaps := 1 }) :=
  ⟨eager_first_press f s acts T c d os ls, fun h => armEager_fresh s c acts T (Or.inl h)⟩

/-- **the index panic of the eager form** (full): `td.actions[0]` is out of bounds exactly for the
empty list (rejected by `parse_tap_dance` since the `fix:` commit: unreachable from an accepted
configuration, `accepted_tap_dance_never_panics`); the other index, `tde.actions[num_taps]`, never is
(`tapdance_eager_each`). -/
theorem eager_crash_iff_empty_list (f : Nat) (s : Layout) (acts : List Action) (T : Nat) (c : Coord) (d : Nat)
    (os : Bool) (ls : List Nat) :
    dispatch (f + 1) s (.tapDance acts T true) c d os ls = .error (.indexOOB "td.actions[0]") ↔
      (acts = [] ∨ ∃ a0, acts[0]? = some a0 ∧
        doAction f (armEager s c acts T) a0 c d false ls = .error (.indexOOB "td.actions[0]")) := by
  rw [eager_first_press]
  cases acts with
  | nil => simp
  | cons a0 rest =>
    simp only [List.getElem?_cons_zero, reduceCtorEq, false_or, Option.some.injEq, exists_eq_left']
    cases h : doAction f (armEager s c (a0 :: rest) T) a0 c d false ls with
    | error e => simp
    | ok r => simp

/-- **accepted_tap_dance_never_panics** (full).  `parse_tap_dance` accepts a tap-dance only with a
non-zero timeout and — since the `fix:` commit — a non-empty list (`Accepted`; checked by the drivers
on every configuration the real parser produced).  For such a tap-dance neither index can go out of
bounds: the lazy arm of `tick_wt` always returns, and the eager arm's `td.actions[0]` exists (the
other eager index is guarded by the expiry test: `tapdance_eager_each`). -/
theorem accepted_tap_dance_never_panics {acts : List Action} {T : Nat} (h : Accepted acts T) :
    (∀ (w : Waiting) (k : Nat) (q : List Queued), ∃ r, tickWtTd w acts T k q = .ok r) ∧
    (∀ (f : Nat) (s : Layout) (c : Coord) (d : Nat) (os : Bool) (ls : List Nat),
      ∃ a0, acts[0]? = some a0 ∧
        dispatch (f + 1) s (.tapDance acts T true) c d os ls =
          match doAction f (armEager s c acts T) a0 c d false ls with
          | .error e => .error e
          | .ok r => .ok (r.1, .noEvent)) := by
  refine ⟨tickWtTd_total h, fun f s c d os ls => ?_⟩
  cases hacts : acts with
  | nil => exact absurd hacts h.nonempty
  | cons a0 rest => exact ⟨a0, rfl, by rw [eager_first_press]; rfl⟩

/-! ## Non-vacuity -/


/-- the waiting state `do_action` creates for `(tap-dance 3 (q w x))` on key `a` -/
def freshW : Waiting :=
  { coord := (0, 30), timeout := 3, delay := 0, ticks := 0, hold := .noOp, tap := .noOp, timeoutAction := .noOp,
    config := .tapDance [.keyCode 16, .keyCode 17, .keyCode 45] 3 1, layerStack := [0], prevQueueLen := 255 }

def relA : Queued := ⟨.release (0, 30), 0⟩
def prA : Queued := ⟨.press (0, 30), 0⟩
def prB : Queued := ⟨.press (0, 48), 0⟩

/-- the fresh state satisfies the invariant with nothing read yet -/
example : Inv freshW [.keyCode 16, .keyCode 17, .keyCode 45] 3 1 [] :=
  ⟨rfl, rfl, rfl, Or.inr rfl⟩

/-- one more tap, seen on the second tick (release first, then the press) -/
example : TapBatches freshW 3 1 2 [[relA], [prA]] :=
  TapBatches.cons (quiets := [[relA]]) (b := [prA]) (rest := []) (m := 0) (g := 0)
    (by intro x hx; simp at hx; subst hx; intro s hs; simp at hs; subst hs; rfl)
    ⟨by decide, by decide⟩ (by decide) TapBatches.nil

/-- … and `tapdance_nth` then says: decided on tick 2 + 3 on the second action, `w` (17) -/
example : ∃ w', tdDrive freshW [] ([[relA], [prA]] ++ [[relA], [], []]) =
    .ok (5, w', [relA], some .tap) ∧ w'.tap = .keyCode 17 := ⟨_, rfl, rfl⟩

/-- the hypotheses of `taps_beyond_list_stay_queued` on the burst witness: three taps queued, list of 2 -/
example : ¬ (([relA, prA, relA, prA, relA] : List Queued).length % 256 == burstW.prevQueueLen && burstW.timeout > 0) = true ∧
    burstW.timeout ≠ 0 ∧ 2 ≤ seenTaps burstW [relA, prA, relA, prA, relA] := by decide
example : Alt false (keyEvs freshW [relA, prA, relA]) := ⟨rfl, rfl, rfl, trivial⟩
example : interrupted freshW [relA, prB] = true := by decide
example : decidesOn (cd lateW) 2 1 [relA, prA, relA] = some 1 := by decide
example : Accepted [.keyCode 16, .keyCode 17] 3 := ⟨by simp, by decide⟩
/-- an uncounted press is queued: the hypothesis of `late_tap_is_dropped` / `no_press_is_lost` -/
example : 1 - 1 < nPr lateW [relA, prA, relA] := by decide
/-- three taps queued behind the opening press, two of them counted: the key's events left are those
after the first two release/press pairs -/
example : keyEvs freshW (evictTaps freshW 3 [relA, prA, relA, prA, relA, prA]) = [false, true] := by decide

end KVerif.C17
