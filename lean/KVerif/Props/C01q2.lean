/-
C01 — no stuck output, continued: quiescence on the fragments `Props/C01.lean` left open.

  * the tap-dance fragment of C17 (`quiesce_tapdance`, `quiesce_tapdance_fresh`): plain keys, output
    chords, layer-while-held, transparent / unmapped positions and tap-dance keys, lazy and eager, any
    number of them, whose listed actions are a key, an output chord or layer-while-held.

Same shape as the theorems of `Props/C01.lean`: after EVERY bounded-queue history that leaves no key
physically down, an explicit number of quiet ticks runs without a crash and leaves the layout at rest
(`Quiesce.LayoutAtRest`), hence (`at_rest_released_and_idle`) kanata releases everything at the OS
and reports idle.  New here: the history must be physically possible (`Quiesce.physical`: a key is
pressed only while up, released only while down) — without it the statement is false
(`tapdance_double_press_strands_key`).  Helper lemmas: Lemmas/QuiesceTapDance.lean.

  * the chords-v1 fragment of C09 (`quiesce_chords_v1`, `quiesce_chords_v1_fresh`): plain keys and
    `defchords` keys, any number of groups, whose chord actions are a key, an output chord or
    layer-while-held: chords that fire (early, on a stop event, at the timeout, moved to a released
    key), their repetition on every participating key, undefined key sets decomposed into the action
    queue.  Helper lemmas: Lemmas/QuiesceChords.lean.

  * two (or more) tap-hold keys (`quiesce_two_tapholds`, `taphold_keys_never_use_extra_waiting`): a
    second tap-hold key pressed while the first is undecided does NOT go through `extra_waiting` — its
    press stays in the queue until the first key is decided (`tick`: nothing is dequeued while
    `waiting` is set) — so `quiesce_taphold` of `Props/C01.lean` covers it; stated here with the fact
    that `extra_waiting` is empty after every prefix of every history.
Not proved: the paths that do fill `extra_waiting` — a tap-hold performed while another one is
pending: from the action queue (a decomposed chord whose single-key chords are tap-holds, a `switch`
with several matching tap-hold cases), on the queue-overflow path of `Layout::event`, or a `multi` of
two tap-holds (which `parse_multi` rejects) — and mixtures of the fragments.
-/
import KVerif.Props.C01
import KVerif.Lemmas.QuiesceTapDance
import KVerif.Lemmas.QuiesceChords
namespace KVerif.C01
open KVerif.L KVerif.K

/-! ### Quiescence on the tap-dance fragment (C17) -/

/-- **quiesce_tapdance** (full on the fragment).
Configurations of the fragment `CfgD`: plain keys, output chords, layer-while-held, transparent and
unmapped positions, and tap-dance keys — lazy (`tap-dance`) and eager (`tap-dance-eager`), any number
of them, any non-empty list of actions each of which is a key, an output chord or layer-while-held,
every timeout `≤ T` (`Quiesce.maxDanceTimeout cfg` is such a `T`); rapid-event delay `d`.  From any
state the layout can reach with no key physically down (`Quiesce.DInv T d s0 []`, `Quiesce.SafeD s0`:
both hold of the fresh layout and are kept by every physically possible history), after EVERY
physically possible history of presses, releases and ticks — dances of any number of taps, finished
by the timeout, by another key, by exhausting the list, re-opened by a late tap, lazy and eager ones
interleaved — that leaves no key physically down (an event never arrives while 32 are pending),
`N ≥ (T + d + 3) · (events still queued) + 2 T + d + 3` ticks without input run without a crash and
leave the layout at rest: no key or layer state, nothing queued, no dance undecided, no eager state,
no input pause; for this and every larger `N`.  By `at_rest_released_and_idle` kanata then releases
everything at the OS and reports idle (`tapdance_released_and_idle`).
The bound follows the code: while a lazy dance is undecided nothing is taken from the queue; it is
decided at most `T + 1` ticks later (one tick to read the queue again, which may restart the
countdown, then the countdown) and pauses input for `d` ticks; an eager state is forgotten `T + 1`
ticks after its last tap; each queued press may open a further dance.
Hypotheses: `h0` the invariant (every state, and the undecided key, belongs to a key that is
logically down — pressed, its release not yet taken from the queue; the queue physically possible;
no more taps counted than presses of the key are queued; countdowns `≤ T`, pause `≤ d`); `hS`/`hP`
exclude the index panics of `resolve_coord` (layer references in range, defsrc row of keys, presses
inside the layer tables); `hph` the history is physically possible — needed: the eviction that ends a
dance removes as many releases as presses of the key, so a key pressed twice without a release in
between loses the release that would have ended the chosen action
(`tapdance_double_press_strands_key`). -/
theorem quiesce_tapdance (s0 : Layout) (T d : Nat) (h0 : Quiesce.DInv T d s0 []) (hS : Quiesce.SafeD s0)
    (ins : List C06.In) (hP : Quiesce.PressesOK s0.cfg ins) (hph : Quiesce.physical [] ins = true) (s1 : Layout)
    (hrun : C06.run s0 [] ins = some (.ok (s1, [])))
    (N : Nat) (hN : (T + d + 3) * s1.queue.length + 2 * T + d + 3 ≤ N) :
    ∃ s2, C06.run s1 [] (List.replicate N .tick) = some (.ok (s2, [])) ∧ Quiesce.LayoutAtRest s2 := by
  rcases Quiesce.run_D ins s0 [] h0 hS hP hph with hn | ⟨s', hr, i1, S1⟩
  · rw [hn] at hrun; cases hrun
  · rw [hr] at hrun
    injection hrun with hrun; injection hrun with hrun; injection hrun with h1 h2
    subst h1
    rw [h2] at i1
    obtain ⟨s2, hq, i2, _, p2⟩ := Quiesce.quiet_D N s' [] i1 S1
    have hp := Quiesce.dPot_le i1
    exact ⟨s2, hq, i2.atRest (by omega)⟩

/-- **quiesce_tapdance_fresh**: the same from start-up, every hypothesis a decidable condition on the
configuration or on the list of inputs, the bound a function of the configuration alone: after every
physically possible history from the freshly created layout in which every pressed key is released
again and no event arrives while 32 are pending, `N ≥ 32 (T + d + 3) + 2 T + d + 3` further ticks,
`T` the largest tap-dance timeout, leave the layout at rest. -/
theorem quiesce_tapdance_fresh (cfg : LCfg) (hc : Quiesce.CfgD cfg) (hs : Quiesce.CfgSafeD cfg) (tv2 dfl qth : Bool)
    (d : Nat) (ins : List C06.In) (hP : Quiesce.PressesOK cfg ins) (hph : Quiesce.physical [] ins = true)
    (hbal : Quiesce.downs [] ins = [])
    (hroom : C06.run { cfg := cfg, transV2 := tv2, delegateToFirstLayer := dfl, quickTapHoldTimeout := qth,
                       oneshot := { pauseInputProcessingDelay := d } } [] ins ≠ none)
    (N : Nat) (hN : (Quiesce.maxDanceTimeout cfg + d + 3) * QUEUE_SIZE + 2 * Quiesce.maxDanceTimeout cfg + d + 3 ≤ N) :
    ∃ s1 s2, C06.run { cfg := cfg, transV2 := tv2, delegateToFirstLayer := dfl, quickTapHoldTimeout := qth,
                       oneshot := { pauseInputProcessingDelay := d } } [] ins = some (.ok (s1, [])) ∧
      C06.run s1 [] (List.replicate N .tick) = some (.ok (s2, [])) ∧ Quiesce.LayoutAtRest s2 := by
  have h0 := Quiesce.init_dinv cfg hc _ (Quiesce.dBound_max cfg) tv2 dfl qth d
  have hS := Quiesce.init_safe_D cfg hs tv2 dfl qth d
  rcases Quiesce.run_D ins _ [] h0 hS hP hph with hn | ⟨s1, hr, i1, _⟩
  · exact absurd hn hroom
  · rw [hbal] at hr i1
    obtain ⟨s2, r2, a2⟩ := quiesce_tapdance _ _ d h0 hS ins hP hph s1 hr N (by
      have := i1.qlen
      have h2 : (Quiesce.maxDanceTimeout cfg + d + 3) * s1.queue.length ≤
          (Quiesce.maxDanceTimeout cfg + d + 3) * QUEUE_SIZE := Nat.mul_le_mul_left _ this
      omega)
    exact ⟨s1, s2, hr, r2, a2⟩

/-- the bridge made explicit (any configuration; a corollary of `at_rest_released_and_idle`): whatever
kanata state holds the layout the theorems of this file end in — its other components at rest — wants
no key down, stays silent, reports idle, and has no dance, eager state or event pending -/
theorem tapdance_released_and_idle (k : KState) (h : Quiesce.LayoutAtRest k.layout)
    (h10 : k.scroll = none) (h11 : k.hscroll = none) (h12 : k.moveV = none) (h13 : k.moveH = none)
    (h14 : k.macroOnPressCancelDuration = 0) (h15 : k.capsWord = none) (h16 : k.vkeysPendingRelease = [])
    (h17 : k.waitingForIdle = []) (h18 : k.liveReloadRequested = false) (h20 : k.seq.st.active = false)
    (h21 : k.dyn.rep = none) :
    k.layout.keycodes = [] ∧ C07.QuietLayout k.layout ∧ isIdle k = true ∧ k.layout.tapDanceEager = none ∧
      k.layout.waiting = none ∧ k.layout.queue = [] :=
  let ⟨a, b, c⟩ := at_rest_released_and_idle k h h10 h11 h12 h13 h14 h15 h16 h17 h18 h20 h21
  ⟨a, b, c, h.tde, h.waiting, h.queue⟩

/-- a kanata state around the layout at rest these theorems end in (here: of the configuration `tdCfg`
below) meets the hypotheses -/
example : Quiesce.LayoutAtRest ({ cfg := { layers := [[]], srcKeys := [] } } : Layout) ∧
    (({ layout := { cfg := { layers := [[]], srcKeys := [] } }, customs := [], keyOutputs := [[]],
        mods := { codes := [42, 54, 56, 100, 29, 97, 125, 126], lsft := 42, rsft := 54 } } : KState).scroll = none) :=
  ⟨⟨rfl, rfl, rfl, rfl, rfl, rfl, rfl, rfl, rfl, rfl⟩, rfl⟩

/-- non-vacuity: a lazy tap-dance of three actions (a key, a modifier, a layer; 200 ticks), an eager
one of two (a key, an output chord; 150 ticks), a plain key that the upper layer remaps and an output
chord -/
def tdCfg : LCfg :=
  { layers := [
      [((0, 30), .tapDance [.keyCode 30, .keyCode 42, .layer 1] 200 false),
       ((0, 31), .tapDance [.keyCode 31, .multipleKeyCodes [29, 31]] 150 true),
       ((0, 32), .keyCode 32), ((0, 18), .multipleKeyCodes [29, 18])],
      [((0, 32), .keyCode 45)]],
    srcKeys := [(30, .keyCode 30), (31, .keyCode 31), (32, .keyCode 32), (18, .keyCode 18)] }

/-- the lazy key tapped twice and interrupted by a plain key, then the eager key tapped twice, the lazy
key pressed again, a chord key, and everything released in a burst (events are still queued at the end) -/
def tdHist : List C06.In :=
  [.ev (.press (0, 30)), .tick, .ev (.release (0, 30)), .ev (.press (0, 30)), .tick, .ev (.release (0, 30)),
   .ev (.press (0, 32)), .tick, .tick, .ev (.press (0, 31)), .ev (.release (0, 31)), .ev (.press (0, 31)),
   .ev (.release (0, 32)), .ev (.press (0, 30)), .ev (.press (0, 18)), .ev (.release (0, 31)),
   .ev (.release (0, 18)), .ev (.release (0, 30))]

theorem tdCfg_frag : Quiesce.CfgD tdCfg := by
  refine ⟨?_, ?_⟩
  · intro tbl ht e he
    simp only [tdCfg, List.mem_cons, List.mem_nil_iff, or_false] at ht
    rcases ht with rfl | rfl
    · simp only [List.mem_cons, List.mem_nil_iff, or_false] at he
      rcases he with rfl | rfl | rfl | rfl <;> simp [Quiesce.FragD, C06.Simple]
    · simp only [List.mem_cons, List.mem_nil_iff, or_false] at he
      subst he; simp [Quiesce.FragD]
  · intro e he
    simp only [tdCfg, List.mem_cons, List.mem_nil_iff, or_false] at he
    rcases he with rfl | rfl | rfl | rfl <;> simp [Quiesce.FragD]

theorem tdCfg_safe : Quiesce.CfgSafeD tdCfg := by
  refine ⟨rfl, by decide, ?_, ?_⟩
  · intro tbl ht e he
    simp only [tdCfg, List.mem_cons, List.mem_nil_iff, or_false] at ht
    rcases ht with rfl | rfl
    · simp only [List.mem_cons, List.mem_nil_iff, or_false] at he
      rcases he with rfl | rfl | rfl | rfl <;> simp [Quiesce.ActSafeD, Quiesce.SimpleSafe, tdCfg]
    · simp only [List.mem_cons, List.mem_nil_iff, or_false] at he
      subst he; simp [Quiesce.ActSafeD]
  · intro e he
    simp only [tdCfg, List.mem_cons, List.mem_nil_iff, or_false] at he
    rcases he with rfl | rfl | rfl | rfl <;> exact ⟨by simp [Quiesce.ActSafeD], fun h => by cases h⟩

/-- the hypotheses of `quiesce_tapdance_fresh` hold of this configuration and history (fourteen events:
`run_defined_D`), with rapid-event delay 5: 32 · (200 + 5 + 3) + 400 + 5 + 3 = 7064 quiet ticks leave
the layout at rest -/
example : ∃ s1 s2, C06.run { cfg := tdCfg, oneshot := { pauseInputProcessingDelay := 5 } } [] tdHist
      = some (.ok (s1, [])) ∧
    C06.run s1 [] (List.replicate 7064 .tick) = some (.ok (s2, [])) ∧ Quiesce.LayoutAtRest s2 := by
  have hP : Quiesce.PressesOK tdCfg tdHist := by
    intro c hc
    simp only [tdHist, List.mem_cons, List.mem_nil_iff, or_false, C06.In.ev.injEq, Ev.press.injEq,
      reduceCtorEq, false_or, or_false] at hc
    rcases hc with rfl | rfl | rfl | rfl | rfl | rfl | rfl <;> exact ⟨by decide, by decide⟩
  have hph : Quiesce.physical [] tdHist = true := by decide
  have hbal : Quiesce.downs [] tdHist = [] := by decide
  have hT : Quiesce.maxDanceTimeout tdCfg = 200 := by
    simp [Quiesce.maxDanceTimeout, Quiesce.listMax, tdCfg, Quiesce.tdT]
  have hroom : C06.run { cfg := tdCfg, oneshot := { pauseInputProcessingDelay := 5 } } [] tdHist ≠ none :=
    Quiesce.run_defined_D tdHist _ []
      (Quiesce.init_dinv tdCfg tdCfg_frag _ (Quiesce.dBound_max _) true false false 5)
      (Quiesce.init_safe_D tdCfg tdCfg_safe true false false 5) hP hph (by decide)
  exact quiesce_tapdance_fresh tdCfg tdCfg_frag tdCfg_safe true false false 5 tdHist hP hph hbal hroom 7064
    (by rw [hT]; decide)

/-- **tapdance_double_press_strands_key** (why `hph` is needed; any state of this shape).  A lazy
tap-dance key is undecided and — physically impossible — is pressed again without having been
released, then released once: `downs` counts no key as down, but the queue `[press, release]` is not
possible for a key that is logically down.  The tick that counts the second tap (the list's second
action a plain key `kc`) evicts one press and one release of the key — the whole queue — and presses
`kc` at the key's coordinate: the layout is quiet, nothing is left that would release `kc`, and it is
held for ever. -/
theorem tapdance_double_press_strands_key (s : Layout) (w : Waiting) (acts : List Action) (T k : Nat)
    (kc : KeyCode) (n1 n2 : Nat) (hw : s.waiting = some w) (hc : w.config = .tapDance acts T k)
    (hq : s.queue = [⟨.press w.coord, n1⟩, ⟨.release w.coord, n2⟩])
    (hd : C17.decidesOn (C17.cd w) acts.length k s.queue = some 2) (hp : tdPick acts 2 = some (.keyCode kc))
    (hst : s.states = []) (hex : s.extraWaiting = []) (hk : s.oneshot.keys = [])
    (hdl : s.oneshot.pauseInputProcessingDelay = 0) (hsq : s.activeSequences = []) (hte : s.tapDanceEager = none)
    (haq : s.actionQueue = []) :
    ∃ s', tickMain s = .ok (s', .noEvent) ∧ s'.queue = [] ∧ s'.waiting = none ∧
      s'.states = [.normalKey kc w.coord 0] ∧
      ∀ N, ∃ s2, C06.run s' [] (List.replicate N .tick) = some (.ok (s2, [])) ∧ s2.keycodes = [kc] := by
  obtain ⟨s', e, st, q⟩ := Quiesce.double_press_tick s w acts T k kc n1 n2 hw hc hq hd hp hst hex hk hdl hsq hte haq
  refine ⟨s', e, q.queue, q.waiting, st, fun N => ?_⟩
  obtain ⟨s2, r, st2⟩ := Quiesce.quiet_forever N s' q
  exact ⟨s2, r, by unfold Layout.keycodes; rw [st2, st]; rfl⟩

/-- `(tap-dance 5 (a b))` on key `a` -/
def dblCfg : LCfg :=
  { layers := [[((0, 30), .tapDance [.keyCode 30, .keyCode 31] 5 false)]], srcKeys := [(30, .keyCode 30)] }

/-- the waiting state its press creates (taken from the queue one tick after it arrived) -/
def dblW : Waiting := Quiesce.freshWaiting (0, 30) 1 5 (.tapDance [.keyCode 30, .keyCode 31] 5 1) []

/-- ... then a second press and one release arrive -/
def dblState : Layout :=
  { cfg := dblCfg, waiting := some dblW, queue := [⟨.press (0, 30), 0⟩, ⟨.release (0, 30), 0⟩] }

/-- the history press, tick, press, release leaves no key down by `downs`, but is not physically possible -/
example : Quiesce.downs [] [.ev (.press (0, 30)), .tick, .ev (.press (0, 30)), .ev (.release (0, 30))] = [] ∧
    Quiesce.physical [] [.ev (.press (0, 30)), .tick, .ev (.press (0, 30)), .ev (.release (0, 30))] = false := by
  decide

/-- its first tick creates `dblW` -/
example : ∃ s, tick ({ cfg := dblCfg, queue := [⟨.press (0, 30), 0⟩] } : Layout) = .ok (s, .noEvent) ∧
    s.waiting = some dblW ∧ s.queue = [] ∧ s.states = [] := ⟨_, rfl, rfl, rfl, rfl⟩

/-- `dblState` meets the hypotheses of `tapdance_double_press_strands_key`: key `b` (31) stays down -/
example : ∃ s', tickMain dblState = .ok (s', .noEvent) ∧ s'.queue = [] ∧ s'.waiting = none ∧
    s'.states = [.normalKey 31 (0, 30) 0] ∧
    ∀ N, ∃ s2, C06.run s' [] (List.replicate N .tick) = some (.ok (s2, [])) ∧ s2.keycodes = [31] :=
  tapdance_double_press_strands_key dblState dblW _ 5 1 31 0 0 rfl rfl rfl (by decide) rfl rfl rfl rfl rfl rfl rfl rfl

/-! ### Quiescence on the chords-v1 fragment (C09) -/

/-- **quiesce_chords_v1** (full on the fragment).
Configurations of the fragment `CfgC`: plain keys, output chords, layer-while-held, transparent and
unmapped positions, and `defchords` keys (`Action::Chords`) — any number of groups, any key masks and
chord tables, every timeout `≤ T` (`Quiesce.maxChordTimeout cfg` is such a `T`) — whose chord actions
are a key, an output chord or layer-while-held; rapid-event delay `d`.  From any state the layout can
reach with no key physically down (`Quiesce.CInv T d s0 []`, `Quiesce.SafeC s0`: both hold of the
fresh layout and are kept by every history), after EVERY history of presses, releases and ticks —
chords that fire early, on a stop event or at the timeout, chords moved to the coordinate of a released
key, held while any participant is held, key sets for which no chord is defined and which are
decomposed into the action queue (more runs than its 8 slots included), participants released in any
order — that leaves no key physically down (an event never arrives while 32 are pending),
`N ≥ (T + d + 10) · (events still queued) + T + d + 9` ticks without input run without a crash and
leave the layout at rest: no key or layer state, nothing queued, no chord pending, no decomposed action
outstanding, no input pause; for this and every larger `N`.  By `at_rest_released_and_idle` kanata
then releases everything at the OS and reports idle.
The bound follows the code: while a chord is pending nothing is taken from the queue; it is decided no
later than when its countdown (`≤ T`) has run out; a chord that fires pauses input for `d` ticks; a
decomposition queues at most 8 actions, performed one per tick while nothing else advances; each queued
press may start a further chord.
Hypotheses: `h0` the invariant (every state, the pending chord's first key and every queued
decomposed action belong to a key that is down or whose release is queued — the chord `retain` removes
presses only, never a release; countdown `≤ T`, pause `≤ d`, at most 8 queued actions); `hS`/`hP`
exclude the index panics of `resolve_coord` (layer references in range, defsrc row of keys, presses
inside the layer tables).  No condition on the order of presses and releases is needed here. -/
theorem quiesce_chords_v1 (s0 : Layout) (T d : Nat) (h0 : Quiesce.CInv T d s0 []) (hS : Quiesce.SafeC s0)
    (ins : List C06.In) (hP : Quiesce.PressesOK s0.cfg ins) (s1 : Layout)
    (hrun : C06.run s0 [] ins = some (.ok (s1, [])))
    (N : Nat) (hN : (T + d + 10) * s1.queue.length + T + d + 9 ≤ N) :
    ∃ s2, C06.run s1 [] (List.replicate N .tick) = some (.ok (s2, [])) ∧ Quiesce.LayoutAtRest s2 := by
  rcases Quiesce.run_C ins s0 [] h0 hS hP with hn | ⟨s', hr, i1, S1⟩
  · rw [hn] at hrun; cases hrun
  · rw [hr] at hrun
    injection hrun with hrun; injection hrun with hrun; injection hrun with h1 h2
    subst h1
    rw [h2] at i1
    obtain ⟨s2, hq, i2, _, p2⟩ := Quiesce.quiet_C N s' [] i1 S1
    have hp := Quiesce.cPot_le i1
    exact ⟨s2, hq, i2.atRest (by omega)⟩

/-- **quiesce_chords_v1_fresh**: the same from start-up, every hypothesis a decidable condition on the
configuration or on the list of inputs, the bound a function of the configuration alone: after every
history from the freshly created layout in which every pressed key is released again and no event
arrives while 32 are pending, `N ≥ 32 (T + d + 10) + T + d + 9` further ticks, `T` the largest chord
timeout, leave the layout at rest. -/
theorem quiesce_chords_v1_fresh (cfg : LCfg) (hc : Quiesce.CfgC cfg) (hs : Quiesce.CfgSafeC cfg) (tv2 dfl qth : Bool)
    (d : Nat) (ins : List C06.In) (hP : Quiesce.PressesOK cfg ins) (hbal : Quiesce.downs [] ins = [])
    (hroom : C06.run { cfg := cfg, transV2 := tv2, delegateToFirstLayer := dfl, quickTapHoldTimeout := qth,
                       oneshot := { pauseInputProcessingDelay := d } } [] ins ≠ none)
    (N : Nat) (hN : (Quiesce.maxChordTimeout cfg + d + 10) * QUEUE_SIZE + Quiesce.maxChordTimeout cfg + d + 9 ≤ N) :
    ∃ s1 s2, C06.run { cfg := cfg, transV2 := tv2, delegateToFirstLayer := dfl, quickTapHoldTimeout := qth,
                       oneshot := { pauseInputProcessingDelay := d } } [] ins = some (.ok (s1, [])) ∧
      C06.run s1 [] (List.replicate N .tick) = some (.ok (s2, [])) ∧ Quiesce.LayoutAtRest s2 := by
  have h0 := Quiesce.init_cinv cfg hc _ (Quiesce.cBound_max cfg) tv2 dfl qth d
  have hS := Quiesce.init_safe_C cfg hs tv2 dfl qth d
  rcases Quiesce.run_C ins _ [] h0 hS hP with hn | ⟨s1, hr, i1, _⟩
  · exact absurd hn hroom
  · rw [hbal] at hr i1
    obtain ⟨s2, r2, a2⟩ := quiesce_chords_v1 _ _ d h0 hS ins hP s1 hr N (by
      have := i1.qlen
      have h2 : (Quiesce.maxChordTimeout cfg + d + 10) * s1.queue.length ≤
          (Quiesce.maxChordTimeout cfg + d + 10) * QUEUE_SIZE := Nat.mul_le_mul_left _ this
      omega)
    exact ⟨s1, s2, hr, r2, a2⟩

/-- the chord group of the example: keys `a b c` (masks 1 2 4); chords `(a) (b)` single keys, `(a b)` a
key, `(a b c)` an output chord, `(c)` a layer; 50 ticks -/
def chAct : Action :=
  .chords [((0, 30), 1), ((0, 48), 2), ((0, 46), 4)]
    [(1, .keyCode 30), (2, .keyCode 48), (3, .keyCode 45), (7, .multipleKeyCodes [29, 44]), (4, .layer 1)] 50

/-- non-vacuity: three keys of one chord group, a plain key that the upper layer remaps, an output chord -/
def chCfg : LCfg :=
  { layers := [
      [((0, 30), chAct), ((0, 48), chAct), ((0, 46), chAct), ((0, 32), .keyCode 32),
       ((0, 18), .multipleKeyCodes [29, 18])],
      [((0, 32), .keyCode 45)]],
    srcKeys := [(30, .keyCode 30), (48, .keyCode 48), (46, .keyCode 46), (32, .keyCode 32), (18, .keyCode 18)] }

/-- the chord `(a b)` pressed over two ticks and released; `c` interrupted by a plain key; then `b c` —
no chord is defined for that set: decomposition — and everything released in a burst -/
def chHist : List C06.In :=
  [.ev (.press (0, 30)), .tick, .ev (.press (0, 48)), .tick, .ev (.release (0, 30)), .ev (.release (0, 48)), .tick,
   .ev (.press (0, 46)), .ev (.press (0, 32)), .ev (.release (0, 46)), .ev (.release (0, 32)), .tick,
   .ev (.press (0, 48)), .ev (.press (0, 46)), .ev (.press (0, 18)), .ev (.release (0, 48)), .ev (.release (0, 18)),
   .ev (.release (0, 46))]

theorem chCfg_frag : Quiesce.CfgC chCfg := by
  have hch : Quiesce.FragC chAct := by
    intro e he
    simp only [List.mem_cons, List.mem_nil_iff, or_false] at he
    rcases he with rfl | rfl | rfl | rfl | rfl <;> trivial
  refine ⟨?_, ?_⟩
  · intro tbl ht e he
    simp only [chCfg, List.mem_cons, List.mem_nil_iff, or_false] at ht
    rcases ht with rfl | rfl
    · simp only [List.mem_cons, List.mem_nil_iff, or_false] at he
      rcases he with rfl | rfl | rfl | rfl | rfl <;> first | exact hch | trivial
    · simp only [List.mem_cons, List.mem_nil_iff, or_false] at he
      subst he; trivial
  · intro e he
    simp only [chCfg, List.mem_cons, List.mem_nil_iff, or_false] at he
    rcases he with rfl | rfl | rfl | rfl | rfl <;> trivial

theorem chCfg_safe : Quiesce.CfgSafeC chCfg := by
  have hch : Quiesce.ActSafeC 2 chAct := by
    intro e he
    simp only [List.mem_cons, List.mem_nil_iff, or_false] at he
    rcases he with rfl | rfl | rfl | rfl | rfl <;> intro v hv <;> cases hv
    decide
  refine ⟨rfl, by decide, ?_, ?_⟩
  · intro tbl ht e he
    simp only [chCfg, List.mem_cons, List.mem_nil_iff, or_false] at ht
    rcases ht with rfl | rfl
    · simp only [List.mem_cons, List.mem_nil_iff, or_false] at he
      rcases he with rfl | rfl | rfl | rfl | rfl <;> first | exact hch | trivial
    · simp only [List.mem_cons, List.mem_nil_iff, or_false] at he
      subst he; trivial
  · intro e he
    simp only [chCfg, List.mem_cons, List.mem_nil_iff, or_false] at he
    rcases he with rfl | rfl | rfl | rfl | rfl <;> exact ⟨trivial, fun h => by cases h⟩

/-- the hypotheses of `quiesce_chords_v1_fresh` hold of this configuration and history (fourteen
events: `run_defined_C`), with rapid-event delay 5: 32 · (50 + 5 + 10) + 50 + 5 + 9 = 2144 quiet ticks
leave the layout at rest -/
example : ∃ s1 s2, C06.run { cfg := chCfg, oneshot := { pauseInputProcessingDelay := 5 } } [] chHist
      = some (.ok (s1, [])) ∧
    C06.run s1 [] (List.replicate 2144 .tick) = some (.ok (s2, [])) ∧ Quiesce.LayoutAtRest s2 := by
  have hP : Quiesce.PressesOK chCfg chHist := by
    intro c hc
    simp only [chHist, List.mem_cons, List.mem_nil_iff, or_false, C06.In.ev.injEq, Ev.press.injEq,
      reduceCtorEq, false_or, or_false] at hc
    rcases hc with rfl | rfl | rfl | rfl | rfl | rfl | rfl <;> exact ⟨by decide, by decide⟩
  have hbal : Quiesce.downs [] chHist = [] := by decide
  have hT : Quiesce.maxChordTimeout chCfg = 50 := by
    simp [Quiesce.maxChordTimeout, Quiesce.listMax, chCfg, chAct, Quiesce.chT]
  have hroom : C06.run { cfg := chCfg, oneshot := { pauseInputProcessingDelay := 5 } } [] chHist ≠ none :=
    Quiesce.run_defined_C chHist _ []
      (Quiesce.init_cinv chCfg chCfg_frag _ (Quiesce.cBound_max _) true false false 5)
      (Quiesce.init_safe_C chCfg chCfg_safe true false false 5) hP (by decide)
  exact quiesce_chords_v1_fresh chCfg chCfg_frag chCfg_safe true false false 5 chHist hP hbal hroom 2144
    (by rw [hT]; decide)

/-! ### Two tap-hold keys: `extra_waiting` is not involved -/

/-- **taphold_keys_never_use_extra_waiting** (full on the tap-hold fragment `CfgH` of
`quiesce_taphold`: any number of tap-hold keys of every variant, with plain keys).  After EVERY history
from the freshly created layout — tap-hold keys pressed together, one pressed while another is
undecided, in any order and timing — `extra_waiting` is empty and the eager tap-dance state unset: while
a tap-hold key is undecided `tick` takes nothing from the queue, so the press of a second tap-hold key
is not performed (and its waiting state not created) before the first key has been decided. -/
theorem taphold_keys_never_use_extra_waiting (cfg : LCfg) (hc : Quiesce.CfgH cfg) (tv2 dfl qth : Bool) (d : Nat)
    (ins : List C06.In) (s1 : Layout) (dn : List Coord)
    (hrun : C06.run { cfg := cfg, transV2 := tv2, delegateToFirstLayer := dfl, quickTapHoldTimeout := qth,
                      oneshot := { pauseInputProcessingDelay := d } } [] ins = some (.ok (s1, dn))) :
    s1.extraWaiting = [] ∧ s1.tapDanceEager = none ∧ s1.actionQueue = [] := by
  have h0 := Quiesce.init_hinv cfg hc _ _ (Quiesce.hBound_max cfg) tv2 dfl qth d
  have i1 := Quiesce.run_hinv ins _ [] h0 s1 dn hrun
  exact ⟨i1.extra, i1.tde, i1.aq⟩

/-- **quiesce_two_tapholds** (full on the fragment).  Configurations with two — or any number of —
tap-hold keys (`CfgH`, hypotheses and bound of `quiesce_taphold_fresh`): after every history from
start-up in which every pressed key is released again and no event arrives while 32 are pending,
`extra_waiting` has been empty after every prefix of the history (the second tap-hold key waits in the
queue, not in `extra_waiting`), and `N ≥ 32 (T + d + I + 2) + T + 2 d + I + 1` quiet ticks leave the
layout at rest. -/
theorem quiesce_two_tapholds (cfg : LCfg) (hc : Quiesce.CfgH cfg) (hs : Quiesce.CfgSafeH cfg) (tv2 dfl qth : Bool)
    (d : Nat) (ins : List C06.In) (hP : Quiesce.PressesOK cfg ins) (hbal : Quiesce.downs [] ins = [])
    (hroom : C06.run { cfg := cfg, transV2 := tv2, delegateToFirstLayer := dfl, quickTapHoldTimeout := qth,
                       oneshot := { pauseInputProcessingDelay := d } } [] ins ≠ none)
    (N : Nat) (hN : (Quiesce.maxHoldTimeout cfg + d + Quiesce.maxTapInterval cfg + 2) * QUEUE_SIZE +
      Quiesce.maxHoldTimeout cfg + 2 * d + Quiesce.maxTapInterval cfg + 1 ≤ N) :
    (∀ k sk dk, C06.run { cfg := cfg, transV2 := tv2, delegateToFirstLayer := dfl, quickTapHoldTimeout := qth,
                          oneshot := { pauseInputProcessingDelay := d } } [] (ins.take k) = some (.ok (sk, dk)) →
      sk.extraWaiting = []) ∧
    ∃ s1 s2, C06.run { cfg := cfg, transV2 := tv2, delegateToFirstLayer := dfl, quickTapHoldTimeout := qth,
                       oneshot := { pauseInputProcessingDelay := d } } [] ins = some (.ok (s1, [])) ∧
      C06.run s1 [] (List.replicate N .tick) = some (.ok (s2, [])) ∧ Quiesce.LayoutAtRest s2 :=
  ⟨fun k sk dk hr => (taphold_keys_never_use_extra_waiting cfg hc tv2 dfl qth d (ins.take k) sk dk hr).1,
   quiesce_taphold_fresh cfg hc hs tv2 dfl qth d ins hP hbal hroom N hN⟩

/-- two tap-hold keys of `thCfg` overlapping: the mod-tap key (default variant, 150 ticks) is pressed and
still undecided when the layer-tap key is pressed and released; then the first is released -/
def twoThHist : List C06.In :=
  [.ev (.press (0, 31)), .tick, .tick, .ev (.press (0, 30)), .tick, .ev (.release (0, 30)), .tick,
   .ev (.release (0, 31))]

/-- it meets the hypotheses of `quiesce_two_tapholds` (rapid-event delay 5; 10135 quiet ticks as for
`quiesce_taphold_fresh`) -/
example : (∀ k sk dk, C06.run { cfg := thCfg, oneshot := { pauseInputProcessingDelay := 5 } } [] (twoThHist.take k)
      = some (.ok (sk, dk)) → sk.extraWaiting = []) ∧
    ∃ s1 s2, C06.run { cfg := thCfg, oneshot := { pauseInputProcessingDelay := 5 } } [] twoThHist
      = some (.ok (s1, [])) ∧
    C06.run s1 [] (List.replicate 10135 .tick) = some (.ok (s2, [])) ∧ Quiesce.LayoutAtRest s2 := by
  have hP : Quiesce.PressesOK thCfg twoThHist := by
    intro c hc
    simp only [twoThHist, List.mem_cons, List.mem_nil_iff, or_false, C06.In.ev.injEq, Ev.press.injEq,
      reduceCtorEq, false_or, or_false] at hc
    rcases hc with rfl | rfl <;> exact ⟨by decide, by decide⟩
  have hbal : Quiesce.downs [] twoThHist = [] := by decide
  have hT : Quiesce.maxHoldTimeout thCfg = 200 := by
    simp [Quiesce.maxHoldTimeout, Quiesce.listMax, thCfg, Quiesce.htT]
  have hI : Quiesce.maxTapInterval thCfg = 100 := by
    simp [Quiesce.maxTapInterval, Quiesce.listMax, thCfg, Quiesce.htI]
  have hroom : C06.run { cfg := thCfg, oneshot := { pauseInputProcessingDelay := 5 } } [] twoThHist ≠ none := by
    obtain ⟨s', hr, _⟩ := Quiesce.run_defined_H twoThHist _ []
      (Quiesce.init_hinv thCfg thCfg_frag _ _ (Quiesce.hBound_max _) true false false 5)
      (Quiesce.init_safe_H thCfg thCfg_safe true false false 5) hP (by decide)
    rw [hr]; exact fun h => by cases h
  exact quiesce_two_tapholds thCfg thCfg_frag thCfg_safe true false false 5 twoThHist hP hbal hroom 10135
    (by rw [hT, hI]; decide)

end KVerif.C01
