/-
C07 — idle blocking is unobservable, SECOND HALF: "whatever input arrives later is handled exactly as
if the loop had kept ticking through the gap".

`Props/C07.lean` (`block_silent`, `block_silent_forever`) and `Props/C07reach.lean`
(`block_unobservable_*`) state SILENCE during the gap only: from a reachable state in which
`can_block_update_idle_waiting` answers true, `n` whole `tick_states` emit nothing.  Here the
bisimulation: the state after the `n` ticks and the state without them are `AgeEquiv`alent, and
`AgeEquiv` is preserved by every later `handle_input_event`, `tick_states` and evaluation of the
blocking decision with IDENTICAL OS output and identical crash behaviour; hence (`block_bisim_layered`)
the OS output of (n ticks, then any history) equals the OS output of (that history).

Full statement (DESIGN §6 C07 `block_bisim`): for every accepted configuration, every reachable
state `k` in which the decision is "block", every `n` and every later history of inputs / ticks /
decisions: output(n ticks; history) = output(history).

What differs between `k` and `k` after `n` silent ticks (closed form of `block_silent`), and who reads it
— the complete list for the model (Model/Layout.lean, Model/Kanata.lean):
* `layout.histKeys` ages (`ticks_since_occurrence` of `historical_keys`): aged by `tickPre`
  (saturating at 65535).  READ ONLY by the `switch` key-timing tests `ticksLt` / `ticksGt`
  (`Switch.leafVal`, reached through the `Switch` arm of `dispatch`); `histKeyCode` reads only the
  key.  This is what the `switch_max_key_timing` conjunct of `can_block…` is for (it checks the newest
  entry only; the older ones are older).  Not read at all on configurations without `switch`.
* `layout.histInputs` ages: aged by `tickPre`; read by NOTHING (`Switch.leafVal .histInput` reads the
  coordinate only).
* `layout.lptTapHoldTimeout` (the quick-tap / tap-hold-interval countdown, read by the `HoldTap` arm):
  `is_idle` demands it to be 0, `tickPre` keeps it at 0 — identical on both sides.
* `layout.queue[..].since` (read by tap-hold / chord timing): the queue is empty when idle.
* `macroOnPressCancelDuration` (read by `handle_input_event`): 0 when idle, stays 0.
* `ticksSinceIdle` (read by `tick_idle_timeout`): not touched by `tick_states`; `can_block…` only
  advances it while something waits for idleness, and then it does not block.
* waiting-state / one-shot / eager-tap-dance / sequence / caps-word / held-virtual-key / scroll /
  mouse-move countdowns: absent when idle (`idle_covers_time_driven`).
* `prevKeys`, `overrideStates`, `curKeys`: rewritten by the tick with the values they already have in
  a reachable blocking state (`KInv.sync`: `prev_keys` IS the layout's key-code list).
So on configurations in which no `switch` key-timing test is evaluated the relation is simply "equal
except history ages" (`AgeEquiv`, Lemmas/C07BisimK.lean) and no side condition on ages is needed.

Proved here, in FULL for the layered fragment of C04 (plain keys, output chords, `multi`,
layer-while-held, layer-switch, release-key / release-layer, transparent, use-defsrc; no custom
actions, no overrides; ANY history, no bound on queue length — the overflow path of the 32-entry queue
included — or on held layers):
* `quiet_ticks_ageEquiv`  (a) n ticks from a blocking state yield an `AgeEquiv` state;
* `step_ageEquiv`, `run_ageEquiv`  (b) `AgeEquiv` is preserved by every step, identical outputs;
* `block_bisim_layered`  (c) the conclusion, from kanata at start-up.
Not proved (open): the same for the tap-hold / one-shot fragments (the relation and the kanata-level
lemmas are generic; what is missing is the layout-level equivariance `doAction (core s) = core
(doAction s)` for the `HoldTap` / `OneShot` arms and the waiting-state machinery of `tick` — none of
them reads a history age, and the quick-tap countdown is identical on both sides by `is_idle`), and
for `switch` with key-timing (there the relation has to become "ages equal, or both above
`switch_max_key_timing`", kept by `tickPre` and sufficient for `ticksLt`/`ticksGt` because the
history is aged BEFORE the queued event is processed; the one place where an un-aged history is read
is the overflow path of `Layout::event` — 33 events without a tick in between — where a
`(key-timing 1 gt N)` test with the newest key exactly `N` ticks old would differ; not formalised).
Property theorems only; helper lemmas in Lemmas/C07Age.lean, Lemmas/C07BisimK.lean.
-/
import KVerif.Lemmas.C07BisimK
import KVerif.Props.C07reach
namespace KVerif.C07
open KVerif.L KVerif.K

/-! ## (a) the silent ticks change history ages only -/

/-- one silent tick from an idle state of the layered fragment whose OS key state is the layout's
key-code list: the new state is the old one with `tickPre` applied to the layout, and `tickPre`
changed history ages only -/
theorem quiet_tick_ageEquiv (k : KState) (hk : KLay k) (hidle : isIdle k = true)
    (hsync : k.prevKeys = k.layout.keycodes) :
    tickStates k = .ok (setL k (tickPre k.layout)) ∧ AgeEq k.layout (tickPre k.layout) := by
  obtain ⟨i1, i2, i3, i4, i5, i6, i7, i8, i9, _⟩ := idle_covers_time_driven k hidle
  have hq : QuietLayout k.layout := ⟨i1, i2, i3, i5, i6, i7, i8, i9, plain_of_stok hk.inert.states⟩
  have ht := tick_quiet_eq k.layout hq
  have hst : (tickPre k.layout).states = k.layout.states := (tickPre_quiet k.layout hq).1
  have hkc : (tickPre k.layout).keycodes = k.prevKeys := by
    rw [hsync]; unfold Layout.keycodes; rw [hst]
  have hage : AgeEq k.layout (tickPre k.layout) := by
    show core k.layout = core (tickPre k.layout)
    rw [tickPre_inert_eq hk.inert]
    simp only [core, tickPreI, zeroAges_histTick, i1, i4, List.map_nil]
  refine ⟨?_, hage⟩
  rw [tickStates_rest_ok k hk.rest _ ht]
  congr 1
  unfold afterTick
  have hs : Synced (setL k (tickPre k.layout)) (tickPre k.layout).keycodes := by
    rw [hkc]; exact ⟨fun _ hx => hx, fun _ hx => hx⟩
  rw [diff_silent_when_synced _ _ _ hs, hkc, hk.rest.mcd]
  have hcur := hk.rest.cur
  have hm := hk.rest.mcd
  cases k
  simp only [setL] at *
  subst hcur; subst hm
  rfl

/-- **quiet_ticks_ageEquiv** (a): `n` ticks from such a state succeed and end in an `AgeEquiv`alent
state (so in particular nothing was written: `AgeEquiv.out`) -/
theorem quiet_ticks_ageEquiv (n : Nat) : ∀ (k : KState), KLay k → isIdle k = true →
    k.prevKeys = k.layout.keycodes → ∃ kn, ticksN n k = .ok kn ∧ AgeEquiv k kn := by
  induction n with
  | zero => intro k _ _ _; exact ⟨k, rfl, AgeEquiv.refl k⟩
  | succ n ih =>
    intro k hk hidle hsync
    obtain ⟨e1, e2⟩ := quiet_tick_ageEquiv k hk hidle hsync
    have h1 : AgeEquiv k (setL k (tickPre k.layout)) := ⟨_, e2, rfl⟩
    obtain ⟨kn, r1, r2⟩ := ih (setL k (tickPre k.layout)) (hk.of_equiv h1)
      (by rw [isIdle_setL k _ e2]; exact hidle)
      (by show k.prevKeys = (tickPre k.layout).keycodes; rw [← e2.keycodes]; exact hsync)
    exact ⟨kn, by simp only [ticksN, e1]; exact r1, h1.trans r2⟩

/-! ## (b) every later step preserves the relation, with identical output -/

/-- outcomes of a history from two states: both stop (crash) or both go on to `AgeEquiv`alent states -/
def RunRel (r1 r2 : Option KState) : Prop :=
  match r1, r2 with
  | some a, some b => KLay a ∧ AgeEquiv a b
  | none, none => True
  | _, _ => False

theorem inputOK_true (k : KState) (i : Input) : inputOK (fun _ => true) k i = true := by
  cases i with
  | tap code =>
    simp only [inputOK, Bool.true_and]
    split <;> rfl
  | _ => rfl

/-- **step_ageEquiv** (b): one step of the processing loop — an input event (press, release, repeat,
tap) handled, one whole `tick_states`, or one evaluation of the blocking decision — from two
`AgeEquiv`alent states of the layered fragment: both crash or neither, and the successors are
`AgeEquiv`alent again, which includes `out` (everything written to the OS so far) being EQUAL. -/
theorem step_ageEquiv {k k' : KState} (hk : KLay k) (he : AgeEquiv k k') (s : Step) :
    RunRel (stepK (fun _ => true) k s) (stepK (fun _ => true) k' s) := by
  cases s with
  | input i =>
    simp only [stepK, inputOK_true, if_true]
    have h := handleInput_equiv hk he i
    cases h1 : handleInputEvent k i with
    | error c1 =>
      cases h2 : handleInputEvent k' i with
      | error c2 => exact trivial
      | ok b => rw [h1, h2] at h; exact h.elim
    | ok a =>
      cases h2 : handleInputEvent k' i with
      | error c2 => rw [h1, h2] at h; exact h.elim
      | ok b => rw [h1, h2] at h; exact ⟨handleInput_klay hk i h1, h⟩
  | tick =>
    simp only [stepK]
    have h := tickStates_equiv hk he
    cases h1 : tickStates k with
    | error c1 =>
      cases h2 : tickStates k' with
      | error c2 => exact trivial
      | ok b => rw [h1, h2] at h; exact h.elim
    | ok a =>
      cases h2 : tickStates k' with
      | error c2 => rw [h1, h2] at h; exact h.elim
      | ok b => rw [h1, h2] at h; exact ⟨tickStates_klay hk h1, h⟩
  | decide ms =>
    exact ⟨canBlock_klay hk ms, canBlock_equiv he ms⟩

/-- **run_ageEquiv** (b, iterated): any history of steps from two `AgeEquiv`alent states -/
theorem run_ageEquiv (steps : List Step) : ∀ {k k' : KState}, KLay k → AgeEquiv k k' →
    RunRel (runSteps (fun _ => true) k steps) (runSteps (fun _ => true) k' steps) := by
  induction steps with
  | nil => intro k k' hk he; exact ⟨hk, he⟩
  | cons s rest ih =>
    intro k k' hk he
    have h := step_ageEquiv hk he s
    simp only [runSteps]
    cases h1 : stepK (fun _ => true) k s with
    | none =>
      cases h2 : stepK (fun _ => true) k' s with
      | none => exact trivial
      | some b => rw [h1, h2] at h; exact h.elim
    | some a =>
      cases h2 : stepK (fun _ => true) k' s with
      | none => rw [h1, h2] at h; exact h.elim
      | some b => rw [h1, h2] at h; exact ih h.1 h.2

/-! ## (c) blocking is unobservable: silence during the gap AND identical handling afterwards -/

/-- the kanata-level invariant of the layered fragment holds in every reachable state -/
theorem klay_reachable {k0 k : KState} (hc : C04.CfgFrag k0.layout.cfg) (hi : C04.Inert k0.layout)
    (hs : KStart k0) (hr : Reach (fun _ => true) k0 k) :
    KLay k ∧ (k.layout.queue = [] → k.prevKeys = k.layout.keycodes) := by
  have h := reach_inv layered_layoutInv ⟨hs.rest, ⟨hc, hi⟩, fun _ => hs.prev⟩ hr
  exact ⟨⟨h.rest, h.lay.1, h.lay.2⟩, h.sync⟩

/-- **block_bisim_layered** (full, on the layered fragment of C04).  Kanata at start-up on any
configuration of the fragment; `k` any state reachable by any history of input events, ticks and
blocking decisions in which `can_block_update_idle_waiting` answers true; `n` any number of ticks run
INSTEAD of sleeping; `steps` any later history (inputs, ticks, decisions — no side condition, the
queue may overflow).  Then the `n` ticks succeed and write nothing, and the history run after them and
the history run without them either both crash or end in states that are equal except history ages
— in particular the complete OS output is the same list. -/
theorem block_bisim_layered (cfg : LCfg) (hc : C04.CfgFrag cfg) (tv2 dfl qth : Bool) (osd : Nat)
    (ko : List (List (Nat × List Nat))) (mods : ModCodes) (k : KState)
    (hr : Reach (fun _ => true) (freshK cfg tv2 dfl qth osd ko mods) k) (ms : Nat)
    (hb : (canBlockUpdateIdleWaiting k ms).2 = true) (n : Nat) (steps : List Step) :
    ∃ kn, ticksN n k = .ok kn ∧ kn.out = k.out ∧
      match runSteps (fun _ => true) k steps, runSteps (fun _ => true) kn steps with
      | some a, some b => b.out = a.out ∧ AgeEquiv a b
      | none, none => True
      | _, _ => False := by
  obtain ⟨hk, hsync⟩ := klay_reachable (k0 := freshK cfg tv2 dfl qth osd ko mods) hc
    (C04.init_inert cfg tv2 dfl qth osd) (freshK_start cfg tv2 dfl qth osd ko mods) hr
  obtain ⟨hidle, _⟩ := canBlock_true k ms hb
  have hq := (idle_covers_time_driven k hidle).1
  obtain ⟨kn, e1, e2⟩ := quiet_ticks_ageEquiv n k hk hidle (hsync hq)
  refine ⟨kn, e1, e2.out, ?_⟩
  have h := run_ageEquiv steps hk e2
  cases h1 : runSteps (fun _ => true) k steps with
  | none =>
    cases h2 : runSteps (fun _ => true) kn steps with
    | none => exact trivial
    | some b => rw [h1, h2] at h; exact h.elim
  | some a =>
    cases h2 : runSteps (fun _ => true) kn steps with
    | none => rw [h1, h2] at h; exact h.elim
    | some b => rw [h1, h2] at h; exact ⟨h.2.out, h.2⟩

/-- the same from any start state of the fragment (not only the fresh one) -/
theorem block_bisim_layered_from (k0 k : KState) (hc : C04.CfgFrag k0.layout.cfg)
    (hi : C04.Inert k0.layout) (hs : KStart k0) (hr : Reach (fun _ => true) k0 k)
    (hidle : isIdle k = true) (n : Nat) (steps : List Step) :
    ∃ kn, ticksN n k = .ok kn ∧ AgeEquiv k kn ∧
      RunRel (runSteps (fun _ => true) k steps) (runSteps (fun _ => true) kn steps) := by
  obtain ⟨hk, hsync⟩ := klay_reachable hc hi hs hr
  obtain ⟨kn, e1, e2⟩ := quiet_ticks_ageEquiv n k hk hidle (hsync (idle_covers_time_driven k hidle).1)
  exact ⟨kn, e1, e2, run_ageEquiv steps hk e2⟩

/-! ## non-vacuity -/

/-- what happens after the block in the example: the held key `x` is auto-repeated, released, then
Shift + layer key + another key, ticks in between -/
def laterHist : List Step :=
  [.input (.rep 46), .tick, .input (.release 46), .tick, .tick, .input (.press 48), .tick,
   .input (.tap 46), .tick, .tick, .decide 1, .tick]

/-- non-vacuity: on the three-layer configuration of C04 the history `layeredHist` reaches a state
with `x` held in which kanata blocks; 1000 ticks instead of sleeping, then `laterHist`: the theorem
applies, the later history does not crash, it DOES write to the OS (so the equality of outputs is
not the equality of two empty lists), and the history ages really differ at the end. -/
example : ∃ k, Reach (fun _ => true) (freshK C04.sampleCfg true false false 0 [[]] stdMods) k ∧
    (canBlockUpdateIdleWaiting k 1).2 = true ∧
    ∃ kn a b, ticksN 1000 k = .ok kn ∧ runSteps (fun _ => true) k laterHist = some a ∧
      runSteps (fun _ => true) kn laterHist = some b ∧ b.out = a.out ∧ a.out.length > k.out.length := by
  obtain ⟨k, hk, hp⟩ := exists_of_endsWith
    (r := runSteps (fun _ => true) (freshK C04.sampleCfg true false false 0 [[]] stdMods) layeredHist)
    (p := fun k => (canBlockUpdateIdleWaiting k 1).2 &&
      (match runSteps (fun _ => true) k laterHist with
       | some a => decide (a.out.length > k.out.length)
       | none => false)) (by decide +kernel)
  simp only [Bool.and_eq_true] at hp
  have hr := reach_of_run _ _ layeredHist _ k .init hk
  obtain ⟨kn, e1, _, e3⟩ := block_bisim_layered _ sampleCfg_frag true false false 0 [[]] stdMods k hr 1 hp.1 1000 laterHist
  cases h1 : runSteps (fun _ => true) k laterHist with
  | none => rw [h1] at hp; exact absurd hp.2 (by simp)
  | some a =>
    rw [h1] at hp e3
    cases h2 : runSteps (fun _ => true) kn laterHist with
    | none => rw [h2] at e3; exact e3.elim
    | some b =>
      rw [h2] at e3
      exact ⟨k, hr, hp.1, kn, a, b, e1, h1, h2, e3.1, by simpa using hp.2⟩

/-! ## the statement is FALSE on the model for `switch` key-timing under an arbitrary history -/

/-- `a` plain; key 31 is `(switch ((key-timing 1 gt 5)) x break () c break)`: opcode `0x4000 + 5`
(`TICKS_SINCE_VAL_GT`, first-newest key, threshold 5) -/
def swCfg : LCfg :=
  { layers := [[((0, 30), .keyCode 30),
                ((0, 31), .switch [([16389], .keyCode 45, true), ([], .keyCode 46, true)])]],
    srcKeys := [(30, .keyCode 30), (31, .keyCode 31)] }

/-- kanata at start-up on that configuration; the parser sets `switch_max_key_timing` to 5 -/
def swK0 : KState := { freshK swCfg true false false 0 [[]] stdMods with switchMaxKeyTiming := 5 }

/-- `a` tapped; exactly 5 ticks after it was pressed (its history age is 5 = `switch_max_key_timing`)
the blocking decision is evaluated -/
def swHist : List Step :=
  [.input (.press 30), .tick, .input (.release 30), .tick, .tick, .tick, .tick, .tick, .decide 1]

/-- 33 input events WITHOUT a tick in between (the switch key pressed and released, then an unmapped
key 15 times tapped and once pressed): the 33rd overflows the queue of 32 and the press of the switch
key is processed at once, against a history that has not been aged since the decision; then ticks -/
def swLater : List Step :=
  [.input (.press 31), .input (.release 31)] ++ (List.replicate 15 (Step.input (.tap 16))) ++
  [.input (.press 16), .tick, .tick, .tick]

/-- **block_bisim_switch_overflow_counterexample** (on the MODEL, for histories the real processing
loop cannot produce).  With a `switch` key-timing test `gt N`, `N = switch_max_key_timing`, the
blocking decision answers true as soon as the newest key is exactly `N` ticks old
(`ticks_since_occurrence >= switch_max_key_timing`).  One silent tick later the age is `N + 1`.  If the
later history delivers 33 input events with no tick in between, the queue overflow makes
`Layout::event` process the switch key's press at once, with the history NOT aged first: `gt N` is
false without the tick and true with it — a different case of the switch fires, a different key
reaches the OS.  In the real loop (`start_processing_loop`) a blocking receive is always followed by
the event AND at least one tick (`last_tick = now - 1 ms`), and a tick ages the history before it
dequeues, so both runs see an age above `N`; the counterexample therefore shows that `block_bisim` for
`switch` key-timing needs the hypothesis "a tick precedes the first `switch` evaluation after the
block" (equivalently: fewer than 33 events before the first tick), not that kanata misbehaves.
In kanata syntax: `(defsrc a b) (deflayer l a (switch ((key-timing 1 gt 5)) x break () c break))`;
tap `a`, wait 5 ms (kanata blocks), then — without any tick — press and release `b` and send 31 more
events on an unmapped key, then tick: `c` without the gap ticks, `x` with them. -/
theorem block_bisim_switch_overflow_counterexample :
    ∃ k, Reach (fun _ => true) swK0 k ∧ (canBlockUpdateIdleWaiting k 1).2 = true ∧
      k.layout.histKeys.head? = some (30, 5) ∧
      ∃ k1 a b, tickStates k = .ok k1 ∧ k1.out = k.out ∧
        runSteps (fun _ => true) k swLater = some a ∧ runSteps (fun _ => true) k1 swLater = some b ∧
        a.out.contains (.down 46) = true ∧ a.out.contains (.down 45) = false ∧
        b.out.contains (.down 45) = true ∧ b.out.contains (.down 46) = false := by
  obtain ⟨k, hk, hp⟩ := exists_of_endsWith (r := runSteps (fun _ => true) swK0 swHist)
    (p := fun k => (canBlockUpdateIdleWaiting k 1).2 && decide (k.layout.histKeys.head? = some (30, 5)) &&
      (match tickStates k with
       | .ok k1 => decide (k1.out = k.out) &&
         (match runSteps (fun _ => true) k swLater, runSteps (fun _ => true) k1 swLater with
          | some a, some b => a.out.contains (.down 46) && !a.out.contains (.down 45) &&
              b.out.contains (.down 45) && !b.out.contains (.down 46)
          | _, _ => false)
       | .error _ => false)) (by decide +kernel)
  simp only [Bool.and_eq_true, decide_eq_true_eq] at hp
  obtain ⟨⟨h1, h2⟩, h3⟩ := hp
  refine ⟨k, reach_of_run _ _ swHist _ k .init hk, h1, h2, ?_⟩
  cases ht : tickStates k with
  | error c => simp [ht] at h3
  | ok k1 =>
    simp only [ht, Bool.and_eq_true, decide_eq_true_eq] at h3
    obtain ⟨h4, h5⟩ := h3
    cases ha : runSteps (fun _ => true) k swLater with
    | none => simp [ha] at h5
    | some a =>
      cases hb : runSteps (fun _ => true) k1 swLater with
      | none => simp [ha, hb] at h5
      | some b =>
        simp only [ha, hb, Bool.and_eq_true, Bool.not_eq_true'] at h5
        obtain ⟨⟨⟨g1, g2⟩, g3⟩, g4⟩ := h5
        exact ⟨k1, a, b, rfl, h4, rfl, hb, g1, g2, g3, g4⟩

end KVerif.C07
