/-
C07 — more fragments in which `MayBlock` holds in every reachable state where kanata is idle:
lazy / eager tap-dance (`Quiesce.DInv` of Props/C01q2) and chords v1 (`Quiesce.CInv`).

The step lemmas of these fragments need more than "fewer than 32 events pending": a press must lie
inside the layer tables, and (tap-dance) the event must be physically possible — a key is pressed only
while up and released only while down.  The generic `Reach` of Lemmas/BlockReach.lean cannot say that,
so `ReachP` carries the set of keys physically down along the history.

Full statement: as `mayblock_reachable_layered`, for every history.  Proved (`…_partial`): for every
history in which an input event is delivered only while fewer than 32 are pending, presses lie inside
the layer tables and (tap-dance only) events are physically possible.  Missing: the overflow path of
`Layout::event`, presses outside the tables (a crash of the model, i.e. a panic), and impossible
event orders.  `mayblock_reachable_macro_partial` is NOT proved: a held `macro-repeat` key is a
`RepeatingSequence` state, so `PlainStates` follows from idleness only through an extra invariant
("a repeating sequence keeps `active_sequences` non-empty between ticks") that `Quiesce.MInv` does
not carry.
-/
import KVerif.Props.C07reach
import KVerif.Props.C01q2
namespace KVerif.C07
open KVerif.L KVerif.K KVerif.C06

/-- states reachable from `k0` together with the keys physically down; `ok l down e` is the side
condition under which the event `e` is delivered to the layout `l` -/
inductive ReachP (ok : Layout → List Coord → Ev → Prop) (k0 : KState) : KState → List Coord → Prop
  | init : ReachP ok k0 k0 []
  | press {k k' : KState} {down : List Coord} (code : Nat) : ReachP ok k0 k down →
      ok k.layout down (.press (0, code)) → handleInputEvent k (.press code) = .ok k' →
      ReachP ok k0 k' (downAfter down (.ev (.press (0, code))))
  | release {k k' : KState} {down : List Coord} (code : Nat) : ReachP ok k0 k down →
      ok k.layout down (.release (0, code)) → handleInputEvent k (.release code) = .ok k' →
      ReachP ok k0 k' (downAfter down (.ev (.release (0, code))))
  | rep {k k' : KState} {down : List Coord} (code : Nat) : ReachP ok k0 k down →
      handleInputEvent k (.rep code) = .ok k' → ReachP ok k0 k' down
  | tick {k k' : KState} {down : List Coord} : ReachP ok k0 k down → tickStates k = .ok k' →
      ReachP ok k0 k' down
  | decide {k : KState} {down : List Coord} (ms : Nat) : ReachP ok k0 k down →
      ReachP ok k0 (canBlockUpdateIdleWaiting k ms).1 down

/-- a layout-level invariant indexed by the keys physically down -/
structure LayoutInvP (P : Layout → List Coord → Prop) (ok : Layout → List Coord → Ev → Prop) : Prop where
  event : ∀ l down e l', P l down → ok l down e → l.event e = .ok l' →
    P l' (downAfter down (.ev e)) ∧ l'.queue ≠ []
  tick : ∀ l down l' cu, P l down → tick l = .ok (l', cu) → P l' down
  plain : ∀ l down, P l down → PlainStates l

structure KInvP (P : Layout → List Coord → Prop) (k : KState) (down : List Coord) : Prop where
  rest : KRest k
  lay : P k.layout down
  sync : k.layout.queue = [] → k.prevKeys = k.layout.keycodes

theorem reachP_inv {P : Layout → List Coord → Prop} {ok : Layout → List Coord → Ev → Prop}
    (hP : LayoutInvP P ok) {k0 k : KState} {down : List Coord} (h0 : KInvP P k0 [])
    (hr : ReachP ok k0 k down) : KInvP P k down := by
  induction hr with
  | init => exact h0
  | @press k k' down code _ hok he ih =>
    obtain ⟨r1, _, r3⟩ := handleInput_rest k k' ih.rest (.press code) he
    obtain ⟨p1, p2⟩ := hP.event _ _ _ _ ih.lay hok r3
    exact ⟨r1, p1, fun hq => absurd hq p2⟩
  | @release k k' down code _ hok he ih =>
    obtain ⟨r1, _, r3⟩ := handleInput_rest k k' ih.rest (.release code) he
    obtain ⟨p1, p2⟩ := hP.event _ _ _ _ ih.lay hok r3
    exact ⟨r1, p1, fun hq => absurd hq p2⟩
  | @rep k k' down code _ he ih =>
    obtain ⟨r1, r2, r3⟩ := handleInput_rest k k' ih.rest (.rep code) he
    simp only [] at r3
    exact ⟨r1, r3 ▸ ih.lay, fun hq => by rw [r2, r3]; exact ih.sync (r3 ▸ hq)⟩
  | @tick k k' down _ he ih =>
    obtain ⟨l', hl, e1, e2, e3⟩ := tickStates_rest k k' ih.rest he
    exact ⟨e3, e1 ▸ hP.tick _ _ _ _ ih.lay hl, fun _ => by rw [e2, e1]⟩
  | @decide k down ms _ ih =>
    obtain ⟨t, ht⟩ := canBlock_fields k ms
    rw [ht]
    exact ⟨⟨ih.rest.customs, ih.rest.noOvr, ih.rest.ovrClean, ih.rest.cur, ih.rest.unmod, ih.rest.unshift,
      ih.rest.caps, ih.rest.scroll, ih.rest.hscroll, ih.rest.moveV, ih.rest.moveH, ih.rest.wfi, ih.rest.vk,
      ih.rest.mcd, ih.rest.seqOff, ih.rest.noRec⟩, ih.lay, ih.sync⟩

theorem mayBlock_of_invP {P : Layout → List Coord → Prop} {ok : Layout → List Coord → Ev → Prop}
    (hP : LayoutInvP P ok) {k : KState} {down : List Coord} (h : KInvP P k down) (hidle : isIdle k = true) :
    MayBlock k k.layout.keycodes k.overrideStates := by
  have hq := (idle_covers_time_driven k hidle).1
  refine ⟨hidle, h.rest.wfi, hP.plain _ _ h.lay, h.rest.cur, ?_, h.rest.ovrClean, ?_, h.rest.noRec⟩
  · rw [adjustKeys_rest k h.rest.unmod h.rest.unshift]
    exact overrideKeys_empty _ h.rest.noOvr _ _
  · rw [Synced, h.sync hq]
    exact ⟨fun _ hx => hx, fun _ hx => hx⟩

/-! ## tap-dance (lazy and eager) -/

/-- side condition of the tap-dance fragment -/
def okD (l : Layout) (down : List Coord) (e : Ev) : Prop :=
  l.queue.length < QUEUE_SIZE ∧ (∀ c, e = .press c → Quiesce.CoordOK l.cfg c) ∧ Quiesce.possible down e

def TapDanceInv (T d : Nat) (l : Layout) (down : List Coord) : Prop := Quiesce.DInv T d l down ∧ Quiesce.SafeD l

theorem tapdance_layoutInvP (T d : Nat) : LayoutInvP (TapDanceInv T d) okD where
  event := fun l down e l' hp hok he => by
    obtain ⟨s1, e1, i1, i2, q1, _⟩ := hp.1.input hp.2 e hok.1 hok.2.1 hok.2.2
    rw [he] at e1
    injection e1 with e1; subst e1
    exact ⟨⟨i1, i2⟩, fun hq => by rw [hq] at q1; simp at q1⟩
  tick := fun l down l' cu hp ht => by
    obtain ⟨s1, e1, i1, i2, _⟩ := hp.1.tick hp.2
    rw [ht] at e1
    injection e1 with e1; injection e1 with e1 _; subst e1
    exact ⟨i1, i2⟩
  plain := fun l down hp => plain_of_stok hp.1.states

/-- **mayblock_reachable_tapdance_partial** (the tap-dance fragment of C17/C01: plain keys, output
chords, layer-while-held, transparent, lazy and eager tap-dance keys with simple actions, timeouts
`≤ T`, rapid-event delay `d`).  In every state reachable from a start state satisfying the
fragment's invariant by input events (delivered while fewer than 32 are pending, presses inside the
layer tables, physically possible), repeats, ticks and blocking decisions: `is_idle` implies
`MayBlock`. -/
theorem mayblock_reachable_tapdance_partial (T d : Nat) (k0 k : KState) (down : List Coord)
    (hi : Quiesce.DInv T d k0.layout []) (hsafe : Quiesce.SafeD k0.layout) (hs : KStart k0)
    (hr : ReachP okD k0 k down) (hidle : isIdle k = true) :
    MayBlock k k.layout.keycodes k.overrideStates :=
  mayBlock_of_invP (tapdance_layoutInvP T d)
    (reachP_inv (tapdance_layoutInvP T d) ⟨hs.rest, ⟨hi, hsafe⟩, fun _ => hs.prev⟩ hr) hidle

/-- from start-up, with the decision function and the silent ticks -/
theorem block_unobservable_tapdance_partial (cfg : LCfg) (hc : Quiesce.CfgD cfg) (hcs : Quiesce.CfgSafeD cfg)
    (tv2 dfl qth : Bool) (osd : Nat) (ko : List (List (Nat × List Nat))) (mods : ModCodes) (k : KState)
    (down : List Coord) (hr : ReachP okD (freshK cfg tv2 dfl qth osd ko mods) k down) (ms : Nat)
    (hb : (canBlockUpdateIdleWaiting k ms).2 = true) :
    (canBlockUpdateIdleWaiting k ms).1 = k ∧
    ∀ n, ∃ k', ticksN n k = .ok k' ∧ k'.out = k.out ∧ k'.layout.states = k.layout.states ∧
      (n > 0 → k'.prevKeys = k.layout.keycodes) ∧ MayBlock k' k.layout.keycodes k.overrideStates := by
  obtain ⟨h1, h2⟩ := canBlock_true k ms hb
  exact ⟨h2, fun n => block_silent_forever n k _ _
    (mayblock_reachable_tapdance_partial _ osd _ k down
      (Quiesce.init_dinv cfg hc _ (Quiesce.dBound_max cfg) tv2 dfl qth osd)
      (Quiesce.init_safe_D cfg hcs tv2 dfl qth osd) (freshK_start cfg tv2 dfl qth osd ko mods) hr h1)⟩

/-! ## chords v1 -/

/-- side condition of the chords fragment -/
def okC (l : Layout) (_down : List Coord) (e : Ev) : Prop :=
  l.queue.length < QUEUE_SIZE ∧ (∀ c, e = .press c → Quiesce.CoordOK l.cfg c)

def ChordsInv (T d : Nat) (l : Layout) (down : List Coord) : Prop := Quiesce.CInv T d l down ∧ Quiesce.SafeC l

theorem chords_layoutInvP (T d : Nat) : LayoutInvP (ChordsInv T d) okC where
  event := fun l down e l' hp hok he => by
    obtain ⟨s1, e1, i1, i2, q1, _⟩ := hp.1.input hp.2 e hok.1 hok.2
    rw [he] at e1
    injection e1 with e1; subst e1
    exact ⟨⟨i1, i2⟩, fun hq => by rw [hq] at q1; simp at q1⟩
  tick := fun l down l' cu hp ht => by
    obtain ⟨s1, e1, i1, i2, _⟩ := hp.1.tick hp.2
    rw [ht] at e1
    injection e1 with e1; injection e1 with e1 _; subst e1
    exact ⟨i1, i2⟩
  plain := fun l down hp => plain_of_stok hp.1.states

/-- **mayblock_reachable_chords_v1_partial** (the chords-v1 fragment of C09/C01: plain keys, output
chords, layer-while-held, transparent, `chord` keys whose chord actions are simple, timeouts `≤ T`,
rapid-event delay `d`).  In every state reachable from a start state satisfying the fragment's
invariant by input events (delivered while fewer than 32 are pending, presses inside the layer
tables), repeats, ticks and blocking decisions: `is_idle` implies `MayBlock`. -/
theorem mayblock_reachable_chords_v1_partial (T d : Nat) (k0 k : KState) (down : List Coord)
    (hi : Quiesce.CInv T d k0.layout []) (hsafe : Quiesce.SafeC k0.layout) (hs : KStart k0)
    (hr : ReachP okC k0 k down) (hidle : isIdle k = true) :
    MayBlock k k.layout.keycodes k.overrideStates :=
  mayBlock_of_invP (chords_layoutInvP T d)
    (reachP_inv (chords_layoutInvP T d) ⟨hs.rest, ⟨hi, hsafe⟩, fun _ => hs.prev⟩ hr) hidle

/-- from start-up, with the decision function and the silent ticks -/
theorem block_unobservable_chords_v1_partial (cfg : LCfg) (hc : Quiesce.CfgC cfg) (hcs : Quiesce.CfgSafeC cfg)
    (tv2 dfl qth : Bool) (osd : Nat) (ko : List (List (Nat × List Nat))) (mods : ModCodes) (k : KState)
    (down : List Coord) (hr : ReachP okC (freshK cfg tv2 dfl qth osd ko mods) k down) (ms : Nat)
    (hb : (canBlockUpdateIdleWaiting k ms).2 = true) :
    (canBlockUpdateIdleWaiting k ms).1 = k ∧
    ∀ n, ∃ k', ticksN n k = .ok k' ∧ k'.out = k.out ∧ k'.layout.states = k.layout.states ∧
      (n > 0 → k'.prevKeys = k.layout.keycodes) ∧ MayBlock k' k.layout.keycodes k.overrideStates := by
  obtain ⟨h1, h2⟩ := canBlock_true k ms hb
  exact ⟨h2, fun n => block_silent_forever n k _ _
    (mayblock_reachable_chords_v1_partial _ osd _ k down
      (Quiesce.init_cinv cfg hc _ (Quiesce.cBound_max cfg) tv2 dfl qth osd)
      (Quiesce.init_safe_C cfg hcs tv2 dfl qth osd) (freshK_start cfg tv2 dfl qth osd ko mods) hr h1)⟩

/-! ## non-vacuity (hypotheses satisfiable: the sample configurations of Props/C01q2 are in the
fragments; kanata at start-up, after a blocking decision, is a reachable idle state) -/

example : ∃ k down, ReachP okD (freshK C01.tdCfg true false false 5 [[]] stdMods) k down ∧
    MayBlock k k.layout.keycodes k.overrideStates ∧ ∀ n, ∃ k', ticksN n k = .ok k' ∧ k'.out = k.out := by
  have hr : ReachP okD (freshK C01.tdCfg true false false 5 [[]] stdMods)
      (canBlockUpdateIdleWaiting (freshK C01.tdCfg true false false 5 [[]] stdMods) 1).1 [] := .decide 1 .init
  have hb : (canBlockUpdateIdleWaiting (canBlockUpdateIdleWaiting (freshK C01.tdCfg true false false 5 [[]] stdMods) 1).1 1).2 = true := by
    decide +kernel
  obtain ⟨_, h2⟩ := block_unobservable_tapdance_partial C01.tdCfg C01.tdCfg_frag C01.tdCfg_safe true false false 5
    [[]] stdMods _ [] hr 1 hb
  exact ⟨_, [], hr, by obtain ⟨k', e, _, _, _, m⟩ := h2 0; simp only [ticksN] at e; injection e with e; subst e; exact m,
    fun n => by obtain ⟨k', e1, e2, _⟩ := h2 n; exact ⟨k', e1, e2⟩⟩

example : ∃ k down, ReachP okC (freshK C01.chCfg true false false 5 [[]] stdMods) k down ∧
    MayBlock k k.layout.keycodes k.overrideStates ∧ ∀ n, ∃ k', ticksN n k = .ok k' ∧ k'.out = k.out := by
  have hr : ReachP okC (freshK C01.chCfg true false false 5 [[]] stdMods)
      (canBlockUpdateIdleWaiting (freshK C01.chCfg true false false 5 [[]] stdMods) 1).1 [] := .decide 1 .init
  have hb : (canBlockUpdateIdleWaiting (canBlockUpdateIdleWaiting (freshK C01.chCfg true false false 5 [[]] stdMods) 1).1 1).2 = true := by
    decide +kernel
  obtain ⟨_, h2⟩ := block_unobservable_chords_v1_partial C01.chCfg C01.chCfg_frag C01.chCfg_safe true false false 5
    [[]] stdMods _ [] hr 1 hb
  exact ⟨_, [], hr, by obtain ⟨k', e, _, _, _, m⟩ := h2 0; simp only [ticksN] at e; injection e with e; subst e; exact m,
    fun n => by obtain ⟨k', e1, e2, _⟩ := h2 n; exact ⟨k', e1, e2⟩⟩

end KVerif.C07
