/-
C12, runtime side continued — sequences with modifier prefixes, the modifier-bit backtracking loop,
and the all-released completion of `O-(…)` groups.  Property theorems only; helper definitions and
lemmas are in KVerif/Lemmas/SeqMods.lean, the executable model in KVerif/Model/Sequences.lean.

The theorems speak about the stream of calls `tick` makes into the sequence functions (as
Props/C12.lean does), a key press now carrying the modifier mask that `get_mod_mask_for_cur_keys`
returned for it (`InpM.key k mm`, `engRunM`).  `callsOf` derives that stream from physical key
events (press / release / timer tick): a press reaches `do_sequence_press_logic` with the mask of
all keys then down, the release that empties `cur_keys` runs the all-released hook
(`tick_makes_these_calls` shows that this is what one `tick` of the tick-level machine does).  OS
release events produced by the key-state diff are outside these statements.
-/
import KVerif.Lemmas.SeqMods
import KVerif.Props.C12
namespace KVerif.Seq

/-! ## 0. the calls `tick` makes -/

/-- **tick_makes_these_calls** (full, for the tick-level machine of Model/Sequences.lean in a steady
state: `prev_keys` is the list of key codes down).  One `tick` does exactly what `callsOf` says for
the event at the head of the queue, followed by one `tick_sequence_state`:
* the press of a key mapped to the key code `kc` that is not yet down: `do_sequence_press_logic` for
  `kc` with the mask of all keys now down, itself included (`InpM.key kc (modMaskOf (held ++ [kc]))`;
  outside sequence mode the plain OS press), for no other key, and no all-released hook;
* a release: the OS releases of the keys that went up, the all-released hook iff no key is down any
  more while one was before (`InpM.released`), no key press;
* an empty queue: only `tick_sequence_state` (`InpM.tick`).
So a physical history is the `callsOf` stream with an `InpM.tick` after every event — one of the
interleavings the theorems below quantify over.  (`sequence-always-on` off; the virtual-key taps
queued by a completed sequence are layout events like any other.) -/
theorem tick_makes_these_calls (c : Cfg) (k : Kan)
    (hprev : k.prevKeys = k.states.filterMap KState.keycode) :
    (∀ co q kc, k.queue = .press co :: q → c.resolve co = .key kc → c.alwaysOn = false → kc ∉ k.prevKeys →
      tick c k =
        (let e0 : Eng := { st := k.seq, states := k.states ++ [.normalKey kc co], out := [] }
         match engStepM c.trie c.modcancel e0 (.key kc (modMaskOf (k.prevKeys ++ [kc]))) with
         | .error x => .error x
         | .ok e1 =>
           match tickSeq e1 with
           | .error x => .error x
           | .ok e2 =>
             .ok ({ queue := q ++ e2.taps.flatMap (fun j => [QEv.press (1, j), QEv.release (1, j)]),
                    states := e2.states, prevKeys := k.prevKeys ++ [kc], seq := e2.st }, e2.out))) ∧
    (∀ co q, k.queue = .release co :: q →
      tick c k =
        (let states' := k.states.filter (fun s => !(s.coord == co))
         let cur := states'.filterMap KState.keycode
         let e0 : Eng := { st := k.seq, states := states',
                           out := (k.prevKeys.filter (fun x => !cur.contains x)).flatMap osRelease }
         let e1 := if cur.isEmpty && !k.prevKeys.isEmpty then allReleasedHook c.trie e0 else e0
         match tickSeq e1 with
         | .error x => .error x
         | .ok e2 =>
           .ok ({ queue := q ++ e2.taps.flatMap (fun j => [QEv.press (1, j), QEv.release (1, j)]),
                  states := e2.states, prevKeys := cur, seq := e2.st }, e2.out))) ∧
    (k.queue = [] →
      tick c k =
        (match tickSeq { st := k.seq, states := k.states, out := [] } with
         | .error x => .error x
         | .ok e2 =>
           .ok ({ queue := e2.taps.flatMap (fun j => [QEv.press (1, j), QEv.release (1, j)]),
                  states := e2.states, prevKeys := k.prevKeys, seq := e2.st }, e2.out))) :=
  ⟨fun co q kc hq hres halw hnew => tick_press c k co q kc hq hres halw hprev hnew,
   fun co q hq => tick_release c k co q hq hprev,
   fun hq => tick_idle c k hq hprev⟩

/-- lsft is down, `a` is pressed: the hypotheses of the press case hold (the call is
`InpM.key 30 (modMaskOf [42, 30])` = `a` under the shift mask) -/
example :
    let c : Cfg := { trie := ⟨[([32810, 32798, 48], 0)]⟩, modcancel := true, alwaysOn := false,
                     defMode := .hiddenSuppressed, defTimeout := 5,
                     keymap := [(42, .key 42), (30, .key 30)], vkeys := [] }
    let k : Kan := { queue := [.press (0, 30)], states := [.normalKey 42 (0, 42)], prevKeys := [42],
                     seq := ({} : SeqState).activate .hiddenSuppressed 5 }
    k.prevKeys = k.states.filterMap KState.keycode ∧ c.resolve (0, 30) = .key 30 ∧ 30 ∉ k.prevKeys ∧
      modMaskOf (k.prevKeys ++ [30]) = 0x8000 := by
  decide

/-! ## 1. sequences with modifier prefixes, typed as spelled -/

/-- **parse_stores_what_typing_pushes** (full for key lists that can be typed as spelled).  For a key
list whose keys are non-modifier keys and whose prefixes are `S- C- A- M-` (left-hand) or `AG-` (= `RA-`),
nested in any way (`S-a`, `C-S-a`, `S-(a b)`, `C-(S-a b) c` …; `Item.typable`: no modifier repeated
inside its own scope, no empty list, no `O-`), the u16 word `parse_sequence_keys` stores is exactly
the word of values `do_sequence_press_logic` pushes when the list's own press/release expansion is
typed, each press arriving with the mask of the keys then down — the parser's press→press /
release→release heuristics and the run-time mask computation agree. -/
theorem parse_stores_what_typing_pushes (items : List Item) (h : Item.typableList [] items = true) :
    parseSequenceKeys items = .ok (codes (Item.eventsList items) []) ∧
    ∀ pevs : List PEv, evsOf pevs = Item.eventsList items →
      pushesOf (callsOf pevs []) = codes (Item.eventsList items) [] :=
  ⟨parseSequenceKeys_codes items h, fun pevs hp => by rw [pushesOf_callsOf, hp]⟩

/-- `(S-a b)`, `C-S-(a c)`, `A-(S-a b) c` -/
example : Item.typableList [] [.chord [42] 30, .key 48] = true ∧
    Item.typableList [] [.held [29, 42] [.key 30, .key 46]] = true ∧
    Item.typableList [] [.held [56] [.chord [42] 30, .key 48], .key 46] = true := by decide
example : codes (Item.eventsList [.held [56] [.chord [42] 30, .key 48], .key 46]) [] =
    [56 ||| 0x2000, 42 ||| 0xA000, 30 ||| 0xA000, 48 ||| 0x2000, 46] := by decide

/-- **seq_fires_once_exact** (full; every table, `O-(…)` groups included, under the two decidable
side conditions).  `s` is a stored word without overlap elements (a sequence of plain and
modifier-prefixed keys), none of its keys occurs anywhere in the table as a member of an `O-(…)`
group (`ovlFormFree`; without this the claim is false: `seq_mods_overlap_ambiguity_counterexample`),
and in the table bare markers only close groups (`markerWF`: a marker is never first and never directly
after an element without the overlap bit — decidable on the trie; it held for every accepted table
examined, but it is a hypothesis here, not derived from acceptance).
Sequence mode has just been entered.  The calls push exactly the word `s` (whatever physical typing
produces them), every key arrives before the timeout, timer ticks and all-released hooks are
interleaved arbitrarily.  Then the virtual key of `s` is tapped exactly once and nothing else is,
sequence mode ends, the hidden modes emit nothing and visible-backspaced sends the pressed keys,
releases of held ctrl/alt/gui keys, and one backspace per character key of `s` (modifier elements
are not characters) less the noerase count.  (`TrieOK`: what `accepted_prefix_free` provides.) -/
theorem seq_fires_once_exact {t : Trie Nat} (hok : TrieOK t) (hwf : markerWF t.entries = true) (mc : Bool)
    (e : Eng) (s : Key) (j : Nat) (hs : (s, j) ∈ t.entries) (hne : s ≠ [])
    (hso : ∀ x ∈ s, x &&& KEY_OVERLAP_MARKER = 0) (hfree : ovlFormFree t.entries s = true)
    (is : List InpM) (hp : pushesOf is = s)
    (ha : e.st.active = true) (hseq : e.st.sequence = []) (hovl : e.st.overlapped = [])
    (hT : 0 < e.st.timeout) (hb : e.st.ticksUntilTimeout = e.st.timeout)
    (hwt : WellTimedM e.st.timeout e.st.timeout is) :
    ∃ e', engRunM t mc e is = .ok e' ∧ e'.st.active = false ∧ e'.taps = e.taps ++ [j] ∧
      (e.st.mode ≠ .visibleBackspaced → e'.out = e.out) ∧
      (e.st.mode = .visibleBackspaced → ∃ rel : List Nat,
        e'.out = e.out ++ (keysOfM is).flatMap osPress ++ rel.flatMap osRelease ++
          bsTaps (charCount s - e.st.noerase)) := by
  obtain ⟨e', h1, h2, h3, _, h4, h5⟩ := run_exact_mixed hwf hok mc hs hso hfree is e e.st.timeout ha hb hT hT
    (by rw [hseq, hp]; rfl) (by rw [hp]; exact hne) (by rw [hovl]; intro z hz; simp at hz) hwt
  exact ⟨e', h1, h2, h3, h4, h5⟩

/-- **seq_fires_once_mods** (full for key lists typed as spelled; same two side conditions).  For
every table the parser accepts and every entry `(v, items)` of it whose key list can be typed as
spelled (`Item.typable`, see `parse_stores_what_typing_pushes`): after the leader, typing the list's
own press/release expansion — every modifier pressed before and released after the keys it covers —
with any timer ticks in between, every press arriving before the timeout, taps `v` exactly once and
nothing else, and ends sequence mode; outputs as in `seq_fires_once_exact`. -/
theorem seq_fires_once_mods (tbl : List (Nat × List Item)) (t : Trie Nat) (hacc : parseSequences tbl = .ok t)
    (hwf : markerWF t.entries = true) (v : Nat) (items : List Item) (hmem : (v, items) ∈ tbl)
    (hty : Item.typableList [] items = true)
    (hfree : ovlFormFree t.entries (codes (Item.eventsList items) []) = true)
    (mc : Bool) (e : Eng) (pevs : List PEv) (hev : evsOf pevs = Item.eventsList items)
    (ha : e.st.active = true) (hseq : e.st.sequence = []) (hovl : e.st.overlapped = [])
    (hT : 0 < e.st.timeout) (hb : e.st.ticksUntilTimeout = e.st.timeout)
    (hwt : WellTimedM e.st.timeout e.st.timeout (callsOf pevs [])) :
    ∃ e', engRunM t mc e (callsOf pevs []) = .ok e' ∧ e'.st.active = false ∧ e'.taps = e.taps ++ [v] ∧
      (e.st.mode ≠ .visibleBackspaced → e'.out = e.out) ∧
      (e.st.mode = .visibleBackspaced → ∃ rel : List Nat,
        e'.out = e.out ++ (pressedOf (Item.eventsList items)).flatMap osPress ++ rel.flatMap osRelease ++
          bsTaps (charCount (codes (Item.eventsList items) []) - e.st.noerase)) := by
  have hst := typable_stored hacc hmem hty
  have hne : codes (Item.eventsList items) [] ≠ [] := by
    intro h0
    rw [h0] at hst
    exact accepted_no_empty_key tbl t hacc v (lookup_of_mem t (accepted_prefix_free tbl t hacc) [] v hst)
  have hso := codes_no_ovl _ [] (typable_facts_list items [] hty).2 (by simp)
  have := seq_fires_once_exact (accepted_prefix_free tbl t hacc) hwf mc e _ v hst hne hso hfree
    (callsOf pevs []) (by rw [pushesOf_callsOf, hev]) ha hseq hovl hT hb hwt
  rw [keysOfM_callsOf, hev] at this
  exact this

/-- the table `(defseq v0 (S-a b) v1 (C-S-(a c)) v2 (a b) v3 (O-(d e)))` -/
def exModTable : List (Nat × List Item) :=
  [(0, [.chord [42] 30, .key 48]), (1, [.held [29, 42] [.key 30, .key 46]]), (2, [.key 30, .key 48]),
   (3, [.held [251] [.key 32, .key 18]])]

def exModTrie : Trie Nat :=
  ⟨[([1042, 1056, 1024], 3), ([1056, 1042, 1024], 3), ([30, 48], 2), ([16413, 49194, 49182, 49198], 1),
    ([32810, 32798, 48], 0)]⟩

example : parseSequences exModTable = .ok exModTrie := by rfl

/-- `C-S-(a c)` typed with the modifiers released in the other order than the list spells (shift
before ctrl): the pushed word is the stored one, virtual key 1 is tapped once -/
example : ∃ e', engRunM exModTrie false (exFresh .hiddenDelayType)
      (callsOf [.press 29, .press 42, .tick, .press 30, .release 30, .press 46, .release 46, .release 42, .release 29] [])
        = .ok e' ∧ e'.st.active = false ∧ e'.taps = [1] ∧ e'.out = [] := by
  obtain ⟨e', h1, h2, h3, h4, _⟩ := seq_fires_once_exact (t := exModTrie)
    (accepted_prefix_free exModTable exModTrie (by rfl)) (by decide) false (exFresh .hiddenDelayType)
    [16413, 49194, 49182, 49198] 1 (by decide) (by decide) (by decide) (by decide)
    (callsOf [.press 29, .press 42, .tick, .press 30, .release 30, .press 46, .release 46, .release 42, .release 29] [])
    (by decide) rfl rfl rfl (by decide) rfl (by simp [WellTimedM, callsOf, hasKey, exFresh, SeqState.activate])
  exact ⟨e', h1, h2, h3, h4 (by decide)⟩

/-- lsft↓, a↓, a↑, lsft↑ (all released), b↓ with timer ticks in between: virtual key 0 is tapped once,
nothing is typed (hidden-suppressed); the table also holds the plain `a b` and an `O-(d e)` group -/
example : ∃ e', engRunM exModTrie true (exFresh .hiddenSuppressed)
      (callsOf [.press 42, .tick, .press 30, .release 30, .tick, .release 42, .tick, .press 48, .release 48, .tick] [])
        = .ok e' ∧ e'.st.active = false ∧ e'.taps = [0] ∧ e'.out = [] := by
  obtain ⟨e', h1, h2, h3, h4, _⟩ := seq_fires_once_mods exModTable exModTrie (by rfl) (by decide) 0
    [.chord [42] 30, .key 48] (by simp [exModTable]) (by decide) (by decide) true (exFresh .hiddenSuppressed)
    [.press 42, .tick, .press 30, .release 30, .tick, .release 42, .tick, .press 48, .release 48, .tick]
    (by decide) rfl rfl rfl (by decide) rfl (by simp [WellTimedM, callsOf, hasKey, exFresh, SeqState.activate])
  exact ⟨e', h1, h2, h3, h4 (by decide)⟩

/-- **seq_right_mod_counterexample** (the expected claim is false of the code for right-hand
prefixes).  `(defseq v0 (RS-a))` is accepted and stored as `[rsft|S, a|S]`, but at run time
`do_sequence_press_logic` turns right shift/ctrl/meta into the left-hand key code before the lookup,
so no typing can ever produce the stored word: pressing rsft (or lsft) and then `a` ends sequence
mode at the first key and taps nothing, with and without `sequence-backtrack-modcancel`.  The same
holds for `RC-`, `RM-` and for a bare `rsft`/`rctl`/`rmet` inside a key list.  Replayed on the real
code: `C12 R 0 50 0 1 0 50 1 0 1 c 1 54 30 H 12 p 59 t 2 r 59 t 2 p 54 t 2 p 30 t 2 r 30 t 2 r 54 t 10`
(no virtual key; `a` is typed), whereas the same history on `c 1 42 30` (`S-a`) taps the virtual key. -/
theorem seq_right_mod_counterexample :
    parseSequences [(0, [.chord [54] 30])] = .ok ⟨[([54 ||| 0x8000, 30 ||| 0x8000], 0)]⟩ ∧
    ∀ mc : Bool, ∀ shiftKey ∈ [54, 42], ∃ e',
      engRunM ⟨[([54 ||| 0x8000, 30 ||| 0x8000], 0)]⟩ mc (exFresh .hiddenSuppressed)
        (callsOf [.press shiftKey, .press 30, .release 30, .release shiftKey] []) = .ok e' ∧
      e'.taps = [] ∧ e'.st.active = false := by
  refine ⟨by rfl, ?_⟩
  intro mc k hk
  simp only [List.mem_cons, List.not_mem_nil, or_false] at hk
  rcases hk with rfl | rfl <;> cases mc <;> exact ⟨_, by rfl, by rfl, by rfl⟩

/-- **right_hand_modifiers_never_pushed** (full; the reason behind the counterexample).  Whatever key
is pressed under whatever mask of modifier bits, the key-code part of the value pushed into the
sequence is never right shift, right ctrl or right meta — so a stored word containing one of them
(`RS-`, `RC-`, `RM-` prefixes, bare `rsft`/`rctl`/`rmet`) is never produced by typing, and the
backtracking loop, which only clears bits above the key code, cannot produce it either.  (The
left-hand prefixes `S- C- M-` on the other hand are typed with either hand.) -/
theorem right_hand_modifiers_never_pushed (k mm : Nat) (hk : k < 1024) (hm : mm &&& MASK_KEYCODES = 0) :
    pushedOf k mm &&& MASK_KEYCODES ∉ [KC_RSHIFT, KC_RCTRL, KC_RGUI] ∧
    (strip true (pushedOf k mm)) &&& MASK_KEYCODES ∉ [KC_RSHIFT, KC_RCTRL, KC_RGUI] := by
  have h1 : ∀ k, k < 1024 → normaliseMod k < 1024 ∧ normaliseMod k ∉ [KC_RSHIFT, KC_RCTRL, KC_RGUI] := by
    decide +kernel
  have h2 : pushedOf k mm &&& MASK_KEYCODES = normaliseMod k := by
    rw [pushedOf, Nat.and_or_distrib_right, hm, and_mask_of_lt _ (h1 k hk).1]; simp
  have h3 : strip true (pushedOf k mm) &&& MASK_KEYCODES = normaliseMod k := by
    simp only [strip, if_true, h2, and_mask_of_lt _ (h1 k hk).1]
  rw [h2, h3]
  exact ⟨(h1 k hk).2, (h1 k hk).2⟩

/-- `S-a b` typed with the *right* shift key: the pushed word is the stored one (`seq_fires_once_exact`) -/
example : pushesOf (callsOf [.press 54, .press 30, .release 30, .release 54, .press 48, .release 48] []) =
    [32810, 32798, 48] := by decide

/-- **seq_mods_overlap_ambiguity_counterexample** (why `seq_fires_once_mods` needs `ovlFormFree`).
`(defseq v0 (S-a b) v1 (O-(lsft a)))` is accepted (the two encodings are prefix-incomparable), but
typing `S-a b` as spelled taps `v1` when lsft is released and `b` is then typed as an ordinary key:
`v0` can never be completed by holding shift.  Replayed on the real code:
`C12 R 0 50 0 1 0 50 2 0 2 c 1 42 30 k 48 1 1 h 1 251 2 k 42 k 30 H 16 p 59 t 2 r 59 t 2 p 42 t 2 p 30 t 2 r 30 t 2 r 42 t 2 p 48 t 2 r 48 t 10`. -/
theorem seq_mods_overlap_ambiguity_counterexample :
    ∃ t, parseSequences [(0, [.chord [42] 30, .key 48]), (1, [.held [251] [.key 42, .key 30]])] = .ok t ∧
      Item.typableList [] [.chord [42] 30, .key 48] = true ∧ markerWF t.entries = true ∧
      ∃ e', engRunM t true (exFresh .hiddenSuppressed)
        (callsOf [.press 42, .press 30, .release 30, .release 42, .press 48, .release 48] []) = .ok e' ∧
        e'.taps = [1] ∧ e'.out = [.down 48] :=
  ⟨_, by rfl, by decide, by decide, _, by rfl, by rfl, by rfl⟩

/-! ## 2. the modifier-bit backtracking loop -/

/-- **seq_mod_backtracking** (full: every table, every sequence, bare markers included).
The standard variant of `do_sequence_press_logic` — look the sequence up; if it is not in the trie,
run `for i in (0..len).rev()` stripping element `i` (a bare marker is removed; another element loses
all modifier bits with `sequence-backtrack-modcancel yes`, only its overlap bit with `no`) and
looking up again, stopping at the first hit — succeeds **iff** the sequence itself or one of the
forms `btForm mc seq i` = (first `i` elements untouched) ++ (the others stripped), `i < len`, is a
stored key or a proper prefix of one; it then settles on the sequence itself, else on the form with
the **largest** such `i` (fewest elements stripped), and returns that form's lookup result; if no
form is in the trie the sequence is left fully stripped and the variant is invalid. -/
theorem seq_mod_backtracking (t : Trie Nat) (mc : Bool) (seq : List Nat) :
    ((stdVariant t mc seq).2.2 = false ↔
      viable t.entries seq = true ∨ ∃ i, i < seq.length ∧ viable t.entries (btForm mc seq i) = true) ∧
    (viable t.entries seq = true → stdVariant t mc seq = (seq, t.getOrDescendant seq, false)) ∧
    (∀ i, viable t.entries seq = false → i < seq.length → viable t.entries (btForm mc seq i) = true →
      (∀ j, i < j → j < seq.length → viable t.entries (btForm mc seq j) = false) →
      stdVariant t mc seq = (btForm mc seq i, t.getOrDescendant (btForm mc seq i), false)) ∧
    (viable t.entries seq = false → (∀ i, i < seq.length → viable t.entries (btForm mc seq i) = false) →
      stdVariant t mc seq = (btForm mc seq 0, .notInTrie, true)) := by
  have heq := stdVariant_eq t mc seq
  refine ⟨?_, ?_, ?_, ?_⟩
  · rw [heq]
    cases hv : viable t.entries seq with
    | true => simp
    | false =>
      simp only [Bool.false_eq_true, if_false, false_or]
      cases hf : btFind t mc seq seq.length with
      | none =>
        simp only [Bool.true_eq_false, false_iff, not_exists, not_and]
        intro i hi
        rw [(btFind_none.1 hf) i hi]; simp
      | some i =>
        have := btFind_some hf
        simp only [true_iff]
        exact ⟨i, this.1, this.2.1⟩
  · intro hv; rw [heq, hv]; rfl
  · intro i hv hi hvi hmax
    rw [heq, hv, btFind_of_max hi hvi hmax]; rfl
  · intro hv hall
    rw [heq, hv, btFind_none.2 hall]; rfl

/-- **backtrack_forms** (full).  What the stripped forms are: on a sequence without bare markers the
`i`-th form keeps the first `i` elements and maps the rest through `& MASK_KEYCODES` (modcancel yes)
or `& !KEY_OVERLAP_MARKER` (no); and without modcancel, on a sequence of u16 values that carry no
overlap bit — which is every sequence typed on a table without `O-(…)` groups — every form is the
sequence itself, so there the loop can never succeed: **without `sequence-backtrack-modcancel` the
standard variant finds exactly the words typed with exactly the stored modifier bits.** -/
theorem backtrack_forms (t : Trie Nat) (mc : Bool) (seq : List Nat) :
    ((∀ x ∈ seq, x ≠ KEY_OVERLAP_MARKER) → ∀ i, btForm mc seq i = seq.take i ++ (seq.drop i).map (strip mc)) ∧
    ((∀ x ∈ seq, x < 65536 ∧ x &&& KEY_OVERLAP_MARKER = 0) →
      (∀ i, btForm false seq i = seq) ∧
      stdVariant t false seq =
        if viable t.entries seq then (seq, t.getOrDescendant seq, false) else (seq, .notInTrie, true)) := by
  refine ⟨fun h i => btForm_no_marker mc seq i h, fun h => ⟨fun i => btForm_false_id seq i h, ?_⟩⟩
  rw [stdVariant_eq]
  cases hv : viable t.entries seq with
  | true => rfl
  | false => simp only [Bool.false_eq_true, if_false, btFind_false_none t seq h hv, btForm_false_id seq 0 h]

example : ∀ x ∈ [30 ||| 0x4000, 48 ||| 0x4000], x < 65536 ∧ x &&& KEY_OVERLAP_MARKER = 0 := by decide

/-- `[lctl|C, a]` typed on the table of `exModTable`: the exact word is not stored; with modcancel the
loop first strips `a` (nothing), then `lctl|C` to `lctl`, finds nothing and leaves `[lctl, a]` -/
example : stdVariant exModTrie true [29 ||| 0x4000, 30] = ([29, 30], .notInTrie, true) ∧
    btForm true [29 ||| 0x4000, 30] 1 = [29 ||| 0x4000, 30] ∧ btForm true [29 ||| 0x4000, 30] 0 = [29, 30] := by
  decide
/-- `a|C` then `b|C` (ctrl held since before the leader) on the same table: the loop strips `b|C`, then
`a|C`, and finds the plain `a b` — with modcancel; without it nothing is found -/
example : stdVariant exModTrie true [30 ||| 0x4000, 48 ||| 0x4000] = ([30, 48], .hasValue 2, false) ∧
    stdVariant exModTrie false [30 ||| 0x4000, 48 ||| 0x4000] = ([30 ||| 0x4000, 48 ||| 0x4000], .notInTrie, true) := by
  decide

/-- **press_logic_without_groups** (full for every table without `O-(…)` groups: plain keys and any
modifier prefixes; any state, any key, any modifier mask).  `do_sequence_press_logic` in closed form:
the overlap variant never finds anything; the standard variant settles on the word `stdSettle` =
the sequence itself or its first stripped form (from the back) that is in the trie
(`seq_mod_backtracking`); if there is one, both encodings become that word and its virtual key, if it
has one, is tapped (mode ends); if there is none, the fully stripped sequence loses keys from the
front until a suffix is in the trie (`lvs`) — that suffix is tracked, or completes, or, if no suffix
is left, sequence mode is cancelled.  (`hne`: `accepted_no_empty_key`.) -/
theorem press_logic_without_groups {t : Trie Nat} (hn : NoOvlTrie t)
    (hne : ∀ j, t.getOrDescendant [] ≠ .hasValue j) (mc : Bool) (e : Eng) (k mm : Nat) :
    doSeqPress t mc e k mm =
      (let b := pressBase e k
       let p := pushedOf k mm
       let w0 := e.st.sequence ++ [p]
       match stdSettle t mc w0 with
       | some w =>
         let e2 : Eng := { b with st := { b.st with sequence := w, overlapped := w } }
         match lookupKey t.entries w with
         | some j => terminate e2 j true
         | none => e2
       | none =>
         let w := lvs t.entries (btForm mc w0 0)
         let ovl' := e.st.overlapped ++
           [KEY_OVERLAP_MARKER, if p &&& MASK_KEYCODES = p then p else p &&& MASK_KEYCODES]
         let e3 : Eng := { b with st := { b.st with sequence := w, overlapped := ovl' } }
         if w.isEmpty then cancelSequence e3
         else match lookupKey t.entries w with
           | some j => terminate { e3 with st := { e3.st with overlapped := ovl' ++ [KEY_OVERLAP_MARKER] } } j false
           | none => e3) :=
  doSeqPress_noovl_eq hn hne mc e k mm

/-- the table `(defseq v0 (lsft a))`: a bare modifier key in a key list is stored without modifier
bits (`[lsft, a]`), but pressing lsft pushes `lsft|S`; only the backtracking loop with modcancel finds
it.  So this sequence fires with `sequence-backtrack-modcancel yes` and can never fire with `no`
(real code: `C12 R 0 50 0 1 0 50 1 0 2 k 42 k 30 H 12 p 59 t 2 r 59 t 2 p 42 t 2 r 42 t 2 p 30 t 2 r 30 t 10`
taps the virtual key, the same line with modcancel `0` does not). -/
example : NoOvlTrie ⟨[([42, 30], 0)]⟩ ∧
    stdSettle ⟨[([42, 30], 0)]⟩ true [pushedOf 42 0x8000] = some [42] ∧
    stdSettle ⟨[([42, 30], 0)]⟩ false [pushedOf 42 0x8000] = none ∧
    (∃ e', engRunM ⟨[([42, 30], 0)]⟩ true (exFresh .hiddenSuppressed)
      (callsOf [.press 42, .release 42, .press 30, .release 30] []) = .ok e' ∧ e'.taps = [0]) ∧
    (∃ e', engRunM ⟨[([42, 30], 0)]⟩ false (exFresh .hiddenSuppressed)
      (callsOf [.press 42, .release 42, .press 30, .release 30] []) = .ok e' ∧ e'.taps = []) :=
  ⟨by decide, by decide, by decide, ⟨_, by rfl, by rfl⟩, ⟨_, by rfl, by rfl⟩⟩

/-- **held_modifier_with_modcancel** (full for tables of plain keys).  With
`sequence-backtrack-modcancel yes`, on a table of plain keys, typing plain keys while any modifiers
are held (each press arriving with any mask of modifier bits — e.g. a modifier held since before the
leader) runs exactly as if no modifier were held: every statement of Props/C12.lean about plain
tables (`seq_fires_once_partial`, `nonmatching_key_ends_partial`) holds verbatim for such typing. -/
theorem held_modifier_with_modcancel {t : Trie Nat} (hp : PlainTrie t) (is : List InpM) (e : Eng)
    (hs : ∀ x ∈ e.st.sequence, x < 1024) (hh : PlainHeld is) :
    engRunM t true e is = engRun t true e (forgetM is) :=
  engRunM_modcancel_plain hp is e hs hh

/-- `a`, `b` typed with ctrl held (mask 0x4000) on the plain table `(defseq v0 (a b) v1 (a c d))`:
virtual key 0 is tapped once -/
example : ∃ e', engRunM exPlain true (exFresh .hiddenSuppressed) [.key 30 0x4000, .tick, .key 48 0x4000] = .ok e' ∧
    e'.st.active = false ∧ e'.taps = [0] := by
  rw [held_modifier_with_modcancel (t := exPlain) (by decide) _ _ (by simp [exFresh, SeqState.activate])
    (by simp [PlainHeld]; decide)]
  obtain ⟨e', h1, h2, h3, _⟩ := seq_fires_once_partial (t := exPlain) (by decide)
    (accepted_prefix_free exPlainTable exPlain (by rfl)) true (exFresh .hiddenSuppressed) [30] 48 0
    [.key 30, .tick] (by decide) rfl rfl (by decide) rfl rfl (by simp [WellTimed, exFresh, SeqState.activate])
  exact ⟨e', h1, h2, h3⟩

/-- **held_modifier_without_modcancel** (full for tables of plain keys).  With
`sequence-backtrack-modcancel no`, on a table of plain keys, a plain key pressed while a modifier is
held (a non-zero mask of modifier bits) cancels sequence mode at once: nothing is tapped
(hidden-delay-type then types the raw keys).  So with `no`, a plain sequence cannot be typed while
an unrelated modifier is down. -/
theorem held_modifier_without_modcancel {t : Trie Nat} (hp : PlainTrie t) (e : Eng) (k mm : Nat)
    (hk : plainKey k = true) (hs : ∀ x ∈ e.st.sequence, x < 1024)
    (hm : mm % 2048 = 0) (hm0 : mm ≠ 0) (hm16 : mm < 65536) :
    (doSeqPress t false e k mm).st.active = false ∧ (doSeqPress t false e k mm).taps = e.taps ∧
    (doSeqPress t false e k mm).out = e.out ++
      (match e.st.mode with
       | .hiddenSuppressed => []
       | .hiddenDelayType => (e.st.rawOscs ++ [k]).flatMap (fun x => osPress x ++ osRelease x)
       | .visibleBackspaced => [Out.down k]) := by
  obtain ⟨ovl, hd⟩ := doSeqPress_nomodcancel_plain hp e mm hk hs hm hm0 hm16
  have cf := cancelSequence_fields
    { pressBase e k with st := { (pressBase e k).st with sequence := [], overlapped := ovl } }
  have pf := pressBase_fields e hk
  rw [hd]
  refine ⟨cf.1, by rw [cf.2.1]; exact pf.2.1, ?_⟩
  rw [cf.2.2.2.2]
  show (pressBase e k).out ++ (if (pressBase e k).st.mode = _ then (pressBase e k).st.rawOscs.flatMap _ else []) = _
  rw [pf.2.2.2.2.2.2.2.2, pf.2.2.2.2.1, pf.2.2.2.1]
  cases e.st.mode <;> simp

example : (doSeqPress exPlain false (exFresh .hiddenSuppressed) 30 0x4000).st.active = false ∧
    (doSeqPress exPlain false (exFresh .hiddenSuppressed) 30 0x4000).taps = [] :=
  let h := held_modifier_without_modcancel (t := exPlain) (by decide) (exFresh .hiddenSuppressed) 30 0x4000
    (by decide) (by simp [exFresh, SeqState.activate]) (by decide) (by decide) (by decide)
  ⟨h.1, h.2.1⟩

/-! ## 3. `O-(…)` groups: the members typed in any order, then released -/

/-- **overlap_group_completes_partial.**
Full statement aimed at: for every accepted table, typing the members of an `O-(…)` group in any
order (each press arriving while an earlier one is still down) and releasing them taps exactly the
virtual key the table defines for that set of keys.  As it stands this is false of the code
(`overlap_group_subgroup_counterexample`, `overlap_group_plain_prefix_counterexample`,
`overlap_group_continued_counterexample`: the standard variant, which runs in parallel, may complete
something else first), so it is proved under three decidable side conditions on the table and the
typed order `ps`, and for whole-group entries `O-(k1 … kn)` of plain keys:
* `noEarly`: no proper non-empty prefix of `ps` is itself defined, neither as a plain sequence
  `p1 … pi` nor as a complete group `O-(p1 … pi)`;
* `ovlThenPlainFree`: no stored key has a group member or a marker directly followed by one of the
  plain keys `ps` (no sequence continues with one of these keys after an `O-(…)` group);
* the member keys are plain keys other than key code 0.
Proved: for every accepted table with an entry `(v, O-(k1 … kn))`, every permutation `ps` of the
members (the parser stored all of them: `group_stored`), sequence mode just entered; the calls `pre`
are the presses of `ps` in order, each with no modifier held and without an all-released hook in
between, timer ticks anywhere, every tick leaving time on the timer; then the all-released hook;
then anything without key presses.  Then `v` is tapped exactly once and nothing else, and sequence
mode ends — by the last member's press when nothing longer is possible, else by the all-released
hook; nothing is sent to the OS in the hidden modes.
Missing for the full claim: groups inside longer key lists (`a O-(b c)`, `O-(a b) c`) typed after or
before other keys, modifier keys as group members, and a weakest side condition in place of the
three above. -/
theorem overlap_group_completes_partial (tbl : List (Nat × List Item)) (t : Trie Nat)
    (hacc : parseSequences tbl = .ok t) (v : Nat) (ks : List Nat)
    (hmem : (v, [Item.held [KC_OVERLAP] (ks.map Item.key)]) ∈ tbl)
    (hks : ∀ k ∈ ks, plainKey k = true ∧ k ≠ 0) (hne : ks ≠ []) (ps : List Nat) (hperm : ps.Perm ks)
    (hadj : ovlThenPlainFree t.entries ps = true) (hearly : noEarly t.entries ps = true)
    (mc : Bool) (e : Eng) (pre post : List InpM) (hkeys : keysOfM pre = ps) (hg : GroupPresses pre)
    (hpost : hasKey post = false)
    (ha : e.st.active = true) (hseq : e.st.sequence = []) (hovl : e.st.overlapped = [])
    (hT : 0 < e.st.timeout) (hb : e.st.ticksUntilTimeout = e.st.timeout)
    (hwt : WellTimedAll e.st.timeout e.st.timeout pre) :
    ∃ e', engRunM t mc e (pre ++ [.released] ++ post) = .ok e' ∧ e'.st.active = false ∧
      e'.taps = e.taps ++ [v] ∧ (e.st.mode ≠ .visibleBackspaced → e'.out = e.out) := by
  have hok := accepted_prefix_free tbl t hacc
  have hst := group_stored hacc hmem hks hne ps hperm
  have hpl : ∀ p ∈ ps, plainKey p = true ∧ p ≠ 0 := fun p hp => hks p ((hperm.mem_iff).1 hp)
  obtain ⟨e', h1, h2, h3, h4⟩ := group_run hok hadj hst hpl hearly mc pre e [] e.st.timeout ha hb hT hT
    (by simpa using hkeys) hg (by simpa using hovl) (Or.inl hseq) hwt
  refine ⟨e', ?_, h2, h3, h4⟩
  rw [engRunM_append, h1]
  exact engRunM_idle t mc post e' h2 hpost

/-- **overlap_group_completes_typed_partial**: the same over physical key events — all members
pressed in the order `ps` (events `A`), then all released in any order `qs` (events `B`), timer ticks
anywhere. -/
theorem overlap_group_completes_typed_partial (tbl : List (Nat × List Item)) (t : Trie Nat)
    (hacc : parseSequences tbl = .ok t) (v : Nat) (ks : List Nat)
    (hmem : (v, [Item.held [KC_OVERLAP] (ks.map Item.key)]) ∈ tbl)
    (hks : ∀ k ∈ ks, plainKey k = true ∧ k ≠ 0) (hne : ks ≠ []) (ps : List Nat) (hperm : ps.Perm ks)
    (hnd : ps.Nodup)
    (hadj : ovlThenPlainFree t.entries ps = true) (hearly : noEarly t.entries ps = true)
    (mc : Bool) (e : Eng) (A B : List PEv) (qs : List Nat)
    (hA : evsOf A = ps.map Ev.press) (hB : evsOf B = qs.map Ev.release) (hq : qs.Perm ps)
    (ha : e.st.active = true) (hseq : e.st.sequence = []) (hovl : e.st.overlapped = [])
    (hT : 0 < e.st.timeout) (hb : e.st.ticksUntilTimeout = e.st.timeout)
    (hwt : WellTimedAll e.st.timeout e.st.timeout (callsOf (A ++ B) [])) :
    ∃ e', engRunM t mc e (callsOf (A ++ B) []) = .ok e' ∧ e'.st.active = false ∧
      e'.taps = e.taps ++ [v] ∧ (e.st.mode ≠ .visibleBackspaced → e'.out = e.out) := by
  have hmask : ∀ k ∈ ps, modMask k = 0 := fun k hk => plainKey_modMask (hks k ((hperm.mem_iff).1 hk)).1
  have hpne : ps ≠ [] := by
    intro h0; rw [h0] at hperm; exact hne (hperm.nil_eq).symm
  obtain ⟨hg, hk, hheld⟩ := callsOf_presses A ps [] hA (by simp) hmask
  obtain ⟨T1, T2, hc, hg1, hk1, hk2⟩ := callsOf_releases B qs ps hB hq hnd hpne
  have hcalls : callsOf (A ++ B) [] = (callsOf A [] ++ T1) ++ [.released] ++ T2 := by
    rw [callsOf_append, hheld, List.nil_append, hc]; simp
  rw [hcalls] at hwt ⊢
  exact overlap_group_completes_partial tbl t hacc v ks hmem hks hne ps hperm hadj hearly mc e
    (callsOf A [] ++ T1) T2 (by rw [keysOfM_append, hk, hk1]; simp) (GroupPresses_append _ _ hg hg1) hk2
    ha hseq hovl hT hb
    (WellTimedAll_append_left _ _ [.released] _ (WellTimedAll_append_left _ _ T2 _ hwt))

/-- the table `(defseq v0 (O-(a b c)) v1 (a b x))` -/
def exGroupTable : List (Nat × List Item) :=
  [(0, [.held [251] [.key 30, .key 48, .key 46]]), (1, [.key 30, .key 48, .key 45])]

def exGroupTrie : Trie Nat :=
  ⟨[([30, 48, 45], 1), ([1070, 1072, 1054, 1024], 0), ([1072, 1070, 1054, 1024], 0), ([1054, 1070, 1072, 1024], 0),
    ([1070, 1054, 1072, 1024], 0), ([1072, 1054, 1070, 1024], 0), ([1054, 1072, 1070, 1024], 0)]⟩

example : parseSequences exGroupTable = .ok exGroupTrie := by rfl

/-- `c`, `a`, `b` pressed in this order (each while the previous ones are down), then released in the
order `a c b`: virtual key 0 is tapped once.  The order `a b c` works too although `a b` is the
beginning of the plain sequence `a b x` — nothing *defined* is a proper prefix. -/
example : ∃ e', engRunM exGroupTrie true (exFresh .hiddenSuppressed)
      (callsOf ([.press 46, .tick, .press 30, .press 48, .tick] ++ [.release 30, .tick, .release 46, .release 48, .tick]) [])
        = .ok e' ∧ e'.st.active = false ∧ e'.taps = [0] ∧ e'.out = [] := by
  obtain ⟨e', h1, h2, h3, h4⟩ := overlap_group_completes_typed_partial exGroupTable exGroupTrie (by rfl) 0
    [30, 48, 46] (by simp [exGroupTable, KC_OVERLAP]) (by decide) (by decide) [46, 30, 48] (by decide) (by decide)
    (by decide) (by decide) true (exFresh .hiddenSuppressed)
    [.press 46, .tick, .press 30, .press 48, .tick] [.release 30, .tick, .release 46, .release 48, .tick]
    [30, 46, 48] (by decide) (by decide) (by decide) rfl rfl rfl (by decide) rfl
    (by simp [WellTimedAll, callsOf, exFresh, SeqState.activate])
  exact ⟨e', h1, h2, h3, h4 (by decide)⟩

example : noEarly exGroupTrie.entries [30, 48, 46] = true ∧ ovlThenPlainFree exGroupTrie.entries [30, 48, 46] = true := by
  decide

/-- **overlap_group_subgroup_counterexample** (why `noEarly` is needed, group half).
`(defseq v0 (O-(a b)) v1 (O-(a b c)))` is accepted; pressing `a`, `b`, `c` (all held) taps `v0` at the
press of `b` and `c` is typed as an ordinary key: `v1` can only be typed in the orders that do not
begin with `a b` / `b a` (e.g. `c b a` taps `v1`).  Replayed on the real code:
`C12 R 0 50 0 1 0 50 2 0 1 h 1 251 2 k 30 k 48 1 1 h 1 251 3 k 30 k 48 k 46 H 16 p 59 t 2 r 59 t 2 p 30 t 2 p 48 t 2 p 46 t 2 r 30 t 1 r 48 t 1 r 46 t 10`. -/
theorem overlap_group_subgroup_counterexample :
    ∃ t, parseSequences [(0, [.held [251] [.key 30, .key 48]]), (1, [.held [251] [.key 30, .key 48, .key 46]])] = .ok t ∧
      (∃ e', engRunM t true (exFresh .hiddenSuppressed) [.key 30 0, .key 48 0, .key 46 0, .released] = .ok e' ∧
        e'.taps = [0] ∧ e'.out = [.down 46]) ∧
      (∃ e', engRunM t true (exFresh .hiddenSuppressed) [.key 46 0, .key 48 0, .key 30 0, .released] = .ok e' ∧
        e'.taps = [1]) :=
  ⟨_, by rfl, ⟨_, by rfl, by rfl, by rfl⟩, ⟨_, by rfl, by rfl⟩⟩

/-- **overlap_group_plain_prefix_counterexample** (why `noEarly` is needed, plain half).
`(defseq v0 (a) v1 (O-(a b)))` is accepted; pressing `a` then `b` taps `v0` at once; only `b` then `a`
taps `v1`.  Replayed on the real code:
`C12 R 0 50 0 1 0 50 2 0 1 k 30 1 1 h 1 251 2 k 30 k 48 H 12 p 59 t 2 r 59 t 2 p 30 t 2 p 48 t 2 r 30 t 1 r 48 t 10`. -/
theorem overlap_group_plain_prefix_counterexample :
    ∃ t, parseSequences [(0, [.key 30]), (1, [.held [251] [.key 30, .key 48]])] = .ok t ∧
      (∃ e', engRunM t true (exFresh .hiddenSuppressed) [.key 30 0, .key 48 0, .released] = .ok e' ∧ e'.taps = [0]) ∧
      (∃ e', engRunM t true (exFresh .hiddenSuppressed) [.key 48 0, .key 30 0, .released] = .ok e' ∧ e'.taps = [1]) :=
  ⟨_, by rfl, ⟨_, by rfl, by rfl⟩, ⟨_, by rfl, by rfl⟩⟩

/-- **overlap_group_continued_counterexample** (why `ovlThenPlainFree` is needed).
`(defseq v0 (O-(a b) c) v1 (O-(a b c d)))` is accepted; pressing `a b c d` (all held) taps `v0` at the
press of `c`.  Replayed on the real code:
`C12 R 0 50 0 1 0 50 2 0 2 h 1 251 2 k 30 k 48 k 46 1 1 h 1 251 4 k 30 k 48 k 46 k 32 H 20 p 59 t 2 r 59 t 2 p 30 t 2 p 48 t 2 p 46 t 2 p 32 t 2 r 30 t 1 r 48 t 1 r 46 t 1 r 32 t 10`. -/
theorem overlap_group_continued_counterexample :
    ∃ t, parseSequences [(0, [.held [251] [.key 30, .key 48], .key 46]),
        (1, [.held [251] [.key 30, .key 48, .key 46, .key 32]])] = .ok t ∧
      noEarly t.entries [30, 48, 46, 32] = true ∧
      ∃ e', engRunM t true (exFresh .hiddenSuppressed) [.key 30 0, .key 48 0, .key 46 0, .key 32 0, .released] = .ok e' ∧
        e'.taps = [0] :=
  ⟨_, by rfl, by decide, _, by rfl, by rfl⟩

end KVerif.Seq
