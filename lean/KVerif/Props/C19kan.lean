/-
C19 in the composed kanata-level model (Model/Kanata.lean + Model/KanataDyn.lean +
Model/KanataDynTick.lean): the last clause of C19, "so it produces the same output as typing them
again", lifted from the stand-alone glue model of Props/C19.lean to the model of `Kanata` that the
KAN correspondence check compares tick by tick with the real code.

Proved here
* `replay_feeds_layout_what_was_typed_kan`: record, type any history below the limit, stop with any
  truncation; with no replay running let the play action fire and let `tick_ms(1)` run long enough:
  the sequence of `layout.event` calls made by the replay is exactly the press/release projection of
  what was typed (minus the stop key and the truncated events) followed by one release per key left
  down; nothing is dropped by the `extra_ticks` loop.  Partial in one respect, named in the
  statement: the replay phase runs inside a *frame* (`K.DynFrame`: a set of kanata states closed
  under `tick_states` in which `tick_states` leaves the dynamic-macro state alone); the states with
  the other kanata-level components at rest and ANY layout are a frame (`K.dynFrame_rest`).  The
  recording phase is the unit functions `beginRecord` / `recordAll` / `stopMacro`, which the hooks
  `K.Dyn.recordPress` / `recordRelease` / `tickRecord` / `doAct` call literally.
* `replay_ends_released_kan`: when such a replay is over, every press it handed to the layout was
  followed by a release of the same key.
* `idle_implies_no_replay`, `replay_never_blocks`: `is_idle` is false, and the processing loop never
  blocks, while a replay is in progress; `recording_not_covered_by_idle`: `is_idle` does not look at the
  record state although a tick advances the recording's delay counter; `recording_never_blocks`:
  `can_block_update_idle_waiting` (after fix ccfb98e) therefore refuses to block while recording.
NOT proved (missing part named): `replay_same_os_output_kan` - that on the layered fragment
(`C04.CfgFrag`) the OS key events produced during the replay equal those produced by typing the
history again.  What is missing is the composition of `replay_feeds_layout_what_was_typed_kan` with
`C04.layered_refines` (output depends only on the order of events, one per tick) through
`handle_keystate_changes`' key diffing: the replay feeds at most one event per `tick_states` call
(`replayFeed` after every `tickStates`) and the layout's queue is empty between them once the gaps
are >= 1, but the lemma "OS output of `tickStates` = diff of the layout's key codes" exists only as
`C07.handleKeystateChanges_rest` (existential output); it has to be made exact first.  The
same-output clause stays checked differentially (C19 K cases, and every KAN case of the composed
model: OS events per tick).
-/
import KVerif.Lemmas.KanataDynReplay
import KVerif.Props.C19
namespace KVerif.C19kan
open KVerif KVerif.K KVerif.L KVerif.DynMacro

/-- the replay phase, for any stored macro: with no replay running, the play action fires
(`Dyn.doAct (.play id)`, the `CustomAction::DynamicMacroPlay` arm), then `n` calls of `tick_ms(1)`
with `n` at least the countdown measure `mu` of the macro: the replay is over, the events handed to
`layout.event` are exactly the macro's key events in order, and the `extra_ticks` loop dropped none. -/
theorem replay_feeds_stored_macro_kan {S : KState → Prop} (hS : DynFrame S) (k k' : KState) (id : Nat)
    (items : List Item) (d1 : Dyn) (n : Nat) (hk : S k)
    (hidle : k.dyn.rep = none) (hst : k.dyn.store.get id = some items)
    (hplay : k.dyn.doAct (.play id) = .ok d1)
    (hrun : ticksMs n { k with dyn := d1 } = .ok k')
    (hn : mu k.dyn.beh (some ⟨[id], 0, items⟩) ≤ n) :
    k'.dyn.rep = none ∧ k'.dyn.fed = k.dyn.fed ++ evsQ items ∧ k'.dyn.lost = k.dyn.lost ∧
      k'.dyn.store = k.dyn.store := by
  have hd1 : d1 = { k.dyn with rep := some ⟨[id], 0, items⟩ } := by
    simp only [Dyn.doAct, playMacro, hidle, hst] at hplay
    injection hplay with hplay
    exact hplay.symm
  subst hd1
  have hS1 : S { k with dyn := { k.dyn with rep := some ⟨[id], 0, items⟩ } } :=
    hS.put k k.layout _ hk rfl
  obtain ⟨_, b2, b3, b4⟩ := ticksMs_spec hS n _ k' hS1 hrun
  have hmu : mu k.dyn.beh k'.dyn.rep = 0 := by
    have : mu k.dyn.beh k'.dyn.rep ≤ mu k.dyn.beh (some ⟨[id], 0, items⟩) - n := b4
    omega
  have hrep := mu_eq_zero _ _ hmu
  refine ⟨hrep, ?_, b2.2.2.2.2.1, b2.2.1⟩
  rw [hrep] at b3
  simpa [planOf] using b3

/-- **replay_feeds_layout_what_was_typed_kan** (partial only in that the replay phase runs inside a
frame, see the file header; `K.dynFrame_rest` is one).  Start a recording of macro `id`, let any
history `evs` of presses, releases and ticks go by (below the limit), stop with truncation `t` - the
store of the composed state `k` is what these calls leave (`hrec`).  With no replay running, play
`id` and let `tick_ms(1)` run `n >= mu` times.  Then the `layout.event` calls made by the replay are,
in order: the key events typed, without the last one (the stop key) and without `t` more
(`evsQ (specBody t evs)`), then one release for each key these leave down (`tail`, a permutation of
`leftDown`); the replay is over and nothing was dropped. -/
theorem replay_feeds_layout_what_was_typed_kan {S : KState → Prop} (hS : DynFrame S) (k k' : KState)
    (fix : Bool) (hint hint' : List Nat) (max id t : Nat) (st : Store) (evs : List RecEv)
    (hlim : keyCount evs ≤ 2 * max + 2) (hne : fix = true ∨ keyCount evs ≠ 0)
    (hrec : (do let (r0, _) ← beginRecord fix hint id none
                let (r1, st1) := recordAll hint max (r0, st) evs
                let (r2, sv) ← stopMacro fix hint' t r1
                pure (r2, st1.save sv)) = .ok (k.dyn.rcd, k.dyn.store))
    (d1 : Dyn) (n : Nat) (hk : S k) (hidle : k.dyn.rep = none)
    (hplay : k.dyn.doAct (.play id) = .ok d1)
    (hrun : ticksMs n { k with dyn := d1 } = .ok k')
    (hn : ∀ items, k.dyn.store.get id = some items → mu k.dyn.beh (some ⟨[id], 0, items⟩) ≤ n) :
    ∃ tail : List Nat, tail.Perm (leftDown (specBody t evs)) ∧
      k'.dyn.rep = none ∧ k'.dyn.lost = k.dyn.lost ∧
      k'.dyn.fed = k.dyn.fed ++ evsQ (specBody t evs) ++ tail.map (fun o => ⟨false, o⟩) := by
  obtain ⟨tail, h1, h2⟩ := DynMacro.replay_is_recorded fix hint hint' max id t st evs hlim hne
  rw [h1] at hrec
  injection hrec with hrec
  injection hrec with _ hstore
  have hget : k.dyn.store.get id = some (specBody t evs ++ tail.map (Item.release · 0)) := by
    rw [← hstore, Store.get_insert]; simp
  obtain ⟨r1, r2, r3, _⟩ := replay_feeds_stored_macro_kan hS k k' id _ d1 n hk hidle hget hplay hrun (hn _ hget)
  refine ⟨tail, h2, r1, r3, ?_⟩
  rw [r2, evsQ_append, evsQ_releases, List.append_assoc]

/-- **replay_ends_released_kan**: a macro stored by the record functions is balanced
(`unreleased items = []`: `unreleased_addReleases`); when its replay is over (same setting as above),
every press the replay handed to the layout is followed by a release of the same key, also handed to
the layout by the replay. -/
theorem replay_ends_released_kan {S : KState → Prop} (hS : DynFrame S) (k k' : KState) (id : Nat)
    (items : List Item) (d1 : Dyn) (n : Nat) (hk : S k)
    (hidle : k.dyn.rep = none) (hst : k.dyn.store.get id = some items)
    (hbal : unreleased items = [])
    (hplay : k.dyn.doAct (.play id) = .ok d1)
    (hrun : ticksMs n { k with dyn := d1 } = .ok k')
    (hn : mu k.dyn.beh (some ⟨[id], 0, items⟩) ≤ n) :
    ∃ replayed, k'.dyn.fed = k.dyn.fed ++ replayed ∧ k'.dyn.rep = none ∧
      ∀ pre post x, replayed = pre ++ ⟨true, x⟩ :: post → (⟨false, x⟩ : KeyEv) ∈ post := by
  obtain ⟨r1, r2, _, _⟩ := replay_feeds_stored_macro_kan hS k k' id items d1 n hk hidle hst hplay hrun hn
  refine ⟨evsQ items, r2, r1, ?_⟩
  intro pre post x hf
  unfold unreleased at hbal
  rw [scan_eq_scanEv] at hbal
  false_or_by_contra
  rename_i hc
  have hx : x ∈ scanEv [] (evsQ items) := (mem_scanEv_iff x [] _).mpr (.inl ⟨pre, post, hf, hc⟩)
  simp [hbal] at hx

/-- every macro the stop action stores is balanced, whatever was recorded -/
theorem stored_macro_balanced (fix : Bool) (hint : List Nat) (n : Nat) (r : Option Rec) (r' : Option Rec)
    (id : Nat) (items : List Item) (h : stopMacro fix hint n r = .ok (r', some (id, items))) :
    unreleased items = [] := by
  cases r with
  | none => simp [stopMacro] at h
  | some st =>
    simp only [stopMacro] at h
    split at h
    · cases h
    · injection h with h; injection h with _ h; injection h with h; injection h with _ h
      rw [← h]; exact unreleased_addReleases _ _

/-- **idle_implies_no_replay** (full): what `is_idle` checks of the dynamic-macro state - exactly
that no replay is in progress; it is the conjunction of the other conjuncts (`isIdleBase`) and
`dynamic_macro_replay_state.is_none()`. -/
theorem idle_implies_no_replay (k : KState) :
    (isIdle k = true ↔ isIdleBase k = true ∧ k.dyn.rep = none) ∧
    (isIdle k = true → tickReplayK k = (k, none)) := by
  constructor
  · simp [isIdle, Option.isNone_iff_eq_none]
  · intro h
    have : k.dyn.rep = none := by
      simp only [isIdle, Bool.and_eq_true, Option.isNone_iff_eq_none] at h; exact h.2
    simp only [tickReplayK, this]

/-- **replay_never_blocks** (full): while a replay is in progress the processing loop does not block
and the idle clock is held at zero. -/
theorem replay_never_blocks (k : KState) (ms : Nat) (r : Replay) (h : k.dyn.rep = some r) :
    (canBlockUpdateIdleWaiting k ms).2 = false ∧ (canBlockUpdateIdleWaiting k ms).1.ticksSinceIdle = 0 := by
  have : isIdle k = false := by simp [isIdle, h]
  simp [canBlockUpdateIdleWaiting, this]

/-- a state in which a recording is on and everything else is at rest -/
def recordingWitness : KState :=
  { layout := { cfg := { layers := [[]], srcKeys := [] } }, customs := [], keyOutputs := [[]],
    mods := { codes := [42, 54, 56, 100, 29, 97, 125, 126], lsft := 42, rsft := 54 },
    dyn := { rcd := some { id := 1, waiting := some (30, .press), items := [], delay := 7 } } }

/-- **recording_never_blocks** (full; the code after fix ccfb98e): while a macro is being recorded
`can_block_update_idle_waiting` answers false, whatever else holds - ticks keep coming, so the
recording's delay counter keeps counting. -/
theorem recording_never_blocks (k : KState) (ms : Nat) (r : Rec) (h : k.dyn.rcd = some r) :
    (canBlockUpdateIdleWaiting k ms).2 = false := by
  cases hi : isIdle k <;> cases hc : (!k.waitingForIdle.isEmpty || k.liveReloadRequested) <;>
    simp [canBlockUpdateIdleWaiting, hi, hc, h]

/-- **recording_not_covered_by_idle** (why that conjunct is needed): `is_idle` itself does not look
at the record state.  In `recordingWitness` kanata is idle, yet one more `tick_states` changes the
state: the recording's `current_delay` goes from 7 to 8 - before ccfb98e the loop could block here and
the delays recorded for a macro left out the time kanata spent blocked; with the conjunct it does
not block. -/
theorem recording_not_covered_by_idle :
    isIdle recordingWitness = true ∧ (canBlockUpdateIdleWaiting recordingWitness 1).2 = false ∧
    (match tickStates recordingWitness with
     | .ok k' => k'.dyn.rcd.map (·.delay)
     | .error _ => none) = some 8 := by
  refine ⟨by rfl, by rfl, by rfl⟩

/-! ### non-vacuity -/

/-- one plain key `a` (30) that outputs `a`; macro 1 = tap `a` with recorded delays 3 and 2 -/
def sampleK : KState :=
  { layout := { cfg := { layers := [[((0, 30), .keyCode 30)]], srcKeys := [(30, .keyCode 30)] } },
    customs := [], keyOutputs := [[(30, [30])]],
    mods := { codes := [42, 54, 56, 100, 29, 97, 125, 126], lsft := 42, rsft := 54 },
    dyn := { store := [(1, [.press 30 3, .release 30 2])] } }

example : C07.KRest sampleK := ⟨rfl, rfl, rfl, rfl, rfl, rfl, rfl, rfl, rfl, rfl, rfl, rfl, rfl, rfl, rfl, rfl⟩

/-- the hypotheses of `replay_feeds_stored_macro_kan` / `replay_ends_released_kan` are met by
`sampleK` with 10 ticks, and the conclusion is what one expects: press then release of key 30 fed -/
def sampleD1 : Dyn := { sampleK.dyn with rep := some ⟨[1], 0, [.press 30 3, .release 30 2]⟩ }

example : sampleK.dyn.doAct (.play 1) = .ok sampleD1 ∧
    sampleK.dyn.store.get 1 = some [.press 30 3, .release 30 2] ∧
    unreleased [.press 30 3, .release 30 2] = [] ∧
    mu sampleK.dyn.beh (some ⟨[1], 0, [.press 30 3, .release 30 2]⟩) ≤ 10 := by
  refine ⟨rfl, rfl, rfl, by decide⟩

/- (that the run of this very state exists and ends with `fed = [press 30, release 30]`, OS output
`d30 u30`, is among the KAN cases the C19 check runs on the model and on the real code; evaluating
`tick_states` of the full kanata model inside the kernel is too slow for an `example`) -/

/-- the recording hypothesis of `replay_feeds_layout_what_was_typed_kan`: begin 1; press a, 3 ticks,
release a, 2 ticks, press the stop key; stop - stores the tap of `a` -/
example : (do let (r0, _) ← beginRecord true [] 1 none
              let (r1, st1) := recordAll [] 128 (r0, []) [.press 30, .tick, .tick, .tick, .release 30, .tick, .tick, .press 50]
              let (r2, sv) ← stopMacro true [] 0 r1
              pure (r2, st1.save sv)) = .ok (sampleK.dyn.rcd, sampleK.dyn.store) := by rfl

example : isIdle sampleK = true ∧ isIdle { sampleK with dyn := { rep := some ⟨[1], 0, []⟩ } } = false := by
  constructor <;> rfl

end KVerif.C19kan
