/-
C16 — configuration abstractions are transparent: indirection never changes behaviour.
Property theorems only; helper lemmas are in KVerif/Lemmas/CfgTree*.lean, the model in
KVerif/Model/CfgTree.lean.

What is proved here is the transparency of the *indirection layer itself* (variables, templates and
their conditionals, include, platform, alias table, the two layer fillers), for all trees and
configurations, by induction, with no size bound.  "Accepted iff / behaves identically for the whole
parser" additionally needs every argument parser to look at its input only through the resolved
view; that is not provable without modelling all of them and is discharged by the paired runs of the
correspondence check (harness/src/c16.rs), with the sites known to bypass variables regenerated from
the source (`bypass_sites_classified`).
-/
import KVerif.Lemmas.CfgTreeTop
import KVerif.Lemmas.CfgTreeLayer
import KVerif.Lemmas.CfgTreeVars
import KVerif.Lemmas.CfgTreeCond
import KVerif.Lemmas.CfgTreeExpand
import KVerif.Lemmas.CfgTreeSubst
import KVerif.Gen.BypassSites
namespace KVerif.CfgTree

/-! ## Sites that bypass variables -/

/-- **bypass_sites_classified**: every parser function that the translator finds looking at an
s-expression without variable resolution (`.atom(None)`, `.list(None)`, pattern matches on
`SExpr::Atom/List`; regenerated from the source on every run) is classified in `bypassClass`, and
nothing is classified that is not there.  A new such site in the parser makes this fail until
somebody decides what it means for the applicable rewrite sites. -/
theorem bypass_sites_classified :
    (KVerif.Gen.bypassFns.all fun f => (bypassClass.map (·.1)).contains f) = true ∧
    ((bypassClass.map (·.1)).all fun f => KVerif.Gen.bypassFns.contains f) = true := by
  decide

/-! ## defvar -/

/-- **defvar_neutral** (full).  Take any expression `C[e]`, give the subexpression `e` a name — a
fresh variable `v` that nothing mentions — and write `$v` in its place.  Then the rewritten
expression has a resolved view exactly when the original has one, and it is the same view.  (The
resolved view is what every consumer obtains through `SExpr::atom(vars)` / `SExpr::list(vars)`.) -/
theorem defvar_neutral (vars : Vars) (v : Str) (e : Tree) (hfresh : lookup v vars = none)
    (hv : NoRefVars v vars) (he : NoRef v e) (c : Ctx) (hc : c.NoRef v) (r : Tree) :
    Resolves (vars ++ [(v, e)]) (c.plug (.atom ('$' :: v))) r ↔ Resolves vars (c.plug e) r := by
  constructor
  · rintro ⟨f, h⟩
    exact ⟨f, resolve_defvar_bwd vars v e hfresh hv he c hc f r h⟩
  · rintro ⟨f, h⟩
    exact ⟨f + 1, resolve_defvar_fwd vars v e hfresh hv he c hc f r h⟩

example : Resolves [("t".toList, .atom "200".toList), ("h".toList, .atom "lsft".toList)]
    (.list [.atom "tap-hold".toList, .atom "$t".toList, .atom "$t".toList, .atom "a".toList, .atom "$h".toList])
    (.list [.atom "tap-hold".toList, .atom "200".toList, .atom "200".toList, .atom "a".toList, .atom "lsft".toList]) :=
  ⟨3, by decide⟩

/-- **defvar_unobservable** (full): the congruence closure — no consumer that is a function of the
resolved view can tell the rewritten expression from the original. -/
theorem defvar_unobservable {β} (consumer : Tree → β) (vars : Vars) (v : Str) (e : Tree)
    (hfresh : lookup v vars = none) (hv : NoRefVars v vars) (he : NoRef v e) (c : Ctx)
    (hc : c.NoRef v) (r1 r2 : Tree)
    (h1 : Resolves (vars ++ [(v, e)]) (c.plug (.atom ('$' :: v))) r1)
    (h2 : Resolves vars (c.plug e) r2) : consumer r1 = consumer r2 := by
  have := (defvar_neutral vars v e hfresh hv he c hc r1).mp h1
  rw [Resolves.unique this h2]

/-- **defvar_total** (full): with an acyclic variable graph — a rank under which every value only
mentions bound variables of smaller rank — everything has a resolved view, i.e. the recursion of
`atom(vars)` / `list(vars)` ends.  A variable may mention variables defined later. -/
theorem defvar_total (vars : Vars) (hac : Acyclic vars) (t : Tree) : ∃ r, Resolves vars t r :=
  resolves_of_acyclic vars hac t

example : Acyclic [(['a'], .atom ['$', 'b']), (['b'], .atom ['1'])] := by
  refine ⟨fun n => if n = ['a'] then 1 else 0, ?_⟩
  intro n e hl m e' hm _
  by_cases hn : n = ['a']
  · subst hn
    have : e = .atom ['$', 'b'] := by simpa [lookup] using hl.symm
    subst this
    have : m = ['b'] := by simpa [atomsOfTree] using hm
    subst this
    decide
  · by_cases hb : n = ['b']
    · subst hb
      have : e = .atom ['1'] := by simpa [lookup] using hl.symm
      subst this
      simp [atomsOfTree] at hm
    · have h1 : ¬ (['a'] : Str) = n := fun h => hn h.symm
      have h2 : ¬ (['b'] : Str) = n := fun h => hb h.symm
      simp [lookup, h1, h2] at hl

/-- **defvar_cycle_diverges** (the hypothesis of `defvar_total` is needed): `(defvar a $a)` has no
resolved view for any amount of fuel — the real accessors recurse until the stack overflows. -/
theorem defvar_cycle_diverges (a : Str) (f : Nat) :
    resolve f [(a, .atom ('$' :: a))] (.atom ('$' :: a)) = none := by
  induction f with
  | zero => rfl
  | succ f ih => simpa [resolve, varRef, varName?, lookup] using ih

/-! ## Templates -/

/-- **template_call_is_body** (full, on the substitution semantics).  Anywhere in a configuration
that is not inside the arguments of another call, `(template-expand name a₁…aₙ)` and the
instantiated body — parameters substituted, `concat` and the conditionals evaluated — spliced in its
place expand to the same thing. -/
theorem template_call_is_body (T : List Template) (l repl : List Tree)
    (hh : isExpandHead l = true) (hi : instantiate T l = .ok repl) (c : FCtx) (hc : c.Plain)
    (r : List Tree) : Expands T (c.fill [.list l]) r ↔ Expands T (c.fill repl) r :=
  Expands.fill_call hh hi c hc r

/-- **template_abstraction** (full, one parameter).  Abstracting a subexpression `e` of a shape
`C[e]` into a parameter and calling the template with `e` gives the shape back: the call
instantiates to `C[e]`.  Hypotheses: the parameter name is not used in the shape, and the shape has
no `concat` list and no conditional form of its own (those are evaluated at instantiation — see the
findings about `concat`). -/
theorem template_abstraction (T : List Template) (name p kwd : Str) (c : Ctx) (e : Tree)
    (hT : findTemplate name T =
      some { name := name, params := [p], content := [c.plug (.atom ('$' :: p))] })
    (hc : c.NoRef p) (hnc : noConcatTree (c.plug e) = true) (hnf : nfcTree (c.plug e) = true) :
    instantiate T [.atom kwd, .atom name, e] = .ok [c.plug e] := by
  simp only [instantiate, hT, List.length_cons, List.length_nil, ne_eq, not_true_eq_false,
    if_false, substList, substTree_plug p e c hc]
  rw [concatList, concatTree_id _ hnc, concatList]
  exact condLoop_nfc _ _ (by simp [nfcList, hnf])

/-- **expand_is_subst_partial.**  Full statement (not provable, and false when a template produces
the keyword `template-expand` at the head of a list: the loop re-scans a list only when a sibling
elsewhere forces another iteration, the substitution semantics never does):
`(∃ F, expandLoop F T ts = .ok r) ↔ (∃ f, expandSpec f T ts = .ok r)`.
Proved: completeness of the loop of `expand` for every *fully expanded* result — if substituting
template bodies for their calls, everywhere and recursively, yields `r` and `r` contains no
unexpanded call, then `expand` terminates with exactly `r`.  Missing: the converse direction and the
agreement of the two on errors. -/
theorem expand_is_subst_partial (T : List Template) (ts r : List Tree) (h : Expands T ts r)
    (hn : nfList r = true) : ∃ F, expandLoop F T ts = .ok r := by
  obtain ⟨f, h⟩ := h
  exact expandLoop_complete T f ts r h hn

/-- **template_rewrite_neutral_partial**: putting the pieces together for the rewrite "a shape →
a template call".  If the configuration with the shape written out expands (substitution semantics)
to the fully expanded `r`, then the real loop expands BOTH the original configuration and the one
with the call `(t! name e)` to `r`.  (Partial for the reason given at `expand_is_subst_partial`.) -/
theorem template_rewrite_neutral_partial (T : List Template) (name p kwd : Str) (c : Ctx) (e : Tree)
    (hk : isExpandHead [.atom kwd, .atom name, e] = true)
    (hT : findTemplate name T =
      some { name := name, params := [p], content := [c.plug (.atom ('$' :: p))] })
    (hc : c.NoRef p) (hnc : noConcatTree (c.plug e) = true) (hnf : nfcTree (c.plug e) = true)
    (fc : FCtx) (hfc : fc.Plain) (r : List Tree)
    (h : Expands T (fc.fill [c.plug e]) r) (hn : nfList r = true) :
    (∃ F, expandLoop F T (fc.fill [c.plug e]) = .ok r) ∧
    (∃ F, expandLoop F T (fc.fill [.list [.atom kwd, .atom name, e]]) = .ok r) := by
  refine ⟨expand_is_subst_partial T _ r h hn, expand_is_subst_partial T _ r ?_ hn⟩
  exact (template_call_is_body T _ _ hk
    (template_abstraction T name p kwd c e hT hc hnc hnf) fc hfc r).mpr h

section example_template
/-- `(deftemplate m (x) (macro $x 10 b))`; the shape `(macro a 10 b)` inside a deflayer -/
private def exT : List Template :=
  [{ name := "m".toList, params := ["x".toList],
     content := [.list [.atom "macro".toList, .atom "$x".toList, .atom "10".toList, .atom "b".toList]] }]
private def exC : Ctx := .node [.atom "macro".toList] .hole [.atom "10".toList, .atom "b".toList]
private def exF : FCtx :=
  .under [] (.atom "deflayer".toList) (.here [.atom "l0".toList] [.atom "c".toList]) []
private def exR : List Tree :=
  [.list [.atom "deflayer".toList, .atom "l0".toList,
    .list [.atom "macro".toList, .atom "a".toList, .atom "10".toList, .atom "b".toList], .atom "c".toList]]

/-- the hypotheses of `template_rewrite_neutral_partial` are met by a concrete rewrite … -/
example : (∃ F, expandLoop F exT (exF.fill [exC.plug (.atom "a".toList)]) = .ok exR) ∧
    (∃ F, expandLoop F exT (exF.fill [.list [.atom sTBang, .atom "m".toList, .atom "a".toList]]) = .ok exR) :=
  template_rewrite_neutral_partial exT "m".toList "x".toList sTBang exC (.atom "a".toList) (by decide)
    (by decide) (by refine ⟨?_, trivial, ?_⟩ <;> decide) (by decide) (by decide) exF ⟨by decide, trivial⟩
    exR ⟨3, by decide⟩ (by decide)

/-- … and the loop really computes that -/
example : expandLoop 4 exT (exF.fill [.list [.atom sTBang, .atom "m".toList, .atom "a".toList]]) = .ok exR := by
  decide
end example_template

/-! ## Conditionals in templates -/

/-- **if_equal_spec** (full, for the specification): what the four conditional forms denote.
`(if-equal a b body…)` is `body` when the two strings are equal and nothing otherwise; `if-not-equal`
the opposite; `(if-in-list a (l…) body…)` tests membership among ALL atoms of the list, nested ones
included; the comparands are compared as written (no variable resolution, no quote trimming). -/
theorem if_equal_spec (a b : Str) (lst body : List Tree) :
    condSpecTree (.list (.atom sIfEqual :: .atom a :: .atom b :: body)) =
      (if a = b then condSpec body else .ok []) ∧
    condSpecTree (.list (.atom sIfNotEqual :: .atom a :: .atom b :: body)) =
      (if a = b then .ok [] else condSpec body) ∧
    condSpecTree (.list (.atom sIfInList :: .atom a :: .list lst :: body)) =
      (if a ∈ atomsOfList lst then condSpec body else .ok []) ∧
    condSpecTree (.list (.atom sIfNotInList :: .atom a :: .list lst :: body)) =
      (if a ∈ atomsOfList lst then .ok [] else condSpec body) := by
  have k1 : condKind? sIfEqual = some .eq := by decide
  have k2 : condKind? sIfNotEqual = some .ne := by decide
  have k3 : condKind? sIfInList = some .inl := by decide
  have k4 : condKind? sIfNotInList = some .nin := by decide
  refine ⟨?_, ?_, ?_, ?_⟩
  · rw [condSpecTree_ok _ (decide (a = b)) (by simp only [condTest, k1])]
    by_cases h : a = b <;> simp [h]
  · rw [condSpecTree_ok _ (decide (a ≠ b)) (by simp only [condTest, k2])]
    by_cases h : a = b <;> simp [h]
  · rw [condSpecTree_ok _ (decide (a ∈ atomsOfList lst)) (by simp only [condTest, k3])]
    by_cases h : a ∈ atomsOfList lst <;> simp [h]
  · rw [condSpecTree_ok _ (decide (a ∉ atomsOfList lst)) (by simp only [condTest, k4])]
    by_cases h : a ∈ atomsOfList lst <;> simp [h]

/-- **cond_loop_is_spec_partial.**  Full statement (false when one conditional produces the keyword
of another at the head of a list — the loop then evaluates the new form, the one-traversal
specification does not): `condLoop (size+1) ts = condSpec ts`.
Proved: whenever the specification's result contains no conditional form, the loop
`while evaluate_conditionals(..)? {}` terminates within `size + 1` iterations with exactly that
result (so the branch not taken is never evaluated, outermost forms decide first, and the fuel of the
model is never the reason for a failure).  Missing: agreement on errors. -/
theorem cond_loop_is_spec_partial (ts r : List Tree) (hs : condSpec ts = .ok r)
    (hn : nfcList r = true) : condLoop (sizeList ts + 1) ts = .ok r :=
  condLoop_complete _ ts r (Nat.lt_succ_self _) hs hn

/-- an instance: the branch not taken hides a malformed conditional, the taken one contains another
conditional which is evaluated in a later pass -/
example :
    let ts := [Tree.list [.atom sIfEqual, .atom "x".toList, .atom "y".toList, .list [.atom sIfEqual]],
      .list [.atom sIfNotEqual, .atom "x".toList, .atom "y".toList, .atom "k".toList,
        .list [.atom sIfInList, .atom "m".toList, .list [.atom "n".toList, .list [.atom "m".toList]], .atom "j".toList]]]
    condLoop (sizeList ts + 1) ts = .ok [.atom "k".toList, .atom "j".toList] :=
  cond_loop_is_spec_partial _ _ (by decide) (by decide)

/-! ## include -/

/-- **include_is_splice** (full).  Moving a run of top-level items `xs` (none of them an include)
into a file and writing `(include file)` in their place gives the same list of items after
`expand_includes` — in particular the same acceptance. -/
theorem include_is_splice (files : Files) (path : Str) (xs pre post : List (List Tree))
    (hf : lookup (trimAtomQuotes path) files = some xs)
    (hx : ∀ i ∈ xs, headIs sInclude i = false) :
    expandIncludes files (pre ++ [[.atom sInclude, .atom path]] ++ post) =
      expandIncludes files (pre ++ xs ++ post) := by
  simp only [expandIncludes_append, expandIncludes_single files path xs hf,
    expandIncludes_noinclude files xs hx]

example : expandIncludes [("f.kbd".toList, [[.atom "defsrc".toList, .atom "a".toList]])]
    [[.atom sInclude, .atom "\"f.kbd\"".toList], [.atom "deflayer".toList, .atom "l".toList, .atom "b".toList]]
    = .ok [[.atom "defsrc".toList, .atom "a".toList], [.atom "deflayer".toList, .atom "l".toList, .atom "b".toList]] := by
  decide

/-! ## platform -/

/-- **platform_neutral_for_active** (full).  Wrapping an item (that is not itself a `platform`
form) in `(platform (p₁ … pₙ) item)` with valid platform names that include the current platform
does not change the result of `filter_platform_specific_cfg`; with names that do not include it the
item is dropped, whatever it contains. -/
theorem platform_neutral_for_active (cur : Str) (ps : List Str) (item : List Tree)
    (pre post : List (List Tree)) (hv : ∀ p ∈ ps, p ∈ validPlatforms)
    (hitem : headIs sPlatform item = false) :
    filterPlatform cur (pre ++ [[.atom sPlatform, .list (ps.map .atom), .list item]] ++ post) =
      if cur ∈ ps then filterPlatform cur (pre ++ [item] ++ post)
      else filterPlatform cur (pre ++ post) := by
  have h1 : filterPlatform cur [[.atom sPlatform, .list (ps.map .atom), .list item]] =
      .ok (if cur ∈ ps then [item] else []) := by
    simp [filterPlatform, headIs, checkPlatformNames_ok ps hv]
  have h2 : filterPlatform cur [item] = .ok [item] := by
    simp [filterPlatform, hitem]
  by_cases hc : cur ∈ ps
  · simp only [filterPlatform_append, h1, h2, hc, if_true]
  · simp only [filterPlatform_append, h1, hc, if_false]
    cases filterPlatform cur pre with
    | error e => rfl
    | ok ra => cases filterPlatform cur post <;> simp

example : ∀ p ∈ ["win".toList, "linux".toList], p ∈ validPlatforms := by decide

/-! ## defalias -/

/-- **alias_value** (full, for any parsed-action type and any action parser).  After all
`defalias` pairs are read, a name holds the parse of its action in the alias table *as it was when
the pair was read* (definition order matters), the name was not defined before, and no later pair
changes it. -/
theorem alias_value {α} (parse : List (Str × α) → Tree → Res α)
    (ps : List (Str × Tree)) (n : Str) (e : Tree) (rest : List Tree) (al al' : List (Str × α))
    (h : parseAliasPairs parse al (flatPairs ps ++ .atom n :: e :: rest) = .ok al') :
    ∃ al1 a, parseAliasPairs parse al (flatPairs ps) = .ok al1 ∧ parse al1 e = .ok a ∧
      lookup n al1 = none ∧ lookup n al' = some a :=
  parseAliasPairs_value parse ps n e rest al al' h

/-- **alias_neutral** (full, on the alias-resolved view).  Name an action `e` used at a site `C[e]`
with a fresh alias `n` defined after everything `e` uses (so the table is `al ++ [(n, a)]` with `a`
the view of `e` under `al`), and write `@n` at the site.  Then the rewritten site has an
alias-resolved view exactly when the original has one, and it is the same. -/
theorem alias_neutral (al : List (Str × Tree)) (n : Str) (e a : Tree)
    (hfresh : lookup n al = none) (ha : inlineTree al e = .ok a)
    (he : ('@' :: n) ∉ atomsOfTree e) (c : Ctx) (hc : c.Avoids ('@' :: n)) (r : Tree) :
    inlineTree (al ++ [(n, a)]) (c.plug (.atom ('@' :: n))) = .ok r ↔
      inlineTree al (c.plug e) = .ok r := by
  have hsub : SubTable al (al ++ [(n, a)]) := SubTable.append_fresh al n a
  have hlook : lookup n (al ++ [(n, a)]) = some a := by
    rw [lookup_append_right n al _ hfresh]; simp [lookup]
  have hsite : inlineTree (al ++ [(n, a)]) (.atom ('@' :: n)) = inlineTree (al ++ [(n, a)]) e := by
    rw [inlineTree_mono al _ hsub e a ha]
    simp [inlineTree, aliasName?, hlook]
  rw [inlineTree_congr _ _ _ hsite c]
  constructor
  · exact inlineTree_strengthen al n a _ r (hc.plug he)
  · exact inlineTree_mono al _ hsub _ r

example : inlineTree [("th".toList, .list [.atom "tap-hold".toList, .atom "a".toList])]
    (.list [.atom "multi".toList, .atom "@th".toList, .atom "b".toList]) =
    .ok (.list [.atom "multi".toList, .list [.atom "tap-hold".toList, .atom "a".toList], .atom "b".toList]) := by
  decide

/-- **alias_before_definition_rejected**: the order hypothesis is needed — a reference to an alias
that is not (yet) in the table is an error, whatever is defined later. -/
theorem alias_before_definition_rejected (al : List (Str × Tree)) (n : Str)
    (h : lookup n al = none) : inlineTree al (.atom ('@' :: n)) = rej "Referenced unknown alias" := by
  simp [inlineTree, aliasName?, h]

/-! ## deflayer vs deflayermap -/

/-- **layermap_equiv** (full).  Writing a layer as `deflayermap` with the `key action` pairs of the
deflayer (keys = defsrc, in ANY order) fills exactly the same table; hence the same finished layer. -/
theorem layermap_equiv {α} (order : List Nat) (acts : List α) (n : Nat) (pu block : Bool)
    (isButton : Nat → Bool) (trans noop : α) (ps : List (Nat × α)) (hnd : order.Nodup)
    (hperm : ps.Perm (order.zip acts)) :
    ∃ st, layermapFill order n pu { table := Table.empty } (keyPairs ps) = .ok st ∧
      finishLayer block isButton trans noop st.table =
        finishLayer block isButton trans noop (deflayerFill Table.empty order acts) := by
  obtain ⟨st, h1, h2⟩ := layermap_table order acts n pu ps hnd hperm
  exact ⟨st, h1, by rw [h2]⟩

/-- **layermap_default_equiv** (full).  Leaving out every defsrc key whose action is `d` and writing
`_ d` anywhere among the remaining pairs is again the same table: `_` fills exactly the defsrc
positions that no pair mentions. -/
theorem layermap_default_equiv {α} [DecidableEq α] (order : List Nat) (acts : List α) (n : Nat)
    (pu block : Bool) (isButton : Nat → Bool) (trans noop d : α) (ps1 ps2 : List (Nat × α))
    (hnd : order.Nodup) (hlen : order.length ≤ acts.length)
    (hperm : (ps1 ++ ps2).Perm ((order.zip acts).filter (fun p => p.2 ≠ d))) :
    ∃ st, layermapFill order n pu { table := Table.empty }
        (keyPairs ps1 ++ (MapIn.anyDefsrc, d) :: keyPairs ps2) = .ok st ∧
      finishLayer block isButton trans noop st.table =
        finishLayer block isButton trans noop (deflayerFill Table.empty order acts) := by
  obtain ⟨st, h1, h2⟩ := layermap_table_default order acts n pu d ps1 ps2 hnd hlen hperm
  exact ⟨st, h1, by rw [h2]⟩

example : ([(30, "x"), (48, "y")] ++ [] : List (Nat × String)).Perm
    (([30, 31, 48].zip ["x", "d", "y"]).filter (fun p => p.2 ≠ "d")) := by decide

/-- **layermap_omitted_is_trans**: a defsrc key that a deflayermap does not mention ends up as the
transparent action — the same as writing `_` for it in a deflayer — unless `block-unmapped-keys`
turns the default into no-op (then the two forms differ: the generator does not omit keys there). -/
theorem layermap_omitted_is_trans {α} (isButton : Nat → Bool) (trans noop : α) (t : Table α)
    (i : Nat) (hi : i ≠ 0) (ht : t i = none) :
    finishLayer false isButton trans noop t i = trans ∧
    finishLayer false isButton trans noop (t.set i trans) i = trans := by
  simp [finishLayer, hi, ht, Table.set]

end KVerif.CfgTree
