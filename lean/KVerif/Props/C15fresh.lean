/-
C15, success half, after fix 908e3bf (`do_live_reload` resets the run-time state that referred to the
old layout): a successful live reload from an idle state IS a fresh start of the new configuration.
Property theorems only (helpers: KVerif/Lemmas/ReloadFresh.lean, ReloadEqv.lean, ReloadDM.lean, ReloadDMBlind.lean).  As in
Props/C15.lean every theorem is quantified over all `World`s (every keyberon layout, every parser,
every implementation of the parts of kanata that are not reload bookkeeping) and over all states and
histories; `do_live_reload` and `Kanata::new` are INTERPRETED from the statement / initialiser lists
regenerated from src/kanata/mod.rs (`Gen/ReloadFields.lean`).
-/
import KVerif.Props.C15
import KVerif.Lemmas.ReloadEqv
import KVerif.Lemmas.ReloadDMBlind
namespace KVerif.Reload
open KVerif.Gen.Reload

variable {W : World}

/-- nothing is down: the last tick left no key pressed at the OS and no key is being collected -/
def NothingDown (s : KSt W) : Prop :=
  s .prev_keys = ([] : List Nat) ∧ s .cur_keys = ([] : List Nat)

/-! ## 1. Field by field: reloaded = freshly constructed, except a named list -/

/-- **reload_from_idle_is_fresh_start** (full).  Take ANY state in which nothing is down (in
particular every state that is idle in kanata's sense, `isIdle`, with nothing down — `is_idle()`
itself turns out not to be needed: every run-time field is reset) and whose request flag has been
cleared (`handle_time_ticks` does that just before the call: `reload_in_loop_is_fresh_start`), and any
environment in which `do_live_reload` succeeds.  Then the file parsed to some `c` and, for EVERY
field `f` of `struct Kanata` and both global stores, except the fields of the explicit list
`retainedOnReload`

* plumbing — `kbd_out` (the sink handle), `cfg_paths`, `cur_cfg_idx` (the command line and the index of
  the file just loaded), `last_tick`, `time_remainder` (the clock), `tcp_server_address`;
* start-up-only options — `kbd_in_paths`, `continue_if_no_devices`, `include_names`, `exclude_names`,
  `x11_repeat_rate`, `device_detect_mode`, `allow_hardware_repeat` (read once before the loop starts);
* user data — `dynamic_macros` (macros recorded before the reload stay replayable: probably intended),
  `saved_clipboard_content`;

the reloaded instance holds exactly what `Kanata::new` of the new configuration stores in `f`
(whatever command line `paths'` the fresh instance is given).  The retained fields keep their old
value, and the list is tight (`retained_exact`: it is exactly the set of fields `do_live_reload` never
assigns, minus `cur_keys`, `prev_keys`, `live_reload_requested`).  The statement ranges over the
regenerated `Field` type and both sides are interpreted from the regenerated lists, so a field added
to the struct without a reset in `do_live_reload` makes `freshCheck_all` — and this theorem — fail.
Hypothesis `FreshLayer0`: a freshly built keyberon layout starts on layer 0 (needed for `prev_layer`,
which the reload sets to the new layout's current layer and the constructor to 0). -/
theorem reload_from_idle_is_fresh_start (hW : FreshLayer0 W) (env : Env W.toTypes) (s : KSt W)
    (r : RRes W.toTypes) (h : doLiveReload env s = .ok r) (hok : r.ok = true)
    (hreq : s .live_reload_requested = false) (hdown : NothingDown s) :
    ∃ p c, (s .cfg_paths : List Nat)[(s .cur_cfg_idx : Nat)]? = some p ∧ newFromFile env p = some c ∧
      (∀ (paths' : List Nat) (f : Field), f ∉ retainedOnReload → r.st f = (fresh (W := W) paths' c) f) ∧
      (∀ f : Field, f ∈ retainedOnReload → r.st f = s f) := by
  obtain ⟨p, c, hp, hc, hst, _, _⟩ := reload_success_form env s r h hok
  refine ⟨p, c, hp, hc, ?_, ?_⟩
  · intro paths' f hf
    rw [hst]
    exact reloaded_get_fresh hW c s paths' 0 hreq hdown.1 hdown.2 f (freshCheck_all f hf)
  · intro f hf
    exact doLiveReload_frame env s r f h ((retained_exact f).1 hf).1

/-- the retained list, spelled out, and its tightness -/
example : retainedOnReload =
    [.kbd_out, .cfg_paths, .cur_cfg_idx, .last_tick, .time_remainder, .tcp_server_address,
     .kbd_in_paths, .continue_if_no_devices, .include_names, .exclude_names, .x11_repeat_rate,
     .device_detect_mode, .allow_hardware_repeat, .dynamic_macros, .saved_clipboard_content] ∧
    (∀ f, f ∈ retainedOnReload ↔ (f ∉ assigned reloadSteps ∧ f ∉ coveredByIdle)) :=
  ⟨rfl, retained_exact⟩

/-- the check behind the theorem is discriminating: every retained field FAILS it (none of them is
brought to the constructor's value by the regenerated statement list), so dropping a reset from
`do_live_reload` moves that field to the failing side and `freshCheck_all` no longer holds (tried:
deleting `self.caps_word = None` from the generated list breaks `freshCheck_all` and `retained_exact`) -/
example : ∀ f, f ∈ retainedOnReload → freshCheck f = false := by
  intro f; cases f <;> decide

/-- **reload_in_loop_is_fresh_start** (full): the same at the level of `handle_time_ticks`, where the
hypotheses of the previous theorem are established by the code itself.  Whenever one call of
`handle_time_ticks` performs a successful reload on the ordinary path — the idle counter at the
decision is at most 1000, so the reload condition can only have held because both key lists were
empty — the state it returns equals `Kanata::new` of the new configuration on every field outside
`retainedOnReload`.  (On the fall-back path, `ticks_since_idle > 1000` with keys still down, the same
holds for every field except `prev_keys`/`cur_keys`:
`successful_reload_first_layer_nothing_pressed_notified_once` says what happens to those keys.) -/
theorem reload_in_loop_is_fresh_start (hW : FreshLayer0 W) (env : Env W.toTypes) (ms : Nat) (s : KSt W)
    (r : HRes W.toTypes) (h : handleTimeTicks env ms s = .ok r) (hatt : r.attempt = some true) :
    ∃ s2 os m1, decisionState env ms s = .ok (s2, os, m1) ∧
      ((s2 .ticks_since_idle : Nat) ≤ 1000 →
        NothingDown s2 ∧
        ∃ p c, (s2 .cfg_paths : List Nat)[(s2 .cur_cfg_idx : Nat)]? = some p ∧ newFromFile env p = some c ∧
          ∀ (paths' : List Nat) (f : Field), f ∉ retainedOnReload → r.st f = (fresh (W := W) paths' c) f) := by
  obtain ⟨s2, os, m1, hd, _, hcase⟩ := handleTimeTicks_inv false env ms s r h
  refine ⟨s2, os, m1, hd, ?_⟩
  intro htsi
  rcases hcase with ⟨_, h2, _, _⟩ | ⟨hdue, rr, hrr, hat, hst, _⟩
  · rw [h2] at hatt; cases hatt
  · have hok : rr.ok = true := by
      rw [hat] at hatt
      simpa using hatt
    have hnd : NothingDown s2 := by
      simp only [reloadDue, Bool.and_eq_true, Bool.or_eq_true, decide_eq_true_eq] at hdue
      rcases hdue.2 with hk | hk
      · exact ⟨by simpa using hk.1, by simpa using hk.2⟩
      · exact absurd hk (Nat.not_lt.2 htsi)
    refine ⟨hnd, ?_⟩
    have hnd' : NothingDown (s2.set .live_reload_requested false) := by
      refine ⟨?_, ?_⟩
      · rw [St.set_other _ _ _ _ (by decide)]; exact hnd.1
      · rw [St.set_other _ _ _ _ (by decide)]; exact hnd.2
    obtain ⟨p, c, hp, hc, hf, _⟩ :=
      reload_from_idle_is_fresh_start hW env _ rr hrr hok (St.set_same _ _ _) hnd'
    rw [St.set_other _ _ _ _ (by decide), St.set_other _ _ _ _ (by decide)] at hp
    exact ⟨p, c, hp, hc, fun paths' f hf' => by rw [hst]; exact hf paths' f hf'⟩

/-- the state `Mini.sU` with the idle counter at 7: idle in kanata's sense, nothing down, not initial
(an `unmod` key is recorded as held, the counter is running) -/
def Mini.sI : KSt Mini.world := Mini.sU.set .ticks_since_idle (7 : Nat)

/-- non-vacuity of `reload_from_idle_is_fresh_start` with the two configurations `Mini.cA` (old: key,
`lrld`, `(unmod …)`) and `Mini.cC` (new): `FreshLayer0` holds for the concrete world, the state is idle
with nothing down and is NOT a constructor's state, the reload succeeds -/
example : FreshLayer0 Mini.world ∧ isIdle Mini.sI = true ∧ NothingDown Mini.sI ∧
    Mini.sI .live_reload_requested = false ∧
    (Mini.sI .unmodded_keys : List Nat) = [5] ∧ (Mini.sI .ticks_since_idle : Nat) = 7 ∧
    ∃ r, doLiveReload (Mini.envOf (.ok Mini.cC)) Mini.sI = .ok r ∧ r.ok = true ∧
      (r.st .unmodded_keys : List Nat) = [] ∧ (r.st .ticks_since_idle : Nat) = 0 :=
  ⟨fun _ => rfl, rfl, ⟨rfl, rfl⟩, rfl, rfl, rfl, _, rfl, rfl, rfl, rfl⟩

/-- non-vacuity of `reload_in_loop_is_fresh_start`: a pending request with nothing down is served
in this call, on the ordinary path -/
example : ∃ r, handleTimeTicks (Mini.envOf (.ok Mini.cC)) 1
      (((fresh (W := Mini.world) [0] Mini.cA).set .ticks_since_idle (7 : Nat)).set
        .live_reload_requested true) = .ok r ∧ r.attempt = some true ∧
    (r.st .ticks_since_idle : Nat) = 0 := ⟨_, rfl, rfl, rfl⟩

/-! ## 2. Every later history: reloaded instance = fresh instance -/

/-- **reload_then_run_equiv_restart** (full, in the abstract-world setting; the loop is taken
without parking, as in `reload_fail_run_equiv`).  Let `do_live_reload` succeed, with new configuration
`c`, from a state with nothing down and the request flag cleared.  Compare the reloaded instance with
a freshly constructed instance of `c` on the same command line and positioned on the same file
(`freshAt ctorNew cfg_paths cur_cfg_idx c`; for index 0 this is literally `Kanata::new`).  Let `op` be
any set of retained fields other than `cfg_paths`/`cur_cfg_idx` (`OpOK`) such that

* `BlindTo op W`: the parts of kanata outside the reload bookkeeping (`handle_keystate_changes`,
  `tick_record_state`/`zippy_tick`/`tick_held_vkeys`, `tick_replay_state`, `handle_input_event`, the
  other conjuncts of `is_idle`) do not read the fields of `op`, and
* every other retained field happens to hold what the fresh instance holds (e.g. no dynamic macro
  was recorded before the reload; a start-up-only option has the same value in both configurations).

Then for EVERY later history — any inputs, any timing, the files changing again, further reload
requests that succeed or fail — both runs produce the same OS events and the same client
notifications iteration by iteration, or crash at the same point in the same way; and the final
states again agree on every field outside `op`.

With `op = retainedOpaque` the second hypothesis is vacuous: a world that never reads the retained
fields cannot tell a reloaded instance from a fresh one.  For kanata itself `BlindTo` is plausible for
the plumbing and start-up-only fields but FALSE for `dynamic_macros` (and `saved_clipboard_content`):
`reload_then_run_equiv_restart_counterexample`; taking `op` without them gives the equivalence for all
runs in which no macro had been recorded (no clipboard saved) before the reload. -/
theorem reload_then_run_equiv_restart (op : List Field) (hop : OpOK op) (hB : BlindTo op W)
    (hW : FreshLayer0 W) (env : Env W.toTypes) (s : KSt W) (r : RRes W.toTypes) (p : Nat) (c : W.Cfg)
    (hp : (s .cfg_paths : List Nat)[(s .cur_cfg_idx : Nat)]? = some p) (hc : newFromFile env p = some c)
    (h : doLiveReload env s = .ok r) (hok : r.ok = true)
    (hreq : s .live_reload_requested = false) (hdown : NothingDown s)
    (hret : ∀ g, g ∈ retainedOpaque → g ∉ op →
      s g = (freshAt (W := W) ctorNew (s .cfg_paths) (s .cur_cfg_idx) c) g)
    (script : List (Tick W.toTypes)) (msPrev : Nat) :
    ExRel (PairRel op) (runNB false script msPrev r.st)
      (runNB false script msPrev (freshAt ctorNew (s .cfg_paths) (s .cur_cfg_idx) c)) ∧
    (runNB false script msPrev r.st).map Prod.snd =
      (runNB false script msPrev (freshAt (W := W) ctorNew (s .cfg_paths) (s .cur_cfg_idx) c)).map Prod.snd := by
  obtain ⟨p', c', hp', hc', hst, _, _⟩ := reload_success_form env s r h hok
  have ep : p' = p := by rw [hp] at hp'; exact (Option.some.inj hp').symm
  subst ep
  have ec : c' = c := by rw [hc] at hc'; exact (Option.some.inj hc').symm
  subst ec
  have h0 : Eqv op r.st (freshAt (W := W) ctorNew (s .cfg_paths) (s .cur_cfg_idx) c') := by
    intro f hf
    by_cases hr : f ∈ retainedOnReload
    · have hfr : r.st f = s f := doLiveReload_frame env s r f h ((retained_exact f).1 hr).1
      by_cases h1 : f = .cfg_paths
      · subst h1
        rw [hfr, freshAt_const _ _ _ _ _ (by decide)]; rfl
      · by_cases h2 : f = .cur_cfg_idx
        · subst h2
          rw [hfr, freshAt_const _ _ _ _ _ (by decide)]; rfl
        · rw [hfr]
          exact hret f ((retainedOpaque_eq f).2 ⟨hr, h1, h2⟩) hf
    · rw [hst]
      exact reloaded_get_fresh hW c' s _ _ hreq hdown.1 hdown.2 f (freshCheck_all f hr)
  have hrel := eqv_runNB hop hB false script msPrev h0
  refine ⟨hrel, ?_⟩
  rcases hrel.cases with ⟨e, ha, hb⟩ | ⟨u, v, ha, hb, _, ho⟩
  · rw [ha, hb]
  · rw [ha, hb]
    show Except.ok u.2 = Except.ok v.2
    rw [ho]

/-- non-vacuity of `BlindTo`: the concrete world of the correspondence check reads none of the
retained fields -/
theorem blindTo_mini_world : BlindTo retainedOpaque Mini.world := by
  refine ⟨?_, ?_, ?_, ?_, ?_⟩
  · intro a b h
    have hl : a .layout = b .layout := h _ (by decide)
    have hu : a .unmodded_keys = b .unmodded_keys := h _ (by decide)
    have hc : a .cur_keys = b .cur_keys := h _ (by decide)
    have hp : a .prev_keys = b .prev_keys := h _ (by decide)
    constructor
    · intro f _ hfo
      show (Mini.ksc a).1 f = (Mini.ksc b).1 f
      simp only [Mini.ksc, hl, hu, hc, hp]
      by_cases n1 : f = .cur_keys
      · subst n1; simp
      · by_cases n2 : f = .unmodded_keys
        · subst n2
          simp [St.set]; rfl
        · by_cases n3 : f = .layout
          · subst n3
            simp [St.set]; rfl
          · simp [St.set, n1, n2, n3, h f hfo]; rfl
    · show (Mini.ksc a).2 = (Mini.ksc b).2
      simp only [Mini.ksc, hl, hu, hc, hp]
  · intro a b h
    exact ⟨fun f _ hfo => h f hfo, rfl⟩
  · intro a b h
    exact ⟨fun f _ hfo => h f hfo, rfl⟩
  · intro a b e h
    have hl : a .layout = b .layout := h _ (by decide)
    constructor
    · intro f _ hfo
      show (a.set .layout (Mini.levent (a .layout) e)) f = (b.set .layout (Mini.levent (b .layout) e)) f
      by_cases n : f = .layout
      · subst n; simp [St.set, hl]; rfl
      · simp [St.set, n, h f hfo]
    · rfl
  · intro a b h
    have hl : a .layout = b .layout := h _ (by decide)
    show ((a .layout : Mini.Layout).queue).isEmpty = ((b .layout : Mini.Layout).queue).isEmpty
    rw [hl]

/-- non-vacuity of `reload_then_run_equiv_restart` with `Mini.cA` → `Mini.cC` from the idle,
non-initial state `Mini.sI`: all hypotheses are met with `op = retainedOpaque`, and a history after
the reload (tap key 0, then tap `lrld` again) runs to the end producing output -/
example : OpOK retainedOpaque ∧
    (∃ r, doLiveReload (Mini.envOf (.ok Mini.cC)) Mini.sI = .ok r ∧ r.ok = true ∧
      ∃ s' out, runNB (W := Mini.world) false
        [⟨Mini.envOf (.ok Mini.cC), some (.press (0, 0)), 1⟩, ⟨Mini.envOf (.ok Mini.cC), some (.release (0, 0)), 1⟩,
         ⟨Mini.envOf (.ok Mini.cA), some (.press (0, 1)), 1⟩, ⟨Mini.envOf (.ok Mini.cA), some (.release (0, 1)), 1⟩,
         ⟨Mini.envOf (.ok Mini.cA), none, 1⟩] 0 r.st = .ok (s', out) ∧
        out.map Prod.fst = [[.down 4], [.up 4], [], [], []] ∧
        (out.map Prod.snd).flatten = [.configFileReload 0, .layerChange "c0l0"]) :=
  ⟨fun _ h => h, _, rfl, rfl, _, _, rfl, rfl, rfl⟩

/-- **reload_then_run_equiv_restart_counterexample**.  The equivalence is FALSE for a world that reads
`dynamic_macros` — as kanata does.  World `DM.world` (Lemmas/ReloadDM.lean) mirrors the record / stop /
play path of src/kanata/dynamic_macro.rs for a one-layer configuration.  In kanata syntax, both files

    (defsrc a b c d e)
    (deflayer base x (dynamic-macro-record 1) dynamic-macro-record-stop (dynamic-macro-play 1) lrld)

(old and new configuration may even be the same file).  History: tap `b` (start recording), tap `a`
(types x), tap `c` (stop), tap `e` (`lrld`: the reload succeeds with nothing down), then tap `d`
(play).  The reloaded instance is idle with nothing down when the reload runs (`DM.sRec`), the reload
succeeds — and afterwards the play key types `x` again, whereas a freshly started kanata on the same
file types nothing: macro 1 does not exist there.  Recorded as probably intended; the same
observation is reproduced on the real code by the relational harness cases `C15 R 1 16 ok 2`
(KNOWN_FINDINGS.jsonl, status `known`). -/
theorem reload_then_run_equiv_restart_counterexample :
    isIdle DM.sRec = true ∧ NothingDown DM.sRec ∧ DM.sRec .live_reload_requested = false ∧
    FreshLayer0 DM.world ∧
    ∃ r, doLiveReload DM.env DM.sRec = .ok r ∧ r.ok = true ∧
      ∃ s1 s2, runNB (W := DM.world) false DM.playScript 0 r.st =
          .ok (s1, [([], []), ([.down 45], []), ([], []), ([.up 45], []), ([], [])]) ∧
        runNB (W := DM.world) false DM.playScript 0 (freshAt ctorNew [0] 0 DM.cfg) =
          .ok (s2, [([], []), ([], []), ([], []), ([], []), ([], [])]) :=
  ⟨rfl, ⟨rfl, rfl⟩, rfl, fun _ => rfl, _, rfl, rfl, _, _, rfl, rfl⟩

/-- the state `DM.sRec` of the counterexample is what the history "tap record, tap a, tap stop"
leaves when run from a freshly constructed instance (so it is reachable), and the macro it holds is
the only difference from that instance -/
example : ∃ s' out, runNB (W := DM.world) false DM.recordScript 0 (fresh [0] DM.cfg) = .ok (s', out) ∧
    (s' .dynamic_macros : List (Nat × List DM.Ev)) = [(1, [.press 0, .release 0])] ∧
    (DM.sRec .dynamic_macros : List (Nat × List DM.Ev)) = [(1, [.press 0, .release 0])] :=
  ⟨_, _, rfl, rfl, rfl⟩

/-- the witness world of the counterexample reads `dynamic_macros` but none of the other retained
fields: `BlindTo` holds for the retained list without `dynamic_macros` -/
theorem blindTo_dm_world : BlindTo retainedOpaqueNoMacros DM.world := by
  refine ⟨?_, ?_, ?_, ?_, ?_⟩
  · intro a b h
    obtain ⟨h1, h2⟩ := eqv_dm_ksc (by decide) (by decide) (by decide) (by decide) (by decide) a b h
    exact ⟨fun f _ hfo => h1 f hfo, h2⟩
  · intro a b h
    exact ⟨fun f _ hfo => h f hfo, rfl⟩
  · intro a b h
    obtain ⟨h1, h2⟩ := eqv_dm_replay (by decide) (by decide) a b h
    exact ⟨fun f _ hfo => h1 f hfo, h2⟩
  · intro a b e h
    obtain ⟨h1, h2⟩ := eqv_dm_inputEvent (by decide) (by decide) a b e h
    exact ⟨fun f _ hfo => h1 f hfo, h2⟩
  · intro a b h
    exact eqv_dm_coreIdle (by decide) (by decide) a b h

/-- a state of the witness world that is idle with nothing down, not initial (the idle counter runs,
a layer change has been announced) and in which NO macro has been recorded -/
def DM.sNoRec : KSt DM.world :=
  ((fresh (W := DM.world) [0] DM.cfg).set .ticks_since_idle (7 : Nat)).set
    .macro_on_press_cancel_duration (3 : Nat)

/-- `reload_then_run_equiv_restart` APPLIED in the world that does read `dynamic_macros`, with
`op = retainedOpaqueNoMacros`: when no macro was recorded before the reload, every history after it —
here for all `script`s, including ones that record and replay macros — gives the same outputs as a
fresh instance.  (All hypotheses are discharged here, so they are jointly satisfiable.) -/
example (r : RRes DM.world.toTypes) (h : doLiveReload DM.env DM.sNoRec = .ok r) (hok : r.ok = true)
    (script : List (Tick DM.world.toTypes)) (msPrev : Nat) :
    (runNB false script msPrev r.st).map Prod.snd =
      (runNB false script msPrev (freshAt (W := DM.world) ctorNew [0] 0 DM.cfg)).map Prod.snd :=
  (reload_then_run_equiv_restart retainedOpaqueNoMacros opOK_noMacros blindTo_dm_world (fun _ => rfl)
    DM.env DM.sNoRec r 0 DM.cfg rfl rfl h hok rfl ⟨rfl, rfl⟩
    (fun g hg hn => by
      have : g = .dynamic_macros := by
        revert hg hn; cases g <;> decide
      subst this; rfl)
    script msPrev).2

example : ∃ r, doLiveReload DM.env DM.sNoRec = .ok r ∧ r.ok = true := ⟨_, rfl, rfl⟩

/-! ## 3. First layer, nothing pressed, notified once -/

/-- **successful_reload_first_layer_nothing_pressed_notified_once** (full).  After every successful
`do_live_reload`, from ANY state (no idleness assumed):

* the layout is the new configuration's freshly built layout, its current layer is the first layer
  (`FreshLayer0`), and `prev_layer` says so;
* `do_live_reload` leaves `prev_keys`/`cur_keys` alone — on the ordinary path both are empty
  (`reload_in_loop_is_fresh_start`), so nothing is pressed;
* with a client channel exactly two messages were sent, `ConfigFileReload` with the loaded path and
  `LayerChange` with the name of layer 0 taken from the NEW `layer_info`, in this order, and the next
  `check_handle_layer_change` sends nothing (no duplicate); without a channel nothing is sent;
* on the idle fall-back path keys may still be down at the OS (`prev_keys ≠ []`): in any world whose
  `handle_keystate_changes` performs the OS release pass (`ReleasePass`: a key of `prev_keys` that is
  not in the new `cur_keys` is released), the first tick of the reloaded instance releases every such
  key that the new layout does not itself hold in that tick, and leaves `cur_keys` empty. -/
theorem successful_reload_first_layer_nothing_pressed_notified_once (hW : FreshLayer0 W)
    (env : Env W.toTypes) (s : KSt W) (r : RRes W.toTypes)
    (h : doLiveReload env s = .ok r) (hok : r.ok = true) :
    ∃ p c, (s .cfg_paths : List Nat)[(s .cur_cfg_idx : Nat)]? = some p ∧ newFromFile env p = some c ∧
      r.st .layout = W.cfgVal .layout c ∧ W.currentLayer (r.st .layout) = 0 ∧
      (r.st .prev_layer : Nat) = 0 ∧
      r.st .prev_keys = s .prev_keys ∧ r.st .cur_keys = s .cur_keys ∧
      (env.tx = true → ∃ name, W.layerName (W.cfgVal .layer_info c) 0 = some name ∧
        r.msgs = [.configFileReload p, .layerChange name]) ∧
      (env.tx = false → r.msgs = []) ∧
      (∀ s' m, checkLayerChange env.tx r.st = .ok (s', m) → m = []) ∧
      (∀ (up : Nat → W.Os), ReleasePass W up → ∀ (s1 : KSt W) (os : List W.Os),
        tickStates r.st = .ok (s1, os) →
          s1 .cur_keys = ([] : List Nat) ∧
          ∀ k ∈ (s .prev_keys : List Nat), k ∈ (s1 .prev_keys : List Nat) ∨ up k ∈ os) := by
  obtain ⟨p, c, hp, hc, hst, hm0, hm1⟩ := reload_success_form env s r h hok
  obtain ⟨_, _, k3, _, k5⟩ := reloaded_keeps c s
  have hpk : r.st .prev_keys = s .prev_keys := doLiveReload_frame env s r _ h (by decide)
  have hck : r.st .cur_keys = s .cur_keys := doLiveReload_frame env s r _ h (by decide)
  refine ⟨p, c, hp, hc, by rw [hst]; exact k3, by rw [hst, k3]; exact hW c,
    by rw [hst, k5]; exact hW c, hpk, hck, ?_, hm0, ?_, ?_⟩
  · intro htx
    obtain ⟨name, hn, hmsg⟩ := hm1 htx
    rw [hW c] at hn
    exact ⟨name, hn, hmsg⟩
  · intro s' m hcl
    refine (checkLayerChange_spec _ _ _ _ hcl).2.1 ?_
    rw [hst, k3, k5]
  · intro up hR s1 os ht
    refine ⟨(tickStates_prev_keys false r.st s1 os ht).2.1, ?_⟩
    intro k hk
    exact tickStates_releases up hR false r.st s1 os ht k (by rw [hpk]; exact hk)

/-- non-vacuity of `ReleasePass`: the concrete world of the correspondence check releases stale keys -/
theorem releasePass_mini_world : ReleasePass Mini.world Mini.Os.up := by
  constructor
  intro s k hk hn
  have hc : ∀ x : Nat, x ∈ ((Mini.ksc s).1 .cur_keys : List Nat) ↔
      x ∈ ((Mini.world.ksc s).1 .cur_keys : List Nat) := fun _ => Iff.rfl
  show Mini.Os.up k ∈ (Mini.ksc s).2.2
  rw [← hc] at hn
  simp only [Mini.ksc, St.set_same] at hn ⊢
  apply List.mem_append_left
  simp only [List.mem_map, List.mem_filter]
  refine ⟨k, ⟨hk, ?_⟩, rfl⟩
  simpa using hn

/-- the state `Mini.sI` with key 30 still down at the OS (what the idle fall-back can meet) -/
def Mini.sD : KSt Mini.world := Mini.sI.set .prev_keys ([30] : List Nat)

/-- non-vacuity of `successful_reload_first_layer_nothing_pressed_notified_once` with `Mini.cA` →
`Mini.cC`: the reload succeeds with key 30 still down, both notifications are sent once, and the
first tick of the reloaded instance releases key 30 -/
example : ∃ r, doLiveReload (Mini.envOf (.ok Mini.cC)) Mini.sD = .ok r ∧ r.ok = true ∧
    r.msgs = [.configFileReload 0, .layerChange "c2l0"] ∧ (r.st .prev_keys : List Nat) = [30] ∧
    ∃ s1, tickStates (W := Mini.world) r.st = .ok (s1, [Mini.Os.up 30]) ∧
      (s1 .prev_keys : List Nat) = [] := ⟨_, rfl, rfl, rfl, rfl, _, rfl, rfl⟩

end KVerif.Reload
