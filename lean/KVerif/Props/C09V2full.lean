/-
C09 — chords v2 (`defchordsv2`), ARBITRARY tables: any number of chords, overlapping and nested
participant sets, per-chord timeouts, disabled layers, both release behaviours.  Property theorems
only; helper lemmas are in Lemmas/ChordsV2Full.lean (the loop of `process_presses` on any press list),
Lemmas/ChordsV2Ticks.lean (whole ticks of `tick_chv2`), Lemmas/ChordsV2Sched.lean (histories).

Vocabulary.  `possible` is the table entry of the first pressed key (`ChordsForKeys::mapping[k1]`, the
chords that contain it, in table order).  `Fk possible layer acc` = the chords of it that are enabled
on the layer and contain every key of `acc` - the candidates after the presses `acc`.  A prefix `r` of
the press order is `Undecided` when `Fk r` is not empty and, if it is a single chord, that chord is
not complete yet; the loop of `process_presses` goes on exactly over undecided prefixes.
`minPending l` = the shortest timeout in `l` (65535 for the empty list).
-/
import KVerif.Lemmas.ChordsV2Order
namespace KVerif.C09
open KVerif.L

/-! ## 2. The closed form of candidate narrowing (one scan of `process_presses`) -/

/-- **chord_v2_largest_wins_spec** (full: every table, every queue, every press order; only hypothesis:
one of the ten active-chord slots is free).  `ps` are the presses `process_presses` collects from the
queue (up to the first release of one of them, `rf` = that released key, if any), `possible` the table entry of the
first.  Exactly one of three things holds for the press order, and `process_presses` does:
* **(A) no prefix decides** (every non-empty prefix of `ps`, `ps` included, is undecided: after all the
  presses at least one enabled chord containing all of them is left, and a single one is incomplete -
  a strict superset is still completable).  While the shortest timeout among the remaining candidates
  has not run out and no participant is released, NOTHING happens but the countdown
  `ticks_until_next_state_change = minPending (Fk ps) - since`.  Once it has run out
  (`minPending (Fk ps) ≤ since`) or a participant is released, the FIRST enabled chord of the table
  entry whose participant set is exactly the pressed set is activated and exactly the presses of `ps`
  leave the queue; if there is no such chord the cool-down starts and the queue is untouched.
* **(B) a prefix `pre ++ [p]` completes the only candidate left** (`Fk (pre ++ [p]) = [x]`, all keys of
  `x` pressed; every shorter non-empty prefix undecided): `x` - whose participant set is exactly that
  prefix, and no other enabled chord contains it - is activated AT ONCE, whatever the timeouts, and the
  presses of `pre ++ [p]` leave the queue; later presses stay queued.
* **(C) backtracking: the press `p` after `acc` leaves no candidate** (`Fk (acc ++ [p]) = []`, every
  non-empty prefix of `acc` undecided): the first enabled chord whose participant set is exactly
  `acc` is activated (the presses of `acc` leave the queue, `p` and what follows stay); if `acc` is not
  a chord the cool-down starts.  No LONGER prefix of the press order is the key set of an enabled chord,
  so an activation in this arm is of the longest defined prefix-set of the press order; the converse is
  false (`chord_v2_backtrack_only_last_prefix_counterexample`).
The cool-down never starts in (B), in (A)/(C) only when no chord matches. -/
theorem chord_v2_largest_wins_spec (s : ChV2) (layer : Nat) (ps : List Nat) (p1 : Nat) (rf : Option Nat)
    (possible : List ChordV2)
    (hcp : collectPresses s.queue [] = .ok (ps, rf)) (hhead : ps.head? = some p1)
    (hget : s.cfg.get p1 = some possible) (hroom : s.active.length < ACTIVE_CHORDS_CAP) :
    ∃ s', processPresses s layer = .ok s' ∧
    -- (A)
    ((∀ r, r <+: ps → r ≠ [] → Undecided possible layer r) →
      (sinceOf s < minPending (Fk possible layer ps) → rf = none →
        s'.active = s.active ∧ s'.queue = s.queue ∧ s'.ticksToIgnore = s.ticksToIgnore ∧
        s'.ticksUntilChange = minPending (Fk possible layer ps) - sinceOf s) ∧
      (minPending (Fk possible layer ps) ≤ sinceOf s ∨ rf.isSome = true →
        match (possible.filter (enabledOn layer)).find? (exactMatch ps) with
        | some cch => ∃ coord, s'.active = s.active ++ [getActiveChord cch (sinceOf s) coord rf] ∧
            s'.queue = ppRetain s.queue ps ∧ s'.ticksToIgnore = s.ticksToIgnore
        | none => s'.active = s.active ∧ s'.queue = s.queue ∧ s'.ticksToIgnore = s.cfg.minIdle)) ∧
    -- (B)
    (∀ pre p rest x, ps = pre ++ p :: rest → (∀ r, r <+: pre → r ≠ [] → Undecided possible layer r) →
      Fk possible layer (pre ++ [p]) = [x] → x.keys.all ((pre ++ [p]).contains ·) = true →
      exactMatch (pre ++ [p]) x = true ∧
      ∃ coord, s'.active = s.active ++ [getActiveChord x (sinceOf s) coord rf] ∧
        s'.queue = ppRetain s.queue (pre ++ [p]) ∧ s'.ticksToIgnore = s.ticksToIgnore) ∧
    -- (C)
    (∀ acc p rest, ps = acc ++ p :: rest → (∀ r, r <+: acc → r ≠ [] → Undecided possible layer r) →
      Fk possible layer (acc ++ [p]) = [] →
      (match (possible.filter (enabledOn layer)).find? (exactMatch acc) with
        | some cch => ∃ coord, s'.active = s.active ++ [getActiveChord cch (sinceOf s) coord rf] ∧
            s'.queue = ppRetain s.queue acc ∧ s'.ticksToIgnore = s.ticksToIgnore
        | none => s'.active = s.active ∧ s'.queue = s.queue ∧ s'.ticksToIgnore = s.cfg.minIdle) ∧
      ∀ r, r <+: ps → acc.length < r.length →
        ¬ ∃ c ∈ possible, enabledOn layer c = true ∧ exactMatch r c = true) ∧
    -- the three cases are all there is
    ((∀ r, r <+: ps → r ≠ [] → Undecided possible layer r) ∨
     (∃ pre p rest x, ps = pre ++ p :: rest ∧ (∀ r, r <+: pre → r ≠ [] → Undecided possible layer r) ∧
        Fk possible layer (pre ++ [p]) = [x] ∧ x.keys.all ((pre ++ [p]).contains ·) = true) ∨
     (∃ acc p rest, ps = acc ++ p :: rest ∧ (∀ r, r <+: acc → r ≠ [] → Undecided possible layer r) ∧
        Fk possible layer (acc ++ [p]) = [])) := by
  have hsome : ∃ s', processPresses s layer = .ok s' := by
    cases h : processPresses s layer with
    | error c => exact absurd h (processPresses_no_err s layer c)
    | ok s' => exact ⟨s', rfl⟩
  obtain ⟨s', hs'⟩ := hsome
  refine ⟨s', hs', ?_, ?_, ?_, ?_⟩
  · intro hu
    refine ⟨?_, ?_⟩
    · intro htime hrf
      subst hrf
      obtain ⟨s1, h1, r1, r2, r3, r4⟩ := processPresses_wait s layer ps p1 possible hcp hhead hget hu htime
      rw [hs'] at h1; cases h1
      exact ⟨r2, r1, r3, r4⟩
    · intro hclosed
      obtain ⟨s1, h1, r⟩ := processPresses_resolve s layer ps p1 rf possible hcp hhead hget hu hclosed hroom
      rw [hs'] at h1; cases h1
      exact r
  · intro pre p rest x hps hu hF hcomp
    obtain ⟨s1, coord, h1, r1, r2, r3⟩ := processPresses_complete s layer ps pre rest p p1 rf possible x hcp hhead hget
      hps hu hF hcomp hroom
    rw [hs'] at h1; cases h1
    refine ⟨?_, coord, r1, r2, r3⟩
    have hx : x ∈ Fk possible layer (pre ++ [p]) := by rw [hF]; exact List.mem_singleton_self x
    simp only [exactMatch, Bool.and_eq_true]
    exact ⟨(mem_Fk.mp hx).2.2, hcomp⟩
  · intro acc p rest hps hu hF
    obtain ⟨s1, h1, r⟩ := processPresses_backtrack s layer ps acc rest p p1 rf possible hcp hhead hget hps hu hF hroom
    rw [hs'] at h1; cases h1
    refine ⟨r, ?_⟩
    intro r' hr' hlen
    rw [hps] at hr'
    exact no_longer_prefix possible layer acc rest p hF r' hr' hlen
  · rcases decided_or_not possible layer ps with h | ⟨acc, p, rest, e, h1, h2⟩
    · exact Or.inl h
    · rcases not_undecided possible layer _ h2 with h3 | ⟨x, h3, h4⟩
      · exact Or.inr (Or.inr ⟨acc, p, rest, e, h1, h3⟩)
      · exact Or.inr (Or.inl ⟨acc, p, rest, x, e, h1, h3, h4⟩)

/-- `(defchordsv2 (a b) x 50 all-released () (a b c) y 30 first-release ())` -/
def chAB : ChordV2 := { action := .keyCode 2, keys := [30, 48], pending := 50, disabledLayers := [], release := .onLastRelease }
def chABC : ChordV2 := { action := .keyCode 3, keys := [30, 46, 48], pending := 30, disabledLayers := [], release := .onFirstRelease }
def cfgNested : ChV2Cfg :=
  { mapping := [(30, [chAB, chABC]), (48, [chAB, chABC]), (46, [chABC])], minIdle := 5 }

/-- (A), (B), (C) are not vacuous on the nested table: `b a` waits for `c`; `c b a` completes `(a b c)`;
`b a d` backtracks to `(a b)` -/
example : Undecided [chAB, chABC] 0 [48] ∧ Undecided [chAB, chABC] 0 [48, 30] ∧
    Fk [chAB, chABC] 0 [48, 30] = [chAB, chABC] ∧
    Fk [chAB, chABC] 0 [46, 48, 30] = [chABC] ∧ chABC.keys.all ([46, 48, 30].contains ·) = true ∧
    Fk [chAB, chABC] 0 [48, 30, 32] = [] ∧
    ([chAB, chABC].filter (enabledOn 0)).find? (exactMatch [48, 30]) = some chAB := by
  have h1 : Fk [chAB, chABC] 0 [48] = [chAB, chABC] := rfl
  have h2 : Fk [chAB, chABC] 0 [48, 30] = [chAB, chABC] := rfl
  refine ⟨⟨by rw [h1]; exact List.cons_ne_nil _ _, fun x h => ?_⟩, ⟨by rw [h2]; exact List.cons_ne_nil _ _, fun x h => ?_⟩,
    rfl, rfl, rfl, rfl, rfl⟩
  · rw [h1] at h; exact absurd (congrArg List.length h) (by simp)
  · rw [h2] at h; exact absurd (congrArg List.length h) (by simp)

/-- `(defchordsv2 (a b) x 200 all-released () (a b c d) y 200 all-released ())` -/
def chABCD : ChordV2 := { action := .keyCode 4, keys := [30, 32, 46, 48], pending := 200, disabledLayers := [], release := .onLastRelease }
def cfgGap : ChV2Cfg :=
  { mapping := [(30, [chAB, chABCD]), (48, [chAB, chABCD]), (46, [chABCD]), (32, [chABCD])], minIdle := 5 }

/-- **chord_v2_backtrack_only_last_prefix_counterexample**.  The backtracking arm looks at ONE prefix
only - the presses before the one that left no candidate - not at every defined prefix-set.
`(defchordsv2 (a b) x 200 all-released () (a b c d) y 200 all-released ())`, history `p a, p b, p c, p e`
within the timeout (all four queued on one scan, or arriving tick by tick): after `a b c` the only
candidate is `(a b c d)`, incomplete; `e` leaves no candidate; the loop goes back to `a b c`, which is no
chord, and starts the cool-down - all four keys reach the layout as plain keys although the prefix
`a b` is the participant set of a defined, enabled chord.  (Kanata: `a b c e` typed, `x` never.) -/
theorem chord_v2_backtrack_only_last_prefix_counterexample :
    let s : ChV2 := { cfg := cfgGap,
                      queue := [⟨.press (0, 30), 4⟩, ⟨.press (0, 48), 3⟩, ⟨.press (0, 46), 2⟩, ⟨.press (0, 18), 1⟩] }
    (∃ c ∈ [chAB, chABCD], enabledOn 0 c = true ∧ exactMatch [30, 48] c = true) ∧
    [30, 48] <+: [30, 48, 46, 18] ∧
    (match processPresses s 0 with
      | .ok s' => some (s'.active.length, s'.queue.length, s'.ticksToIgnore)
      | .error _ => none) = some (0, 4, 5) := by
  refine ⟨⟨chAB, List.mem_cons_self, rfl, rfl⟩, ⟨[46, 18], rfl⟩, by decide⟩

/-! ## 1. Order independence over a whole history -/

/-- **chord_v2_order_independent** (full for the stated history shape: every table, every layer, every
order, every spacing; chords of up to 16 keys - the size of the press list of `process_presses`).
At rest (`s0`: nothing queued, no active chord, no cool-down, no countdown running) the keys
`ps = k1 … kn` are pressed in ANY order, `sched` giving for each key but the last the number of ticks
(0 or more) that pass after it; `ps` is, as a set, the participant set of a chord `C` of the table that is
enabled on the layer (`hex`; `ps` distinct).  The presses are delivered within the timeout: the ticks
between first and last press stay below the timeout of EVERY enabled chord that contains the first
key (`hT`; with equal timeouts among the overlapping candidates this is "within the timeout of `C`";
that it cannot be weakened to `C`'s own timeout is `chord_v2_shortest_timeout_decides_counterexample`).
Then
* while the keys arrive the v2 machine hands NOTHING to the layout (`enterV2 … = (s1, [])`): no
  participant's own key event, whatever the order;
* the first tick after the last press (the first press is then `t + 1` ticks old, `t` = sum of the gaps)
  - activates `C` AT ONCE if no other enabled chord contains all of `ps` (`Fk ps = [C]`: no enabled
    strict superset) - or, if there are others but the shortest timeout among them has already run
    out, a chord with exactly the key set `ps`; the queue is empty afterwards (all presses consumed)
    and the only event handed to the layout is chords v2's no-op press `(0,0)`;
  - otherwise (an enabled strict superset is still completable and in time) activates nothing, hands
    over nothing and starts the countdown `minPending (Fk ps) - (t + 1)` (`Waiting`); what ends the
    wait is `chord_v2_superset_wait_ends`.
The conclusion depends on `sched` only through the key SET and the sum of the gaps. -/
theorem chord_v2_order_independent (s0 : ChV2) (layer : Nat) (sched : List (Nat × Nat)) (kn k1 : Nat)
    (possible : List ChordV2) (C : ChordV2)
    (hq : s0.queue = []) (ha : s0.active = []) (ht : s0.ticksToIgnore = 0) (hu : s0.ticksUntilChange = 0)
    (hhead : (sched.map (·.1) ++ [kn]).head? = some k1) (hget : s0.cfg.get k1 = some possible)
    (hnd : (sched.map (·.1) ++ [kn]).Nodup) (hC : C ∈ possible) (hen : enabledOn layer C = true)
    (hex : exactMatch (sched.map (·.1) ++ [kn]) C = true)
    (hlen : (sched.map (·.1) ++ [kn]).length ≤ SMOL_Q_LEN)
    (hT16 : gapSum sched < U16_MAX)
    (hT : ∀ c ∈ Fk possible layer [k1], gapSum sched < c.pending) :
    ∃ s1, enterV2 layer sched s0 = .ok (s1, []) ∧
    ∃ s2 dq, tickChv2 (pushV2 s1 (pressEv kn)) layer = .ok (s2, dq) ∧ s2.cfg = s0.cfg ∧ s2.ticksToIgnore = 0 ∧
      (((Fk possible layer (sched.map (·.1) ++ [kn]) = [C] ∨
          minPending (Fk possible layer (sched.map (·.1) ++ [kn])) ≤ gapSum sched + 1) ∧
        ∃ cch coord, cch ∈ possible ∧ enabledOn layer cch = true ∧ exactMatch (sched.map (·.1) ++ [kn]) cch = true ∧
          (Fk possible layer (sched.map (·.1) ++ [kn]) = [C] → cch = C) ∧
          s2.active = [getActiveChord cch (gapSum sched + 1) coord none] ∧ s2.queue = [] ∧
          dq = [⟨.press (0, 0), 0⟩]) ∨
       (2 ≤ (Fk possible layer (sched.map (·.1) ++ [kn])).length ∧
        gapSum sched + 1 < minPending (Fk possible layer (sched.map (·.1) ++ [kn])) ∧ dq = [] ∧
        Waiting s0.cfg layer (sched.map (·.1) ++ [kn]) (gapSum sched + 1)
          (minPending (Fk possible layer (sched.map (·.1) ++ [kn])) - (gapSum sched + 1)) s2)) := by
  have hM : gapSum sched < minPending (Fk possible layer [k1]) := lt_minPending _ _ hT16 hT
  -- the state with all keys queued
  have hall : ∃ s1, enterV2 layer sched s0 = .ok (s1, []) ∧
      Entry s0.cfg (sched.map (·.1) ++ [kn]) [] (gapSum sched) (pushV2 s1 (pressEv kn)) ∧
      SyncStrict (pushV2 s1 (pressEv kn)) := by
    cases sched with
    | nil =>
      obtain ⟨he, hss⟩ := Entry.first s0 hq ha ht hu kn
      exact ⟨s0, rfl, he, hss⟩
    | cons kg sched' =>
      obtain ⟨k, g⟩ := kg
      have hk : k = k1 := by simpa using hhead
      subst hk
      obtain ⟨he0, hss0⟩ := Entry.first s0 hq ha ht hu k
      have hs0 : Sync (pushV2 s0 (pressEv k)) := by
        rcases hss0 with h | h
        · exact Or.inl h
        · exact Or.inr (Nat.le_of_lt h)
      have hlen' : (k :: sched'.map (·.1)).length + 1 ≤ 16 := by
        have h16 : (List.map (·.1) ((k, g) :: sched') ++ [kn]).length ≤ 16 := hlen
        simp only [List.map_cons, List.length_append, List.length_cons, List.length_nil, List.length_map] at h16 ⊢
        omega
      have hund : ∀ r, r <+: k :: sched'.map (·.1) → r ≠ [] → Undecided possible layer r := by
        intro r hr _
        have hr' : r <+: (List.map (·.1) ((k, g) :: sched') ++ [kn]) := by
          obtain ⟨x, hx⟩ := hr
          exact ⟨x ++ [kn], by simp only [List.map_cons]; rw [← List.append_assoc, hx]⟩
        apply undecided_of_chord possible layer _ C hnd hC hen hex r hr'
        have := hr.length_le
        simp only [List.map_cons, List.length_append, List.length_cons, List.length_nil] at this ⊢
        omega
      have hgs : gapSum ((k, g) :: sched') = g + gapSum sched' := by
        simp only [gapSum, List.map_cons, List.sum_cons]
      rw [hgs] at hM
      obtain ⟨sa, h1, hea, hsa⟩ := entry_ticks s0.cfg layer [k] k possible rfl hget
        (fun r hr hne => hund r (by obtain ⟨x, hx⟩ := hr; exact ⟨x ++ sched'.map (·.1), by rw [← List.append_assoc, hx]; rfl⟩) hne)
        (by show 1 ≤ 16; omega) g 0 _ he0 hs0 (by omega)
      obtain ⟨s1, h2, he1, hs1⟩ := enter_rest s0.cfg layer k possible hget sched' [k] (0 + g) sa hea hsa rfl
        hund (by show (k :: sched'.map (·.1)).length ≤ 16; omega) (by omega)
      have hne1 : [k] ++ sched'.map (·.1) ≠ [] := by simp
      obtain ⟨hp1, hp2⟩ := he1.push hne1 (by show (k :: sched'.map (·.1)).length < 32; omega) (pressEv kn)
      refine ⟨s1, by simp only [enterV2, h1, h2, List.append_nil], ?_, hp2 hs1⟩
      have := hp1.snoc
      rw [hgs, show g + gapSum sched' = 0 + g + gapSum sched' by omega]
      exact this
  obtain ⟨s1, h1, he, hss⟩ := hall
  refine ⟨s1, h1, ?_⟩
  have hU : gapSum sched + 1 ≤ U16_MAX := by omega
  obtain ⟨s2, dq, h2, hc, htti, hres⟩ := activation_tick s0.cfg layer _ (gapSum sched) _ k1 possible C he (hss.not_fast layer)
    hhead hget hnd hC hen hex hlen hU
  refine ⟨s2, dq, h2, hc, htti, ?_⟩
  rcases hres with h | ⟨a1, a2, a3, a4, a5, a6, a7⟩
  · exact Or.inl h
  · exact Or.inr ⟨a1, a2, a4, ⟨a3, a5, a6, a7⟩⟩

/-- hypotheses of `chord_v2_order_independent` on the nested table: `b`, two ticks, `a` (chord `(a b)`,
superset `(a b c)` enabled: the wait branch) -/
example : let s0 : ChV2 := { cfg := cfgNested }
    s0.cfg.get 48 = some [chAB, chABC] ∧ exactMatch ([(48, 2)].map (·.1) ++ [30]) chAB = true ∧
    (∀ c ∈ Fk [chAB, chABC] 0 [48], gapSum [(48, 2)] < c.pending) ∧
    (match enterV2 0 [(48, 2)] s0 with
      | .ok (s1, dq) => (match tickChv2 (pushV2 s1 (pressEv 30)) 0 with
          | .ok (s2, dq2) => some (dq.length, dq2.length, s2.active.length, s2.queue.length, s2.ticksUntilChange)
          | .error _ => none)
      | .error _ => none) = some (0, 0, 0, 2, 27) := by
  refine ⟨rfl, rfl, ?_, by decide⟩
  intro c hc
  have : Fk [chAB, chABC] 0 [48] = [chAB, chABC] := rfl
  rw [this] at hc
  simp only [List.mem_cons, List.not_mem_nil, or_false] at hc
  rcases hc with e | e <;> subst e <;> decide

/-- **chord_v2_superset_wait_ends** (full, for timeouts below 65535).  The wait branch of
`chord_v2_order_independent`: the key set `ps` of the enabled chord `C` is queued, the first press `a`
ticks old, at least one more enabled chord contains all of `ps`, and the countdown stands at
`d = minPending (Fk ps) - a`.  With no further event
* the next `d` ticks take the fast path: nothing is handed to the layout, nothing is activated (so for
  every `j ≤ d` the state after `j` ticks is again `Waiting`, `wait_ticks`);
* tick `d + 1` - the first press is then `minPending (Fk ps) + 1` ticks old: the SHORTEST timeout
  among the chords that contain the pressed set decides, not `C`'s own - activates a chord whose key
  set is exactly `ps`, consumes all presses and hands over only the no-op press `(0,0)`.
An earlier end of the wait is an event: a queued release or press changes the queue length, the next
tick scans, and `chord_v2_largest_wins_spec` gives the decision of that scan - (A) with `rf` for the
release of a participant (the chord with key set `ps` is activated), (C) for a press that no candidate
contains (backtracking to `ps`: the same chord), (A)/(B) for a press of a superset's key. -/
theorem chord_v2_superset_wait_ends (cfg : ChV2Cfg) (layer : Nat) (ps : List Nat) (k1 : Nat)
    (possible : List ChordV2) (C : ChordV2) (a d : Nat) (s : ChV2)
    (hw : Waiting cfg layer ps a d s) (hsum : a + d = minPending (Fk possible layer ps))
    (hlt : minPending (Fk possible layer ps) < U16_MAX)
    (hhead : ps.head? = some k1) (hget : cfg.get k1 = some possible) (hnd : ps.Nodup)
    (hC : C ∈ possible) (hen : enabledOn layer C = true) (hex : exactMatch ps C = true)
    (hlen : ps.length ≤ SMOL_Q_LEN) (h2 : 2 ≤ (Fk possible layer ps).length) :
    ∃ s1, ticksV2c layer d s = .ok (s1, []) ∧ Waiting cfg layer ps (a + d) 0 s1 ∧
    ∃ s2 cch coord, tickChv2 s1 layer = .ok (s2, [⟨.press (0, 0), 0⟩]) ∧
      cch ∈ possible ∧ enabledOn layer cch = true ∧ exactMatch ps cch = true ∧
      s2.active = [getActiveChord cch (a + d + 1) coord none] ∧ s2.queue = [] ∧ s2.ticksToIgnore = 0 := by
  have hu : ∀ r, r <+: ps → r ≠ [] → Undecided possible layer r := by
    intro r hr _
    by_cases hl : r.length < ps.length
    · exact undecided_of_chord possible layer ps C hnd hC hen hex r hr hl
    · have : r = ps := hr.eq_of_length_le (by omega)
      subst this
      refine ⟨fun h => by rw [h] at h2; simp at h2, fun x h => by rw [h] at h2; simp at h2⟩
  obtain ⟨s1, h1, hw1⟩ := wait_ticks cfg layer ps k1 possible hhead hget hu hlen d a d s hw (Nat.le_refl _) (by omega)
  rw [Nat.sub_self] at hw1
  refine ⟨s1, h1, hw1, ?_⟩
  have hnf : ¬ FastCond s1 layer := by
    intro hf
    have := hf.1
    rw [hw1.tuc] at this
    omega
  obtain ⟨s2, dq, h2', _, htti, hres⟩ := activation_tick cfg layer ps (a + d) s1 k1 possible C hw1.entry hnf
    hhead hget hnd hC hen hex hlen (by omega)
  rcases hres with ⟨_, cch, coord, c1, c2, c3, _, c5, c6, c7⟩ | ⟨_, hcontra, _⟩
  · subst c7
    exact ⟨s2, cch, coord, h2', c1, c2, c3, c5, c6, htti⟩
  · omega

/-- the wait state of the example above: `b`, two ticks, `a`, one tick on the nested table -/
example : (match enterV2 0 [(48, 2)] ({ cfg := cfgNested } : ChV2) with
      | .ok (s1, _) => (match tickChv2 (pushV2 s1 (pressEv 30)) 0 with
          | .ok (s2, _) => some (s2.queue.map (fun (q : Queued) => (q.ev, q.since)), s2.ticksUntilChange, s2.prevActiveLayer, s2.prevQueueLen)
          | .error _ => none)
      | .error _ => none) = some ([(.press (0, 48), 3), (.press (0, 30), 1)], 27, 0, 2) ∧
    minPending (Fk [chAB, chABC] 0 [48, 30]) = 30 := by
  refine ⟨by decide, rfl⟩

/-- **chord_v2_shortest_timeout_decides_counterexample** (the known finding "overlapping v2 chords with
different timeouts: the shortest one decides", as a theorem about the model; it is why
`chord_v2_order_independent` asks for the timeout of every overlapping candidate).
`(defchordsv2 (a b) x 50 all-released () (a b c) y 30 first-release ())`, at rest: `p a`, 35 ticks,
`p b` - `b` arrives 35 ticks after `a`, within the 50 of `(a b)`.  But while only `a` is queued both
chords are candidates and the shorter timeout, 30, closes the window: on tick 31 `a` alone is no
chord, the cool-down starts and `a`'s own press is handed to the layout; `b` then starts a new
window and, timing out alone, is handed over as a plain key too - `(a b)` is never activated.  With
the gap 29 (below both timeouts) the chord is activated and no key event is handed over. -/
theorem chord_v2_shortest_timeout_decides_counterexample :
    let s0 : ChV2 := { cfg := cfgNested }
    let run (gap : Nat) := match enterV2 0 [(30, gap)] s0 with
      | .ok (s1, dq) => (match ticksV2c 0 40 (pushV2 s1 (pressEv 48)) with
          | .ok (s2, dq2) => some (dq.map (fun (q : Queued) => q.ev), dq2.map (fun (q : Queued) => q.ev), s2.active.length)
          | .error _ => none)
      | .error _ => none
    exactMatch [30, 48] chAB = true ∧ 35 < chAB.pending ∧
    run 35 = some ([.press (0, 30)], [.press (0, 48)], 0) ∧
    run 29 = some ([], [.press (0, 0)], 1) := by
  refine ⟨rfl, by decide, by decide +kernel, by decide +kernel⟩

/-! ## 3. The release rule -/

/-- **chord_v2_activation_ends_countdown** (full; the repaired behaviour of fix 0b65add).  Whenever
`process_presses` activates a chord it also clears `ticks_until_next_state_change`, so the tick after
an activation is never the fast path of `drain_inputs`: it looks at the queue (`processesQueue`), on
every layer.  Before the repair the countdown of the wait survived the activation and a queue whose
length happened to equal the remembered one (two releases after a two-key chord) was not looked at
until the countdown ran out. -/
theorem chord_v2_activation_ends_countdown (s s' : ChV2) (layer : Nat) (h : processPresses s layer = .ok s')
    (hact : s'.active.length > s.active.length) :
    s'.ticksUntilChange = 0 ∧ ∀ layer', processesQueue s' layer' := by
  have h0 : s'.ticksUntilChange = 0 := by
    unfold processPresses at h
    split at h
    · cases h
    · split at h
      · cases h; omega
      · split at h
        · cases h; simp only at hact; omega
        · simp only [] at h
          split at h
          · cases h
          · cases h
            simp only at hact ⊢
            rw [if_pos hact]
  exact ⟨h0, fun _ => Or.inr (fun hh => by have := hh.1; omega)⟩

/-- an activation on the nested table with a countdown running -/
example : let s : ChV2 := { cfg := cfgNested, ticksUntilChange := 7,
                            queue := [⟨.press (0, 48), 2⟩, ⟨.press (0, 30), 1⟩, ⟨.press (0, 46), 0⟩] }
    (match processPresses s 0 with
      | .ok s' => some (s'.active.length, s'.ticksUntilChange)
      | .error _ => none) = some (1, 0) := by decide

/-- **chord_v2_release_rule** (full: any state, any table, any queue; one tick that looks at the queue -
`processesQueue`: the cool-down or a scan, not the fast path.  The hypothesis cannot be dropped for
ARBITRARY states - a state with a countdown running and `prev_queue_len` equal to the present length
takes the fast path and looks at nothing - but since fix 0b65add it holds on the tick after every
activation (`chord_v2_activation_ends_countdown`) and, `prev_queue_len` being the length left after the
last pass, on the first tick after any event entered the queue).  `a` is an active chord whose action
has been handed to the layout (`Releasable`).  `a.remaining` are the keys still to be released before
the chord ends: `get_active_chord` sets it to `[]` for a first-release chord and to the participants
for an all-released chord (`getActiveChord`), and every release of a participant removes that key.
In the cool-down only row-0 releases count (fix dea6e53).
* **not before, all-released**: if some key still to be released has NO release in the queue, the chord
  is still active after the tick, still `Releasable` (its virtual coordinate stays pressed in the
  layout) and still waits for that key;
* **not before, first-release**: if no participant at all has a release in the queue, the chord is in the
  active list after the tick exactly as it was (aged by one tick);
* **at that tick, never later**: if every key still to be released (for a first-release chord: none)
  has its release in the queue, and at least one participant has, the release of the chord's virtual
  coordinate is among the events handed to the layout on THIS tick and the chord is gone - so a
  first-release chord ends on the tick that sees the first participant release, an all-released chord
  on the tick that sees the last outstanding one, and none later than the release of all participants. -/
theorem chord_v2_release_rule (s s' : ChV2) (layer : Nat) (dq : List Queued)
    (h : tickChv2 s layer = .ok (s', dq)) (hproc : processesQueue s layer)
    (a : ActiveChord) (ha : a ∈ s.active) (hst : a.status = .releasable) :
    (∀ k ∈ a.remaining, (¬ ∃ qd ∈ s.queue, ∃ c, qd.ev = .release c ∧ c.2 = k) →
      ∃ a' ∈ s'.active, a'.coordinate = a.coordinate ∧ a'.keys = a.keys ∧ a'.action = a.action ∧
        a'.status = .releasable ∧ k ∈ a'.remaining) ∧
    ((¬ ∃ qd ∈ s.queue, ∃ c, qd.ev = .release c ∧ a.keys.contains c.2 = true) → agedChord a ∈ s'.active) ∧
    ((∀ k ∈ a.remaining, a.keys.contains k = true) →
      (∀ k ∈ a.remaining, ∃ qd ∈ s.queue, qd.ev = .release (0, k)) →
      (∃ k, a.keys.contains k = true ∧ ∃ qd ∈ s.queue, qd.ev = .release (0, k)) →
      (⟨.release (0, a.coordinate), 0⟩ : Queued) ∈ dq ∧ ∀ a' ∈ s'.active, a'.status ≠ .released) := by
  refine ⟨?_, ?_, ?_⟩
  rotate_left 2
  · intro hsub hall hsome
    exact (chord_v2_released_with_participants s s' layer dq h hproc a ha hsub hall hsome).1 (by rw [hst]; rfl)
  all_goals
    unfold tickChv2 at h
    simp only [] at h
    split at h
    · cases h
    rename_i s1 dq1 hd
    split at h
    · cases h
    rename_i achs dq2 hc
    cases h
    obtain ⟨hr, _⟩ := clearReleased_ok _ _ _ _ hc
    have hproc0 : processesQueue { s with queue := s.queue.map fun (q : Queued) => { q with since := min (q.since + 1) U16_MAX },
                                           active := s.active.map fun a => { a with delay := min (a.delay + 1) U16_MAX } } layer := by
      rcases hproc with hp | hp
      · exact Or.inl hp
      · right; intro hh; apply hp
        exact ⟨hh.1, hh.2.1, by simpa using hh.2.2⟩
    obtain ⟨q, _, hqsub, hact⟩ := drainInputs_active2 _ _ _ _ _ hd hproc0
    have horig : ∀ x ∈ q, ∃ y ∈ s.queue, y.ev = x.ev := by
      intro x hx
      have := hqsub x hx
      simp only [List.mem_map] at this
      obtain ⟨y, hy, e⟩ := this
      exact ⟨y, hy, by rw [← e]⟩
    have hmem1 : relAll (releasedKeys q) (agedChord a) ∈ s1.active := by
      have : relAll (releasedKeys q) (agedChord a) ∈
          applyReleases q (s.active.map fun a => { a with delay := min (a.delay + 1) U16_MAX }) := by
        rw [applyReleases_eq]
        exact List.mem_map_of_mem (List.mem_map_of_mem ha)
      rcases hact with e | ⟨ach, e, _⟩
      · rw [e]; exact this
      · rw [e]; exact List.mem_append_left _ this
    have hfld := relAll_fields (releasedKeys q) (agedChord a)
  · -- not before, all-released
    intro k hk hno
    have hkn : k ∉ releasedKeys q := by
      intro hin
      obtain ⟨x, hx, c, he, hc2⟩ := mem_releasedKeys hin
      obtain ⟨y, hy, hye⟩ := horig x hx
      exact hno ⟨y, hy, c, by rw [hye, he], hc2⟩
    obtain ⟨hs1, hk1⟩ := relAll_keeps (releasedKeys q) (agedChord a) k hk hkn
    have hs2 : (relAll (releasedKeys q) (agedChord a)).status = .releasable := by rw [hs1]; exact hst
    refine ⟨_, ?_, hfld.1, hfld.2.1, hfld.2.2.1, hs2, hk1⟩
    show _ ∈ achs
    rw [hr]
    exact List.mem_filter.mpr ⟨hmem1, by simp [hs2]⟩
  · -- not before, first-release
    intro hno
    have hnone : ∀ j ∈ releasedKeys q, (agedChord a).keys.contains j = false := by
      intro j hj
      obtain ⟨x, hx, c, he, hc2⟩ := mem_releasedKeys hj
      obtain ⟨y, hy, hye⟩ := horig x hx
      cases hcon : (agedChord a).keys.contains j with
      | false => rfl
      | true => exact absurd ⟨y, hy, c, by rw [hye, he], by rw [hc2]; exact hcon⟩ hno
    rw [relAll_noop _ _ hnone] at hmem1
    show _ ∈ achs
    rw [hr]
    exact List.mem_filter.mpr ⟨hmem1, by simp [agedChord, hst]⟩

/-- an all-released chord `(a b)` whose action was delivered; `a`'s release is queued, `b`'s is not: the
chord stays and waits for `b`; with both queued its coordinate is released on that tick -/
example : let ach : ActiveChord := { coordinate := 851, remaining := [30, 48], keys := [30, 48], action := .keyCode 2,
                                     status := .releasable, delay := 3 }
    let st (q : List Queued) : ChV2 := { cfg := cfgNested, queue := q, active := [ach] }
    processesQueue (st [⟨.release (0, 30), 0⟩]) 0 ∧
    (match tickChv2 (st [⟨.release (0, 30), 0⟩]) 0 with
      | .ok (s', dq) => some (s'.active.map (·.remaining), dq.map (fun (q : Queued) => q.ev))
      | .error _ => none) = some ([[48]], [.release (0, 30)]) ∧
    (match tickChv2 (st [⟨.release (0, 30), 0⟩, ⟨.release (0, 48), 0⟩]) 0 with
      | .ok (s', dq) => some (s'.active.map (·.remaining), dq.map (fun (q : Queued) => q.ev))
      | .error _ => none) = some ([], [.release (0, 30), .release (0, 48), .release (0, 0), .release (0, 851)]) := by
  refine ⟨Or.inr (by decide), by decide, by decide⟩

/-! ## 4. Keys that complete no chord -/

/-- **chord_v2_nonchord_keys_in_order** (full: any state, any table, any queue of at most 46 events - the
input queue holds 32; every path of `tick_chv2`: cool-down, fast path, scan with or without an
activation).  `Q` is the queue as the tick ages it.  What one tick hands to the layout is `fwd ++ extra`:
* `extra` are chords v2's own events only - the no-op press `(0,0)` and releases of row-0 coordinates
  (the no-op `(0,0)` and the virtual coordinates of chords that end);
* `fwd` are queued events (nothing is invented), and the real-key (row 0) events of `fwd` followed by
  those still queued after the tick are a SUBSEQUENCE of the real-key events of `Q`: no real-key event is
  duplicated, none overtakes another, and everything handed over was queued before everything kept
  (events on other rows are handed over first, by `drain_virtual_keys`);
* NOTHING IS LOST but chord participants: every real-key event of `Q` is handed over on this tick, or
  still queued, or is the press of a participant of an active chord whose action is about to be handed
  to the layout.
Since `Layout::event` appends at the back of the queue, the same holds over any history: the real-key
events reach the layout in their original order, minus the presses consumed by activated chords. -/
theorem chord_v2_nonchord_keys_in_order (s s' : ChV2) (layer : Nat) (dq : List Queued)
    (h : tickChv2 s layer = .ok (s', dq)) (hroom : s.queue.length + 2 ≤ DRAIN_Q_LEN) :
    ∃ fwd extra, dq = fwd ++ extra ∧
      (∀ x ∈ extra, x.ev = .press (0, 0) ∨ ∃ n, x.ev = .release (0, n)) ∧
      (∀ x ∈ fwd, x ∈ (agedV2 s).queue) ∧
      ((fwd ++ s'.queue).filter row0).Sublist ((agedV2 s).queue.filter row0) ∧
      (∀ x ∈ (agedV2 s).queue, row0 x = true → x ∈ fwd ∨ x ∈ s'.queue ∨
        ∃ c, x.ev = .press c ∧ ∃ a ∈ s'.active, unreadClass a.status = true ∧ a.keys.contains c.2 = true) := by
  rw [tickChv2_eq] at h
  split at h
  · cases h
  · rename_i s1 dq1 hd
    have hl : (agedV2 s).queue.length + 2 ≤ DRAIN_Q_LEN := by rw [agedV2_queue_length]; exact hroom
    obtain ⟨h1, h2, h3, h4⟩ := drainInputs_split (agedV2 s) s1 dq1 layer hd (by omega)
    obtain ⟨extra, e1, e2, e3, e4⟩ := tickTail_split _ s1 s' dq1 dq h (by omega)
    refine ⟨dq1, extra, e1, e4, h3, by rw [e2]; exact h2, ?_⟩
    intro x hx hr0
    rcases h4 x hx hr0 with h' | h' | ⟨c, hc, a, ha, hu, hk⟩
    · exact Or.inl h'
    · exact Or.inr (Or.inl (by rw [e2]; exact h'))
    · refine Or.inr (Or.inr ⟨c, hc, a, ?_, hu, hk⟩)
      rw [e3]
      refine List.mem_filter.mpr ⟨ha, ?_⟩
      cases hs : a.status <;> simp_all [unreadClass]

/-- a scan on the nested table: `r x` (a release in front), `p b`, `p a`, `p d` (no candidate contains
`d`): the release and nothing else of the queue is handed over, `(a b)` is activated by backtracking,
its two presses are consumed and `d` stays queued for the next tick, behind nothing -/
example : let s : ChV2 := { cfg := cfgNested, queue := [⟨.release (0, 45), 0⟩, ⟨.press (0, 48), 2⟩, ⟨.press (0, 30), 1⟩, ⟨.press (0, 32), 0⟩] }
    (match tickChv2 s 0 with
    | .ok (s', dq) => some (dq.map (fun (q : Queued) => q.ev), s'.queue.map (fun (q : Queued) => q.ev),
        s'.active.map (·.keys))
    | .error _ => none) = some ([.release (0, 45), .press (0, 0)], [.press (0, 32)], [[30, 48]]) := by
  decide

end KVerif.C09
