/-
C09 / C02 — chords v2 (`defchordsv2`): the hand-over queue (`DrainQueue`, 48 slots) has room for
everything one tick of the v2 machine can produce, so the machine itself never fails in a reachable
state.  Property theorems only; helper lemmas are in Lemmas/ChordsV2Cap.lean.

`chord_v2_only_drain_queue_assert` (Props/C09V2.lean) shows that from ANY state a tick of the v2 machine
can fail only with `assert!(overflow.is_none(), "oops overflowed drain queue")`.  Here:

1. `chord_v2_tick_never_fails`: with the input queue and the active chords within their container sizes
   (32 and 10) that assertion cannot fail either, and at most `queue + active + 2 ≤ 44` events are
   handed over;
2. `chord_v2_sizes_invariant`: the two sizes are an invariant of `Layout::event` / `Layout::tick`, hence
   hold in every state reachable from a fresh layout;
3. `chord_v2_machine_never_fails_reachable`: so in a reachable state the chords-v2 prologue of
   `Layout::tick` fails only where the hand-over into the layout queue (`Layout::event`'s overflow path)
   fails;
4. `hand_over_loses_nothing_partial`: what that hand-over does to the layout queue.
-/
import KVerif.Lemmas.ChordsV2Cap
namespace KVerif.C09
open KVerif.L

/-! ## 1. One tick of the v2 machine -/

/-- **chord_v2_tick_never_fails** (full).  `s` is ANY state of `ChordsV2` (any table, any counters, any
queue contents, any active chords) whose two containers are within their sizes: `queue.len() ≤ 32`
(`hq`: it is an `ArrayDeque<_, 32>`; needed - `chord_v2_tick_size_hypothesis_needed`) and
`active_chords.len() ≤ 10` (`ha`: a heapless `Vec<_, 10>`).  Then on every layer `tick_chv2`
* succeeds (neither drain-queue assertion fails);
* every event that leaves the input queue accounts for at most one handed-over event, and besides
  those only one release per chord that was active before the tick and the two tap-hold trigger
  events are handed over: `kept + handed over ≤ queue + active + 2` (a chord activated on this very
  tick is never released on it), so at most 44 of the 48 slots are used;
* the input queue does not grow and the active chords stay within 10. -/
theorem chord_v2_tick_never_fails (s : ChV2) (layer : Nat)
    (hq : s.queue.length ≤ QUEUE_SIZE) (ha : s.active.length ≤ ACTIVE_CHORDS_CAP) :
    ∃ s' dq, tickChv2 s layer = .ok (s', dq) ∧
      s'.queue.length + dq.length ≤ s.queue.length + s.active.length + 2 ∧
      dq.length + 4 ≤ DRAIN_Q_LEN ∧
      s'.queue.length ≤ s.queue.length ∧ s'.active.length ≤ ACTIVE_CHORDS_CAP := by
  have hq' : s.queue.length ≤ 32 := hq
  have ha' : s.active.length ≤ 10 := ha
  obtain ⟨s', dq, ht, hl, hq1, _, hc⟩ := tickChv2_cap s layer
    (by show s.queue.length + s.active.length + 2 ≤ 48; omega)
  refine ⟨s', dq, ht, hl, ?_, hq1, hc ha⟩
  show dq.length + 4 ≤ 48
  omega

/-- the same with the one hypothesis the proof uses: the queued events, a release per active chord and
the two trigger events fit into the hand-over queue.  (Sufficient, not necessary: the two trigger
events are pushed without an assertion.) -/
theorem chord_v2_tick_never_fails_room (s : ChV2) (layer : Nat)
    (h : s.queue.length + s.active.length + 2 ≤ DRAIN_Q_LEN) :
    ∃ s' dq, tickChv2 s layer = .ok (s', dq) ∧
      s'.queue.length + dq.length ≤ s.queue.length + s.active.length + 2 ∧
      s'.queue.length ≤ s.queue.length ∧ s'.active.length ≤ s.active.length + 1 ∧
      (s.active.length ≤ ACTIVE_CHORDS_CAP → s'.active.length ≤ ACTIVE_CHORDS_CAP) :=
  tickChv2_cap s layer h

/-- a state within the sizes: a chord table, two presses that complete a chord, an event on a virtual
row, one chord whose release is due -/
def capState : ChV2 :=
  { cfg := { mapping := [(30, [v2Chord]), (48, [v2Chord])], minIdle := 5 },
    queue := [⟨.press (0, 30), 0⟩, ⟨.press (0, 48), 1⟩, ⟨.release (1, 7), 0⟩],
    active := [{ coordinate := 851, remaining := [], keys := [30, 48], action := .keyCode 2,
                 status := .released, delay := 3 }] }

example : capState.queue.length ≤ QUEUE_SIZE ∧ capState.active.length ≤ ACTIVE_CHORDS_CAP ∧
    (match tickChv2 capState 0 with
      | .ok (s', dq) => some (s'.queue.length, s'.active.length, dq.map (·.ev))
      | .error _ => none) =
      some (0, 1, [.release (1, 7), .press (0, 0), .release (0, 0), .release (0, 851)]) := by
  decide

/-- **chord_v2_tick_size_hypothesis_needed**.  Beyond the container sizes the assertion does fail: 48
queued events on a virtual row and one chord to release (not a reachable state - the queue holds 32)
make 49 pushes on the 48 slots.  So `chord_v2_tick_never_fails` is a statement about the sizes, not
about the shape of `tick_chv2`. -/
theorem chord_v2_tick_size_hypothesis_needed :
    crashOf (tickChv2 { cfg := { mapping := [], minIdle := 0 },
                        queue := List.replicate 48 ⟨.release (1, 7), 0⟩,
                        active := [{ coordinate := 851, remaining := [], keys := [30, 48], action := .keyCode 2,
                                     status := .released, delay := 3 }] } 0) = some crashDQ := by
  decide

/-! ## 2. The sizes are an invariant of the whole machine -/

/-- `SizesOKL` spelled out -/
example (s : LayoutV2) : SizesOKL s ↔
    ∀ ch, s.chv2 = some ch → ch.queue.length ≤ QUEUE_SIZE ∧ ch.active.length ≤ ACTIVE_CHORDS_CAP := Iff.rfl

/-- `FreshV2` spelled out -/
example (s : LayoutV2) : FreshV2 s ↔ ∀ ch, s.chv2 = some ch → ch.queue = [] ∧ ch.active = [] := Iff.rfl

/-- **chord_v2_sizes_invariant** (full).  `SizesOKL s`: the chords-v2 state of `s`, if there is one, has
at most 32 queued events and at most 10 active chords.  It is preserved by `Layout::event`, by the
chords-v2 prologue of `Layout::tick` and by `Layout::tick` whenever they return; hence it holds in
every state reachable (`ReachV2`: any sequence of key events and ticks, none of which crashed) from a
state where it holds - in particular from a fresh layout (`FreshV2`: nothing queued, no active
chord) - and after every history of presses, releases and ticks (`stepsV2`, the runner of the pinned
counterexamples).  No hypothesis on the configuration, the layout state or the events. -/
theorem chord_v2_sizes_invariant :
    (∀ (s s' : LayoutV2) (ev : Ev), s.event ev = .ok s' → SizesOKL s → SizesOKL s') ∧
    (∀ (s s' : LayoutV2), tickV2Pre s = .ok s' → SizesOKL s → SizesOKL s') ∧
    (∀ (s s' : LayoutV2) (cu : CustomEv), s.tick = .ok (s', cu) → SizesOKL s → SizesOKL s') ∧
    (∀ (s0 s : LayoutV2), SizesOKL s0 → ReachV2 s0 s → SizesOKL s) ∧
    (∀ (s0 s : LayoutV2), FreshV2 s0 → ReachV2 s0 s → SizesOKL s) ∧
    (∀ (s0 s : LayoutV2) (hist : List In), FreshV2 s0 → stepsV2 LayoutV2.tick hist s0 = .ok s → SizesOKL s) :=
  ⟨fun s s' ev h hs => LayoutV2.event_sizes s s' ev h hs,
   fun s s' h hs => tickV2Pre_sizes s s' h hs,
   fun s s' cu h hs => LayoutV2.tick_sizes s s' cu h hs,
   fun _ _ h0 hr => hr.sizes h0,
   fun _ _ h0 hr => hr.sizes h0.sizes,
   fun s0 s hist h0 h => (stepsV2_reach hist s0 s0 s .start h).sizes h0.sizes⟩

theorem v2Start_fresh : FreshV2 v2Start := by
  intro ch hc
  cases hc
  exact ⟨rfl, rfl⟩

/-- a reachable state with all ten slots taken: a and b pressed eleven times without a release -/
example : FreshV2 v2Start ∧
    (obsV2 (stepsV2 LayoutV2.tick elevenTimes v2Start)).map (·.2.2.2.length) = some 10 :=
  ⟨v2Start_fresh, by decide +kernel⟩

/-! ## 3. The machine never fails in a reachable state -/

/-- **chord_v2_machine_never_fails_reachable** (full).  `s` is any state reachable from a state `s0`
within the sizes (`h0`; every fresh layout is: `FreshV2.sizes`) by key events and ticks.  Then
* `tick_chv2` succeeds on the chords-v2 state of `s`, on any layer, handing over at most
  `queue + active + 2 ≤ 44` events;
* the chords-v2 prologue of `Layout::tick` fails only if the hand-over of those events into the layout
  queue fails, i.e. in `Layout::event`'s own overflow path (`flushWaitings` / `dequeue`: the waiting
  keys forced to hold, the oldest event processed at once) - never with the drain-queue assertion of
  the v2 machine, never with "active chords has room";
* `Layout::tick` fails only there or in the tick of the layout proper. -/
theorem chord_v2_machine_never_fails_reachable (s0 s : LayoutV2) (h0 : SizesOKL s0) (hr : ReachV2 s0 s) :
    (∀ ch, s.chv2 = some ch → ∀ layer, ∃ ch' dq, tickChv2 ch layer = .ok (ch', dq) ∧
      dq.length ≤ ch.queue.length + ch.active.length + 2 ∧ dq.length + 4 ≤ DRAIN_Q_LEN) ∧
    (∀ c, tickV2Pre s = .error c →
      ∃ ch ch' dq, s.chv2 = some ch ∧ tickChv2 ch s.lay.currentLayer = .ok (ch', dq) ∧
        handOver s.lay dq = .error c) ∧
    (∀ c, s.tick = .error c →
      (∃ ch ch' dq, s.chv2 = some ch ∧ tickChv2 ch s.lay.currentLayer = .ok (ch', dq) ∧
        handOver s.lay dq = .error c) ∨
      ∃ s1, tickV2Pre s = .ok s1 ∧ KVerif.L.tick s1.lay = .error c) := by
  have hs : SizesOKL s := hr.sizes h0
  have h1 : ∀ ch, s.chv2 = some ch → ∀ layer, ∃ ch' dq, tickChv2 ch layer = .ok (ch', dq) ∧
      dq.length ≤ ch.queue.length + ch.active.length + 2 ∧ dq.length + 4 ≤ DRAIN_Q_LEN := by
    intro ch hch layer
    obtain ⟨hq, ha⟩ := hs ch hch
    obtain ⟨ch', dq, ht, hl, h4, _, _⟩ := chord_v2_tick_never_fails ch layer hq ha
    exact ⟨ch', dq, ht, by omega, h4⟩
  have h2 : ∀ c, tickV2Pre s = .error c →
      ∃ ch ch' dq, s.chv2 = some ch ∧ tickChv2 ch s.lay.currentLayer = .ok (ch', dq) ∧
        handOver s.lay dq = .error c := by
    intro c hc
    unfold tickV2Pre at hc
    split at hc
    · cases hc
    · rename_i ch hch
      obtain ⟨ch', dq, ht, _⟩ := h1 ch hch s.lay.currentLayer
      rw [ht] at hc
      simp only [] at hc
      split at hc
      · rename_i c' he
        cases hc
        exact ⟨ch, ch', dq, hch, ht, he⟩
      · split at hc <;> cases hc
  refine ⟨h1, h2, ?_⟩
  intro c hc
  unfold LayoutV2.tick at hc
  split at hc
  · rename_i c' he
    cases hc
    exact Or.inl (h2 _ he)
  · rename_i s1 hs1
    split at hc
    · rename_i c' he
      cases hc
      exact Or.inr ⟨s1, hs1, he⟩
    · cases hc

/-! ## 4. The hand-over into the layout queue -/

/-- **hand_over_loses_nothing_partial**.  Full statement, not proved: `hand_over_loses_nothing` - for
every layout and every list of handed-over events, `handOver lay dq = .ok lay'` implies that
`lay.queue.map (·.ev) ++ dq.map (·.ev) = log.map (·.ev) ++ lay'.queue.map (·.ev)` where `log` are the
events `dequeue` was called on, in order.  As it stands that is not a property of `Layout::event`'s
overflow path: `do_action`, run by `dequeue` on a press or by a waiting key forced to hold, can itself
queue an event (the release of a one-shot key evicted from the full one-shot list), which then sits in
the queue between the old and the handed-over events - nothing is lost, but the equation gains a
term.  What is missing for the general statement "the new queue is the old events not yet processed,
the handed-over events, and the events `do_action` queued, in order" is a frame lemma for `queue`
through the mutual block `do_action` / `waiting_into_hold` / `dequeue` / `event`.

Proved, with `handOverLog` = `handOver` returning in addition the events `dequeue` was called on and a
flag "every overflow step left the layout queue as it found it":
(a) `handOverLog` is `handOver`: same failure, same layout;
(b) when the flag is set nothing is lost, duplicated or reordered: old queue ++ handed-over events =
    events processed at once ++ new queue (also as lists of bare events);
(c) when the events fit (`queue + dq ≤ 32`) the hand-over cannot fail and is a plain append;
(d) when no key is waiting (no tap-hold / tap-dance / chord v1 pending) and the events that do not
    fit - the first `queue + dq − 32` of old queue ++ handed-over events - are releases, the hand-over
    cannot fail, the flag is set, and (b) applies. -/
theorem hand_over_loses_nothing_partial :
    (∀ (lay : Layout) (dq : List Queued),
      handOver lay dq = match handOverLog lay dq with
        | .error c => .error c
        | .ok r => .ok r.1) ∧
    (∀ (lay lay' : Layout) (dq log : List Queued), handOverLog lay dq = .ok (lay', log, true) →
      lay.queue ++ dq = log ++ lay'.queue ∧
      lay.queue.map (·.ev) ++ dq.map (·.ev) = log.map (·.ev) ++ lay'.queue.map (·.ev) ∧
      lay'.queue.map (·.ev) <:+ lay.queue.map (·.ev) ++ dq.map (·.ev)) ∧
    (∀ (lay : Layout) (dq : List Queued), lay.queue.length + dq.length ≤ QUEUE_SIZE →
      handOver lay dq = .ok { lay with queue := lay.queue ++ dq }) ∧
    (∀ (lay : Layout) (dq : List Queued), lay.waiting = none → lay.extraWaiting = [] →
      (∀ q ∈ (lay.queue ++ dq).take (lay.queue.length + dq.length - QUEUE_SIZE), q.ev.isPress = false) →
      ∃ lay' log, handOver lay dq = .ok lay' ∧ handOverLog lay dq = .ok (lay', log, true) ∧
        lay.queue ++ dq = log ++ lay'.queue) := by
  refine ⟨fun lay dq => handOverLog_fst dq lay, ?_, fun lay dq h => handOver_fits dq lay h, ?_⟩
  · intro lay lay' dq log h
    have e := handOverLog_conserve dq lay lay' log h
    have e2 : lay.queue.map (·.ev) ++ dq.map (·.ev) = log.map (·.ev) ++ lay'.queue.map (·.ev) := by
      rw [← List.map_append, ← List.map_append, e]
    exact ⟨e, e2, ⟨log.map (·.ev), e2.symm⟩⟩
  · intro lay dq hw he hrel
    obtain ⟨lay', log, hl, _, _⟩ := handOverLog_releases dq lay hw he hrel
    refine ⟨lay', log, ?_, hl, handOverLog_conserve dq lay lay' log hl⟩
    rw [handOverLog_fst, hl]

/-- the layout of the pinned histories with a full queue: a press of `a` followed by 31 releases -/
def capLay : Layout :=
  { v2Start.lay with queue := ⟨.press (0, 30), 2⟩ :: List.replicate 31 ⟨.release (0, 48), 0⟩ }

/-- (b), (c) are not vacuous: one more event makes the press of `a` fall out of the queue; it is
processed at once (the key goes down) and the queue is left alone -/
example : (match handOverLog capLay [⟨.release (0, 30), 0⟩] with
      | .ok (lay', log, st) => some (log.map (·.ev), st, lay'.queue.length, lay'.keycodes)
      | .error _ => none) = some ([.press (0, 30)], true, 32, [30]) := by
  decide +kernel

/-- (d) is not vacuous: 31 queued releases, three more handed over, two fall out -/
example : let lay : Layout := { v2Start.lay with queue := List.replicate 31 ⟨.release (0, 48), 0⟩ }
    let dq : List Queued := [⟨.release (0, 30), 0⟩, ⟨.release (0, 0), 0⟩, ⟨.release (0, 851), 0⟩]
    lay.waiting = none ∧ lay.extraWaiting = [] ∧ lay.queue.length + dq.length - QUEUE_SIZE = 2 ∧
    (∀ q ∈ (lay.queue ++ dq).take (lay.queue.length + dq.length - QUEUE_SIZE), q.ev.isPress = false) := by
  decide

end KVerif.C09
