/-
C09 at the kanata level — chords v2 (`defchordsv2`) inside the composed model Model/KanataV2.lean
(`KV2` = kanata state + the chords-v2 state of its layout; `tickStatesV2`, `handleInputEventV2`,
`isIdleV2`, `canBlockV2` mirror src/kanata/mod.rs over `Layout` WITH its `chords_v2` field).
Property theorems only; helper lemmas in Lemmas/KanataV2Rest.lean.

(a) `idle_implies_chv2_at_rest`   what `can_block_update_idle_waiting` establishes about the chords-v2
    machine: exactly the three facts the code checks (input queue empty, no active chord, cool-down
    over). Before fix PENDING-kanv2 that was weaker than "at rest": `chv2_stale_countdown_counterexample`
    (over the pinned cool-down branch: a reachable blocking state whose scan countdown is still running;
    a `tap` input arriving then waits for it, while after one more tick it would not - reproduced on
    the real code, corpus/C07.txt). Since the repair: `cooldown_leaves_no_stale_countdown`,
    `chv2_no_stale_countdown_invariant`, `idle_implies_chv2_at_rest_full`, `chv2_stale_countdown_repaired`.
(b) `block_silent_v2`             C07's `block_silent` for the composed model: from a state in which
    kanata may block, a whole `tick_states` emits nothing and changes only ageing counters - of the
    layout (C07) and of the chords-v2 machine (`restTick`: the three fields of the scan-skipping
    optimisation); the blocking condition is preserved, so this holds for any number of ticks
    (`block_silent_v2_forever`).
(c) `chord_v2_action_reaches_os_once_kan_partial`  see there.
-/
import KVerif.Lemmas.KanataV2Rest
import KVerif.Props.C09V2
namespace KVerif.C09
open KVerif.L KVerif.K

/-! ## (a) what blocking establishes about chords v2 -/

/-- **idle_implies_chv2_at_rest** (full; the statement is exactly what the code checks).  When
`can_block_update_idle_waiting` of the composed model answers "block", kanata's own idle predicate
holds and the chords-v2 machine has an empty input queue, no active chord (so no chord waits for its
release or for being read) and no running `chords-v2-min-idle` cool-down. -/
theorem idle_implies_chv2_at_rest (s : KV2) (ms : Nat) (h : (canBlockV2 s ms).2 = true) :
    isIdle s.k = true ∧ s.k.waitingForIdle = [] ∧ Chv2RestO s.chv2 := by
  simp only [canBlockV2, isIdleV2, Bool.and_eq_true, Bool.not_eq_true', Bool.or_eq_false_iff] at h
  obtain ⟨⟨⟨⟨⟨hi, hc⟩, hcnt⟩, _⟩, hacc⟩, _⟩ := h
  refine ⟨hi, ?_, ?_⟩
  · have := hcnt.1
    simpa using this
  · intro ch hch
    rw [hch] at hc hacc
    simp only [chv2IsIdle, Bool.and_eq_true, List.isEmpty_iff] at hc
    simp only [chv2Accepts, beq_iff_eq] at hacc
    exact ⟨hc.1, hc.2, hacc⟩

/-- non-vacuity of (a): a fresh configuration with a chord table may block -/
example : (canBlockV2 { k := { layout := { cfg := { layers := [[]], srcKeys := [] } }, customs := [], keyOutputs := [[]],
                               mods := { codes := [42, 54, 56, 100, 29, 97, 125, 126], lsft := 42, rsft := 54 } },
                        chv2 := some { cfg := { mapping := [(30, [v2Chord]), (48, [v2Chord])], minIdle := 5 } } } 1).2 = true := by
  rfl

/-! ## (b) ticking instead of blocking is unobservable -/

/-- the states the loop may sleep in (C07's `MayBlock` for the kanata part, which lists the two facts
the idle predicate does not check) and the chords-v2 facts of (a) -/
structure MayBlockV2 (s : KV2) (cur' : List KeyCode) (ost : Override.OverrideStates) : Prop where
  kan : C07.MayBlock s.k cur' ost
  rest : Chv2RestO s.chv2

/-- the state one tick later: C07's closed form for the kanata part, `restTick` for chords v2 -/
def afterQuietTickV2 (s : KV2) (cur' : List KeyCode) (ost : Override.OverrideStates) : KV2 :=
  { k := C07.afterQuietTick s.k cur' ost, chv2 := restTickO s.chv2 s.k.layout.currentLayer }

/-- **block_silent_v2** (full, under C07's hypotheses).  From a state in which the composed model may
block, one whole `tick_states` cannot crash, emits nothing, leaves the layout's states alone, and
changes in the chords-v2 machine only the three fields of the scan-skipping optimisation (`restTick`:
`ticks_until_next_state_change` counts down or is reset, `prev_active_layer` / `prev_queue_len` are
refreshed): table, queue, active chords, cool-down and the coordinate counter are untouched.  The
blocking condition holds again afterwards. -/
theorem block_silent_v2 (s : KV2) (cur' : List KeyCode) (ost : Override.OverrideStates) (h : MayBlockV2 s cur' ost) :
    tickStatesV2 s = .ok (afterQuietTickV2 s cur' ost) ∧
    (afterQuietTickV2 s cur' ost).k.out = s.k.out ∧
    (afterQuietTickV2 s cur' ost).k.layout.states = s.k.layout.states ∧
    (∀ ch, s.chv2 = some ch → ∃ ch', (afterQuietTickV2 s cur' ost).chv2 = some ch' ∧
        ch'.cfg = ch.cfg ∧ ch'.queue = [] ∧ ch'.active = [] ∧ ch'.ticksToIgnore = 0 ∧ ch'.nextCoord = ch.nextCoord) ∧
    (s.chv2 = none → (afterQuietTickV2 s cur' ost).chv2 = none) ∧
    MayBlockV2 (afterQuietTickV2 s cur' ost) cur' ost := by
  obtain ⟨hk, hr⟩ := h
  obtain ⟨_, ho, hst, hm⟩ := C07.block_silent s.k cur' ost hk
  obtain ⟨i1, i2, i3, i4, i5, i6, i7, i8, i9, i10, i11, i12, i13, i14, i15, i16, i17⟩ := C07.idle_covers_time_driven s.k hk.idle
  have hq : C07.QuietLayout s.k.layout := ⟨i1, i2, i3, i5, i6, i7, i8, i9, hk.plain⟩
  let k1 : KState := { s.k with layout := tickPre s.k.layout, overrideStates := ost, curKeys := cur' }
  -- [seq] whatever the sequence configuration: with the key lists in sync no sequence hook runs
  have e1 : handleKeystateChangesV2 s = .ok { k := k1, chv2 := restTickO s.chv2 s.k.layout.currentLayer } :=
    handleKeystateChangesV2_quiet s hr hq i15 hk.curEmpty cur' ost hk.wanted hk.noErase hk.synced
  have e2 : tickMid k1 = .ok k1 := by
    unfold tickMid
    rw [C07.handleScrolling_none k1 i10 i11]
    simp only []
    rw [C07.handleMoveMouse_none k1 i12 i13]
    exact tickSequenceState_inactive k1 i17
  have e3 : tickIdleTimeoutV2 { k := k1, chv2 := restTickO s.chv2 s.k.layout.currentLayer }
      = .ok { k := k1, chv2 := restTickO s.chv2 s.k.layout.currentLayer } :=
    tickIdleTimeoutV2_nil _ hk.noWait
  have e4 : tickHeldVkeysV2 (afterQuietTickV2 s cur' ost) = .ok (afterQuietTickV2 s cur' ost) :=
    tickHeldVkeysV2_nil _ i16
  refine ⟨?_, ho, hst, ?_, ?_, ⟨hm, restTickO_rest _ _ hr⟩⟩
  · unfold tickStatesV2
    simp only [e1, e2, e3]
    have hb : tickBook k1 = C07.afterQuietTick s.k cur' ost := by
      unfold tickBook
      have hrc : k1.dyn.rcd = none := hk.noRec
      simp only [dynTickRecord, hrc]
      rfl
    rw [hb]
    exact e4
  · intro ch hch
    refine ⟨restTick ch s.k.layout.currentLayer, ?_, rfl, (hr ch hch).queue, (hr ch hch).active, (hr ch hch).cool, rfl⟩
    simp only [afterQuietTickV2, restTickO, hch, Option.map_some]
  · intro hn
    simp only [afterQuietTickV2, restTickO, hn, Option.map_none]

/-- `n` consecutive ticks of the composed model -/
def ticksV2N : Nat → KV2 → Except K.Crash KV2
  | 0, s => .ok s
  | n + 1, s => match tickStatesV2 s with
    | .error c => .error c
    | .ok s' => ticksV2N n s'

/-- **block_silent_v2_forever** (full): any number of ticks from a blocking state emits nothing, cannot
crash, keeps the layout's states, keeps the chords-v2 machine at rest with its table, and stays a
blocking state - sleeping instead of ticking changes no output. -/
theorem block_silent_v2_forever (n : Nat) : ∀ (s : KV2) (cur' : List KeyCode) (ost : Override.OverrideStates),
    MayBlockV2 s cur' ost →
    ∃ s', ticksV2N n s = .ok s' ∧ s'.k.out = s.k.out ∧ s'.k.layout.states = s.k.layout.states ∧
      s'.chv2.isSome = s.chv2.isSome ∧ MayBlockV2 s' cur' ost := by
  induction n with
  | zero => intro s cur' ost h; exact ⟨s, rfl, rfl, rfl, rfl, h⟩
  | succ n ih =>
    intro s cur' ost h
    obtain ⟨e, ho, hs, _, _, hm⟩ := block_silent_v2 s cur' ost h
    obtain ⟨s', e', ho', hs', hc', hm'⟩ := ih _ cur' ost hm
    refine ⟨s', ?_, ho'.trans ho, hs'.trans hs, ?_, hm'⟩
    · simp only [ticksV2N, e]; exact e'
    · rw [hc']; simp only [afterQuietTickV2, restTickO, Option.isSome_map]

/-- non-vacuity of (b): a key held down with a chord table configured, its countdown still running -/
def heldWithTable : KV2 :=
  { k := { layout := { cfg := { layers := [[]], srcKeys := [] }, states := [.normalKey 30 (0, 30) 0] },
           customs := [], keyOutputs := [[]], prevKeys := [30],
           mods := { codes := [42, 54, 56, 100, 29, 97, 125, 126], lsft := 42, rsft := 54 } },
    chv2 := some { cfg := { mapping := [(30, [v2Chord]), (48, [v2Chord])], minIdle := 5 },
                   ticksUntilChange := 7, prevActiveLayer := 0, prevQueueLen := 0 } }

example : MayBlockV2 heldWithTable [30] Override.OverrideStates.new :=
  ⟨⟨rfl, rfl, by intro st hst; simp [heldWithTable] at hst; subst hst; trivial, rfl, rfl, rfl,
    ⟨fun _ h => h, fun _ h => h⟩, rfl⟩,
   by intro ch hch; simp only [heldWithTable, Option.some.injEq] at hch; rw [← hch]; exact ⟨rfl, rfl, rfl⟩⟩

/-! ## Runs of the composed model -/

inductive KIn | inp (i : Input) | t (n : Nat)

def runKV2 : List KIn → KV2 → Except K.Crash KV2
  | [], s => .ok s
  | .inp i :: rest, s => match handleInputEventV2 s i with
    | .error c => .error c
    | .ok s => runKV2 rest s
  | .t n :: rest, s => match ticksV2N n s with
    | .error c => .error c
    | .ok s => runKV2 rest s

/-- keys a b c mapped to themselves, `(defchordsv2 (a b) 1 50 all-released ())`, rapid-event-delay 5:
the layout and table of `v2Start` (Props/C09V2.lean) under the kanata layer -/
def kanStart : KV2 :=
  { k := { layout := v2Start.lay, customs := [], keyOutputs := [[]],
           mods := { codes := [42, 54, 56, 100, 29, 97, 125, 126], lsft := 42, rsft := 54 } },
    chv2 := v2Start.chv2 }

/-- what reached the OS, the scan-skipping countdown and remembered queue length, whether kanata may block -/
def obsK : Except K.Crash KV2 → Option (List Os × Nat × Nat × Bool)
  | .error _ => none
  | .ok s => some (s.k.out, ((s.chv2.map (·.ticksUntilChange)).getD 0), ((s.chv2.map (·.prevQueueLen)).getD 0),
                   (canBlockV2 s 1).2)

/-- a alone is pressed and released 3 ms later (a failed chord attempt), then 5 ms pass -/
def failedAttempt : List KIn := [.inp (.press 30), .t 3, .inp (.release 30), .t 5]

/-- the same history at the layout level (`stepsV2` of Props/C09V2.lean takes the tick function) -/
def failedAttemptL : List In := [.p 30, .t 3, .r 30, .t 5]

/-- held keys, layout queue length, and of the chords-v2 machine: queue length, active chords, cool-down,
scan countdown, remembered queue length -/
def obsS : Except L.Crash LayoutV2 → Option (List Nat × List Nat)
  | .error _ => none
  | .ok s => match s.chv2 with
    | none => none
    | some c => some (s.lay.keycodes, [s.lay.queue.length, c.queue.length, c.active.length, c.ticksToIgnore,
                                       c.ticksUntilChange, c.prevQueueLen])

/-- **chv2_stale_countdown_counterexample** (the code BEFORE fix PENDING-kanv2, `PinnedStale.tickV2` of
Model/ChordsV2Pinned.lean: the cool-down branch of `drain_inputs` returned without touching
`ticks_until_next_state_change`).  After a failed chord attempt the cool-down ends with the countdown
of the last scan (46) and its queue length (2) left over, while everything `is_idle_chv2` and
`accepts_chords_chv2` look at is at rest: queue empty, no active chord, cool-down 0 - kanata blocks in
that state (first line).  One more tick resets the leftover (second line), so the blocking loop and the
always-ticking loop are in DIFFERENT states when the next input arrives, and an input that puts two
events into the queue at once (`KeyValue::Tap`, a virtual-key tap: press and release with no tick
between) tells them apart: from the blocking state the queue length equals the remembered 2 and the
scan is skipped while the stale countdown runs - two ticks later both events are still in the
chords-v2 queue and nothing is held (third line); had the loop ticked once more before the same input,
the key is down after two ticks (fourth line).  Reproduced on the real code (corpus/C07.txt, `kanv2
stale countdown`: the tapped key appears 195 ms later under the blocking loop).  On the repaired code
the leftover countdown is gone and both orders give the same (fifth, sixth line). -/
theorem chv2_stale_countdown_counterexample :
    obsS (stepsV2 PinnedStale.tickV2 failedAttemptL v2Start) = some ([], [0, 0, 0, 0, 46, 2]) ∧
    obsS (stepsV2 PinnedStale.tickV2 (failedAttemptL ++ [.t 1]) v2Start) = some ([], [0, 0, 0, 0, 0, 0]) ∧
    obsS (stepsV2 PinnedStale.tickV2 (failedAttemptL ++ [.p 30, .r 30, .t 2]) v2Start) = some ([], [0, 2, 0, 0, 44, 2]) ∧
    obsS (stepsV2 PinnedStale.tickV2 (failedAttemptL ++ [.t 1, .p 30, .r 30, .t 2]) v2Start) = some ([30], [1, 0, 0, 3, 49, 2]) ∧
    obsS (stepsV2 LayoutV2.tick (failedAttemptL ++ [.p 30, .r 30, .t 2]) v2Start) = some ([30], [1, 0, 0, 3, 0, 2]) ∧
    obsS (stepsV2 LayoutV2.tick (failedAttemptL ++ [.t 1, .p 30, .r 30, .t 2]) v2Start) = some ([30], [1, 0, 0, 3, 0, 2]) := by
  refine ⟨?_, ?_, ?_, ?_, ?_, ?_⟩ <;> decide +kernel

/-! ### What the repair PENDING-kanv2 makes true -/

/-- the scan branch of `drain_inputs` (its third branch) -/
def scanNow (s : ChV2) (dq : List Queued) (layer : Nat) : Except L.Crash (ChV2 × List Queued) :=
  let s := { s with ticksUntilChange := 0, prevActiveLayer := layer }
  match drainVirtualKeys s.queue dq with
  | .error c => .error c
  | .ok (q, dq) =>
    match drainReleases q 0 s.active dq with
    | .error c => .error c
    | .ok (q, achs, dq) =>
      match processPresses { s with queue := q, active := achs } layer with
      | .error c => .error c
      | .ok s => .ok ({ s with prevQueueLen := s.queue.length % 256 }, dq)

/-- **cooldown_leaves_no_stale_countdown** (full, any state).  A tick that finds the cool-down running
empties the queue and leaves `ticks_until_next_state_change = 0`; and with the countdown at 0 (and no
cool-down) `drain_inputs` never takes the skipping branch: whatever the remembered layer and queue
length, the queue is scanned in that very tick.  So an input that arrives after a cool-down - of any
queue length - is scanned at once. -/
theorem cooldown_leaves_no_stale_countdown (s : ChV2) (dq : List Queued) (layer : Nat) :
    (s.ticksToIgnore > 0 → ∃ s' dq', drainInputs s dq layer = .ok (s', dq') ∧ s'.ticksUntilChange = 0 ∧ s'.queue = []) ∧
    (s.ticksToIgnore = 0 → s.ticksUntilChange = 0 → drainInputs s dq layer = scanNow s dq layer) := by
  constructor
  · intro h
    unfold drainInputs
    simp only [h, if_true]
    exact ⟨_, _, rfl, rfl, rfl⟩
  · intro h1 h2
    unfold drainInputs scanNow
    simp only [h1, h2, Nat.lt_irrefl, gt_iff_lt, if_false, decide_false, Bool.false_and, Bool.false_eq_true]
    rfl

/-- the countdown is only ever non-zero while presses are waiting in the queue -/
def NoStale (s : ChV2) : Prop := s.queue = [] → s.ticksUntilChange = 0

theorem processPresses_noStale (s s' : ChV2) (layer : Nat) (h0 : s.ticksUntilChange = 0)
    (h : processPresses s layer = .ok s') : NoStale s' := by
  intro hq
  unfold processPresses at h
  split at h
  · cases h
  · rename_i presses relFound hcp
    split at h
    · injection h with h; rw [← h]; exact h0
    · rename_i starting hhead
      split at h
      · injection h with h; rw [← h]; exact h0
      · simp only [] at h
        split at h
        · cases h
        · injection h with h
          rw [← h] at hq ⊢
          simp only at hq ⊢
          split
          · rfl
          · rename_i hna
            simp only [hna, if_false] at hq
            rw [hq] at hcp
            simp only [collectPresses] at hcp
            injection hcp with hcp
            injection hcp with hp _
            rw [← hp] at hhead
            cases hhead

/-- **chv2_no_stale_countdown_invariant** (full; what the repair adds to `idle_implies_chv2_at_rest`).
`NoStale` - an empty queue has no countdown - holds in the fresh state, is preserved by every event
(the queue is not empty afterwards) and by every tick of the chords-v2 machine from ANY state that has
it.  With it, a blocking state (`idle_implies_chv2_at_rest`: queue empty) has `ticksUntilChange = 0`:
at rest in the full sense - the next input, of whatever queue length, is scanned in the first tick
after it (`cooldown_leaves_no_stale_countdown`), as under the loop that never blocks. -/
theorem chv2_no_stale_countdown_invariant :
    (∀ cfg : ChV2Cfg, NoStale { cfg }) ∧
    (∀ (s s' : ChV2) (layer : Nat) (dq : List Queued), NoStale s → tickChv2 s layer = .ok (s', dq) → NoStale s') := by
  refine ⟨fun _ _ => rfl, ?_⟩
  intro s s' layer dq hn h
  unfold tickChv2 at h
  simp only [] at h
  split at h
  · cases h
  · rename_i s1 dq1 hd
    split at h
    · cases h
    · rename_i achs dq2 _
      injection h with h; injection h with h _
      rw [← h]
      show s1.queue = [] → s1.ticksUntilChange = 0
      unfold drainInputs at hd
      simp only [] at hd
      split at hd
      · injection hd with hd; injection hd with hd _
        rw [← hd]; intro _; rfl
      · split at hd
        · rename_i hskip
          injection hd with hd; injection hd with hd _
          rw [← hd]
          intro hq
          simp only [List.map_eq_nil_iff] at hq
          have := hn hq
          simp only [Bool.and_eq_true, decide_eq_true_eq] at hskip
          omega
        · split at hd
          · cases hd
          · split at hd
            · cases hd
            · split at hd
              · cases hd
              · rename_i s2 hpp
                injection hd with hd; injection hd with hd _
                rw [← hd]
                exact processPresses_noStale _ s2 layer rfl hpp

/-- a blocking state that has the invariant is at rest in the full sense -/
theorem idle_implies_chv2_at_rest_full (s : KV2) (ms : Nat) (h : (canBlockV2 s ms).2 = true)
    (ch : ChV2) (hch : s.chv2 = some ch) (hn : NoStale ch) :
    ch.queue = [] ∧ ch.active = [] ∧ ch.ticksToIgnore = 0 ∧ ch.ticksUntilChange = 0 := by
  obtain ⟨_, _, hr⟩ := idle_implies_chv2_at_rest s ms h
  have := hr ch hch
  exact ⟨this.queue, this.active, this.cool, hn this.queue⟩

/-- the failed attempt on the repaired model: kanata may block with no countdown left, and the tap that
follows is out after three ticks whether or not the loop ticked in between -/
theorem chv2_stale_countdown_repaired :
    obsK (runKV2 failedAttempt kanStart) = some ([.down 30, .up 30], 0, 2, true) ∧
    obsK (runKV2 (failedAttempt ++ [.inp (.tap 30), .t 3]) kanStart)
      = some ([.down 30, .up 30, .down 30, .up 30], 0, 2, false) ∧
    obsK (runKV2 (failedAttempt ++ [.t 1, .inp (.tap 30), .t 3]) kanStart)
      = some ([.down 30, .up 30, .down 30, .up 30], 0, 2, false) := by
  decide +kernel

/-! ## (c) the chord's action reaches the OS once -/

/-- both keys of the chord pressed `g` ms apart (either order), held, released one after the other,
then a quiet tail -/
def chordTyped (first second g : Nat) : List KIn :=
  [.inp (.press first), .t g, .inp (.press second), .t 10, .inp (.release first), .t 3, .inp (.release second), .t 70]

/-- **chord_v2_action_reaches_os_once_kan_partial**.  Full statement, not proved:
`chord_v2_action_reaches_os_once_kan` - for EVERY configuration with a two-key chord `{a, b}` whose
action is a plain key `c`, every state in which the chords-v2 machine and the layout are at rest,
every gap below the chord's timeout and either press order, the composed model emits exactly
`[down c, up c]`.  Proved here: that statement for the table `(defchordsv2 (a b) 1 50 all-released ())`
over plain keys from the fresh state, for the gaps 0, 1, 2, 24, 46, 47 ms between the two presses (the
boundaries of the 50 ms window as the code counts it, and the middle; the whole range `g < 48` evaluates
the same way but takes minutes) and both press orders, by kernel evaluation of the composed model (`handleInputEventV2` / `tickStatesV2`): the OS sees
one press and one release of the chord's key, no press of a or b, and kanata may block again
afterwards with the chords-v2 machine at rest.  What is missing for the full statement is the
composition, for symbolic tables and key codes, of stage theorems that exist: the scan decision
(`chord_v2_exact_set_partial`, any table, any order), delivery and release of the activated chord
(`chord_v2_pending_is_delivered`, `chord_v2_released_with_participants`, `chord_v2_released_chord_leaves`),
the layout performing a queued plain-key action, and the kanata key-list diffing (`C07.diff_silent_when_synced`
for the ticks in between, `block_silent_v2` for the tail); per run the correspondence check compares exactly
this observable with the real `Kanata` for every generated table. -/
theorem chord_v2_action_reaches_os_once_kan_partial :
    ∀ g ∈ [0, 1, 2, 24, 46, 47],
      obsK (runKV2 (chordTyped 30 48 g) kanStart) = some ([.down 2, .up 2], 0, 0, true) ∧
      obsK (runKV2 (chordTyped 48 30 g) kanStart) = some ([.down 2, .up 2], 0, 0, true) := by
  decide +kernel

/-- non-vacuity: the same keys typed one after the other (no overlap) are NOT the chord -/
example : obsK (runKV2 [.inp (.press 30), .t 5, .inp (.release 30), .t 30, .inp (.press 48), .t 5, .inp (.release 48), .t 70] kanStart)
    = some ([.down 30, .up 30, .down 48, .up 48], 0, 0, true) := by
  decide +kernel

end KVerif.C09
