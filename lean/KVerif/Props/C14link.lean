/-
C14 (semantic link) — the key-output table speaks about what the layout actually puts down.

`Props/C14.lean: keyouts_complete` is syntactic: the table row built for a physical key contains every
key code of every key-producing leaf of the key's action tree (`possibleOutputs`).  This file links
that to the layout model (`Model/Layout.lean`): the key codes `do_action` pushes for a coordinate, and
the actions it stores for later execution (waiting tap-hold / tap-dance / chord states, eager tap-dance
state, action queue of `switch`, queued presses), stay inside the same syntactic closure - for the
press itself, across the resolution of the waiting states, and along every history of ticks and events.

Vocabulary (definitions in `Lemmas/DoActionKeys.lean`):
* `K : Coord → KeyCode → Prop`  which key codes may be held on behalf of which coordinate;
* `Q : Coord → Prop`            coordinates whose configuration cells (all layers + defsrc) are covered;
* `ActOK K Q c a`               the closure of action `a`, executed at `c`, is inside `K` (structural);
* `Inv K Q s`                   every `normalKey kc c _` state has `K c kc`, and every stored action is `ActOK`
                                 at the coordinate(s) it can later run at;
* `plain a`, `refFree a`        decidable fragments (no rpt-any / chords v1 / eager tap-dance; no
                                 transparent / use-defsrc leaf);
* `localK s c P`                "a code of `P` at `c`, or something already held in `s`".

NOT covered / covered only in a weaker form (stated where it matters):
* `Action::Repeat` (rpt-any) is outside every coordinate-dependent closure (`ActOK … .repeat = False`):
  it re-runs the action of ANOTHER key at this coordinate, and the real table has no arm for it
  (`do_action_repeat_counterexample`).
* chords v1 run their members at the coordinates of the group's participants (the released participant,
  the participants of the pressed queue, the coordinate chosen for a decomposed sub-chord) as well as at
  the coordinate the action sits on: `ActOK` demands the members be allowed at all of those, and the
  invariant is proved through `handle_chord`, the decomposition into the action queue and the repeat of
  the chord's action over the pressed queue.  The per-key TABLE corollaries (section 4) exclude chords
  (`plain`): whether a participant's table row holds the group's outputs depends on that participant
  carrying the group too, which is a property of the configuration, not of one action.
* the eager tap-dance runs its later members at "the last pressed real key", which is another key when
  the tap-dance sits on a virtual key: `ActOK` demands its members be allowed at every coordinate; the
  table corollaries exclude it.
* `fakeKey` states of sequences / macros are not `normalKey` states and the table has no arm for them.
-/
import KVerif.Lemmas.DoActionKeys
import KVerif.Props.C14
namespace KVerif.C14L
open KVerif.L KVerif.K KVerif.KO

/-! ### 1. The immediate part and the mutual block -/

/-- **do_action_preserves_cover** (full): for every fuel, state, action, coordinate, delay, flag and
layer stack: if the state satisfies the invariant and the action's closure at `c` is inside `K`
(`Trans`/`Src` leaves: the cells of `c` are covered, `Q c`), then after `do_action`
* every `normalKey` state - old or new - carries a key code allowed at its coordinate,
* every waiting state (tap-hold, tap-dance, chord; `waiting` and `extra_waiting`), the eager tap-dance
  state and every action-queue entry (`switch`) stores only actions inside the closure,
and the invariant holds again (so the statement iterates).
Hypotheses: `hinv` is needed because `do_action` also runs stored actions of OTHER coordinates (the
one-shot overflow path: `event` → queue overflow → `waiting_into_hold` for every waiting state →
`dequeue` of the oldest queued event); `ha` is the closure of the action itself. -/
theorem do_action_preserves_cover (K : KSet) (Q : Coord → Prop) (fuel : Nat) (s : Layout) (a : Action) (c : Coord)
    (delay : Nat) (isOneshot : Bool) (layerStack : List Nat) (s' : Layout) (cu : CustomEv)
    (hinv : Inv K Q s) (ha : ActOK K Q c a)
    (h : doAction fuel s a c delay isOneshot layerStack = .ok (s', cu)) :
    (∀ kc c' fl, St.normalKey kc c' fl ∈ s'.states → K c' kc) ∧
    (∀ w, (s'.waiting = some w ∨ w ∈ s'.extraWaiting) → WOK K Q w) ∧
    (∀ t, s'.tapDanceEager = some t → ∀ c', ActOKL K Q c' t.actions) ∧
    (∀ c' d a', (c', d, a') ∈ s'.actionQueue → ActOK K Q c' a') ∧
    Inv K Q s' := by
  have hi := doAction_inv hinv ha h
  refine ⟨hi.states, ?_, hi.tde, fun c' d a' hm => hi.aq (c', d, a') hm, hi⟩
  intro w hw
  rcases hw with hw | hw
  · exact hi.waiting w hw
  · exact hi.extra w hw

/-- **mutual_block_preserves_cover** (full): the same for every function of the mutual recursion of
`do_action` (one induction on the fuel mirroring the mutual definitions): `do_action`, its `match`
(`dispatch`), the `MultipleActions` loop, `waiting_into_hold`, the flush loop of `event`, `dequeue`
and `event`.  A press that is dequeued / enters `event` must be of a covered coordinate. -/
theorem mutual_block_preserves_cover (K : KSet) (Q : Coord → Prop) (fuel : Nat) :
    (∀ s a c d f ls s' cu, Inv K Q s → ActOK K Q c a → doAction fuel s a c d f ls = .ok (s', cu) → Inv K Q s') ∧
    (∀ s a c d f ls s' cu, Inv K Q s → ActOK K Q c a → dispatch fuel s a c d f ls = .ok (s', cu) → Inv K Q s') ∧
    (∀ s acs c d f ls cu0 s' cu, Inv K Q s → ActOKL K Q c acs →
      doActions fuel s acs c d f ls cu0 = .ok (s', cu) → Inv K Q s') ∧
    (∀ s idx s' cu, Inv K Q s → waitingIntoHold fuel s idx = .ok (s', cu) → Inv K Q s') ∧
    (∀ s l s', Inv K Q s → flushWaitings fuel s l = .ok s' → Inv K Q s') ∧
    (∀ s q s' cu, Inv K Q s → (∀ c, q.ev = .press c → Q c) → dequeue fuel s q = .ok (s', cu) → Inv K Q s') ∧
    (∀ s ev s', Inv K Q s → (∀ c, ev = .press c → Q c) → event fuel s ev = .ok s' → Inv K Q s') :=
  inv_all K Q fuel

/-- the action `(multi lsft (fork a b (lctl)))` of the examples, and a tap-hold key next to it -/
def exAct : Action := .multipleActions [.keyCode 42, .fork (.keyCode 30) (.keyCode 48) [29]]
def exCfg : LCfg :=
  { layers := [[((0, 30), exAct), ((0, 31), .holdTap 200 (.keyCode 29) (.keyCode 31) (.keyCode 29) .default 0)],
               [((0, 30), .trans), ((0, 31), .src)]],
    srcKeys := [(30, .keyCode 30), (31, .keyCode 31)] }

/-- instance: cover "lsft, a, b at key 30", initial layout; the press puts down lsft and a at (0,30) -/
example : ∃ s' cu, doAction 10 { cfg := exCfg } exAct (0, 30) 0 false [] = .ok (s', cu) ∧
    Inv (fun c kc => c = (0, 30) ∧ kc ∈ [42, 30, 48]) (fun _ => False) { cfg := exCfg } ∧
    ActOK (fun c kc => c = (0, 30) ∧ kc ∈ [42, 30, 48]) (fun _ => False) (0, 30) exAct ∧
    s'.states = [.normalKey 42 (0, 30) 0, .normalKey 30 (0, 30) 0] :=
  ⟨_, _, rfl, inv_init _ (fun _ h => h.elim), by simp [exAct, ActOK, ActOKL], rfl⟩

/-! ### 2. What the press itself puts down -/

/-- **do_action_new_keys_local** (full, general form): let `P` contain `possibleOutputs` of the action
(slot = column of the coordinate, as in the table) and let the state satisfy the invariant for the
cover "a code of `P` at `c`, or a (code, coordinate) pair already held in `s`".  Then every `normalKey`
state after `do_action` either repeats a (code, coordinate) pair `s` already held, or sits at
coordinate `c` with a key code of `P`; and everything stored for later stays inside that cover.
Hypotheses: `plain` - see the header (rpt-any, chords v1, eager tap-dance act for other coordinates);
`hr` - a transparent / use-defsrc leaf is resolved in the configuration, so the cells of `c` must be
covered (`Q c`, and then `hinv.cfg` says they are inside `P`); `hinv` - the stored actions of other
coordinates that the one-shot overflow path may run (discharged by `inv_local_of_quiet` below). -/
theorem do_action_new_keys_local (customs : List (List CAct)) (fuel : Nat) (s : Layout) (a : Action) (c : Coord)
    (delay : Nat) (isOneshot : Bool) (layerStack : List Nat) (s' : Layout) (cu : CustomEv)
    (P : KeyCode → Prop) (Q : Coord → Prop)
    (hp : plain a = true) (hr : refFree a = true ∨ Q c)
    (hP : ∀ kc ∈ possibleOutputs customs c.2 a, P kc)
    (hinv : Inv (localK s c P) Q s)
    (h : doAction fuel s a c delay isOneshot layerStack = .ok (s', cu)) :
    (∀ kc c' fl, St.normalKey kc c' fl ∈ s'.states →
      (∃ fl', St.normalKey kc c' fl' ∈ s.states) ∨ (c' = c ∧ P kc)) ∧
    Inv (localK s c P) Q s' := by
  have ha : ActOK (localK s c P) Q c a :=
    actOK_of_possible customs c.2 _ _ c a hp hr (fun kc hk => Or.inl ⟨rfl, hP kc hk⟩)
  have hi := doAction_inv hinv ha h
  refine ⟨?_, hi⟩
  intro kc c' fl hm
  rcases hi.states kc c' fl hm with h1 | h1
  · exact Or.inr h1
  · exact Or.inl h1

/-- **do_action_keys_in_possible_outputs_partial** (THE MAIN THEOREM in the form asked for; partial:
the unrestricted statement

    doAction fuel s a c delay isOneshot ls = .ok (s', cu) →
    ∀ kc c' fl, normalKey kc c' fl ∈ s'.states → normalKey kc c' fl ∉ s.states →
      c' = c ∧ kc ∈ possibleOutputs customs c.2 a

is FALSE of the code - `do_action_repeat_counterexample` (rpt-any) and
`do_action_other_coordinate_counterexample` (one-shot overflow path) below - so the hypotheses are
needed, not proof gaps): an action of the plain fragment without transparent / use-defsrc leaves, executed by
`do_action` at coordinate `c` in a state that stores nothing for later (no waiting state, no eager
tap-dance, empty action queue) and has no press queued: every `normalKey kc c' fl` in the new state
whose (code, coordinate) pair was not held before has `c' = c` and `kc ∈ possibleOutputs a`; and every
action stored by it for later (waiting tap-hold / tap-dance state, action queue entries of `switch`,
the inner action of a one-shot runs at once) is inside the closure of that cover.
What the hypotheses are for: `hquiet`/`hq` - `do_action` can reach `event` (17th active one-shot key)
and from there, on queue overflow, run the hold action of every waiting state and dequeue the oldest
queued press, which act for other coordinates; with nothing stored and no press queued these paths
put down nothing. -/
theorem do_action_keys_in_possible_outputs_partial (customs : List (List CAct)) (fuel : Nat) (s : Layout) (a : Action)
    (c : Coord) (delay : Nat) (isOneshot : Bool) (layerStack : List Nat) (s' : Layout) (cu : CustomEv)
    (hp : plain a = true) (hr : refFree a = true)
    (hquiet : Quiet s) (hq : ∀ q ∈ s.queue, q.ev.isPress = false)
    (h : doAction fuel s a c delay isOneshot layerStack = .ok (s', cu)) :
    (∀ kc c' fl, St.normalKey kc c' fl ∈ s'.states →
      (∃ fl', St.normalKey kc c' fl' ∈ s.states) ∨ (c' = c ∧ kc ∈ possibleOutputs customs c.2 a)) ∧
    Inv (localK s c (· ∈ possibleOutputs customs c.2 a)) (fun _ => False) s' := by
  refine do_action_new_keys_local customs fuel s a c delay isOneshot layerStack s' cu _ _ hp (Or.inl hr)
    (fun _ hk => hk) ?_ h
  refine inv_local_of_quiet s c _ _ (fun _ hf => hf.elim) hquiet ?_
  intro q hm c' hc'
  have := hq q hm
  rw [hc'] at this
  cases this

example : ∃ s' cu, doAction 10 { cfg := exCfg } exAct (0, 30) 0 false [] = .ok (s', cu) ∧
    plain exAct = true ∧ refFree exAct = true ∧ Quiet { cfg := exCfg } ∧
    (∀ q ∈ ({ cfg := exCfg } : Layout).queue, q.ev.isPress = false) ∧
    possibleOutputs [] 30 exAct = [42, 30, 48] ∧
    s'.states = [.normalKey 42 (0, 30) 0, .normalKey 30 (0, 30) 0] :=
  ⟨_, _, rfl, rfl, rfl, ⟨rfl, rfl, rfl, rfl⟩, fun _ h => (by cases h), rfl, rfl⟩

/-- **do_action_keys_in_cell_outputs_partial** (partial in the same sense): the same for an action that may
contain transparent / use-defsrc leaves (in particular `Trans` itself, which is what `dequeue` hands
to `do_action` for a press): the new key codes at `c` are `possibleOutputs` of the action or of a
configuration cell of `c` (the action of some layer at `c`, or the defsrc key of its column) - the
cells `resolve_coord` / `Src` can resolve to.  Needs the cells of `c` on the plain fragment, and
queued presses (reachable through the overflow path) only of `c` itself. -/
theorem do_action_keys_in_cell_outputs_partial (customs : List (List CAct)) (fuel : Nat) (s : Layout) (a : Action)
    (c : Coord) (delay : Nat) (isOneshot : Bool) (layerStack : List Nat) (s' : Layout) (cu : CustomEv)
    (hp : plain a = true) (hcells : CellsPlain s.cfg c)
    (hquiet : Quiet s) (hq : ∀ q ∈ s.queue, ∀ c', q.ev = .press c' → c' = c)
    (h : doAction fuel s a c delay isOneshot layerStack = .ok (s', cu)) :
    (∀ kc c' fl, St.normalKey kc c' fl ∈ s'.states →
      (∃ fl', St.normalKey kc c' fl' ∈ s.states) ∨
      (c' = c ∧ (kc ∈ possibleOutputs customs c.2 a ∨ cellOutputs customs s.cfg c kc))) ∧
    Inv (localK s c (fun kc => kc ∈ possibleOutputs customs c.2 a ∨ cellOutputs customs s.cfg c kc)) (· = c) s' :=
  do_action_new_keys_local customs fuel s a c delay isOneshot layerStack s' cu _ _ hp (Or.inr rfl)
    (fun _ hk => Or.inl hk)
    (inv_local_of_quiet s c _ _ (cfgOK_local customs s c _ hcells (fun _ hk => Or.inr hk)) hquiet hq) h

/-- instance: layer 1 held, key 30 is transparent there and falls through to `exAct` on layer 0 -/
example : ∃ s' cu, doAction 10 { cfg := exCfg } .trans (0, 30) 0 false [1, 0] = .ok (s', cu) ∧
    plain .trans = true ∧ CellsPlain exCfg (0, 30) ∧ Quiet { cfg := exCfg } ∧
    s'.states = [.normalKey 42 (0, 30) 0, .normalKey 30 (0, 30) 0] :=
  ⟨_, _, rfl, rfl,
   cellsPlain_of_allPlain (allPlain_of_all exCfg rfl) (srcPlain_of_all exCfg rfl) _, ⟨rfl, rfl, rfl, rfl⟩, rfl⟩

/-- a state in which another key's action (`a`) is the saved repeat action -/
def rptWitness : Layout := { cfg := exCfg, rptAction := some (.keyCode 30) }

/-- **do_action_repeat_counterexample**: `Action::Repeat` (rpt-any) executed at key 31 puts down key
code 30 on behalf of (0,31); `possibleOutputs` of `Repeat` is empty (the real table builder has no arm
for it either: a key holding rpt-any has no table row). So `plain` cannot be dropped. -/
theorem do_action_repeat_counterexample :
    (match doAction 10 rptWitness .repeat (0, 31) 0 false [] with
     | .ok (s', _) => s'.states
     | .error _ => []) = [.normalKey 30 (0, 31) 0] ∧
    rptWitness.states = [] ∧ possibleOutputs [] 31 .repeat = [] := by decide

/-- 16 one-shot keys active, the event queue full with a press of key 30 at its head -/
def overflowWitness : Layout :=
  { cfg := exCfg, oneshot := { keys := List.replicate 16 (0, 1) },
    queue := ⟨.press (0, 30), 0⟩ :: List.replicate 31 ⟨.release (0, 99), 0⟩ }

/-- **do_action_other_coordinate_counterexample**: `do_action` of a one-shot at (0,50) with the one-shot
ring full releases the oldest one-shot key through `event`; the full queue overflows and the queued
press of key 30 is performed inside this `do_action`: lsft and a are put down on behalf of (0,30).
So "no press queued" (or: the invariant for the other coordinates) cannot be dropped. -/
theorem do_action_other_coordinate_counterexample :
    (match doAction 20 overflowWitness (.oneShot (.keyCode 56) 100 .firstPress) (0, 50) 0 false [] with
     | .ok (s', _) => s'.states
     | .error _ => []) = [.normalKey 56 (0, 50) 0, .normalKey 42 (0, 30) 0, .normalKey 30 (0, 30) 0] ∧
    overflowWitness.states = [] ∧ possibleOutputs [] 50 (.oneShot (.keyCode 56) 100 .firstPress) = [56] := by
  decide +kernel

/-! ### 3. The deferred part -/

/-- **hold_tap_stores_only_subactions** (full): outside the quick-tap window the `HoldTap` arm puts no
key down and stores one waiting state, for THIS coordinate, holding exactly the three sub-actions of
the action (so what `waiting_into_hold` / `_tap` / `_timeout` later hand to `do_action` is a
sub-action of the configured action, executed at the same coordinate). -/
theorem hold_tap_stores_only_subactions (fuel : Nat) (s : Layout) (timeout : Nat) (hold tap ta : Action)
    (config : HTConfig) (thi : Nat) (c : Coord) (delay : Nat) (isOneshot : Bool) (ls : List Nat)
    (s' : Layout) (cu : CustomEv)
    (hwin : (thi == 0 || c != s.lptCoord || s.lptTapHoldTimeout == 0) = true)
    (h : dispatch (fuel + 1) s (.holdTap timeout hold tap ta config thi) c delay isOneshot ls = .ok (s', cu)) :
    s'.states = s.states ∧
    ∃ w, (s'.waiting = some w ∨ w ∈ s'.extraWaiting) ∧ w.coord = c ∧ w.hold = hold ∧ w.tap = tap ∧
      w.timeoutAction = ta ∧ w.config = .holdTap config ∧ w.layerStack = ls := by
  simp only [dispatch, hwin, if_true] at h
  split at h
  · cases h
  · obtain ⟨rfl, rfl⟩ := Prod.mk.inj (ok_inj h)
    unfold armHoldTapWait
    simp only []
    refine ⟨by rw [updateCoord_states]; split <;> rfl, ?_⟩
    refine ⟨{ coord := c, timeout := (if s.quickTapHoldTimeout then timeout - delay else timeout),
              delay := (if s.quickTapHoldTimeout then 0 else delay), ticks := 0, hold := hold, tap := tap,
              timeoutAction := ta, config := .holdTap config, layerStack := ls, prevQueueLen := 255 },
            ?_, rfl, rfl, rfl, rfl, rfl, rfl⟩
    rw [(updateCoord_same _ c).waiting, (updateCoord_same _ c).extra]
    cases hw : s.waiting with
    | none => exact Or.inl rfl
    | some w0 =>
      refine Or.inr ?_
      simp only [pushBackWrap]
      split
      · simp
      · split
        · rename_i hl _ heq; rw [heq] at hl; simp [EXTRA_WAITING_LEN] at hl
        · simp

example : ∃ s' cu, dispatch 5 { cfg := exCfg } (.holdTap 200 (.keyCode 29) (.keyCode 31) (.keyCode 29) .default 0)
      (0, 31) 0 false [0] = .ok (s', cu) ∧
    ((0 : Nat) == 0 || ((0, 31) : Coord) != ({ cfg := exCfg } : Layout).lptCoord ||
      ({ cfg := exCfg } : Layout).lptTapHoldTimeout == 0) = true ∧
    (s'.waiting.map (·.coord)) = some (0, 31) :=
  ⟨_, _, rfl, rfl, rfl⟩

/-- **tick_main_preserves_cover** (full; the tap-hold mechanism done completely, and with it tap-dance
and chords v1): the third part of `tick` - `tick_wt` of the waiting state (tap-hold decision; tap-dance
count, eviction and pick; chord fold, retain and decomposition into the action queue), then
`waiting_into_hold` / `waiting_into_tap` (with the repeat of a chord's action over the participants) /
`waiting_into_timeout` / drop, or one queued event dequeued - keeps the invariant.  In particular the
action a resolving tap-hold hands to `do_action` is one of the three stored sub-actions, at the stored
coordinate, so the key codes it puts down are allowed at that coordinate. -/
theorem tick_main_preserves_cover (K : KSet) (Q : Coord → Prop) (s s' : Layout) (cu : CustomEv)
    (hinv : Inv K Q s) (h : tickMain s = .ok (s', cu)) : Inv K Q s' :=
  tickMain_inv s s' cu hinv h

/-- **tick_preserves_cover** (full): a whole `tick` - action queue entry; or ageing, sequences, one-shot
expiry (releases), the waiting state / one dequeued event, the extra waiting states, pending custom
events of sequences - keeps the invariant. No hypothesis beyond the invariant. -/
theorem tick_preserves_cover (K : KSet) (Q : Coord → Prop) (s s' : Layout) (cu : CustomEv)
    (hinv : Inv K Q s) (h : tick s = .ok (s', cu)) : Inv K Q s' :=
  tick_inv s s' cu hinv h

/-- **event_preserves_cover** (full): `Layout::event` keeps the invariant; a press must be of a covered
coordinate (its `Trans` lookup happens when it is dequeued). -/
theorem event_preserves_cover (K : KSet) (Q : Coord → Prop) (s s' : Layout) (ev : Ev)
    (hinv : Inv K Q s) (hq : ∀ c, ev = .press c → Q c) (h : s.event ev = .ok s') : Inv K Q s' :=
  layoutEvent_inv s s' ev hinv hq h

/-- **history_preserves_cover** (full): along every history of ticks and events (presses of covered
coordinates) from the initial layout of a covered configuration, every `normalKey` state carries a key
code allowed at its coordinate. Unbounded in length; crashes end a history (`Steps` follows `.ok`). -/
theorem history_preserves_cover (K : KSet) (Q : Coord → Prop) (cfg : LCfg) (hc : CfgOK K Q cfg) (s : Layout)
    (h : Steps Q { cfg := cfg } s) : ∀ kc c fl, St.normalKey kc c fl ∈ s.states → K c kc :=
  (steps_inv (inv_init cfg hc) h).states

/-- instance for the tick-level theorems: the cover "row of the key-output table" on the example
configuration holds initially; press key 31 (tap-hold), release it, tick: the layout is waiting; press
key 30 and tick: lsft and a are down -/
example : Inv (rowK [] exCfg) (fun _ => True) { cfg := exCfg } ∧
    (match ({ cfg := exCfg } : Layout).event (.press (0, 31)) with
     | .ok s1 => (match s1.event (.release (0, 31)) with
       | .ok s2 => (match tick s2 with
         | .ok (s3, _) => s3.waiting.isSome
         | .error _ => false)
       | .error _ => false)
     | .error _ => false) = true ∧
    (match ({ cfg := exCfg } : Layout).event (.press (0, 30)) with
     | .ok s1 => (match tick s1 with
       | .ok (s2, _) => s2.keycodes
       | .error _ => [])
     | .error _ => []) = [42, 30] := by
  refine ⟨inv_init _ ?_, by decide +kernel, by decide +kernel⟩
  intro c _
  have hpl := allPlain_of_all exCfg rfl
  have hsrc := srcPlain_of_all exCfg rfl
  refine ⟨?_, ?_⟩
  · intro l a hla
    exact actOK_of_possible [] c.2 _ _ c a (hpl l c a hla) (Or.inr trivial)
      (fun kc hk _ => Or.inr ⟨l, a, hla, C14.keyouts_complete [] c.2 a kc hk⟩)
  · rcases hsrc c.2 with hs | hs
    · rw [hs]; simp only [ActOK]; exact fun _ => Or.inl rfl
    · rw [hs]; simp only [ActOK]

/-- instance with chords v1: keys 30 and 31 form a chord that types `b`; the cover allows `b` at both
participants; pressing both and ticking puts `b` down at (0,30) and - the repeat of the chord's action
over the pressed queue - at (0,31): a chord acts for coordinates other than the one that resolved it -/
def chAct : Action := .chords [((0, 30), 1), ((0, 31), 2)] [(3, .keyCode 48)] 50
def chCfg : LCfg := { layers := [[((0, 30), chAct), ((0, 31), chAct)]], srcKeys := [] }
def ticks : Nat → Layout → Layout
  | 0, s => s
  | n + 1, s => match tick s with
    | .ok (s', _) => ticks n s'
    | .error _ => s

example : CfgOK (fun c kc => (c = (0, 30) ∨ c = (0, 31)) ∧ kc = 48) (fun _ => True) chCfg ∧
    (match ({ cfg := chCfg } : Layout).event (.press (0, 30)) with
     | .ok s1 => (match s1.event (.press (0, 31)) with
       | .ok s2 => (ticks 3 s2).states
       | .error _ => [])
     | .error _ => []) = [.normalKey 48 (0, 30) 0, .normalKey 48 (0, 30) 0, .normalKey 48 (0, 31) 0] := by
  refine ⟨cfgOK_of_cells _ _ _ ?_ ?_, by decide +kernel⟩
  · intro tbl ht e he _
    simp only [chCfg, List.mem_singleton] at ht
    subst ht
    simp only [List.mem_cons, List.not_mem_nil, or_false] at he
    rcases he with rfl | rfl <;> simp [chAct, ActOK, ActOKC]
  · intro e he
    simp [chCfg] at he

/-! ### 4. At the level of the key-output table -/

/-- **press_keys_in_table_row_partial** (partial: plain fragment - no rpt-any, chords v1, eager
tap-dance -, nothing stored, no press queued; overrides and chords v2 are outside the layout model): the configuration maps physical key `k` to
action `a` on layer `l` (plain, no transparent / use-defsrc leaf); `do_action` of `a` at `(0, k)` in a
state with nothing stored and no press queued: every key code newly held is held on behalf of `(0, k)`
and is in the key-output table row the parser model builds for `k` on that layer
(`keyOutputs customs k a`, by `keyouts_complete`). -/
theorem press_keys_in_table_row_partial (customs : List (List CAct)) (fuel : Nat) (s : Layout) (l k : Nat) (a : Action)
    (delay : Nat) (isOneshot : Bool) (layerStack : List Nat) (s' : Layout) (cu : CustomEv)
    (hcfg : s.cfg.layerAction l (0, k) = .ok a)
    (hp : plain a = true) (hr : refFree a = true)
    (hquiet : Quiet s) (hq : ∀ q ∈ s.queue, q.ev.isPress = false)
    (h : doAction fuel s a (0, k) delay isOneshot layerStack = .ok (s', cu)) :
    ∀ kc c' fl, St.normalKey kc c' fl ∈ s'.states →
      (∃ fl', St.normalKey kc c' fl' ∈ s.states) ∨
      (c' = (0, k) ∧ ∃ a', s.cfg.layerAction l (0, k) = .ok a' ∧ kc ∈ keyOutputs customs k a') := by
  intro kc c' fl hm
  rcases (do_action_keys_in_possible_outputs_partial customs fuel s a (0, k) delay isOneshot layerStack s' cu hp hr
    hquiet hq h).1 kc c' fl hm with h1 | ⟨h1, h2⟩
  · exact Or.inl h1
  · exact Or.inr ⟨h1, a, hcfg, C14.keyouts_complete customs k a kc h2⟩

example : exCfg.layerAction 0 (0, 30) = .ok exAct ∧ keyOutputs [] 30 exAct = [42, 30, 48] := ⟨rfl, rfl⟩

/-- **press_keys_in_table_rows_partial** (partial in the same sense): the press of physical key `k` as the layout
performs it (`dequeue` of the press: `Trans` resolved down the layer stack).  With the cells of `(0, k)`
on the plain fragment and the defsrc row holding plain keys named after their position: every key code
newly held is held on behalf of `(0, k)` and is `k` itself (the defsrc key - the last fallback of
`handle_repeat`) or in the table row of `k` on some layer. -/
theorem press_keys_in_table_rows_partial (customs : List (List CAct)) (fuel : Nat) (s : Layout) (k since : Nat)
    (s' : Layout) (cu : CustomEv)
    (hcells : CellsPlain s.cfg (0, k)) (hsrc : SrcPlain s.cfg)
    (hquiet : Quiet s) (hq : ∀ q ∈ s.queue, ∀ c', q.ev = .press c' → c' = (0, k))
    (h : dequeue fuel s ⟨.press (0, k), since⟩ = .ok (s', cu)) :
    ∀ kc c' fl, St.normalKey kc c' fl ∈ s'.states →
      (∃ fl', St.normalKey kc c' fl' ∈ s.states) ∨
      (c' = (0, k) ∧ (kc = k ∨ ∃ l a, s.cfg.layerAction l (0, k) = .ok a ∧ kc ∈ keyOutputs customs k a)) := by
  have hP : ∀ kc, cellOutputs customs s.cfg (0, k) kc →
      (kc = k ∨ ∃ l a, s.cfg.layerAction l (0, k) = .ok a ∧ kc ∈ keyOutputs customs k a) := by
    intro kc hk
    rcases hk with ⟨l, a, hla, hk⟩ | hk
    · exact Or.inr ⟨l, a, hla, C14.keyouts_complete customs k a kc hk⟩
    · rcases hsrc k with hs | hs
      · have hs' : s.cfg.srcKey ((0, k) : Coord).2 = .keyCode k := hs
        rw [hs'] at hk
        simp only [possibleOutputs, List.mem_singleton] at hk
        exact Or.inl hk
      · have hs' : s.cfg.srcKey ((0, k) : Coord).2 = .noOp := hs
        rw [hs'] at hk
        simp [possibleOutputs] at hk
  have hinv := inv_local_of_quiet s (0, k) _ _ (cfgOK_local customs s (0, k) _ hcells hP) hquiet hq
  have hi := dequeue_inv hinv (fun c hc => by injection hc with hc; exact hc.symm) h
  intro kc c' fl hm
  rcases hi.states kc c' fl hm with h1 | h1
  · exact Or.inr h1
  · exact Or.inl h1

example : ∃ s' cu, dequeue 10 { cfg := exCfg } ⟨.press (0, 30), 0⟩ = .ok (s', cu) ∧
    CellsPlain exCfg (0, 30) ∧ SrcPlain exCfg ∧ Quiet { cfg := exCfg } ∧
    s'.states = [.normalKey 42 (0, 30) 0, .normalKey 30 (0, 30) 0] :=
  ⟨_, _, rfl, cellsPlain_of_allPlain (allPlain_of_all exCfg rfl) (srcPlain_of_all exCfg rfl) _,
   srcPlain_of_all exCfg rfl, ⟨rfl, rfl, rfl, rfl⟩, rfl⟩

/-- **reachable_keys_in_table_rows_partial** (partial: configurations on the plain fragment; what is
missing for all configurations: chords v1 need the configuration-level fact "every participant
carries the group" (then `history_preserves_cover` applies with the same cover), the eager tap-dance a
finer invariant on which key it belongs to, rpt-any has no table arm at all): on a configuration whose cells are all
on the plain fragment and whose defsrc row is plain, along EVERY history of ticks and events from the
initial layout - pending tap-holds, tap-dances, one-shots, `switch` actions run from the action queue,
layer changes between press and resolution included - every key code held on behalf of a real key
`(0, k)` is `k` itself or in the key-output table row of `k` on some layer.  This is the fact the
repeat logic relies on when it looks for an active output of the repeated key in those rows. -/
theorem reachable_keys_in_table_rows_partial (customs : List (List CAct)) (cfg : LCfg)
    (hplain : AllPlain cfg) (hsrc : SrcPlain cfg) (s : Layout)
    (h : Steps (fun _ => True) { cfg := cfg } s) :
    ∀ kc k fl, St.normalKey kc (0, k) fl ∈ s.states →
      kc = k ∨ ∃ l a, cfg.layerAction l (0, k) = .ok a ∧ kc ∈ keyOutputs customs k a := by
  have hc : CfgOK (rowK customs cfg) (fun _ => True) cfg := by
    intro c _
    refine ⟨?_, ?_⟩
    · intro l a hla
      exact actOK_of_possible customs c.2 _ _ c a (hplain l c a hla) (Or.inr trivial)
        (fun kc hk _ => Or.inr ⟨l, a, hla, C14.keyouts_complete customs c.2 a kc hk⟩)
    · rcases hsrc c.2 with hs | hs
      · rw [hs]; simp only [ActOK]; exact fun _ => Or.inl rfl
      · rw [hs]; simp only [ActOK]
  intro kc k fl hm
  exact history_preserves_cover (rowK customs cfg) (fun _ => True) cfg hc s h kc (0, k) fl hm rfl

example : AllPlain exCfg ∧ SrcPlain exCfg ∧
    (∀ s1 s2 c2, ({ cfg := exCfg } : Layout).event (.press (0, 30)) = .ok s1 → tick s1 = .ok (s2, c2) →
      Steps (fun _ => True) { cfg := exCfg } s2) ∧
    (match ({ cfg := exCfg } : Layout).event (.press (0, 30)) with
     | .ok s1 => (match tick s1 with
       | .ok (s2, _) => s2.states
       | .error _ => [])
     | .error _ => []) = [.normalKey 42 (0, 30) 0, .normalKey 30 (0, 30) 0] :=
  ⟨allPlain_of_all exCfg rfl, srcPlain_of_all exCfg rfl,
   fun _ _ _ h1 h2 => .tick (.event (.refl _) (fun _ _ => trivial) h1) h2, by decide +kernel⟩

end KVerif.C14L
