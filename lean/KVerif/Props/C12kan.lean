/-
C12 on the composed kanata-level model: sequence mode inside `Kanata` (Model/Kanata.lean with the
hooks of Model/KanataSeq.lean, which run the stand-alone functions of Model/Sequences.lean on the
real layout).  Property theorems only; helper lemmas are in Lemmas/KanataSeqOff.lean and
Lemmas/KanataSeqRun.lean.
-/
import KVerif.Lemmas.KanataSeqRun
import KVerif.Lemmas.VkeyMulti
namespace KVerif.C12kan
open KVerif.L KVerif.K KVerif.C07

/-- **idle_implies_no_sequence** (full).  `Kanata::is_idle` has the conjunct
`self.sequence_state.is_inactive()`: whenever kanata reports idle it is not in sequence mode, and so
the processing loop never blocks in sequence mode (`can_block_update_idle_waiting` answers true only
when `is_idle` does).  This is what C07's `MayBlock` needs about sequences: its field `idle` gives
"not in sequence mode" (used by `block_silent` to show that `tick_sequence_state` does nothing), and
the other sequence-driven state, `State::SeqCustomPending/Active` of the layout, is checked by
`is_idle` too; only a held `macro-repeat` (`PlainStates`) is not. -/
theorem idle_implies_no_sequence (k : KState) :
    (isIdle k = true → k.seq.st.active = false) ∧
    (∀ ms, (canBlockUpdateIdleWaiting k ms).2 = true → k.seq.st.active = false) := by
  have h1 : isIdle k = true → k.seq.st.active = false := fun h => (idle_covers_time_driven k h).2.2.2.2.2.2.2.2.2.2.2.2.2.2.2.2
  refine ⟨h1, fun ms h => h1 ?_⟩
  unfold canBlockUpdateIdleWaiting at h
  simp only [Bool.and_eq_true] at h
  exact h.1.1.1


/-- `ticksN (n + 1)` is `ticksN n` followed by one more `tick_states` -/
theorem ticksN_succ_last (n : Nat) : ∀ (k kn : KState), ticksN n k = .ok kn →
    ticksN (n + 1) k = tickStates kn := by
  induction n with
  | zero =>
    intro k kn h
    simp only [ticksN] at h
    injection h with h; subst h
    simp only [ticksN]
    cases tickStates k <;> rfl
  | succ n ih =>
    intro k kn h
    simp only [ticksN] at h ⊢
    cases ht : tickStates k with
    | error c => rw [ht] at h; cases h
    | ok k1 =>
      rw [ht] at h
      simp only [] at h ⊢
      have := ih k1 kn h
      simp only [ticksN] at this
      exact this

/-- **seq_mode_ends_within_timeout_kan** (full, every table, every mode).  The composed model in
sequence mode with `b > 0` ticks left on the sequence timer, everything else at rest (`SeqQuiet`:
the hypotheses of C07's `MayBlock` without `is_idle`'s verdict - a quiet layout, OS key state equal
to the wanted list, no scrolling / mouse movement / caps-word / pending virtual keys), no input:
every one of the first `b - 1` whole `tick_states` leaves it in sequence mode with the layout's
states and (empty) queue untouched and nothing sent to the OS; the `b`-th ends sequence mode, again
without handing the layout any event - no virtual key is tapped - and leaves everything else at
rest (what hidden-delay-type then types is `timeout_ends` of Props/C12.lean).  `b = 0` in sequence
mode is the `ticks_until_timeout -= 1` underflow (the parser refuses a zero timeout). -/
theorem seq_mode_ends_within_timeout_kan (k : KState) (cur' : List KeyCode) (ost : Override.OverrideStates)
    (hq : SeqQuiet k cur' ost) (ha : k.seq.st.active = true) (b : Nat)
    (hb : k.seq.st.ticksUntilTimeout = b) (hpos : 0 < b) :
    (∀ n, n < b → ∃ kn, ticksN n k = .ok kn ∧ kn.seq.st.active = true ∧
        kn.layout.states = k.layout.states ∧ kn.layout.queue = [] ∧ kn.out = k.out) ∧
    ∃ k', ticksN b k = .ok k' ∧ k'.seq.st.active = false ∧ k'.layout.states = k.layout.states ∧
        k'.layout.queue = [] ∧ SeqQuiet k' cur' ost := by
  constructor
  · intro n hn
    obtain ⟨kn, e, _, a, _, _, st, qu, ou⟩ := seq_mode_stays n k cur' ost hq ha (by omega)
    exact ⟨kn, e, a, st, qu, ou⟩
  · obtain ⟨m, hm⟩ : ∃ m, b = m + 1 := ⟨b - 1, by omega⟩
    subst hm
    obtain ⟨kn, e, q, a, t, _, st, _, _⟩ := seq_mode_stays m k cur' ost hq ha (by omega)
    have ht1 : kn.seq.st.ticksUntilTimeout = 1 := by rw [t, hb]; omega
    obtain ⟨st', outs, hs, hina⟩ := seqTick_last kn.seq a ht1
    obtain ⟨o, ht, _, hq1⟩ := seqQuiet_tick kn cur' ost q _ _ hs
    refine ⟨_, by rw [ticksN_succ_last m k kn e]; exact ht, hina, ?_, hq1.quiet.queue, hq1⟩
    show (tickPre kn.layout).states = _
    rw [(tickPre_quiet kn.layout q.quiet).1, st]

/-- a key held down (layout, OS and wanted list agree), sequence mode on (hidden-suppressed, 5 ticks) -/
def exSeqQuiet : KState :=
  { layout := { cfg := { layers := [[]], srcKeys := [] }, states := [.normalKey 30 (0, 30) 0] },
    customs := [], keyOutputs := [[]], prevKeys := [30],
    mods := { codes := [42, 54, 56, 100, 29, 97, 125, 126], lsft := 42, rsft := 54 },
    seq := { st := ({} : Seq.SeqState).activate .hiddenSuppressed 5 } }

example : SeqQuiet exSeqQuiet [30] Override.OverrideStates.new ∧ exSeqQuiet.seq.st.active = true ∧
    exSeqQuiet.seq.st.ticksUntilTimeout = 5 :=
  ⟨⟨⟨rfl, rfl, rfl, rfl, rfl, rfl, rfl, rfl, by intro st hst; simp [exSeqQuiet] at hst; subst hst; trivial⟩,
    rfl, rfl, rfl, rfl, ⟨fun _ h => h, fun _ h => h⟩, rfl, rfl, rfl, rfl, rfl, rfl, rfl⟩, rfl, rfl⟩

/-- **hidden_modes_press_nothing_kan_partial** (proved for the press loop, every table, any keys, any
modifier mask, any layout).
Full statement: while sequence mode is on in a hidden mode, the OS events of a whole `tick_states`
contain no press of a typed key.
Proved here, for the part of `handle_keystate_changes` the sequence code lives in - the press loop
over the wanted key list, with the real `do_sequence_press_logic` composed in: if sequence mode is on
in hidden-suppressed or hidden-delay-type mode when the loop starts and still on when it ends
(`sequence-always-on` not configured; with it a sequence that ends in the middle of the loop is
restarted by the next key, and the statement would have to follow the activations), the loop sent
NOTHING to the OS, however many keys were new.  "Still on at the end" is needed: a key that completes
or fails the sequence ends sequence mode, the remaining new keys of the same tick are pressed
normally, and hidden-delay-type replays the typed keys when it fails (`hidden_presses_nothing`).
(`hne`: the table stores no empty key list - `accepted_no_empty_key`.)
Missing for the whole tick: that the other stages send no key press - the release loop sends
releases only, the all-released hook nothing in the hidden modes (`hidden_presses_nothing`),
scrolling / mouse movement no key events, `tick_sequence_state` nothing while the mode stays on
(`seq_mode_stays`) - and a restriction on the tick's custom event (`rpt` in sequence mode does press
the last typed key: the real code does that too); these stages are compared with the real code per
tick (0 disagreements), not proved about. -/
theorem hidden_modes_press_nothing_kan_partial (cur xs : List KeyCode) (k k' : KState)
    (ha : k.seq.st.active = true) (hm : k.seq.st.mode ≠ .visibleBackspaced) (hao : k.seq.alwaysOn = false)
    (hne : ∀ j, k.seq.trie.getOrDescendant [] ≠ .hasValue j)
    (h : pressLoop cur xs k = .ok k') (hk' : k'.seq.st.active = true) : k'.out = k.out :=
  pressLoop_hidden_silent cur xs k k' ha hm hao hne h hk'

/-- leader pressed (hidden-suppressed, table `(a b) ↦ 0, (a c d) ↦ 1`), then `a` arrives as a new key:
the press loop keeps it from the OS and sequence mode stays on -/
example : ∃ k', pressLoop [30] [30]
      { exSeqQuiet with layout := { cfg := { layers := [[]], srcKeys := [] } }, prevKeys := [],
                        seq := { trie := Seq.exPlain, st := ({} : Seq.SeqState).activate .hiddenSuppressed 5 } } = .ok k' ∧
    k'.seq.st.active = true ∧ k'.seq.st.sequence = [30] ∧ k'.out = [] ∧ k'.prevKeys = [30] := by
  exact ⟨_, rfl, by decide, by decide, by decide, by decide⟩


/-- **kan_refines_engine** (full: every table - plain, chorded, overlap groups -, every mode, any
layout, any other `Kanata` state).  The link between the composed model and the stand-alone one, on
which the engine-level theorems of Props/C12.lean are carried over: for a stream of sequence hook calls
(`kanSeqStep`: a new key reaching the press loop with no modifier held - `pressLoop_single` -, one
`tick_sequence_state`, the all-released hook - `seqReleasedHook_step`), if the stand-alone engine run on
the view of the real layout answers the stream without tapping a virtual key and is still in sequence
mode at the end, the composed model answers it with exactly the engine's sequence state and exactly
the engine's OS events (sent through `press_key` / `release_key`), and changes nothing else: not the
layout (states, queue, ...) and no other field of `Kanata`. -/
theorem kan_refines_engine (is : List Seq.Inp) (k : KState) (e' : Seq.Eng)
    (h : Seq.engRun k.seq.trie k.seq.modcancel (engOf k.seq k.layout) is = .ok e')
    (ht : e'.taps = []) (ha : e'.st.active = true) :
    kanSeqRun k is = .ok (emitSeq { k with seq := { k.seq with st := e'.st } } e'.out) :=
  kanSeqRun_of_engRun is k e' h ht ha

/-- sequence mode as `sldr` leaves it (hidden-suppressed, 5 ticks) with the plain table
`(a b) ↦ 0, (a c d) ↦ 1` of Props/C12.lean, around an empty layout -/
def exTyping : KState :=
  { layout := { cfg := { layers := [[]], srcKeys := [] } },
    customs := [], keyOutputs := [[]],
    mods := { codes := [42, 54, 56, 100, 29, 97, 125, 126], lsft := 42, rsft := 54 },
    seq := { trie := Seq.exPlain, st := ({} : Seq.SeqState).activate .hiddenSuppressed 5 } }

/-- `a`, two ticks, all keys released: still in sequence mode tracking `a`, nothing sent, layout untouched -/
example : ∃ e', Seq.engRun exTyping.seq.trie exTyping.seq.modcancel (engOf exTyping.seq exTyping.layout)
      [.key 30, .tick, .tick, .released] = .ok e' ∧ e'.taps = [] ∧ e'.st.active = true ∧ e'.st.sequence = [30] := by
  exact ⟨_, rfl, by decide, by decide, by decide⟩

/-- **typed_sequence_taps_vkey_once_kan_partial** (proved for tables of plain keys, at the level of
the sequence hooks of the composed model).
Full statement: for every accepted table, leader then the keys of a defined sequence, each press
within the timeout, makes `Kanata` hand the layout exactly one press + release pair of the sequence's
virtual-key coordinate and leave sequence mode.
Proved here: the table consists of plain keys and is prefix-free (`PlainTrie`, `TrieOK`: what
`accepted_prefix_free` gives), the composed model is in sequence mode as the leader leaves it (empty
tracked sequence, timer at the timeout `T > 0`), the keys `u ++ [x]` of a defined sequence reach the
press loop one at a time with no modifier held, with fewer than `T` `tick_sequence_state` calls and
any number of all-released hooks between two keys (`WellTimed`).  Then, on the COMPOSED model (real
layout, real `Layout.event`):
* up to the last key the layout is not touched at all (no event handed over, no state removed) and
  sequence mode stays on; in the hidden modes nothing is sent to the OS;
* the last key removes some `NormalKey` states (`retain`; `keep`), then calls `layout.event` with
  `Press(1, j)` and then `Release(1, j)` for the virtual key `j` of the typed sequence - exactly this
  one pair, nothing else - and sequence mode is off afterwards; in the hidden modes nothing was sent to
  the OS during the whole sequence.
(If one of the two `Layout.event` calls crashes - the model's stand-in for unbounded recursion in
the overflow path of a full queue - so does the composed step; that is why they are hypotheses.)
Missing: chorded and overlap tables (as for `seq_fires_once_partial`); the key-state diff around the
hooks for arbitrary layouts (which keys are new in a tick, `mod_mask`, the release loop) - the
diffing is compared with the real code per tick (0 disagreements) and `pressLoop_single` /
`seqReleasedHook_step` / `tickSequenceState` state which call of `tick_states` each step is. -/
theorem typed_sequence_taps_vkey_once_kan_partial {k : KState} (hp : Seq.PlainTrie k.seq.trie)
    (hok : Seq.TrieOK k.seq.trie) (u : Seq.Key) (x j : Nat) (pre : List Seq.Inp)
    (hs : (u ++ [x], j) ∈ k.seq.trie.entries)
    (ha : k.seq.st.active = true) (hseq : k.seq.st.sequence = []) (hT : 0 < k.seq.st.timeout)
    (hb : k.seq.st.ticksUntilTimeout = k.seq.st.timeout)
    (hkeys : Seq.keysOf pre = u) (hwt : Seq.WellTimed k.seq.st.timeout k.seq.st.timeout pre) :
    ∃ k1, kanSeqRun k pre = .ok k1 ∧ k1.layout = k.layout ∧ k1.seq.st.active = true ∧
      (k.seq.st.mode ≠ .visibleBackspaced → k1.out = k.out) ∧
      ∃ keep : St → Bool, ∀ l1 l2,
        ({ k.layout with states := k.layout.states.filter keep } : Layout).event (.press (1, j)) = .ok l1 →
        l1.event (.release (1, j)) = .ok l2 →
        ∃ k', kanSeqRun k (pre ++ [.key x]) = .ok k' ∧ k'.layout = l2 ∧ k'.seq.st.active = false ∧
          (k.seq.st.mode ≠ .visibleBackspaced → k'.out = k.out) :=
  kan_typed_sequence hp hok u x j pre hs ha hseq hT hb hkeys hwt

/-- the hypotheses are met by `exTyping` and the history `a`, two ticks, all released, then `b` -/
example : Seq.PlainTrie exTyping.seq.trie ∧ Seq.TrieOK exTyping.seq.trie ∧
    ([30] ++ [48], 0) ∈ exTyping.seq.trie.entries ∧ exTyping.seq.st.active = true ∧
    exTyping.seq.st.sequence = [] ∧ 0 < exTyping.seq.st.timeout ∧
    exTyping.seq.st.ticksUntilTimeout = exTyping.seq.st.timeout ∧
    Seq.keysOf [.key 30, .tick, .tick, .released] = [30] ∧
    Seq.WellTimed exTyping.seq.st.timeout exTyping.seq.st.timeout [.key 30, .tick, .tick, .released] :=
  ⟨by decide, Seq.accepted_prefix_free Seq.exPlainTable Seq.exPlain (by rfl), by decide, rfl, rfl, by decide, rfl, rfl,
    by simp [Seq.WellTimed, exTyping, Seq.SeqState.activate]⟩

/-- **typed_sequence_queues_one_tap_kan_partial** (corollary, same fragment): while the layout's event
queue has room for two more events (fewer than 31 pending: no overflow handling runs), the
hypotheses about `Layout.event` hold and the conclusion is concrete: after the last key the layout's
queue is the old queue followed by exactly `Press(1, j)`, `Release(1, j)`; sequence mode is off; in
the hidden modes nothing was sent to the OS. -/
theorem typed_sequence_queues_one_tap_kan_partial {k : KState} (hp : Seq.PlainTrie k.seq.trie)
    (hok : Seq.TrieOK k.seq.trie) (u : Seq.Key) (x j : Nat) (pre : List Seq.Inp)
    (hs : (u ++ [x], j) ∈ k.seq.trie.entries)
    (ha : k.seq.st.active = true) (hseq : k.seq.st.sequence = []) (hT : 0 < k.seq.st.timeout)
    (hb : k.seq.st.ticksUntilTimeout = k.seq.st.timeout)
    (hkeys : Seq.keysOf pre = u) (hwt : Seq.WellTimed k.seq.st.timeout k.seq.st.timeout pre)
    (hroom : k.layout.queue.length + 2 ≤ QUEUE_SIZE) :
    ∃ k', kanSeqRun k (pre ++ [.key x]) = .ok k' ∧
      k'.layout.queue = k.layout.queue ++ [⟨.press (1, j), 0⟩, ⟨.release (1, j), 0⟩] ∧
      k'.seq.st.active = false ∧ (k.seq.st.mode ≠ .visibleBackspaced → k'.out = k.out) := by
  obtain ⟨k1, _, _, _, _, keep, hfin⟩ :=
    typed_sequence_taps_vkey_once_kan_partial hp hok u x j pre hs ha hseq hT hb hkeys hwt
  have h1 := VkeyMulti.event_press_room ({ k.layout with states := k.layout.states.filter keep } : Layout) (1, j)
    (by show k.layout.queue.length < QUEUE_SIZE; omega)
  have h2 := VkeyMulti.event_release_room
    ({ ({ k.layout with states := k.layout.states.filter keep } : Layout) with
        histInputs := histPush k.layout.histInputs (1, j), queue := k.layout.queue ++ [⟨.press (1, j), 0⟩] } : Layout) (1, j)
    (by show (k.layout.queue ++ [_]).length < QUEUE_SIZE; simp; omega)
  obtain ⟨k', r, hl, hact, hout⟩ := hfin _ _ h1 h2
  refine ⟨k', r, ?_, hact, hout⟩
  rw [hl]
  show (k.layout.queue ++ [_]) ++ [_] = _
  simp [VkeyMulti.relEv]


/-- `exTyping`, history `a`, two ticks, all released, `b`: the layout's queue ends as exactly the press
and the release of virtual key 0; sequence mode is off; nothing was sent to the OS -/
example : ∃ k', kanSeqRun exTyping ([.key 30, .tick, .tick, .released] ++ [.key 48]) = .ok k' ∧
    k'.layout.queue = [⟨.press (1, 0), 0⟩, ⟨.release (1, 0), 0⟩] ∧ k'.seq.st.active = false ∧ k'.out = [] := by
  obtain ⟨k', h1, h2, h3, h4⟩ := typed_sequence_queues_one_tap_kan_partial (k := exTyping) (by decide)
    (Seq.accepted_prefix_free Seq.exPlainTable Seq.exPlain (by rfl)) [30] 48 0 [.key 30, .tick, .tick, .released]
    (by decide) rfl rfl (by decide) rfl rfl (by simp [Seq.WellTimed, exTyping, Seq.SeqState.activate]) (by decide)
  exact ⟨k', h1, h2, h3, h4 (by decide)⟩

end KVerif.C12kan
